"""C15: check configuration (PROP) and MANIFEST texts (TEXT)."""
PROP = {'n_quick': 120,
 'n_thorough': 600,
 'audit': 8,
 'audit_maxlen': 2500,
 'rule': 'one case = one depth sequence with its scripts/versions/hidden hashes (kind build), one weight vector (kind huff), one byte string (kind cbparse); '
         'thorough: every depth sequence of length <= 6 over depths 0..5 (valid and invalid), quick: every sequence of length <= 3 and n sampled ones per '
         'longer length; every full-binary-tree shape with <= 6 leaves filled twice; random trees up to 14 leaves and single mutations of them; chains at '
         'depth 126..129 and absurd depths; Huffman weight vectors {1..4}^n (n <= 5 thorough, <= 3 quick) plus random (zero, equal, huge weights, duplicate '
         'scripts) and zero-weight chains past depth 128; distinct = distinct case text; non-trivial = at least 2 leaves',
 'trusted': ['the three tagged hashes are abstract functions in the theorems (collision extraction for binding); the executable instance is the Gallina '
             'SHA-256 with the tag strings read from src/taproot.rs by the translator',
             'secp256k1 (x-only key validity, Scalar::from_be_bytes, add_tweak, tweak_add_check, key-pair tweak) is an oracle: Section variables with the '
             'premises tweak_check P Q par t = true <-> tweak P t = Some (Q, par), same-parity injectivity of t |-> P + tG, and the abstract group laws of '
             'C15_keypair; in correspondence runs the harness records the real add_tweak results for the two keys of the case in the case line, a tweak not in '
             'that table has no recorded result (tweak_check false)',
             'BinaryHeap<(Reverse<u64>, NodeInfo)> is modelled as a multiset with extract-maximum under the derived tuple order (ties: greater NodeInfo '
             'first); BTreeMap/BTreeSet as sorted association lists with the derived lexicographic orders; debug_assert! in tap_tweak is not modelled'],
 'assumes': ['scripts shorter than 2^64 bytes (leaf message injectivity)',
             'hidden node hashes are 32 bytes (TapNodeHash)',
             'the Huffman depth-order theorem assumes the u64 weight sum does not saturate (sum of weights < 2^64)']}

TEXT = {'text': 'Kernel-checked theorems over abstract tagged hashes and an abstract secp256k1 oracle, for every script tree (leaves, hidden nodes) of height <= 128: '
         "the eager-combine builder fed the depth-first walk ends in the tree's sorted-pair merkle root with every leaf's sibling path (C15_builder_sound), "
         "only such walks finalize (C15_builder_complete), every leaf's control block verifies, has length 33+32*depth and survives from_slice/serialize "
         '(C15_cb_verifies), fails with the other parity or another output key (C15_cb_wrong_parity_or_key), anything that verifies is a leaf of the tree or '
         'an explicit hash collision (C15_cb_binding), the output key is the internal key tweaked by H_TapTweak(internal||root) and the tweaked key pair is '
         'its secret (C15_output_key, C15_keypair), Huffman construction keeps exactly the input leaves and never panics (C15_huffman_shape) and never puts a '
         'heavier leaf deeper when the weight sum does not saturate (C15_huffman_order). The model is tied to the code on every run by executing both on '
         'exhaustive and random depth sequences, chains around depth 128, control-block byte strings and Huffman weight vectors with the real tagged SHA-256; '
         'the harness also evaluates the property on the implementation against its own independent tree/tagged-hash computation.',
 'design_ref': 'DESIGN.md section 6, C15; notes/C15.md',
 'note': 'Trusted: Coq kernel; hand-written Gallina model of taproot.rs/schnorr.rs (builder loop, NodeInfo::combine, script map, control block codec, '
         'verify_taproot_commitment, with_huffman_tree as multiset extract-max); secp256k1 as an oracle with stated premises; translator for constants and tag '
         'strings; extraction + OCaml driver audited by in-kernel vm_compute; Rust harness. Findings re-derived on the unrepaired tree and repaired since: F9 (leaves were held in reverse DFS order; fix aee9a45, the model and '
         'C15_builder_sound now state insertion order, harness key F9-leaf-order), F16 (finalize panicked on a serde-only state; fix c723f02, key F16-finalize-panic).',
 'technique': 'Coq proof (restart lemma for the eager-combine loop, collision extraction, exchange-free Huffman depth-order invariant) + per-run '
              'model/implementation correspondence'}
