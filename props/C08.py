"""C08: check configuration (PROP) and MANIFEST texts (TEXT)."""
PROP = {'tables': ['C14'], 'n_quick': 40,
 'n_thorough': 400,
 'audit': 6,
 'audit_maxlen': 9000,
 'rule': 'lock time: every assignment of {none,time,height,both} to 0..3 inputs (0..4 thorough) x fallback present/absent with boundary and random values; '
         'from_tx/extract_tx over the 9-bit transaction feature lattice (pegin, explicit/confidential issuance, coinbase index, confidential / partially '
         'blinded / explicit outputs with and without nonces, script_sig and witnesses); extract_tx of randomly populated PSETs; extract_tx with the explicit field and the commitment both present (all presence combinations for issuance amount x inflation keys and output amount x asset); a later role revealing explicit values next to existing commitments (uid and extracted tx compared); unique id before/after the '
         'addition of each of the 73 optional/keyed fields; distinct = distinct case text; non-trivial = at least one optional field or requirement beyond the '
         'mandatory ones',
 'trusted': ["transactions are records of fields (their consensus encoding is C01's model); the txid is an abstract function of the transaction without "
             "witnesses (flags folded into the output index, issuance present iff non-null, as TxIn's encoder writes them); in runs it is SHA-256 of a "
             "canonical text and only equality patterns are compared with the crate's ids",
             'BIP370 is transcribed from the BIP text into Model/PsetTx.v `bip370` (and independently into harness/src/c08.rs)',
             "uncompressed ECDH/blinding keys are outside the model (the nonce is the key's compressed encoding)"],
 'assumes': []}

TEXT = {'text': 'Kernel-checked theorems: PartiallySignedTransaction::locktime equals BIP370 (transcribed from the BIP) for every PSET and never panics, for any number '
         'of inputs and any requirements, with the arm order of its final match re-read from the source on every run (C08_locktime_spec, C08_locktime_total; '
         'unconditional after the F6 repair); extract_tx(from_tx(tx)) = tx for well-formed transactions incl. coinbase-style inputs (C08_rt; only the documented '
         'class F8b, nonce of an unblinded output, is excluded and refuted by a witness); extraction is the field-wise function with the BIP370 lock time '
         '(C08_extract_reflects); the unique-id pre-image is a function of an explicit field list that contains none of the fields the property names as neutral, '
         'hence unique_id is invariant under sequence, signature, final script sig/witness, script, derivation and proof updates (C08_uid_depends, C08_uid_invariant, '
         'C08_uid_known_class = []); revealing an explicit issuance amount / inflation-keys / output amount / asset next to a commitment that is already present changes neither the extracted transaction nor the unique id (C08_reveal_keeps_extraction, C08_reveal_keeps_uid). Model and crate are run on the same PSETs and transactions on every check.',
 'design_ref': 'DESIGN.md section 6, C08',
 'note': 'Trusted: Coq kernel; translator anchors (match arms of locktime(), resets in unique_id(), body of is_pegin()); hand-written field-level model of '
         'from_tx/extract_tx; txid abstract; BIP370 transcription; harness listing code.',
 'technique': 'Coq proof (fold invariant in closed form, case analysis over the regenerated arm order, field-dependence lemma) + per-run model/implementation '
              'correspondence'}
