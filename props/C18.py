"""C18: check configuration (PROP) and MANIFEST texts (TEXT)."""
PROP = {'n_quick': 160,
 'n_thorough': 1500,
 'audit': 10,
 'audit_maxlen': 3000,
 'rule': 'every leaf count 0..n (n=160 quick, 1500 thorough) plus sampled larger counts; leaves random / near-equal / all-identical; distinct = distinct leaf '
         'list; non-trivial = at least 2 leaves',
 'trusted': ['SHA-256 compression is an abstract function `cmp` in the theorems; the executable instance is the Gallina SHA-256 in Base/Sha256.v',
             'the model represents `inner[32]`/`count:u32` as a list of optional nodes, least significant level first (a slot is Some exactly when that bit of '
             'count is set); lists of 2^32 or more leaves (128 GiB) are outside the model'],
 'assumes': ['leaf lists shorter than 2^32']}

TEXT = {'text': 'Kernel-checked theorems, for every list of leaves over an abstract node type and compression function: the incremental binary-counter algorithm of '
         'fast_merkle_root equals the level-by-level definitional tree (C18_refines), the empty/single cases (C18_small), and two different equally long leaf '
         'lists with equal roots exhibit an explicit compression collision (C18_depends). The model is tied to the code on every run by executing both on '
         'every leaf count 0..n with the real SHA-256 compression; the harness also evaluates the definitional tree directly on the implementation.',
 'design_ref': 'DESIGN.md section 6, C18',
 'note': 'Trusted: Coq kernel; hand-written model of the carry loop/final sweep as a list of optional nodes (slot k is Some iff bit k of count is set) — the '
         'u32 counter and the fixed 32-entry array are not modelled (lists >= 2^32 leaves); SHA-256 compression abstract in the theorems; extraction + 40-line '
         'OCaml driver audited by in-kernel vm_compute; Rust harness.',
 'technique': 'Coq proof by induction (binary-counter invariant = split tree = level-by-level tree) + per-run model/implementation correspondence'}
