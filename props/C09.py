"""C09: check configuration (PROP) and MANIFEST texts (TEXT)."""
PROP = {'n_quick': 90,
 'n_thorough': 600,
 'audit': 3,
 'audit_maxlen': 9000,
 'rule': 'the coinjoin flow of examples/pset_blind_coinjoin.rs generalised: explicit PSETs over the C04 shape lattice (1..5 inputs, 1..3 base assets + issued '
         'assets, explicit / confidential / mixed UTXOs, explicit issuances, fee), inputs split among 1..3 (thorough: 1..4) parties, blinded outputs assigned '
         'by blinder index to an input holding their asset, explicit outputs left unblinded, one or several outputs per party, the last party rotated; EVERY '
         'permutation of the non-last parties, a serialize/deserialize hop after every step, one seeded ChaCha20 stream per party; plus edge flows (party '
         'without outputs, blinder index out of bounds, foreign asset, non-address script, last party without outputs). distinct = case text (shape, '
         'assignment, order, seeds); non-trivial = the flow completed with at least one blinded output',
 'trusted': ['IDEAL-COMMITMENT MODEL as for C04/C05 (partial w.r.t. cryptography)',
             'the PSET is modelled by the fields blind_non_last / blind_last / extract_tx read and write; `inp_txout_sec: HashMap` is an association list '
             '(iteration order only enters through sums); explicit value/asset proofs are ideal proofs (exact value = witness equality)',
             'the serialize/deserialize hop is a parameter assumed to be the identity on the modelled fields (C07); the harness performs the real hop',
             'issuance ids are read from the case; pset::Input is built from the outpoint (no flag bits in previous_output_index, cf. F10)'],
 'tables': ['C04'],
 'assumes': ['issuances explicit with blinded_issuance = 0 (blind_checks refuses anything else)',
             'every party blinds at least one output (a party without outputs publishes no scalar, so its input blinding factors would be lost — '
             'exercised as an edge flow, model and crate agree that the result then fails BalanceCheckFailed)',
             'two equal scalars would collide as PSET map keys (probability 2^-256; the code comments call it a format bug) — not modelled']}

TEXT = {'text': 'Kernel-checked theorems in the ideal-commitment model (level: proof in the ideal model, partial w.r.t. cryptography), for every number of '
         'parties, inputs, outputs and all randomness: after a non-last blinder the published scalar is exactly (sum over its inputs of v*abf+vbf) - (sum '
         'over the outputs it blinded), with the reported factors (C09_scalar_meaning); for every valid assignment (parties own disjoint inputs covering '
         'all inputs with their true secrets, every output explicit or assigned to exactly one party holding its asset, every party has an output, '
         'amounts balance per asset) and EVERY permutation of the non-last parties followed by the last one, with a hop between steps: the flow succeeds, '
         'the scalar list ends empty, the extracted transaction passes verify_tx_amt_proofs against the input UTXOs, every marked output is fully '
         'blinded, unblinds with its receiver key to the original asset and amount with factors reproducing its commitments, and its explicit value and '
         'asset proofs verify (C09_any_order; proof: per-step characterisation, an invariant over the set of parties done, telescoping of the scalars, '
         'commutativity in Z/n). Every run replays the generalised coinjoin flow on the real crate for all orders with real serialize/deserialize hops; '
         'the model, fed the reported blinding factors, must reproduce the scalar list after every step and the last value blinding factor BIT-EXACTLY, '
         'and the verdicts.',
 'design_ref': 'DESIGN.md section 6, C09',
 'note': 'Trusted: Coq kernel; the ideal-commitment idealisation; hand-written model of blind_checks/surjection_inputs/blind_non_last/blind_last/extract_tx '
         'tied by per-run correspondence; the hop is assumed identity in the theorem and real in the harness. No finding; unaffected by the repair branch (the flow builds PSET inputs from plain outpoints, uses no pegins, lock times, merge or unique_id; commitments on the hop are 33 bytes).',
 'technique': 'Coq proof in an ideal-commitment model (loop characterisation of blind_each, invariant over processed parties, scalar algebra in Z/n, '
              'permutation invariance) + per-run bit-exact model/implementation correspondence of the multi-party flow'}
