"""C09: check configuration (PROP) and MANIFEST texts (TEXT)."""
PROP = {'n_quick': 60, 'n_thorough': 600, 'audit': 3, 'audit_maxlen': 8000, 'rule': 'TODO', 'trusted': [], 'assumes': []}
TEXT = {'text': 'TODO', 'design_ref': 'DESIGN.md section 6, C09', 'note': 'TODO', 'technique': 'TODO'}
