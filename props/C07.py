"""C07: check configuration (PROP) and MANIFEST texts (TEXT)."""
PROP = {'n_quick': 60, 'n_thorough': 1500, 'audit': 4, 'audit_maxlen': 2500, 'rule': 'tbd', 'trusted': [], 'assumes': []}
TEXT = {'text': 'tbd', 'design_ref': 'DESIGN.md section 6, C07', 'note': 'tbd', 'technique': 'Coq proof + correspondence'}
