"""C07: check configuration (PROP) and MANIFEST texts (TEXT)."""
PROP = {'tables': ['C15'], 'n_quick': 110,
 'n_thorough': 3000,
 'audit': 4,
 'audit_maxlen': 1500,
 'rule': 'real PSETs built with the crate: every optional global / input / output field alone (exhaustive: 7 + 55 + 17 field settings incl. mandatory-field '
         'variations, multi-entry BTreeMap fields with compressed and uncompressed keys, ELIP-102 abf), tap trees of every shape up to 4 leaves (5 thorough), commitment / generator values of 32 and 34 bytes, every nested variable-length site (27: tap-tree leaf '
         'scripts, scripts, unknown / proprietary values, keys and prefixes, preimages, witness elements and counts, paths, leaf-hash counts, ELIP-100 contract) at the '
         'lengths 0, 0xfc, 0xfd, 0xfe, 0x100 and (rotating; all in thorough) 0xffff, 0x10000, '
         'map counts 0..3, blinded / explicit outputs, unknown and foreign proprietary pairs, n random subsets; the PSET hex literals of src/pset/mod.rs and the '
         "repository's transactions through from_tx; 2n pair-level variants of valid encodings (pair re-ordering, duplicated key, dropped mandatory pair, wrong "
         'count, missing / extra map, corrupted preimage, trailing bytes after a count VarInt, explicit Default sighash byte, key/value edits), n/2 byte-level '
         'mutations and truncations, every value limit at the limit and one beyond (control blocks of 0/1/127/128|129 nodes, tap-tree depth 127/128|129, 256|257 '
         'surjection inputs; thorough: witness-element, tx-output, input-map and value-size caps), valid encodings followed by 1..4 trailing bytes through both entry points, base64 text (valid and malformed; every byte case is also '
         'sent through from_str and must get the same verdict and value), ELIP-100/102 accessors; distinct = distinct (mode, bytes); non-trivial = the decoder '
         'accepted it',
 'trusted': ['secp256k1(-zkp) point / public key / x-only key validity are oracles (Section variables; theorems hold for '
             'every oracle); in runs they are the lists of byte strings the libraries accept among the key data and values of the case (harness/src/c07.rs: oracles)',
             'bitcoin::Transaction (peg-in tx) is a concrete codec transcribed from rust-bitcoin 0.32 (Model/BtcTx.v, proved Lawful) and Xpub its 78-byte framing with the embedded '
             'key left to the public-key oracle: transcriptions of an external crate, exercised by every run (peg-in transactions with and without witnesses, xpub maps)',
             'RIPEMD160 / HASH160 are abstract; in runs a table of the digests of the values present in the case (SHA256 / HASH256 are computed by Base/Sha256.v)',
             'range / surjection proof acceptance is the header/format rule transcribed from the vendored C sources (as in C01)',
             'the order in which a BTreeMap field is emitted is the transcribed `Ord` of the Rust key type (bitcoin::PublicKey: uncompressed first, then the '
             'compressed serialisation; Xpub: derived field order; ProprietaryKey, raw::Key: derived; hashes, x-only keys, ControlBlock: bytewise) — exercised by '
             'multi-entry maps in every run',
             'Generator / PedersenCommitment values of a length other than 33 bytes are fed to the decoder only after a probe without undefined behaviour '
             '(the 32-byte prefix of a 33-byte buffer) shows that the library checks the length (fix 838e50c); the translator anchors the two checks',
             'translator/tables_C07.py: the field tables (type bytes, subtypes, keyed or not, key/value types, mandatory, emission order) are regenerated from '
             'src/pset/map/*.rs on every run; the hand-written arms (xpub, scalars, elements tx-modifiable flag) and the checks after each decode loop are '
             'anchored by regular expressions'],
 'assumes': ['MAX_VEC_SIZE in [4, 2^64-2]; `wf_pset` includes the decoder limits (keys and values <= MAX_VEC_SIZE, <= 10 000 inputs / outputs)',
             'the TapTree canoniser is the C15 builder model (NodeInfo::combine(child, node), fix aee9a45); C07 uses its completeness theorem']}

TEXT = {'text': 'Kernel-checked theorems over the PSET field tables regenerated from the Rust source on every run. A generic table-driven map codec (raw key / '
         'pair / proprietary-key framing, classification of a key to its field, canonicalisation of key and value bytes, insertion in get_pairs emission '
         'order with the duplicate test, mandatory-field checks) is proved once for any table: a well-formed map/PSET decodes back from its encoding '
         '(C07_rt, and through base64 C07_rt_text); everything the decoder accepts satisfies all acceptance rules (C07_decoder_wf) and its re-encoding '
         'decodes to an equal PSET and re-encodes to itself (C07_fixpoint, for every accepted byte string); an encoding with a repeated key is rejected '
         '(C07_rejects_duplicate_tables: no field of the regenerated tables is assigned without a duplicate test), accepted maps have all mandatory fields and the output completeness rules, declared counts equal the number of maps, bad '
         'preimages are errors; conversely any mismatch between the declared counts and the maps present is rejected (C07_count_mismatch_rejected); metadata set through '
         'the ELIP-100/102 accessors on any well-formed PSET yields a well-formed PSET and survives the round trip (C07_elip_*_survives); the blinder-to-blinder hop of C09 is C07_hop_identity. The value canonisers (Deserialize then Serialize of each type of '
         'pset/serialize.rs) are proved idempotent and non-lengthening; for TapTree it is the identity (C15 builder completeness + leaf-order lemmas). '
         'The three repaired findings (F9 reversed tap-tree leaves, F17 duplicated global flag, F18 unchecked commitment length) are kernel-evaluated '
         'regression examples and return as VIOLATION if the code regresses. The model '
         'is run against serialize/deserialize/to_string/from_str and the accessors of the real crate on every check.',
 'design_ref': 'DESIGN.md section 6, C07',
 'note': 'Trusted: Coq kernel; hand-written Gallina model tied to the Rust by the regenerated tables and the per-run correspondence; secp256k1 validity '
         'and RIPEMD160 as oracles; transcribed key comparators; Rust harness. Partial: PSET equality is equality of '
         'canonical bytes (which implies the crate-level equality); error classes are coarse.',
 'technique': 'Coq proof (generic insertion-sort decoder invariant + canoniser laws; tables by kernel evaluation) + per-run model/implementation correspondence'}
