"""C19: check configuration (PROP) and MANIFEST texts (TEXT)."""
PROP = dict(
    tables=["C01"],
    n_quick=300, n_thorough=4000, audit=8, audit_maxlen=3000,
    rule="pairs (current, proposed) of parameter sets: null / compact / full with empty, short and long scripts and fedpeg data, any witness limit, extension spaces of "
         "0..256 entries; roots of both, of the compact form, of FullParams::calculate_root and of the header are compared with the model and recomputed from the fields "
         "on the implementation; distinct = distinct byte pair; non-trivial = not both null",
    trusted=["same codec model as C01 for the serialisations that are hashed", "H (double-SHA256) and the fast-merkle compression are abstract in the theorems; C18 proves fast_merkle_root is the definitional tree"],
    assumes=[],
)
TEXT = dict(
    text="Kernel-checked theorems over abstract hashes: the root of the compact form equals the root of the full form and the root computed by FullParams::calculate_root; "
         "the two-level layout equation (signblockscript, witness limit | fedpeg program, fedpeg script, extension space) over the C01 serialisations; null root is zero; "
         "compaction keeps the signblock fields and stores the extra root; the header root is the fast-merkle combination of the two parameter roots. The theorems are "
         "equations between the transcribed functions; their tie to the code is the per-run correspondence on generated parameter sets.",
    design_ref="DESIGN.md section 6, C19",
    note="Trusted: as C01/C18; the theorems are mostly definitional unfoldings of the transcribed code, so the correspondence check carries the weight of tying them to the Rust.",
    technique="Coq proof (unfolding over abstract hashes) + per-run model/implementation correspondence",
)
