"""C14: check configuration (PROP) and MANIFEST texts (TEXT)."""
PROP = {'n_quick': 60,
 'n_thorough': 1200,
 'audit': 6,
 'audit_maxlen': 9000,
 'rule': 'every optional and keyed field of Global/Input/Output present only in other / only in self / in both (exhaustive over the 73 fields), every xpub '
         'key-source pair class of the quantifier, gate cases per transaction-identifying field, and n families of 2..4 descendants of a common ancestor '
         'merged in every permutation and grouping; distinct = distinct case text; non-trivial = at least one optional field beyond the mandatory ones',
 'trusted': ["field values and keys are opaque canonical byte strings (the crate's pset Serialize of each field); BTreeMaps are strictly key-sorted "
             "association lists under byte-lexicographic key order (the model's canonical order, not the Rust Ord of the key type; iteration order only "
             'matters for which of several failing xpub entries is reported first)',
             "harness/src/psetl.rs: listing <-> real PartiallySignedTransaction through the crate's Serialize/Deserialize of every field (exhaustive struct "
             'patterns)',
             "the unique id is an abstract function in the theorems; in runs it is SHA-256 of the model's id pre-image (C08 model), compared with the crate's "
             'only through equality patterns'],
 'assumes': ["uncompressed public keys and multi-leaf tap trees are not generated (C07's F9)"]}

TEXT = {'text': 'Kernel-checked theorems over the per-field merge policy table that the translator rebuilds from the three `fn merge` bodies on every run: the '
         'unique-id gate refuses different ids (C14_gate); every field merged by a keeping statement (8 global, 45 input, 17 output fields, incl. '
         'sighash_type, sequence, amount, asset and tx_data.fallback_locktime after the F3 repairs) keeps whatever either operand has, at the global map and '
         'every input/output position (C14_keeps_all); the complement is pinned by computation: the output commitments are fixed by the unique id '
         '(C14_commitments_fixed_by_uid), the clearing of non_witness_utxo by an arriving witness_utxo is a recorded finding refuted by a witness; the xpub '
         'key-source reconciliation equals its documented algorithm and never panics, for every pair of key sources (C14_xpub, unconditional after the F2+F4 '
         'repair); both merge orders of compatible descendants give the same PSET (C14_commutes); the scalar list, whose extend/sort/dedup statements are read '
         'in source order and executed exactly, merges to a duplicate-free sorted union in either direction for any two lists (C14_scalars); every binary '
         'merge tree over every permutation of a family of k compatible descendants that agree on the transaction-identifying fields succeeds and gives the '
         'same PSET (C14_family, by characterising results as joins of their leaves; C14_family_three: (a.b).c = a.(b.c) = (c.a).b for three concrete '
         'descendants). Model and crate are run on the same PSETs on every check.',
 'design_ref': 'DESIGN.md section 6, C14',
 'note': 'Trusted: Coq kernel; translator (statement recogniser for fn merge bodies; unknown statements are a hard error); hand-written semantics of each '
         'statement kind; opaque canonical field values; harness listing code; unique id abstract in theorems. Open: the unrepaired finding '
         'C14-locktime-max-changes-unique-id (merge can change the unique id through max() on required lock times).',
 'technique': 'Coq proof generic in the regenerated policy table + per-run model/implementation correspondence'}
