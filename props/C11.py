"""C11: check configuration (PROP) and MANIFEST texts (TEXT)."""
PROP = dict(
    tables=["C01"],
    n_quick=300, n_thorough=4000, audit=8, audit_maxlen=3000,
    rule="transaction inputs over all outpoint shapes (random txid, index 0, 2^29, 2^30-2, the null outpoint), zero/non-zero blinding nonce, explicit/confidential/null "
         "issuance amounts, inputs that are additionally pegins; the three views (TxIn, PSET input from from_txin, input of from_tx->extract_tx) are compared with the model "
         "and the formulas recomputed on the implementation; plus JSON contracts with keys permuted at every level and extra whitespace (implementation only); "
         "distinct = distinct input bytes / JSON text; non-trivial = an issuance is present",
    trusted=["same codec model as C01 for TxIn and OutPoint", "hashes abstract in the theorems",
             "JSON contracts are modelled as trees whose scalar tokens are as serde_json prints them; serde_json's parser (whitespace, duplicate keys) and scalar printer stay external"],
    assumes=["canonical inputs (txin_wfB): plain index below 2^30 or the coinbase index"],
)
TEXT = dict(
    text="Kernel-checked theorems over abstract hashes: the id formulas (entropy from the plain outpoint and contract hash, or carried for a reissuance; asset = cmp(entropy,0); "
         "token = cmp(entropy,1|2)); the input of the extracted transaction yields the same ids for every canonical input; the PSET input yields the same ids outside the "
         "known class F10, and inside it provably hashes the outpoint index with the flag bits (a different serialization) — finding F10, re-derived on the real crate on every run. "
         "Re-ordering the keys of any JSON object at any depth does not change the canonical serialisation and hence the contract hash (C11_json_order).",
    design_ref="DESIGN.md section 6, C11; finding F10",
    note="Trusted: as C01; hashes abstract; serde_json's parser/printer external.",
    technique="Coq proof (flag-bit arithmetic + unfolding over abstract hashes) + per-run model/implementation correspondence of the three views",
)
