"""C05: check configuration (PROP) and MANIFEST texts (TEXT)."""
PROP = {'n_quick': 260,
 'n_thorough': 2500,
 'audit': 4,
 'audit_maxlen': 6000,
 'rule': 'five streams: (x) `exact`: BlindValueProofs / BlindAssetProofs run directly — the genuine exact proof, range proofs made with exponent 0 that START at the claimed value / below it / above it (min_bits 0..63), every claimed value in {committed value, range minimum, +-1}, verified against its own statement, another generator, another blinding, a commitment to the claimed value; exact-asset proofs against the right / another asset and generator; (o) `opened`: the real-network doc vector of verify_tx_amt_proofs, every tamper class at every position; (m) `opened` mixed: transactions built directly with the real library whose outputs take all four forms explicit/confidential x (asset, value) — in particular explicit asset + confidential value and confidential asset + explicit amount — with every tamper class at those positions; (i) `tamper`: explicit transactions over the C04 shape lattice blinded by the real crate under a seeded RNG, then ONE tamper of the '
         "property's list applied to the real structures — explicit amount/asset, replaced or exchanged value/asset commitment, removed/exchanged/corrupted "
         'range or surjection proof, script of a blinded output, issuance amount, spent output with different amount/asset — at every applicable position '
         '(thorough) or one position per class and transaction (quick); (ii) `explicit`: all-explicit transactions, balanced / unbalanced in an input or '
         'output / asset changed / zero amount on OP_RETURN, on the fee, on a short spendable script, on scripts of exactly 10_000 (spendable) and 10_001 bytes (over MAX_SCRIPT_SIZE) / wrong number of spent outputs, plus explicit '
         'transactions over confidential spent outputs; distinct = (transaction, tamper) text; non-trivial = the tamper changed the transaction (all do)',
 'trusted': ['issuance asset / token ids in the case text are derived by the harness from the protocol formulas (entropy, H(E||0), H(E||1|2) with the flag from the AMOUNT), independently of TxIn::issuance_ids(); issuances range over {null, explicit, confidential}^2 for (amount, inflation keys)',
             'IDEAL-COMMITMENT MODEL as for C04 (partial w.r.t. cryptography): formal commitments over independent generators; ideal range/surjection proofs '
             'whose soundness and binding are built in (a proof verifies iff intact, presented with exactly its statement, with a correct witness)',
             "a tamper is applied by the harness to the real transaction and, symbolically, by the model (Model/Tamper.v `apply`) to its opened form; "
             '`corrupt` = one flipped byte that still parses (real) / the intact flag cleared (model)',
             'asset ids are numbers; issuance ids are read from the case (C11)'],
 'tables': ['C04'],   # own piece tables_C05.py (Gen/SrcExact.v) + C04's range-proof constants
 'assumes': ['C05_tamper and C05_sound are about transactions whose spent outputs are opened (`opens`: H_a + abf*G generators, explicit issuances) — '
             'the transactions C04 produces; confidential issuance amounts are outside',
             'a spent-asset change is only claimed to be rejected when the function reads the asset (some output has a surjection proof, or the spent '
             'output is fully explicit); a spent output differing only in script or nonce is not a different spent output for this function',
             'exchanging two proofs of the SAME statement is not a change']}

TEXT = {'text': 'Kernel-checked theorems in the ideal-commitment model (level: proof in the ideal model, partial w.r.t. cryptography), for all numbers of '
         'inputs/outputs/assets: acceptance by verify_tx_amt_proofs implies that the outputs have openings with amounts < 2^64 that balance per asset as '
         'INTEGERS against the opened inputs and issuances, and that every confidential output carries range and surjection proofs for exactly that '
         'output (C05_sound); from any accepted transaction, every tamper class of the property (an inductive with apply/applicable/changes, 14 '
         'constructors) at every applicable position is rejected (C05_tamper); an all-explicit transaction is accepted iff the spent list has the right '
         'length, zero amounts occur only on provably unspendable scripts and every asset balances (C05_explicit_iff, the property\'s own form, after '
         'repair b3b2d40 of finding F13); an explicit zero amount is SKIPPED on a provably unspendable script and still REJECTED '
         '(NonUnspendableZeroValue from get_value_commit) on a spendable one (C05_zero_value_unspendable_skipped / _spendable_rejected); a spent list of '
         'the wrong length is rejected as such (C05_len_mismatch). Exact proofs of PSET explicit fields (Model/ExactProofs.v; the public range of a range proof transcribed from '
         'range_proveparams for exponents -1 and 0; the acceptance condition of blind_value_proof_verify TRANSLATED from src/blind.rs into Gen/SrcExact.v on every run): accepted => the '
         'commitment opens to exactly the claimed value and the stated range is that single value (C05_exact_value_sound); any proof stating more than one value — every exponent-0 proof, '
         'even one whose minimum is the claimed value — is refused (C05_exact_value_wide_refused / _exp0_refused); another value is refused; the genuine proof is accepted; the u64 subtraction '
         'of the condition never underflows (C05_exact_value_no_panic, from the GENERATED safety condition); exact-asset proofs are sound, name one asset, and the genuine one is accepted. '
         'Every run blinds generated transactions with the real crate, applies each tamper to the real structures, and the model must predict the verdict '
         'AND the error variant (with index) of verify_tx_amt_proofs before and after.',
 'design_ref': 'DESIGN.md section 6, C05',
 'note': 'Trusted: Coq kernel; the ideal-commitment idealisation; hand-written model of verify_tx_amt_proofs (same checks, same order, same error variants, '
         "including that an output's get_value_commit error is reported as SpentTxOutError) tied by per-run correspondence; harness. Finding F13 is fixed (b3b2d40); a return of it is a VIOLATION. Consequence of the repair recorded in `applicable`: nothing on a skipped output (its asset, a surjection proof) is read, so changing those is not claimed to be rejected. "
         "The repository's real-network vector with known spent output (the doc example of verify_tx_amt_proofs, blinded by Elements Core) is part of the "
         'stream with a FABRICATED balanced opening (its true openings are unknown; ideal verdicts depend only on the equational structure); the '
         'tests/data transactions come without their spent outputs and cannot be verified at all.',
 'technique': 'Coq proof in an ideal-commitment model (coefficient calculus in the free module, binding of ideal proofs, one-position replacement lemmas for '
              'the input and output loops) + per-run model/implementation correspondence on tampered real transactions'}
