"""C05: check configuration (PROP) and MANIFEST texts (TEXT)."""
PROP = {'n_quick': 200, 'n_thorough': 2500, 'audit': 4, 'audit_maxlen': 6000, 'rule': 'TODO', 'trusted': [], 'assumes': []}
TEXT = {'text': 'TODO', 'design_ref': 'DESIGN.md section 6, C05', 'note': 'TODO', 'technique': 'TODO'}
