"""C10: check configuration (PROP) and MANIFEST texts (TEXT)."""
PROP = {'tables': ['C14', 'C15', 'C16', 'C17'], 'n_quick': 70,
 'n_thorough': 2000,
 'audit': 14,
 'audit_maxlen': 1800,
 'release': True,
 'rule': 'per entry point (tag ep:...): the repository\'s own vectors (tests/data, hex and base64 literals of src/**), structured values generated over the '
         'feature lattice and serialised by the crate, 1-2 stacked byte mutations of both (bit, byte, truncation, extension, non-minimal varint, '
         'prefix, swap) plus length-field mutations that replace a byte by a large minimal varint (MAX_VEC_SIZE and its neighbours, 2^31, 2^32, 2^64-1, '
         '10 000/10 001), random bytes/strings, and fixed boundary inputs (allocation probes: a length prefix with nothing behind it in every '
         'position a vector can start; control-block sizes 33+32k around 0/128/129 nodes; 63/64/65/66-byte signatures; depth sequences with 0, 128, '
         '129, 255; every read_uint size 0..17; the small fallible integer constructors (Sequence::from_seconds_floor/ceil, LockTime/Height/Time constructors, sighash-type and leaf-version conversions, Ordinary::try_from_all) on 0, 1, 2^k+-1, the thresholds 500 000 000 and 65535/65536 x 512 with their neighbours, every u32::MAX-k for k <= 600, all 256 bytes for the u8 ones, each compared with an independent u128 computation; base58check strings of every payload of 0..3 and 20..22/53..55 bytes; slice/string constructors on boundary lengths; all 1-byte and (thorough: all 65 536) 2-byte scripts). Every case runs in a debug (overflow checks on) and a '
         'release binary under a panic hook (location of every panic, also swallowed ones) and a counting global allocator; PSET/text parsing that can '
         'crash the process runs in a forked worker. distinct = distinct case text; non-trivial = not a verbatim repository vector (for builder/locktime: '
         'at least one / two items)',
 'trusted': ['the allocation figure of the theorems is the reservation made by rust-elements\' own vec![0; s] / Vec::with_capacity(len) calls (`rsv`); what '
             'the dependencies allocate on top (secp256k1-zkp proof copies, boxed io errors) is covered only by the measured predicate, with an allowance '
             'of 8 KiB + 4 bytes per input byte',
             'size_of::<TxIn>(), <TxOut>, <Vec<u8>>, <Transaction> are parameters of the bound, reported by the harness from std::mem::size_of; '
             'MAX_VEC_SIZE (bitcoin crate) is reported by the harness from elements::encode::MAX_VEC_SIZE',
             'secp256k1 verdicts (curve points, x-only keys, Schnorr signature encodings) are oracles recorded by the harness in the case text; range-proof '
             'acceptance is the header rule transcribed from the vendored C (Model/Tx.rangeproof_ok): the >= 65 byte bound is what makes minimum_value total',
             'usize subtraction is modelled as a panic in both profiles (release wraps, and every modelled use is a slice bound that then panics); u64/usize '
             '`+` and `<<` are modelled per profile',
             'exploration half (kinds x-...): PSET deserialize/from_str/merge/accessors, Transaction::blind with arbitrary secrets, taproot sighash with '
             'arbitrary index/prevouts/leaf hash, verify_tx_amt_proofs, text parsers — no Coq model (their models would be total by construction); the '
             'check is the panic/allocation predicate on the implementation. This part is exploration in support, not proof'],
 'assumes': ['64-bit usize (the crate\'s `as usize` casts of u64 lengths are lossless)',
             'stack exhaustion, allocator failure and panics that depend on a user-supplied RNG are outside the model']}

TEXT = {'text': 'Kernel-checked theorems over Model/Totality.v, which re-expresses with explicit Panic outcomes (index, slice, unchecked subtraction, expect, '
         'unreachable!, overflowing shift/addition, out-of-bounds read through a slice pointer) the functions whose panic-freedom rests on arithmetic or '
         'indexing in rust-elements\' own code: one C10_total_<f> per function (raw::Key, read_uint, the nine Script::is_* predicates = the total '
         'predicates of C16, Instructions::next and Address::from_script imported from C16, UncheckedHrpstring/CheckedHrpstring/SegwitHrpstring::new, '
         'validate_padding, ControlBlock/TaprootMerkleBranch/SchnorrSig::from_slice, the PSET value decoders that slice by offsets, Pset::locktime, '
         'PeginData::from_pegin_witness, TxOut::pegout_data, TxOut::minimum_value relative to the library\'s >= 65-byte rule, TaprootBuilder via C15\'s '
         'invariant). The model follows the repaired library: F1 new_bech32 (a4bc64e), F2 merge xpub (4b01389), F12 blind with nothing marked (8d5600e), F16 serde builder '
         '(c723f02) and F18 commitments from short slices (838e50c) are fixed, their statements hold for every input and a return of the old behaviour fails '
         'the check. Second round: F17 fee sums (7b7cbe8, saturating), F19 read_uint size (6050d64), and in the exploration half F24 (22d9646), F25 (5c23a02), F26 (b1b3ac3) are fixed too; no '
         'restricted statement is left. Third round (src/blind.rs validates before calling secp256k1-zkp): F20 (17278a0), F21 (3c38a91), F22 (8eb1275) fixed. '
         'Known findings that remain are inside secp256k1-zkp: F23, F27. Allocation: the C01 decoders re-assembled from instrumented combinators (same decoders by reflexivity) '
         'reserve at most 2 MAX_VEC_SIZE + k_tx|input| for a Transaction and 3 MAX_VEC_SIZE + k_block|input| for a Block — bounded, not proportional: 5 bytes '
         'can reserve 4 MB. Every run executes model and implementation on the same cases in debug and release builds under a panic hook and a counting '
         'allocator; the remaining entry points (PSET, blinding, sighash, text parsers) are explored the same way without a model.',
 'design_ref': 'DESIGN.md section 6, C10; findings F1, F2, F12, F16-F22, F24-F26 (fixed), F23, F27 (recorded) and observation O2 in section 7',
 'note': 'Trusted: Coq kernel; hand-written model tied to the code by the per-run correspondence check in both profiles; oracles for secp256k1 verdicts; '
         'size_of values and MAX_VEC_SIZE reported by the harness; extraction + OCaml driver audited by in-kernel vm_compute; Rust harness (panic hook, '
         'counting allocator, forked worker). Partial: the entry points without a model are covered by exploration only; allocation made inside dependencies '
         'is measured, not proved.',
 'technique': 'Coq proof (compositional allocation law over instrumented codec combinators; case analysis over explicit partial operations; loop invariants '
              'for the fuelled loops) + per-run model/implementation correspondence under catch_unwind with a counting allocator, debug and release'}
