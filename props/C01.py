"""C01: check configuration (PROP) and MANIFEST texts (TEXT)."""
PROP = {'n_quick': 400,
 'n_thorough': 6000,
 'audit': 8,
 'audit_maxlen': 4000,
 'rule': 'three streams: (i) structured values over the feature lattice (coinbase/plain/pegin/issuance/reissuance inputs x null/explicit/confidential '
         'asset,value,nonce x the six witness fields x proof/dynafed(null/compact/full) headers x lengths around every varint boundary) serialised by the '
         "crate, (ii) the repository's own hex vectors, (iii) 1-3 stacked byte-level mutations of (i) aimed at the canonicity rules (flag byte, high bits of "
         'u32s, non-minimal varints, prefixes, truncation, extension) + targeted outpoint-flag inputs; distinct = distinct (type, bytes); non-trivial = the '
         'decoder accepted it',
 'trusted': ['curve-point validity (Generator/PedersenCommitment/PublicKey::from_slice) is an oracle `pt_ok`: the harness reports, for every 33-byte window of '
             'the input, whether libsecp256k1 accepts it; theorems hold for every oracle',
             'range/surjection proof acceptance is the header/format rule transcribed from the vendored C sources (secp256k1-zkp-sys 0.10.1); proofs are '
             'stored and re-serialised verbatim',
             'Vec<T> element caps MAX_VEC_SIZE/size_of::<T>() are parameters reported by the harness from std::mem::size_of (theorems hold for every value)'],
 'assumes': ['values are compared through their re-encoding and a structural summary (flags, counts), not field by field']}

TEXT = {'text': 'Kernel-checked theorems for every consensus codec (confidential value/asset/nonce, TxIn, TxOut, Transaction, dynafed Params/FullParams, BlockHeader, '
         'Block), each assembled from combinators whose laws are proved once: a decoder that accepts has consumed a prefix that re-encodes to exactly itself '
         '(so no two byte strings decode to equal values), decoder outputs satisfy the canonicity predicate wf, every wf value decodes back from its encoding '
         'whatever follows, and the length the encoder reports equals the bytes written. Unbounded in all sizes; for every curve-point oracle and every '
         'allocation cap. The model is run against deserialize_partial/serialize/consensus_encode of the real crate on structured, repository and mutated '
         'inputs on every check.',
 'design_ref': 'DESIGN.md section 6, C01',
 'note': 'Trusted: Coq kernel; hand-written Gallina codecs tied to the Rust by per-run correspondence; secp256k1 point validity as an oracle fed from the '
         'library; proof-format rules transcribed from the vendored C; element caps reported by the harness. The clause about values produced by the blinding '
         "functions is covered by correspondence only (C04's stream), not by a theorem.",
 'technique': 'Coq proof (codec combinator laws by induction; flag-bit arithmetic by N bit lemmas + lia; the branching predicates has_witness / has_issuance / is_empty / is_null / encoded_length / VarInt::size translated from the Rust source on every run and proved equal to the model) + per-run model/implementation correspondence'}
