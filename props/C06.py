"""C06: check configuration (PROP) and MANIFEST texts (TEXT)."""
PROP = {'tables': ['C17'], 'n_quick': 240,
 'n_thorough': 3000,
 'audit': 8,
 'audit_maxlen': 400,
 'rule': 'addresses: (quick) every witness version 0..16 with program lengths 0..3, 19..21, 31..33, 39..42 and a random quarter of the other lengths, network '
         "and blinding drawn at random, plus n random well-formed addresses of every kind incl. the crate's constructors; (thorough) the full lattice 3 "
         'networks x blinded x {p2pkh, p2sh, version 0..16 x length 0..42, versions 17/24/31}; near-miss strings: upper/mixed case, one character '
         'replaced/dropped/appended, every mixed case pattern of the human-readable part (2^len patterns x lower/upper data part) of every generated segwit address, wrong checksum variant, other checksum family, versions 17..31, bad/missing blinding key, bad padding (every non-zero pattern of 1..4 padding bits with a recomputed checksum, blinded and unblinded, program lengths of every residue mod 5), foreign HRP, '
         'over-long, base58 with wrong length/prefix/inner prefix/blinder/checksum, > 150 characters; distinct = distinct case line; non-trivial = non-empty '
         'string',
 'trusted': ['the bech32/bech32m constants and limits are transcribed by hand from the upstream bech32-0.11.1 crate; blech32 constants, witness-length limits, '
             'prefixes and HRPs are re-read from /repo/src on every run',
             "base58 conversion is modelled with unbounded N (value of the digit string / minimal digits) instead of the crate's carry loops; 8<->5 bit "
             'regrouping over bit lists; SHA-256d and secp256k1 key validity are parameters in every theorem (runs: Base/Sha256.v, Base/SecpField.v: prefix '
             '02/03, x < p, x^3+7 a quadratic residue by Jacobi symbol)',
             "the harness's independent encoders are the bech32 crate's iterator API (with_checksum/with_witness_version) and base58::encode_check"],
 'assumes': ['strings are byte strings; every byte >= 128 is rejected where the Rust code rejects a non-ASCII char']}

TEXT = {'text': 'Kernel-checked, for every hash function (returning >= 4 bytes where base58check is created) and key-validity predicate: every well-formed address '
         '(3 networks, blinded or not; p2pkh, p2sh, witness versions 0..16 with program 2..40 / 20|32) displays to a text that parse_with_params and FromStr '
         'map back to it, segwit forms also in upper case (C06_roundtrip; via the base-58/256 positional numeral lemma C06_numeral / C06_base58_codec, '
         'base58check create/verify, bech32 checksum create/verify, 8<->5 regrouping, decoder completeness, and C06_base58_dispatch: a finite vm_compute '
         'sweep over the nine version bytes x two payload lengths showing a displayed base58check text never starts like a built-in HRP); parsing then '
         'displaying returns the lower-case segwit string / the base58check string itself for every accepted string (C06_canonical; via checksum '
         'uniqueness, 5->8->5 regrouping under the padding rules, both letter cases of the character set, encode58(decode58 s) = s); two built-in networks '
         'never accept the same string (C06_one_network, no residual case); a string with letters of both cases anywhere, HRP included, never parses as a segwit address (C06_mixed_case_rejected); every parsed address has a 20-byte hash or a '
         'version<=16 program of 2..40 bytes (20|32 for v0) with the checksum variant its version requires (C06_parsed_shape); FromStr is parse_with_params '
         'of one built-in network. Finding F5 (blinded v1+ address with a 0/1-byte program) is repaired in 86be616; the model is the repaired from_bech32, its two former witnesses are rejected (C06_F5_witnesses_rejected) and a re-appearance is a VIOLATION. Character-for-character agreement of the model encoders with the '
         "crate's Display and with independent encoders is the per-run correspondence check.",
 'design_ref': 'DESIGN.md section 6, C06',
 'note': 'Trusted: Coq kernel incl. vm_compute; hand-written Gallina model of src/address.rs, src/blech32/decode.rs, bech32 0.11 and base58ck; upstream bech32 '
         'constants by hand; SHA-256d and secp256k1 key validity abstract in theorems; translator regexes; extraction + OCaml driver audited by in-kernel '
         'vm_compute; Rust harness with independent encoders. Finding F5 is marked fixed in known_findings.txt.',
 'technique': 'Coq proof over a hand-written model of src/address.rs, src/blech32/decode.rs, bech32 0.11 and base58ck + per-run correspondence'}
