"""C13: check configuration (PROP) and MANIFEST texts (TEXT)."""
PROP = {'tables': ['C03'], 'n_quick': 260,
 'n_thorough': 4000,
 'audit': 6,
 'audit_maxlen': 5000,
 'rule': 'random operation sequences (1..16 operations quick, 1..40 thorough; every fifth case long) against ONE live SighashCache over generated '
         'transactions (1..5 inputs, 0..5 outputs, coinbase/plain/pegin/issuance/reissuance inputs, explicit/confidential outputs, witnesses): legacy, '
         'segwit-v0, taproot_sighash (annex, script path, code separator), key-spend and script-spend queries with all 6 ECDSA / 7 Schnorr types, '
         'Prevouts::All / One(own index) / One(other index) / One(foreign output), indices >= inputs and >= outputs, repeated queries, witness_mut updates '
         'in between, spent lists of the wrong length; plus one targeted One/All/One sweep over every Schnorr type. distinct = (transaction, spent, op '
         'sequence); non-trivial = (>= 2 inputs or a pegin/issuance/confidential field) and >= 2 operations',
 'trusted': ['SHA-256 and the TapSighash tagged hash are abstract functions in the theorems; runs use the Gallina SHA-256 of Base/Sha256.v',
             'the consensus encoders are the `enc` components of the C01 codecs (Model/Tx.v); they agree with the Rust encoders on canonical in-memory values, '
             'and the harness only supplies transactions decoded from consensus bytes',
             'sighash-type values, the ANYONECANPAY split tables, the TapSighash tag and the other constants are regenerated from the Rust text '
             '(translator/tables_C03.py)',
             'catch_unwind(AssertUnwindSafe) around a query whose documented panic (legacy/segwit index out of range) fires; the cache object is used further afterwards'],
 'assumes': ['every Prevouts::All of one history carries the same list of spent outputs (the property\'s "unchanged transaction"; DESIGN observation O3 otherwise)',
             'only script_witness is changed through the cache (witness_mut), as the API allows']}

TEXT = {'text': 'Kernel-checked theorems over a faithful model of SighashCache (three get_or_insert_with caches, Prevouts::All/One discipline, error order, '
         'documented panics), for abstract hash functions: C13_coherent — for every transaction, every list of spent outputs and every finite operation '
         'sequence whose Prevouts::All carry that list, the answers of one live cache equal, operation by operation, the answers of a cache created for '
         'that operation alone on the transaction with the witness updates made so far (proved through the invariant "every filled cache equals the value '
         'recomputed from the current transaction and spent outputs", C13_invariant/C13_step, and C13_caches_ignore_script_witness); C13_witness_independent — two caches over transactions differing only in script_sig / script witness / pegin witness give equal answers (digests, errors, panics) for every operation sequence; C13_need_all — '
         'Prevouts::One with a type without ANYONECANPAY is Err(PrevoutKind) in every state; C13_acp_one — for every ANYONECANPAY type (ALL|ACP, NONE|ACP, SINGLE|ACP), One(i, spent[i]) '
         'yields the same pre-image, digest and cache state as All (finding F11 was repaired by 539d5ee; the model follows the new cache layout). Each run drives one real SighashCache with random operation sequences, compares every '
         'answer with the extracted model and, on the implementation itself, with a fresh cache over the current AND over the original (pre-witness_mut) '
         'transaction and with One versus All.',
 'design_ref': 'DESIGN.md section 6, C13',
 'note': 'Trusted: Coq kernel; hand-written Gallina model of src/sighash.rs tied to the code by per-run correspondence; abstract hashes; the C01 encoders; '
         'regenerated constants. Finding F11 (ALL|ANYONECANPAY + Prevouts::One -> PrevoutKind) is fixed (539d5ee): the One/All theorem is unrestricted and the '
         'harness predicate acp-one-differs reports a recurrence as a violation.',
 'technique': 'Coq proof (state invariant + evaluation relation over a state monad; induction over operation sequences) + per-run model/implementation '
              'correspondence with implementation-side predicate (fresh cache, One vs All)'}
