"""C16: check configuration (PROP) and MANIFEST texts (TEXT)."""
PROP = {'n_quick': 700,
 'n_thorough': 12000,
 'audit': 12,
 'audit_maxlen': 1500,
 'release': True,
 'rule': 'random builder programs (0..12 ops: push_int over the whole i64 range incl. i64::MIN per profile, push_scriptint, push_slice with lengths on both '
         'sides of 75/76, 255/256, 65535/65536, push_opcode incl. the five foldable ones, push_verify) + fixed boundary programs + after every foldable (and 6 unfoldable) opcode every kind of push (empty/1-byte/2-byte slices, push_scriptint 0/+-1/16/17, push_int 0/-1/1..16/17, slices of 20..1000 bytes) followed by push_verify in 4 shapes + EVERY sequence of <= 4 (thorough <= 5) operations over a 9-symbol alphabet of operation kinds (2 foldable + 1 unfoldable opcode, empty slice, one-byte slice, PUSHDATA1 slice, push_scriptint 0, push_int 0, push_verify); script numbers +-2^k+-1 and '
         'random, read_scriptint on all 1-byte and sampled 0..6-byte strings; scripts: exact templates, near misses, witness version x program length grid, '
         'PUSHDATA edge cases; for a canonical instance of every template ALL 256 values at EVERY byte position (one sweep case per position) and every one-byte deletion/insertion; sweep: for each template family every length 0..45 x leading opcode (24 interesting + random in quick, all 256 in thorough) x '
         'ALL 256 push-length bytes per case; distinct = distinct case text; non-trivial = builder program with >= 1 push and >= 1 opcode, or a script within '
         'distance 1 of a template',
 'trusted': ['i64 values are Z with an explicit range premise; `-i64::MIN` is modelled per profile (Debug panics, Release wraps) and the harness runs both '
             'profiles',
             "the builder's Vec<u8> is modelled as a reversed list; data slices of 2^32 bytes or more (push_slice panic) are in the theorems but not in the "
             'correspondence runs',
             'opcodes::All::classify is modelled for ClassifyContext::Legacy only (the context Instructions::next uses); opcode byte values, the Ordinary list '
             'and MAX_SCRIPT_SIZE are regenerated from the Rust text',
             'Address::from_script is modelled on the payload (network parameters and blinding key are passed through unchanged by the code); the address text '
             "codec is C06: C16_from_script_text is stated relative to C06's round-trip theorem as an explicit premise, while the harness checks the real "
             'Display/FromStr end to end'],
 'assumes': ['integers handed to the builder are i64 values', "C06 (address text round trip) for the clause 'its text form parses back to the same address'"]}

TEXT = {'text': 'Kernel-checked theorems over an executable model of script.rs/opcodes.rs/address.rs, for every profile, every finite sequence of builder operations '
         'and every byte string: iterating a built script yields exactly the pushes and opcodes added, with push_int special cases and VERIFY folding explicit '
         '(C16_readback); which programs panic (C16_build_total); push_slice writes the shortest of the four header forms, all of which decode to the same '
         'push (C16_min_push, C16_push_forms_decode); instructions_minimal succeeds iff no pushed slice is a single byte in 1..16/0x81 (C16_min_iter); script '
         'numbers round-trip for |n| < 2^31 and give NumericOverflow beyond, i64::MIN panics iff overflow checks are on (C16_scriptint*); one byte-form iff '
         'per template predicate (C16_templates, C16_v1plus); from_script yields an address exactly for the templates and its script_pubkey is the original '
         'script (C16_from_script, C16_from_script_roundtrip), text round trip relative to C06 (C16_from_script_text). All of these hold for every '
         'byte string: finding F14 (from_script(51 01 aa) gave an address whose text did not parse) was re-derived by this check, repaired in the library '
         '(0a76697, lower bound 2 in is_v1plus_p2witprog), the model follows the repaired code and the harness reports such inputs as violations again.',
 'design_ref': 'DESIGN.md section 6, C16; finding F14 in section 7 (fixed)',
 'note': 'Trusted: Coq kernel; hand-written model tied to the code by the per-run correspondence check (debug and release profiles); translator for opcode '
         'values; extraction + OCaml driver audited by in-kernel vm_compute; Rust harness. The address text codec is property C06 and enters as an explicit '
         'premise.',
 'technique': "Coq proof (builder invariant over an inductive 'built script' relation, 256-way opcode enumeration in the kernel, sign-magnitude arithmetic) + "
              'per-run model/implementation correspondence incl. an exhaustive length x opcode x push-length sweep around each template'}
