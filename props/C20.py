"""C20: check configuration (PROP) and MANIFEST texts (TEXT)."""
PROP = {'n_quick': 160,
 'n_thorough': 2000,
 'audit': 10,
 'audit_maxlen': 1500,
 'rule': 'text: every Display/FromStr type (15 hash newtypes, 2 blinding factors, Sequence, LockTime, Height, Time, OutPoint, 3 sighash types) x '
         '(boundary + random values printed and parsed back; near-miss strings: sign, leading zeros, case, whitespace, 0x, empty, wrong length, bad and '
         'non-ASCII characters, overflow, other byte order, out-of-range tweaks; every sighash name and hex form); serde: structured transactions, single '
         'inputs/outputs, headers (proof / dynafed with null, compact, full params), blocks, params, confidential values, outpoints, lock times, secrets, '
         'blinding factors, scripts, hash newtypes, addresses and sighash types serialized to JSON text and CBOR bytes and read back; LockTime JSON on both '
         'sides of the threshold through Deserialize; 37 hand-made malformed trees; derived PSET serde: real PSETs from the C07 generators (repository vectors, every optional field alone, tap-tree shapes, random field '
         'subsets) given to the model as neutral value trees plus a table of what the real crate serialized each dependency leaf to; the model renders the '
         'exact JSON text and CBOR bytes of the whole PartiallySignedTransaction and its read-back verdicts (JSON text, serde_json::Value, CBOR); predicate '
         'de(ser x) == x for the PSET, its Global and every Input / Output in all three formats; LockTime through all seven constructors at the boundary '
         'values; distinct = distinct case text; non-trivial = value not the type\'s '
         'default',
 'trusted': ['serde_json 1.0.151 / serde_cbor 0.8.2 / serde 1.0.229 are modelled, not verified: json_view / cbor_view transcribe what their serializers put on the '
             'wire and the node kinds their deserializers hand to visitors (checked every run byte-for-byte: the model renders the exact JSON text and CBOR bytes)',
             'leaf impls from dependencies are transcribed: secp256k1-zkp 0.11 Generator/PedersenCommitment/RangeProof/SurjectionProof/Tweak, secp256k1 0.29 '
             'PublicKey (hex / 33-tuple), bitcoin 0.32 ScriptBuf and OutPoint::from_str, bitcoin_hashes 1.2 impl_serde_traits!, hex-conservative 0.2/1.3 '
             'decode_to_array, core u32::from_str / from_str_radix, and the serde_derive output for Sequence, LockTime/Height/Time, TxOutSecrets',
             'curve-point validity is an oracle `pt_ok` (the harness reports the valid 33-byte windows of each case); range/surjection proof acceptance is the '
             'header rule of Model/Tx.v (C01)',
             'strings are byte lists; the harness only feeds valid UTF-8'],
 'assumes': ['Address and the PSET base64 form: their Display/FromStr round trips are C06 / C07; here Address serde is proved relative to that round trip '
             '(C20_serde_string_forms) and exercised on generated addresses',
             'derived PSET serde: serde_derive output is modelled by its regular shape (struct = map keyed by field name in declaration order, unknown keys '
             'skipped, repeated keys rejected, missing fields rejected unless Option, positional sequence accepted) over field lists and attributes regenerated '
             'from the source; dependency leaves (bitcoin::PublicKey, XOnlyPublicKey, schnorr::Signature, bip32 KeySource and Xpub, bitcoin::Transaction) and '
             'pset::TapTree (derived over private fields of TaprootBuilder) are Section-variable codecs with a round-trip premise, instantiated per case from '
             'what the real crate serialized; a BTreeMap is its list of pairs in iteration order (on malformed input with repeated keys the model keeps all, '
             'Rust the last)',
             'values reach the model through their consensus encoding, so serde correspondence runs on consensus-canonical values (the theorems do not need '
             'canonicity); deserialization of trees that no Serialize impl produces is compared on 37 fixed probes only',
             'serde_derive / serde_cbor also accept integer variant indices and single-entry maps for enums; de_locktime does not model those inputs']}

TEXT = {'text': 'Kernel-checked theorems. Text forms: parse_T (print_T x) = Ok x for every value of every Display/FromStr pair — the 15 hash newtypes (one theorem over '
         'the regenerated (name, length, Display direction, FromStr direction) table), both blinding factors (with the Tweak < group order check), Sequence, '
         'LockTime, Height, Time (decimal u32 with core\'s exact accepted syntax: optional +, leading zeros, overflow), OutPoint ([elements] prefix, 75-byte cap, '
         'single colon, canonical vout), Ecdsa/Schnorr sighash types over the string tables read from the source, PsbtSighashType for every u32 (named or '
         '{:#x}; trim_start_matches("0x") + from_str_radix), and the generic numeral lemma for every radix 2..16 and width. Serde: for Transaction, TxIn, TxOut, '
         'both witnesses, AssetIssuance, OutPoint, Block, BlockHeader, ExtData, Params, confidential Value/Asset/Nonce, TxOutSecrets, LockTime, hash newtypes, '
         'midstate wrappers, Script, blinding factors and the Display-string types: de_T true (json_view (ser_T true x)) = Ok x and de_T false (cbor_view '
         '(ser_T false x)) = Ok x under exactly the invariants of the Rust type (and, by a bridge lemma, under the consensus codecs\' wf). The serde_derive-generated impls of PartiallySignedTransaction, '
         'pset::Global, TxData, Input (49 fields), Output (20), raw::Key, ProprietaryKey, SchnorrSig, ControlBlock and the four serde_utils helpers are codecs '
         'assembled from proved combinators over field tables regenerated from the source: C20_serde_PartiallySignedTransaction states the round trip for '
         'every well-formed PSET value (any number of maps, any subset of fields, maps of any size) in both views, relative to the round trip of the '
         'dependency leaves. Findings F17 (Height/Time Deserialize skipped the threshold), F28 (flattened tx_data duplicated the key version: no PSET could '
         'be read back), F29 (Parity visitor) and F30 (borrowed-str map values) were found by this check and are repaired in the library (6e5fde4, 8e1b994, '
         '49e2be3, b4e5a99); the model follows the repaired code and a recurrence is a predicate violation. Every run the model reproduces the crate\'s JSON text and CBOR bytes '
         'byte-for-byte and its accept/reject/value/error-class on thousands of near-miss strings.',
 'design_ref': 'DESIGN.md section 6, C20 (notes/C20.md)',
 'note': 'Trusted: Coq kernel; hand-written Gallina transcriptions of the Display/FromStr/Serialize/Deserialize impls and of the dependency leaves (listed in '
         'evidence.trusted_base), tied to the code by translator tables (all sighash strings, enum values, prefixes, direction flags, field-name lists, tags, '
         'byte-swap flags, macro shapes) and per-run correspondence; serde_json/serde_cbor behaviour is modelled by two views. Premises: the dependency '
         'leaves of the PSET types and pset::TapTree round-trip on their own (checked on the real crate by every ps case). Not covered: the PSET base64 text form (C07); Address text round trip (C06, used as a premise). F15 (SchnorrSighashType::Reserved '
         'inside a SchnorrSig) concerns to_vec/from_slice, not these forms: as a string and in serde Reserved round-trips (C20_text_reserved_sighash).',
 'technique': 'Coq proof (numeral lemmas by induction on fuel, hex by byte enumeration, finite sighash tables by kernel computation over the regenerated lists, '
              'serde structs by symbolic evaluation of the visitor fold) + per-run model/implementation correspondence'}
