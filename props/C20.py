"""C20: check configuration (PROP) and MANIFEST texts (TEXT)."""
PROP = {'n_quick': 200,
 'n_thorough': 2000,
 'audit': 10,
 'audit_maxlen': 1500,
 'rule': 'text: every Display/FromStr type x (boundary + random values printed and parsed back; near-miss strings: sign, leading zeros, case, '
         'whitespace, 0x, empty, wrong length, bad characters, non-ASCII, overflow); distinct = distinct (type, value or string); non-trivial = value not the '
         "type's default",
 'trusted': [],
 'assumes': []}

TEXT = {'text': 'pending',
 'design_ref': 'DESIGN.md section 6, C20',
 'note': 'pending',
 'technique': 'Coq proof + per-run model/implementation correspondence'}
