"""C03: check configuration (PROP) and MANIFEST texts (TEXT)."""
PROP = {'n_quick': 60,
 'mismatch_is_failing_input': True,   # the Coq specification IS the independent implementation: a model/implementation line difference is the failing input
 'n_thorough': 700,
 'audit': 1,
 'audit_maxlen': 9000,
 'rule': "two streams: (i) the repository's pinned vectors (test_legacy_sighashes / test_segwit_sighashes of src/sighash.rs, 20 queries, expected digests "
         'checked on the implementation), (ii) generated transactions (1..5 inputs, 0..5 outputs; coinbase/plain/pegin/issuance/reissuance/pegin+issuance '
         'inputs; explicit/confidential/null outputs; range and surjection proofs) with, per transaction, every input index (and one beyond the inputs, and '
         'indices >= outputs for SINGLE), a full sweep of all 6 ECDSA types for legacy and segwit-v0 and all 7 Schnorr types (+ Reserved) at one index and a '
         'random third of them at the others (thorough: full product), taproot via taproot_sighash / key-spend / script-spend with key or script path, annex '
         '(valid, empty, wrong prefix), code-separator positions, Prevouts::All / One(own) / One(foreign output), spent lists of the wrong length, stray issuance range proofs on inputs without an issuance, leaf hashes computed by the '
         'library from scripts of 0..65536 bytes (compact-size boundaries); every query '
         'on a fresh cache, digest AND pre-image writer. distinct = (transaction, spent, query list); non-trivial = >= 2 inputs or a pegin/issuance/'
         'confidential field',
 'trusted': ['the SPECIFICATION (coq/Model/SighashSpec.v) is a hand transcription of Elements consensus (SignatureHash BASE/WITNESS_V0, '
             'CTransactionSignatureSerializer, SignatureHashSchnorr, BIP143/341/342) made without access to Elements Core; it is the independent '
             'definition the property asks for and is itself trusted',
             'open question Q1: the legacy input serializer is specified with the pegin/issuance flag bits inside the outpoint index '
             '(legacy_flags_in_index = true, the value the code implements; the pinned Elements-Core vector with an issuing input is reproduced by true and '
             'not by false — Example C03_Q1_pinned_vector); no vector exists for the pegin bit',
             'SHA-256 and the TapSighash tagged hash are abstract functions in all theorems; runs use the Gallina SHA-256 of Base/Sha256.v',
             'primitive consensus encoders are the C01 codecs (Model/Tx.v); TxIn::consensus_encode is modelled literally (it agrees with the C01 codec on '
             'canonical inputs, lemma e_txin_canonical); the harness only supplies transactions decoded from consensus bytes',
             'sighash-type values, ANYONECANPAY split tables, the SIGHASH_SINGLE constant, KEY_VERSION_0, the default code-separator position, the annex '
             'prefix and the TapSighash tag are regenerated from the Rust text (translator/tables_C03.py)'],
 'assumes': ['input_index < 2^32 in the taproot refinement theorem (the code casts usize to u32)',
             'OP_CODESEPARATOR removal from the legacy/segwit script code is the caller\'s job (documented in sighash.rs); the specification takes the script code as given',
             'sensitivity theorems: canonical transactions (canon_tx, proved for every decoded transaction), 32-byte genesis/leaf hashes, byte strings < 2^64, and '
             'SHA-256 outputs are 32 bytes (hypothesis Hlen); residual: segwit hashIssuance does not determine which inputs issue (consensus format; exhibited)']}

TEXT = {'text': 'Kernel-checked refinement of a faithful model of src/sighash.rs (three caches, Prevouts discipline, error order, documented panics) to a '
         'declarative transcription of the Elements signing messages, for abstract hash functions and every transaction: C03_legacy_refines (digest level, whole domain) / C03_legacy_refines_message, '
         'C03_segwit_refines, C03_taproot_refines (for every existing input index, script code, amount, spent-output list, annex, leaf hash, '
         'code-separator position, genesis hash and every one of the 6 ECDSA / 7 Schnorr types the written pre-image equals the specified message and the '
         'digest its (double / tagged) hash), the documented panics occur exactly where consensus defines nothing, the convenience entry points and '
         'Prevouts::One agree with taproot_sighash/All; irrelevance of uncommitted fields for every numeric hash type (script_sig and witness stacks in '
         'all three algorithms, every witness field in legacy/segwit, outputs under NONE, other inputs and their prevouts under ANYONECANPAY, other outputs '
         'under SINGLE, other inputs\' sequences under NONE/SINGLE in legacy/segwit); exact sensitivity: for canonical transactions the digest of each algorithm changes iff its committed view '
         '(Model/SighashCommit.v: the per-type list of in-memory fields) changes — equal digests imply equal views or an explicit collision '
         '(C03_committed_matters_*), equal views imply equal digests (C03_committed_complete_*); the legacy message is injective outright; the single '
         'residual (segwit hashIssuance is not parseable without the issuing pattern) is exhibited and bounded (C03_issuances_given_pattern). With SIGHASH_SINGLE and no matching output the writer emits 0100..00 and the digest IS 0100..00 as in consensus '
         '(C03_legacy_single_out_of_range; finding F17 — the constant was hashed — was repaired by b8dcccb). Each run compares digests and pre-image bytes of the '
         'real crate with the extracted model and with the specification on generated transactions and the repository\'s pinned vectors.',
 'design_ref': 'DESIGN.md section 6, C03 (and open question Q1)',
 'note': 'Trusted: Coq kernel; the specification transcription itself (no Elements Core offline) with Q1 as an explicit parameter; hand-written Gallina '
         'model tied to the code by per-run correspondence of digests and pre-images; abstract hashes; regenerated constants. Finding F17 '
         '(legacy SIGHASH_SINGLE out-of-range digest hashed once too often) is fixed (b8dcccb) and a recurrence is a violation (predicate '
         'legacy-single-oob-digest). There is no independent implementation besides the Coq specification, so a model/implementation line difference is '
         'itself the failing input (mismatch_is_failing_input). Sensitivity is proved at full strength with one exhibited residual of the consensus format (segwit hashIssuance).',
 'technique': 'Coq proof (refinement of a state-monad implementation model to a declarative specification; irrelevance by congruence over explicit '
              'relations; collision extraction) + per-run correspondence of digests and pre-image writers, pinned vectors, implementation-side consistency predicates'}
