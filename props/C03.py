"""C03: check configuration (PROP) and MANIFEST texts (TEXT)."""
PROP = {'n_quick': 60,
 'n_thorough': 700,
 'audit': 2,
 'audit_maxlen': 12000,
 'rule': 'tbd',
 'trusted': [],
 'assumes': []}
TEXT = {'text': 'tbd', 'design_ref': 'DESIGN.md section 6, C03', 'note': 'tbd', 'technique': 'tbd'}
