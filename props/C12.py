"""C12: check configuration (PROP) and MANIFEST texts (TEXT)."""
PROP = dict(
    tables=["C01"],
    n_quick=300, n_thorough=5000, audit=8, audit_maxlen=4000,
    rule="structured transactions and blocks over C01's feature lattice (with and without witnesses, witnesses only on inputs / only on outputs, script and witness "
         "lengths on both sides of every varint boundary incl. 0xffff/0x10000) serialised by the crate, plus the repository vectors; the seven accessors are compared with the "
         "model and recomputed independently on the implementation from serialized lengths; distinct = distinct bytes; non-trivial = at least one input or output",
    trusted=["same model, oracles and caps as C01 (the theorems are about the encoder of C01)",
             "usize arithmetic is modelled in N: overflow of usize is not modelled (sizes are bounded by memory); the only subtraction (discount_weight) is proved never to underflow"],
    assumes=["transactions are canonical (wf), i.e. as produced by the decoder"],
)

TEXT = dict(
    text="Kernel-checked theorems that the hand-written size arithmetic of Transaction::scaled_size (transcribed term by term) equals the encoder of C01 for every "
         "canonical transaction: size = serialized length, weight = 3 x stripped length + full length, vsize = ceil(weight/4), discount_weight = weight minus the "
         "per-output discounts with no usize underflow, Block::size = serialized length, Block::weight = 4 x (header + count) + sum of tx weights. Unbounded in every size. "
         "The seven accessors of the real crate are compared with the model and with lengths recomputed from serialization on every check.",
    design_ref="DESIGN.md section 6, C12",
    note="Trusted: as C01; usize overflow not modelled. Non-canonical in-memory transactions (e.g. an outpoint index >= 2^30 set by hand) are outside the theorems.",
    technique="Coq proof (sums over lists + codec length law of C01, lia) about the size accessors as TRANSLATED from the Rust source on every run (rust2coq: Gen/SrcSizes.v, proved equal to the model, with generated no-panic conditions) + per-run model/implementation correspondence",
)
