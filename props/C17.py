"""C17: check configuration (PROP) and MANIFEST texts (TEXT)."""
PROP = {'n_quick': 700,
 'n_thorough': 8000,
 'audit': 10,
 'audit_maxlen': 400,
 'rule': 'valid segwit addresses over network x blinded x {constructors p2wpkh/p2wsh/p2tr, v0 20/32, v1..16 length 2..40} x letter case, each with one sampled '
         'corruption: one data character, two data characters, the witness-version character (+ one more), a replacement in the other letter case, one or two '
         'HRP characters; for every sampled address all 2^len case patterns of the human-readable part with a lower- and an upper-case data part (kind c: only the two single-case forms may parse); for one address of each (network, blinded) class, in lower and in upper case, every replacement of one and of every two HRP characters by the other 65 characters of the HRP alphabet (kind r); plus complete enumerations of all replacements at one or two fixed positions (quick: 6 sampled position pairs; thorough: every '
         'position pair of an unblinded v0 and an unblinded v1 address, every single position and every pair containing one of 8 positions for two blinded '
         'addresses); distinct = distinct case line; non-trivial = the original parses as a segwit address',
 'trusted': ['the bech32/bech32m constants (generator, target residues, checksum length 6, 90-character and 2..40/20|32 limits) are transcribed by hand from '
             'the upstream bech32-0.11.1 crate; the blech32/blech32m constants, the local witness-length limits and the address parameters are re-read from '
             '/repo/src on every run',
             'the model keeps the residue as an unbounded N masked to 5*(CHECKSUM_LENGTH-1) bits before the shift (equal to the u32/u64 code on residues below '
             '2^(5*CHECKSUM_LENGTH), which is an invariant); 8<->5 bit regrouping is modelled over bit lists',
             'SHA-256d (base58check) and secp256k1 public-key validity are parameters of the model in every theorem; runs use Base/Sha256.v and '
             'Base/SecpField.v'],
 'assumes': ['total word length (HRP expansion + data + checksum symbols) <= 1023 for the distance theorem, <= 140 for the variant-switch theorem; segwit '
             'addresses of the three built-in networks are at most 137 symbols',
             "HRP corruptions and parsing under another network's parameters can leave the code (other checksum family / base58check); there the theorem keeps "
             'explicit residual disjuncts (C17_hrp: hrp_residual_base58, hrp_residual_cross)']}

TEXT = {'text': 'Kernel-checked: the checksum engine step is GF(2)-linear (C17_linear); the residue of a corrupted word is the residue of the word xor the syndrome '
         'of the error pattern (C17_syndrome); for each of bech32, bech32m (upstream constants) and blech32, blech32m (constants re-read from '
         'src/blech32/mod.rs) the 31*1023 values Z^a(u) are pairwise distinct and non-zero (C17_table, vm_compute), hence a word of total length <= 1023 at '
         'Hamming distance 1 or 2 from a codeword is not a codeword (C17_two_errors), and a word within distance 2 of a bech32 (blech32) codeword is not a '
         'bech32m (blech32m) codeword and vice versa for lengths <= 140 (C17_switch). Lifted to address strings by C17_address. A string with letters of both cases anywhere (HRP included) is rejected by either decoder and never parses as a segwit address (C17_mixed_case, C17_mixed_case_address, C17_hrp_case: the case part of the HRP clause). Replacing the HRP by an equally long string that is not a re-casing (C17_hrp): rejected by FromStr and under every built-in network, with two explicit residual disjuncts — the new prefix is no built-in HRP and the whole string is a valid base58check address for the hash (impossible when any character, e.g. a 0 or l of the data part, is outside the base58 alphabet), or the new prefix is the HRP of the other checksum family and the same symbols are a codeword there too (lengths leave only a 40-byte unblinded program <-> blinding key + 3-byte program); a built-in HRP of the same family (ert<->tex, lq<->el) is rejected for every data part by a kernel sweep over the 12 ordered same-length HRP pairs x 4 codes x 1023 lengths (C17_hrp_swap); C17_hrp_common: no residual for 20/32-byte programs whose text has a 0 or l. Parsing a data-corrupted address under the other networks: C17_address_every_network.',
 'design_ref': 'DESIGN.md section 6, C17',
 'note': 'Trusted: Coq kernel incl. vm_compute; hand-written Gallina model of the bech32 0.11 engine/decoder and of src/blech32/decode.rs, src/address.rs; '
         'upstream bech32/bech32m constants transcribed by hand; translator regexes; extraction + OCaml driver audited by in-kernel vm_compute; Rust harness. '
         'The tie model<->code is differential testing on every run (sampled corruptions; complete position-pair enumerations in the thorough tier).',
 'technique': 'Coq proof: bit-level linearity + syndrome decomposition + kernel-evaluated distance table (merge sort, 31 713 entries per code) + per-run '
              'model/implementation correspondence with the property predicate evaluated on the implementation'}
