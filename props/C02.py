"""C02: check configuration (PROP) and MANIFEST texts (TEXT)."""
PROP = dict(
    tables=["C01"],
    n_quick=200, n_thorough=3000, audit=6, audit_maxlen=3000,
    rule="structured transactions and headers over C01's feature lattice (incl. dynafed headers with non-empty signblock witness) + repository vectors; for each, the "
         "harness applies every single-field modification (classified witness-only / non-witness) on the implementation and checks which change the id; the model "
         "predicts txid, wtxid and block hash byte for byte with its own SHA-256; distinct = distinct bytes; non-trivial = at least one input or output / any header",
    trusted=["same codec model, oracles and caps as C01", "double-SHA256 is an abstract function H in the theorems; the executable instance is Base/Sha256.v"],
    assumes=["'always changes' is proved as collision extraction: equal ids imply equal stripped values or an explicit collision of H"],
)
TEXT = dict(
    text="Kernel-checked theorems over an abstract hash H: the txid pre-image the code assembles is exactly the C01 serialization of the witness-stripped transaction, "
         "wtxid hashes the full serialization; equal stripped transactions have equal txids; two canonical transactions with equal txids have equal stripped forms or "
         "exhibit a collision of H; wtxid = txid exactly when there is no witness (up to a collision); the block-hash pre-image followed by one zero byte is the header "
         "serialization with solution/witness emptied, carries the dynafed bit, is unchanged by clear_witness, and determines the cleared header up to a collision.",
    design_ref="DESIGN.md section 6, C02",
    note="Trusted: as C01; H abstract (collision extraction instead of collision resistance).",
    technique="Coq proof (corollaries of the C01 codec laws: encoder injectivity on canonical values) + per-run model/implementation correspondence with every single-field edit",
)
