"""C04: check configuration (PROP) and MANIFEST texts (TEXT)."""
PROP = {'n_quick': 150,
 'n_thorough': 1500,
 'audit': 4,
 'audit_maxlen': 6000,
 'rule': 'explicit transactions generated over the shape lattice (1..4 inputs, 1..3 base assets + issued assets/tokens, spent outputs explicit / '
         'confidential / mixed, explicit issuances and reissuances with and without inflation keys, 2..7 outputs, fee in any position) and blinded by '
         'the real crate under a seeded ChaCha20 stream; per shape several marked subsets (quick) or every non-empty subset of the non-fee outputs '
         '(thorough); plus an edge stream (nothing marked, non-address script, zero amounts, i64::MAX and i64::MAX+1, foreign asset, unbalanced, zero '
         'issuance). distinct = distinct case text (shape, marked set, seed); non-trivial = blinding succeeded with at least one confidential output',
 'trusted': ['issuance asset / token ids in the case text are derived by the harness from the protocol formulas, independently of TxIn::issuance_ids(); issuances range over {null, explicit, confidential}^2 for (amount, inflation keys) — confidential ones by correspondence only',
             'IDEAL-COMMITMENT MODEL (partial w.r.t. cryptography): Pedersen commitments and asset generators are formal Z/n-linear combinations over '
             'independent basis elements G, H_asset (Base/FreeMod.v); libsecp256k1-zkp (Borromean range proofs, surjection proofs, ECDH, hash-to-curve) '
             'is not verified',
             'ideal range proof: verifies iff intact, presented with exactly the (commitment, script, generator) it was made for, and its witness opens '
             'the commitment in [0,2^64); creation needs 1 <= value <= i64::MAX (rangeproof_sign / range_proveparams with min_value 1); rewind with the '
             'sealing key returns the embedded (value, vbf, message)',
             'ideal surjection proof: verifies iff intact, presented with exactly its (output generator, domain), witness = (index, difference of '
             'blinding factors); which (at most 3) inputs the real proof uses is not modelled; domains of more than 256 entries are outside the model',
             'keys: pubk/ecdh abstract in the theorems (only ECDH symmetry is assumed); in runs a public key is represented by its secret key and ECDH '
             'is multiplication mod n',
             'asset ids are numbers (32-byte tag big-endian); issuance asset/token ids are read from the case (computed by the crate; C11\'s property)',
             'the model takes its randomness as an explicit list; the harness reads the drawn scalars back from the map `blind` returns'],
 'assumes': ['blind_issuances = false (explicit issuances only; observation O4)', 'at most 256 surjection-domain entries',
             'Address::from_script / script_pubkey as modelled for C16 (Model/Script.v)']}

TEXT = {'text': 'Kernel-checked theorems in the ideal-commitment model (level: proof in the ideal model, partial w.r.t. cryptography), universal in the numbers '
         'of inputs/outputs, assets, amounts, marked subsets and all random choices: ValueBlindingFactor::last is the explicit formula and makes the '
         'G-coordinates of input and output commitments balance for every split (C04_last_vbf_formula, C04_last_balances); for every explicit '
         'transaction with positive amounts, balanced per asset including explicit issuances, opened by the caller\'s secrets, with at least one marked '
         'output on an address script, Transaction::blind succeeds and the result passes verify_tx_amt_proofs (C04_blind_verifies); every marked '
         'output is reported, carries exactly the commitments of the reported factors and unblinds with the receiver key to the original asset/value '
         'and those factors, nothing else changes (C04_unblind, from ECDH symmetry only). With no output marked blind returns '
         'TooFewBlindingOutputs and never panics (C04_no_marked_error / C04_no_marked_never_panics; finding F12 repaired by 8d5600e). The model is tied to the crate on '
         'every run: generated transactions are blinded by the real crate under a seeded RNG, and the model, fed the drawn scalars, must reproduce '
         'bit-exactly the returned map (incl. the last value blinding factor), the verification verdict and the unblinded secrets.',
 'design_ref': 'DESIGN.md section 6, C04',
 'note': 'Trusted: Coq kernel; the ideal-commitment idealisation (no statement about libsecp256k1-zkp); hand-written Gallina model of blind/verify/unblind '
         'tied by per-run correspondence; harness. Finding F12 (panic when nothing is marked) is fixed (8d5600e); a return of it is a VIOLATION. Observation: verify_tx_amt_proofs panics '
         '(assert in PedersenCommitment::new_unblinded) on an explicit issuance amount of 0.',
 'technique': 'Coq proof in an ideal-commitment model (ring identities in Z/n via a congruence setoid, loop invariant over the output loop, '
              'coefficient calculus in the free module) + per-run bit-exact model/implementation correspondence'}
