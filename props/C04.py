"""C04: check configuration (PROP) and MANIFEST texts (TEXT)."""
PROP = {'n_quick': 40,
 'n_thorough': 400,
 'audit': 4,
 'audit_maxlen': 6000,
 'rule': 'TODO',
 'trusted': [],
 'assumes': []}

TEXT = {'text': 'TODO', 'design_ref': 'DESIGN.md section 6, C04', 'note': 'TODO', 'technique': 'TODO'}
