#!/bin/bash
# seed_recheck.sh: re-run the quick checks against every kept seeded mutation on the CURRENT /repo and framework
# (patches written before the fix: commits are applied with --3way). Records "checks_current" in seeded/<id>/meta.json.
VD=${VERIF_DIR:-/verif}
for d in /verif/seeded/*/; do
  id=$(basename $d); P=${id%-*}
  WT=/tmp/rc-repo-$id
  git -C /repo worktree add -q $WT HEAD || continue
  if git -C $WT apply $d/patch.diff 2>/dev/null || git -C $WT apply --3way $d/patch.diff 2>/dev/null; then APPLIED=yes; else APPLIED=no; fi
  git -C $WT checkout -q -- tests 2>/dev/null
  RES=""
  if [ $APPLIED = yes ]; then
    CHECKS=$(python3 -c "import json;print(' '.join(sorted(json.load(open('$d/meta.json')).get('checks',{'$P':1}).keys())))")
    for c in $CHECKS; do
      OUT=$(cd $VD && ELEMENTS_REPO=$WT ./check $c 2>&1 | grep -v "^KNOWN-FINDING")
      if echo "$OUT" | grep -q "^VIOLATION"; then V=caught; if echo "$OUT" | grep -q "no-failing-input-found"; then V=caught-no-input; fi; else V=MISSED; fi
      RES="$RES $c:$V"
    done
  else RES="patch-does-not-apply-after-fixes"; fi
  git -C /repo worktree remove --force $WT
  python3 - "$d" "$RES" <<'PY'
import json,sys
d,res=sys.argv[1],sys.argv[2]
m=json.load(open(d+'meta.json'))
m['checks_current']=dict(x.split(':') for x in res.split()) if ':' in res else res
json.dump(m,open(d+'meta.json','w'),indent=1)
print(d.split('/')[-2],res)
PY
done
