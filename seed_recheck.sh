#!/bin/bash
# seed_recheck.sh <stream-name> <id>... : re-run the quick checks against kept seeded mutations on the CURRENT /repo and framework.
# One fixed scratch worktree per stream (so cargo only rebuilds what the patch touches); patches written before later fix: commits
# are applied with --3way. Records "checks_current" in seeded/<id>/meta.json. VERIF_DIR selects the framework copy to run (a git
# worktree of /verif at the commit under test), so /verif's own build and evidence stay untouched.
S=$1; shift
VD=${VERIF_DIR:-/verif}
WT=/tmp/rc-repo-$S
git -C /repo worktree remove --force $WT 2>/dev/null
git -C /repo worktree add -q --detach $WT HEAD || exit 2
cp /repo/Cargo.lock $WT/ 2>/dev/null
for id in "$@"; do
  d=/verif/seeded/$id/; P=${id%%-*}
  git -C $WT reset -q --hard HEAD; git -C $WT clean -fdq -e Cargo.lock -e target
  # a patch written before later fix: commits may no longer apply: plain apply, else a conflict-free 3-way merge; never a fuzzy/partial application
  if git -C $WT apply $d/patch.diff 2>/dev/null || { git -C $WT apply --3way $d/patch.diff 2>/dev/null && [ -z "$(git -C $WT diff --name-only --diff-filter=U)" ] && ! grep -rqs '^<<<<<<< ' $WT/src; }; then
    CHECKS=$(python3 -c "import json;print(' '.join(sorted(json.load(open('$d/meta.json')).get('checks',{'$P':1}).keys())))")
    RES=""
    for c in $CHECKS; do
      OUT=$(cd $VD && ELEMENTS_REPO=$WT ./check $c 2>&1 | grep -v "^KNOWN-FINDING")
      if echo "$OUT" | grep -q "^VIOLATION"; then V=caught; if echo "$OUT" | grep -q "no-failing-input-found"; then V=caught-no-input; fi; else V=MISSED; fi
      RES="$RES $c:$V"
    done
  else RES="patch-does-not-apply-after-fixes"; git -C $WT reset -q --hard HEAD; fi
  python3 - "$d" "$RES" <<'PY'
import json,sys
d,res=sys.argv[1],sys.argv[2]
m=json.load(open(d+'meta.json'))
m['checks_current']=dict(x.split(':') for x in res.split()) if ':' in res else res
json.dump(m,open(d+'meta.json','w'),indent=1)
print(d.split('/')[-2],res, flush=True)
PY
done
git -C /repo worktree remove --force $WT
