#!/bin/bash
# seed_eval2.sh <id> [extra check ids...] : confirm the seeded mutation kept in /verif/seeded/<id>/ (patch.diff, demo.rs, meta_agent.json)
# and run the quick checks against it from the framework copy $VERIF_DIR (default /verif). Writes meta.json.
ID=$1; shift; P=${ID%%-*}; CHECKS="$P $@"
DST=/verif/seeded/$ID; WT=/tmp/ev-repo-$ID
export CARGO_NET_OFFLINE=true CARGO_TARGET_DIR=${EV_TARGET:-/tmp/ev-target}
git -C /repo worktree remove --force $WT 2>/dev/null
git -C /repo worktree add -q --detach $WT HEAD || exit 2
cp /repo/Cargo.lock $WT/ 2>/dev/null
mkdir -p $WT/tests; cp $DST/demo.rs $WT/tests/seed_demo.rs
cd $WT
cargo test --offline --features serde,base64 --test seed_demo > $DST/demo_clean.log 2>&1; CLEAN=$?
git apply $DST/patch.diff 2>/dev/null || git apply --3way $DST/patch.diff || { echo "patch does not apply"; }
cargo test --offline --lib --features serde,base64 > $DST/unit_mutated.log 2>&1; UNIT=$?
cargo test --offline --features serde,base64 --test seed_demo > $DST/demo_mutated.log 2>&1; MUT=$?
rm -f tests/seed_demo.rs
cd ${VERIF_DIR:-/verif}
RES=""
for c in $CHECKS; do
  OUT=$(ELEMENTS_REPO=$WT ./check $c 2>&1 | grep -v "^KNOWN-FINDING"); echo "$OUT" > $DST/check_$c.log
  if echo "$OUT" | grep -q "^VIOLATION"; then V=caught; if echo "$OUT" | grep -q "no-failing-input-found"; then V=caught-no-input; fi; else V=MISSED; fi
  RES="$RES $c:$V"
done
git -C /repo worktree remove --force $WT
python3 - "$ID" "$CLEAN" "$UNIT" "$MUT" "$RES" <<'PY'
import json,sys
i,clean,unit,mut,res=sys.argv[1:6]
d='/verif/seeded/%s/'%i
a=json.load(open(d+'meta_agent.json'))
meta={"property":i.split('-')[0],"breaks":a.get("summary"),"needs":a.get("needs"),"why_tests_miss":a.get("why_tests_miss"),
 "confirmed":{"demo_passes_on_clean_tree":clean=="0","unit_tests_pass_with_mutation":unit=="0","demo_fails_with_mutation":mut!="0"},
 "ran":["cargo test --offline --features serde,base64 --test seed_demo (clean worktree)","git apply patch.diff","cargo test --offline --lib --features serde,base64","cargo test ... --test seed_demo (mutated)","ELEMENTS_REPO=<worktree> ./check <id> for: "+res.strip()],
 "checks":dict(x.split(':') for x in res.split())}
json.dump(meta,open(d+'meta.json','w'),indent=1)
print(i,"clean_demo_ok=%s unit_ok=%s demo_fails=%s"%(clean=="0",unit=="0",mut!="0"),res, flush=True)
PY
