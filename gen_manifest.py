#!/usr/bin/env python3
"""Regenerates MANIFEST.json from props_config.PROPS and manifest_texts.py (kept valid at all times)."""
import json, os, sys
ROOT = os.path.dirname(os.path.abspath(__file__))
sys.path.insert(0, ROOT)
from props_config import PROPS
from manifest_texts import TEXTS, PENDING
ALL = ["C%02d" % i for i in range(1, 21)]
checks = []
for pid in ALL:
    if pid not in PROPS:
        continue
    t = TEXTS[pid]
    checks.append({
        "property_id": pid,
        "quick_cmd": "./check %s --tier quick" % pid,
        "thorough_cmd": "./check %s --tier thorough" % pid,
        "evidence_file": "/verif/evidence/%s.json" % pid,
        "replay_cmd_template": "./check %s --replay {path}" % pid,
        "engine": "coq-proof+correspondence",
        "level_claimed": {"category": "proof", "text": t["text"], "design_ref": t["design_ref"]},
        "level_note": t["note"],
        "technique": t["technique"],
    })
man = {
    "version": 1,
    "setup_cmd": "./setup.sh",
    "hooks": {
        "guard": "elements_verif",
        "enable": "RUSTFLAGS=\"--cfg elements_verif\" (set by ./check when it builds the harness against /repo); no hook is currently needed: every observation point is public API",
        "baseline_off_cmd": "cd /repo && cargo test --workspace --no-fail-fast --offline",
        "source_commits": [],
        "add_only": True,
    },
    "engines": [{
        "name": "coq-proof+correspondence", "path": "/verif/check",
        "serves_properties": [c["property_id"] for c in checks],
        "kind_free_text": "Coq 8.16 theorems about a hand-written Gallina model (coq/Model, coq/Proofs, coq/Props) + tables regenerated from /repo/src by translator/ + per-run correspondence between the extracted model (driver/) and the real crate (harness/)",
    }],
    "checks": checks,
    "notes": "Technique family: machine-checked proof in Coq. See DESIGN.md. known_findings.txt lists recorded and fixed defects.",
    "not_applicable": [{"property_id": pid, "reason": PENDING.get(pid, "check not built yet in this revision (planned, see DESIGN.md section 6); not claimed")} for pid in ALL if pid not in PROPS],
}
json.dump(man, open(os.path.join(ROOT, "MANIFEST.json"), "w"), indent=1)
print("MANIFEST.json: %d checks, %d not claimed" % (len(checks), len(man["not_applicable"])))
