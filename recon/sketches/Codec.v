From Coq Require Import List NArith ZArith Lia Bool ZifyN ZifyBool.
Ltac Zify.zify_post_hook ::= Z.div_mod_to_equations.
From Coq.Strings Require Import Byte.
Import ListNotations.
Open Scope N_scope.
Arguments N.add : simpl never. Arguments N.mul : simpl never. Arguments N.div : simpl never. Arguments N.modulo : simpl never.

(* ---- bytes <-> N ---- *)
Definition b2n (b : byte) : N := Byte.to_N b.
Definition n2b (n : N) : byte := match Byte.of_N (n mod 256) with Some b => b | None => x00 end.
Lemma b2n_lt b : b2n b < 256. Proof. pose proof (Byte.to_N_bounded b). unfold b2n. lia. Qed.
Lemma n2b_b2n b : n2b (b2n b) = b.
Proof. unfold n2b. rewrite N.mod_small by apply b2n_lt. unfold b2n. now rewrite Byte.of_to_N. Qed.
Lemma b2n_n2b n : b2n (n2b n) = n mod 256.
Proof. unfold n2b, b2n. destruct (Byte.of_N (n mod 256)) eqn:E.
  - now apply Byte.to_of_N in E.
  - exfalso. apply Byte.of_N_None_iff in E. pose proof (N.mod_upper_bound n 256). lia. Qed.

(* ---- codec record and laws ---- *)
Record codec (A : Type) := { enc : A -> list byte; dec : list byte -> option (A * list byte); wf : A -> bool }.
Arguments enc {A}. Arguments dec {A}. Arguments wf {A}.
Definition Exact {A} (c : codec A) := forall bs v rest, dec c bs = Some (v, rest) -> bs = enc c v ++ rest.
Definition DecWf {A} (c : codec A) := forall bs v rest, dec c bs = Some (v, rest) -> wf c v = true.
Definition Complete {A} (c : codec A) := forall v rest, wf c v = true -> dec c (enc c v ++ rest) = Some (v, rest).
Record Lawful {A} (c : codec A) := { l_exact : Exact c; l_wf : DecWf c; l_complete : Complete c }.

(* u8 *)
Definition c_u8 : codec N := {| enc := fun n => [n2b n]; dec := fun bs => match bs with b :: r => Some (b2n b, r) | [] => None end; wf := fun n => n <? 256 |}.
Lemma c_u8_lawful : Lawful c_u8.
Proof. split.
  - intros [|b r] v rest H; inversion H; subst. cbn. now rewrite n2b_b2n.
  - intros [|b r] v rest H; inversion H; subst. cbn. apply N.ltb_lt, b2n_lt.
  - intros v rest H. cbn in *. apply N.ltb_lt in H. now rewrite b2n_n2b, N.mod_small. Qed.

(* little-endian k bytes *)
Fixpoint le_enc (k : nat) (n : N) : list byte := match k with O => [] | S k' => n2b n :: le_enc k' (n / 256) end.
Fixpoint le_dec (k : nat) (bs : list byte) : option (N * list byte) :=
  match k with O => Some (0, bs) | S k' => match bs with [] => None | b :: r => match le_dec k' r with Some (n, r') => Some (b2n b + 256 * n, r') | None => None end end end.
Lemma le_dec_exact k : forall bs v rest, le_dec k bs = Some (v, rest) -> bs = le_enc k v ++ rest /\ v < 256 ^ N.of_nat k.
Proof. induction k as [|k IH]; intros bs v rest H; cbn [le_dec le_enc] in *.
  - inversion H; subst. split; [reflexivity|cbn; lia].
  - destruct bs as [|b r]; [discriminate|]. destruct (le_dec k r) as [[n r']|] eqn:E; [|discriminate]. inversion H; subst.
    destruct (IH _ _ _ E) as [-> Hn]. pose proof (b2n_lt b) as Hb.
    assert (Hd : (b2n b + 256 * n) / 256 = n) by lia. rewrite Hd.
    split. { cbn. f_equal. unfold n2b. assert (Hm : (b2n b + 256 * n) mod 256 = b2n b) by lia. rewrite Hm. unfold b2n. now rewrite Byte.of_to_N. }
    rewrite Nnat.Nat2N.inj_succ, N.pow_succ_r'. nia. Qed.
Lemma le_dec_complete k : forall v rest, v < 256 ^ N.of_nat k -> le_dec k (le_enc k v ++ rest) = Some (v, rest).
Proof. induction k as [|k IH]; intros v rest H; cbn [le_dec le_enc].
  - cbn in H. now replace v with 0 by lia.
  - cbn [app]. rewrite Nnat.Nat2N.inj_succ, N.pow_succ_r' in H.
    assert (Hq : v / 256 < 256 ^ N.of_nat k) by (apply N.div_lt_upper_bound; lia).
    rewrite IH by exact Hq. rewrite b2n_n2b. f_equal. f_equal. lia. Qed.
Definition c_le (k : nat) : codec N := {| enc := le_enc k; dec := le_dec k; wf := fun n => n <? 256 ^ N.of_nat k |}.
Lemma c_le_lawful k : Lawful (c_le k).
Proof. split; red; cbn; intros.
  - now apply le_dec_exact in H.
  - apply le_dec_exact in H. now apply N.ltb_lt.
  - apply le_dec_complete. now apply N.ltb_lt. Qed.

(* varint with minimality *)
Definition vi_enc (n : N) : list byte :=
  if n <? 0xFD then [n2b n] else if n <? 0x10000 then n2b 0xFD :: le_enc 2 n else if n <? 0x100000000 then n2b 0xFE :: le_enc 4 n else n2b 0xFF :: le_enc 8 n.
Definition vi_dec (bs : list byte) : option (N * list byte) :=
  match bs with [] => None | b :: r =>
    let t := b2n b in
    if t =? 0xFF then match le_dec 8 r with Some (x, r') => if x <? 0x100000000 then None else Some (x, r') | None => None end
    else if t =? 0xFE then match le_dec 4 r with Some (x, r') => if x <? 0x10000 then None else Some (x, r') | None => None end
    else if t =? 0xFD then match le_dec 2 r with Some (x, r') => if x <? 0xFD then None else Some (x, r') | None => None end
    else Some (t, r) end.
Definition c_varint : codec N := {| enc := vi_enc; dec := vi_dec; wf := fun n => n <? 2 ^ 64 |}.
Lemma n2b_lit b n : b2n b = n -> b = n2b n. Proof. intros <-. now rewrite n2b_b2n. Qed.
Lemma c_varint_lawful : Lawful c_varint.
Proof. split; red; cbn [c_varint enc dec wf]; unfold vi_dec, vi_enc.
  - intros [|b r] v rest H; [discriminate|]. pose proof (b2n_lt b) as Hb.
    destruct (N.eqb_spec (b2n b) 0xFF) as [E|NE].
    { destruct (le_dec 8 r) as [[x r']|] eqn:D; [|discriminate]. destruct (N.ltb_spec x 0x100000000); [discriminate|]. inversion H; subst.
      apply le_dec_exact in D as [-> Hx]. destruct (N.ltb_spec v 0xFD); [lia|]. destruct (N.ltb_spec v 0x10000); [lia|]. destruct (N.ltb_spec v 0x100000000); [lia|]. cbn [app]. f_equal. now apply n2b_lit. }
    destruct (N.eqb_spec (b2n b) 0xFE) as [E|NE2].
    { destruct (le_dec 4 r) as [[x r']|] eqn:D; [|discriminate]. destruct (N.ltb_spec x 0x10000); [discriminate|]. inversion H; subst.
      apply le_dec_exact in D as [-> Hx]. cbn in Hx. destruct (N.ltb_spec v 0xFD); [lia|]. destruct (N.ltb_spec v 0x10000); [lia|]. destruct (N.ltb_spec v 0x100000000); [|lia]. cbn [app]. f_equal. now apply n2b_lit. }
    destruct (N.eqb_spec (b2n b) 0xFD) as [E|NE3].
    { destruct (le_dec 2 r) as [[x r']|] eqn:D; [|discriminate]. destruct (N.ltb_spec x 0xFD); [discriminate|]. inversion H; subst.
      apply le_dec_exact in D as [-> Hx]. cbn in Hx. destruct (N.ltb_spec v 0xFD); [lia|]. destruct (N.ltb_spec v 0x10000); [|lia]. cbn [app]. f_equal. now apply n2b_lit. }
    inversion H; subst. destruct (N.ltb_spec (b2n b) 0xFD); [|lia]. cbn. now rewrite n2b_b2n.
  - intros [|b r] v rest H; [discriminate|]. pose proof (b2n_lt b) as Hb. apply N.ltb_lt.
    destruct (b2n b =? 0xFF). { destruct (le_dec 8 r) as [[x r']|] eqn:D; [|discriminate]. destruct (x <? _); [discriminate|]. inversion H; subst. apply le_dec_exact in D as [_ Hx]. exact Hx. }
    destruct (b2n b =? 0xFE). { destruct (le_dec 4 r) as [[x r']|] eqn:D; [|discriminate]. destruct (x <? _); [discriminate|]. inversion H; subst. apply le_dec_exact in D as [_ Hx]. cbn in Hx. lia. }
    destruct (b2n b =? 0xFD). { destruct (le_dec 2 r) as [[x r']|] eqn:D; [|discriminate]. destruct (x <? _); [discriminate|]. inversion H; subst. apply le_dec_exact in D as [_ Hx]. cbn in Hx. lia. }
    inversion H; subst. lia.
  - intros v rest H. apply N.ltb_lt in H.
    destruct (N.ltb_spec v 0xFD).
    { cbn [app]. rewrite b2n_n2b, N.mod_small by lia. destruct (N.eqb_spec v 0xFF); [lia|]. destruct (N.eqb_spec v 0xFE); [lia|]. destruct (N.eqb_spec v 0xFD); [lia|]. reflexivity. }
    destruct (N.ltb_spec v 0x10000).
    { cbn [app]. rewrite b2n_n2b. change (0xFD mod 256) with 0xFD. cbn [N.eqb Pos.eqb]. rewrite le_dec_complete by (cbn; lia). destruct (N.ltb_spec v 0xFD); [lia|reflexivity]. }
    destruct (N.ltb_spec v 0x100000000).
    { cbn [app]. rewrite b2n_n2b. change (0xFE mod 256) with 0xFE. cbn [N.eqb Pos.eqb]. rewrite le_dec_complete by (cbn; lia). destruct (N.ltb_spec v 0x10000); [lia|reflexivity]. }
    cbn [app]. rewrite b2n_n2b. change (0xFF mod 256) with 0xFF. cbn [N.eqb Pos.eqb]. rewrite le_dec_complete by (cbn; lia). destruct (N.ltb_spec v 0x100000000); [lia|reflexivity]. Qed.

(* pair combinator *)
Definition c_pair {A B} (ca : codec A) (cb : codec B) : codec (A * B) :=
  {| enc := fun '(a, b) => enc ca a ++ enc cb b;
     dec := fun bs => match dec ca bs with Some (a, r) => match dec cb r with Some (b, r') => Some ((a, b), r') | None => None end | None => None end;
     wf := fun '(a, b) => wf ca a && wf cb b |}.
Lemma c_pair_lawful {A B} (ca : codec A) (cb : codec B) : Lawful ca -> Lawful cb -> Lawful (c_pair ca cb).
Proof. intros [ea wa ca'] [eb wb cb']. split; red; cbn.
  - intros bs [a b] rest H. destruct (dec ca bs) as [[a' r]|] eqn:Da; [|discriminate]. destruct (dec cb r) as [[b' r']|] eqn:Db; [|discriminate]. inversion H; subst.
    apply ea in Da. apply eb in Db. subst. now rewrite app_assoc.
  - intros bs [a b] rest H. destruct (dec ca bs) as [[a' r]|] eqn:Da; [|discriminate]. destruct (dec cb r) as [[b' r']|] eqn:Db; [|discriminate]. inversion H; subst.
    apply wa in Da. apply wb in Db. now rewrite Da, Db.
  - intros [a b] rest H. apply andb_true_iff in H as [Ha Hb]. rewrite <- app_assoc, ca' by assumption. now rewrite cb'. Qed.

(* counted vector: n elements *)
Fixpoint vn_dec {A} (c : codec A) (n : nat) (bs : list byte) : option (list A * list byte) :=
  match n with O => Some ([], bs) | S n' => match dec c bs with Some (a, r) => match vn_dec c n' r with Some (l, r') => Some (a :: l, r') | None => None end | None => None end end.
Definition vn_enc {A} (c : codec A) (l : list A) : list byte := concat (map (enc c) l).
Lemma vn_exact {A} (c : codec A) : Lawful c -> forall n bs l rest, vn_dec c n bs = Some (l, rest) -> bs = vn_enc c l ++ rest /\ length l = n /\ forallb (wf c) l = true.
Proof. intros [e w _]. induction n as [|n IH]; cbn; intros bs l rest H.
  - inversion H; subst. auto.
  - destruct (dec c bs) as [[a r]|] eqn:Da; [|discriminate]. destruct (vn_dec c n r) as [[l' r']|] eqn:Dl; [|discriminate]. inversion H; subst.
    apply IH in Dl as (-> & <- & F). pose proof (w _ _ _ Da). apply e in Da. subst. unfold vn_enc. cbn. rewrite <- app_assoc. rewrite H0. auto. Qed.
Lemma vn_complete {A} (c : codec A) : Lawful c -> forall l rest, forallb (wf c) l = true -> vn_dec c (length l) (vn_enc c l ++ rest) = Some (l, rest).
Proof. intros [_ _ cp]. induction l as [|a l IH]; cbn; intros rest H; [reflexivity|].
  apply andb_true_iff in H as [Ha Hl]. unfold vn_enc. cbn. rewrite <- app_assoc, cp by assumption. fold (vn_enc c l). now rewrite IH. Qed.

(* length-prefixed vector with an element-count bound *)
Definition c_vec {A} (c : codec A) (maxn : N) : codec (list A) :=
  {| enc := fun l => vi_enc (N.of_nat (length l)) ++ vn_enc c l;
     dec := fun bs => match vi_dec bs with Some (n, r) => if maxn <? n then None else vn_dec c (N.to_nat n) r | None => None end;
     wf := fun l => (N.of_nat (length l) <=? maxn) && (N.of_nat (length l) <? 2 ^ 64) && forallb (wf c) l |}.
Lemma c_vec_lawful {A} (c : codec A) maxn : Lawful c -> Lawful (c_vec c maxn).
Proof. intros L. destruct c_varint_lawful as [ve vw vc]. split; red; cbn [c_vec enc dec wf].
  - intros bs l rest H. destruct (vi_dec bs) as [[n r]|] eqn:Dv; [|discriminate]. destruct (N.ltb_spec maxn n); [discriminate|].
    apply (vn_exact c L) in H as (-> & Hl & _). apply ve in Dv. cbn in Dv. subst bs. rewrite Hl, Nnat.N2Nat.id. now rewrite app_assoc.
  - intros bs l rest H. destruct (vi_dec bs) as [[n r]|] eqn:Dv; [|discriminate]. destruct (N.ltb_spec maxn n); [discriminate|].
    pose proof (vw _ _ _ Dv) as Hn. cbn [c_varint wf] in Hn. apply N.ltb_lt in Hn. apply (vn_exact c L) in H as (_ & Hl & F). rewrite Hl, Nnat.N2Nat.id, F.
    destruct (N.leb_spec n maxn); [|lia]. destruct (N.ltb_spec n (2^64)); [reflexivity|lia].
  - intros l rest H. apply andb_true_iff in H as [H F]. apply andb_true_iff in H as [H1 H2]. apply N.leb_le in H1.
    rewrite <- app_assoc. pose proof (vc (N.of_nat (length l)) (vn_enc c l ++ rest) H2) as E. cbn in E. rewrite E.
    destruct (N.ltb_spec maxn (N.of_nat (length l))); [lia|]. rewrite Nnat.Nat2N.id. now apply vn_complete. Qed.

(* corollary shape used by C02: encoders are injective on wf values *)
Lemma enc_inj {A} (c : codec A) : Lawful c -> forall v v', wf c v = true -> wf c v' = true -> enc c v = enc c v' -> v = v'.
Proof. intros [_ _ cp] v v' H H' E. pose proof (cp v [] H) as D. pose proof (cp v' [] H') as D'. rewrite E in D. rewrite D in D'. now inversion D'. Qed.
Print Assumptions c_vec_lawful.
Print Assumptions enc_inj.
