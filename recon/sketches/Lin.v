From Coq Require Import List NArith Bool Lia.
Import ListNotations.
Open Scope N_scope.
Definition sel (b : bool) (g : N) : N := if b then g else 0.
Fixpoint mix (top : N) (i : N) (gen : list N) : N := match gen with [] => 0 | g :: r => N.lxor (sel (N.testbit top i) g) (mix top (i + 1) r) end.
Definition step (gen : list N) (sh : N) (s v : N) : N :=
  let top := N.land (N.shiftr s sh) 31 in
  N.lxor (N.lor (N.shiftl (N.land s (N.ones sh)) 5) v) (mix top 0 gen).

Lemma sel_xorb a b g : sel (xorb a b) g = N.lxor (sel a g) (sel b g).
Proof. destruct a, b; cbn; now rewrite ?N.lxor_nilpotent, ?N.lxor_0_l, ?N.lxor_0_r. Qed.
Lemma lxor_swap4 a b c d : N.lxor (N.lxor a b) (N.lxor c d) = N.lxor (N.lxor a c) (N.lxor b d).
Proof. rewrite !N.lxor_assoc. f_equal. rewrite <- !N.lxor_assoc. f_equal. apply N.lxor_comm. Qed.
Lemma mix_lin gen : forall i t t', mix (N.lxor t t') i gen = N.lxor (mix t i gen) (mix t' i gen).
Proof. induction gen as [|g r IH]; intros i t t'; cbn [mix]. { now rewrite N.lxor_0_l. }
  rewrite N.lxor_spec, sel_xorb, IH. apply lxor_swap4. Qed.
Lemma land_lxor_l a b m : N.land (N.lxor a b) m = N.lxor (N.land a m) (N.land b m).
Proof. apply N.bits_inj; intros n. rewrite !N.land_spec, !N.lxor_spec, !N.land_spec. destruct (N.testbit a n), (N.testbit b n), (N.testbit m n); reflexivity. Qed.
Lemma lt32_iff v : v <> 0 -> (v < 32 <-> N.log2 v < 5).
Proof. intros NZ. change 32 with (2^5). apply N.log2_lt_pow2. lia. Qed.
Lemma lor_low_is_lxor x v : v < 32 -> N.lor (N.shiftl x 5) v = N.lxor (N.shiftl x 5) v.
Proof. intros Hv. symmetry. apply N.lxor_lor. apply N.bits_inj; intros n. rewrite N.land_spec, N.bits_0.
  destruct (N.lt_ge_cases n 5) as [H|H].
  - rewrite N.shiftl_spec_low by assumption. reflexivity.
  - replace (N.testbit v n) with false; [now rewrite andb_false_r|]. symmetry.
    destruct (N.eq_dec v 0) as [->|NZ]; [apply N.bits_0|]. apply N.bits_above_log2. apply lt32_iff in Hv; [lia|assumption]. Qed.
Theorem step_linear gen sh s s' v v' : v < 32 -> v' < 32 ->
  step gen sh (N.lxor s s') (N.lxor v v') = N.lxor (step gen sh s v) (step gen sh s' v').
Proof. intros Hv Hv'. unfold step.
  assert (Hvv : N.lxor v v' < 32).
  { destruct (N.eq_dec (N.lxor v v') 0) as [->|NZ]; [lia|]. apply lt32_iff; [assumption|].
    apply N.le_lt_trans with (N.max (N.log2 v) (N.log2 v')); [apply N.log2_lxor|].
    apply N.max_lub_lt.
    - destruct (N.eq_dec v 0) as [->|?]; [cbn; lia|now apply lt32_iff].
    - destruct (N.eq_dec v' 0) as [->|?]; [cbn; lia|now apply lt32_iff]. }
  rewrite !lor_low_is_lxor by assumption.
  rewrite N.shiftr_lxor, !land_lxor_l, N.shiftl_lxor, mix_lin.
  set (A := N.shiftl (N.land s (N.ones sh)) 5). set (B := N.shiftl (N.land s' (N.ones sh)) 5).
  set (M := mix _ 0 gen). set (M' := mix _ 0 gen).
  rewrite (lxor_swap4 A B v v'). apply lxor_swap4. Qed.
Print Assumptions step_linear.
