(* Design-validation sketch (not framework): the pegin / issuance bits folded into the outpoint index. *)
From Coq Require Import NArith ZArith Lia Bool ZifyN ZifyBool.
Ltac Zify.zify_post_hook ::= Z.div_mod_to_equations.
Open Scope N_scope.
Definition B30 := 1073741824. Definition B31 := 2147483648. Definition ALL1 := 4294967295. Definition MASK := 1073741823.
(* TxIn::consensus_encode *)
Definition join (v : N) (pegin iss : bool) : N := N.lor (N.lor v (if pegin then B30 else 0)) (if iss then B31 else 0).
(* TxIn::consensus_decode *)
Definition split (w : N) : N * bool * bool :=
  if w =? ALL1 then (w, false, false)
  else (N.land w MASK, negb (N.land w B30 =? 0), negb (N.land w B31 =? 0)).

Lemma lor_disjoint_add a b : N.land a b = 0 -> N.lor a b = a + b.
Proof. intros Hd. rewrite <- N.lxor_lor by assumption. symmetry. now apply N.add_nocarry_lxor. Qed.
Lemma land_pow2_small v k : v < 2 ^ k -> N.land v (2 ^ k) = 0.
Proof. intros Hv. apply N.bits_inj; intros n. rewrite N.land_spec, N.bits_0, N.pow2_bits_eqb.
  destruct (N.eqb_spec k n) as [->|]; [|now rewrite andb_false_r].
  destruct (N.eq_dec v 0) as [->|NZ]; [now rewrite N.bits_0|]. rewrite N.bits_above_log2; [reflexivity|]. now apply N.log2_lt_pow2; [lia|]. Qed.
Lemma join_arith v p i : v < B30 -> join v p i = v + (if p then B30 else 0) + (if i then B31 else 0).
Proof. intros Hv. unfold join.
  assert (H1 : N.lor v (if p then B30 else 0) = v + (if p then B30 else 0)).
  { destruct p; [|now rewrite N.lor_0_r, N.add_0_r]. apply lor_disjoint_add. change B30 with (2^30). now apply land_pow2_small. }
  rewrite H1. destruct i; [|now rewrite N.lor_0_r, N.add_0_r]. apply lor_disjoint_add. change B31 with (2^31). apply land_pow2_small.
  unfold B30 in *. destruct p; lia. Qed.
Lemma land_mask w : N.land w MASK = w mod B30.
Proof. change MASK with (N.ones 30). rewrite N.land_ones. reflexivity. Qed.
Lemma land_bit w k : (N.land w (2 ^ k) =? 0) = negb (N.testbit w k).
Proof. destruct (N.testbit w k) eqn:T; cbn [negb].
  - apply N.eqb_neq. intro E. assert (X : N.testbit (N.land w (2 ^ k)) k = false) by (rewrite E; apply N.bits_0).
    rewrite N.land_spec, T, N.pow2_bits_true in X. discriminate.
  - apply N.eqb_eq. apply N.bits_inj; intros n. rewrite N.land_spec, N.bits_0, N.pow2_bits_eqb.
    destruct (N.eqb_spec k n) as [->|]; [now rewrite T|now rewrite andb_false_r]. Qed.
Lemma land_b30 w : (N.land w B30 =? 0) = negb (N.testbit w 30). Proof. change B30 with (2^30). apply land_bit. Qed.
Lemma land_b31 w : (N.land w B31 =? 0) = negb (N.testbit w 31). Proof. change B31 with (2^31). apply land_bit. Qed.
Lemma testbit_div w k : N.testbit w k = ((w / 2 ^ k) mod 2 =? 1).
Proof. pose proof (N.testbit_spec' w k) as S. destruct (N.testbit w k); cbn [N.b2n] in S; rewrite <- S; reflexivity. Qed.

Theorem split_join v p i : v < B30 -> ~ (v = MASK /\ p = true /\ i = true) -> split (join v p i) = (v, p, i).
Proof. intros Hv Hn. unfold split. rewrite join_arith by assumption.
  set (w := v + (if p then B30 else 0) + (if i then B31 else 0)).
  assert (Hw : w <> ALL1). { unfold w, B30, B31, ALL1, MASK in *. intro E. destruct p, i; lia. }
  destruct (N.eqb_spec w ALL1); [contradiction|].
  rewrite land_mask, land_b30, land_b31, !negb_involutive, !testbit_div.
  unfold w, B30, B31 in *. f_equal; [f_equal|].
  - destruct p, i; lia.
  - destruct p, i; cbn [N.pow]; apply eq_true_iff_eq; rewrite N.eqb_eq; lia.
  - destruct p, i; cbn [N.pow]; apply eq_true_iff_eq; rewrite N.eqb_eq; lia. Qed.

Theorem join_split w : w < 2 ^ 32 -> let '(v, p, i) := split w in join v p i = w /\ (w <> ALL1 -> v < B30).
Proof. intros Hw. unfold split. destruct (N.eqb_spec w ALL1) as [->|NE].
  - split; [reflexivity|congruence].
  - rewrite land_mask, land_b30, land_b31, !negb_involutive, !testbit_div.
    assert (Hv : w mod B30 < B30) by (apply N.mod_upper_bound; unfold B30; lia).
    split; [|intros _; exact Hv]. rewrite join_arith by exact Hv.
    unfold B30, B31 in *. change (2^32) with 4294967296 in Hw.
    destruct ((w / 2 ^ 30) mod 2 =? 1) eqn:E1; destruct ((w / 2 ^ 31) mod 2 =? 1) eqn:E2;
      rewrite ?N.eqb_eq, ?N.eqb_neq in *; cbn [N.pow] in *; lia. Qed.
Print Assumptions split_join. Print Assumptions join_split.
