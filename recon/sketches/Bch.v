From Coq Require Import List NArith Bool Sorting.Mergesort Orders.
Import ListNotations.
Open Scope N_scope.
(* engine step, parametric in generator table / checksum length (symbols) *)
Definition step (gen : list N) (cl : N) (s v : N) : N :=
  let sh := 5 * (cl - 1) in
  let top := N.land (N.shiftr s sh) 31 in
  let s' := N.lor (N.shiftl (N.land s (N.ones sh)) 5) v in
  fst (fold_left (fun '(acc, i) g => (if N.testbit top i then N.lxor acc g else acc, i + 1)) gen (s', 0)).
Definition GEN_BL : list N := [0x7d52fba40bd886;0x5e8dbf1a03950c;0x1c3a3c74072a18;0x385d72fa0e5139;0x7093e5a608865b].
Definition GEN_B32 : list N := [0x3b6a57b2;0x26508e6d;0x1ea119fa;0x3d4233dd;0x2a1462b3].
Fixpoint orbit (gen : list N) cl (n : nat) (s : N) : list N := match n with O => [] | S k => s :: orbit gen cl k (step gen cl s 0) end.
Definition table gen cl (L : nat) : list N := flat_map (fun u => orbit gen cl L (N.of_nat u)) (seq 1 31).
Module NOrder <: TotalLeBool.
  Definition t := N. Definition leb := N.leb.
  Theorem leb_total : forall a1 a2, leb a1 a2 = true \/ leb a2 a1 = true.
  Proof. intros a b. unfold leb. destruct (N.leb_spec a b); [now left|right]. apply N.leb_le. apply N.lt_le_incl. assumption. Qed.
End NOrder.
Module NSort := Sort NOrder.
Fixpoint adj_distinct (l : list N) : bool := match l with a :: ((b :: _) as r) => negb (a =? b) && adj_distinct r | _ => true end.
Definition table_ok gen cl L := let t := table gen cl L in adj_distinct (NSort.sort t) && negb (existsb (N.eqb 0) t).
Time Eval vm_compute in (length (table GEN_BL 12 1023)).
Time Eval vm_compute in table_ok GEN_BL 12 1023.
Time Eval vm_compute in table_ok GEN_BL 12 1024.
Time Eval vm_compute in table_ok GEN_B32 6 1023.
Lemma blech32_table : table_ok GEN_BL 12 1023 = true. Proof. vm_compute. reflexivity. Qed.
