(* Design-validation sketch for C15 (not framework): builder insert vs. tree, abstract nodes. *)
From Coq Require Import List Arith Lia Bool.
Import ListNotations.
Section TAP.
Variable Nd : Type.                        (* NodeInfo: hash + leaves-with-paths, abstract here *)
Variable combine : Nd -> Nd -> Nd.         (* NodeInfo::combine, total in this sketch (depth limit handled separately) *)
Definition MAXD := 128.

Inductive err := TooDeep | NotDfs | OverComplete.
Inductive res (A : Type) := Ok (a : A) | Err (e : err). Arguments Ok {A}. Arguments Err {A}.

(* branch vector stored deepest-first: head = branch[len-1] *)
Definition br := list (option Nd).
Definition place (n : Nd) (d : nat) (b : br) : br := Some n :: repeat None (d - length b) ++ b.
Fixpoint ins (n : Nd) (d : nat) (b : br) {struct b} : res br :=
  match b with
  | Some c :: rest => if length b =? d + 1 then (match d with O => Err OverComplete | S d' => ins (combine n c) d' rest end) else Ok (place n d b)
  | None :: rest => if length b =? d + 1 then Ok (Some n :: rest) else Ok (place n d b)
  | [] => Ok (place n d [])
  end.
Definition insert (n : Nd) (d : nat) (b : br) : res br :=
  if MAXD <? d then Err TooDeep else if d + 1 <? length b then Err NotDfs else ins n d b.
Fixpoint run (items : list (Nd * nat)) (b : br) : res br :=
  match items with [] => Ok b | (n, d) :: r => match insert n d b with Ok b' => run r b' | Err e => Err e end end.
Lemma run_app xs : forall ys b, run (xs ++ ys) b = match run xs b with Ok b' => run ys b' | Err e => Err e end.
Proof. induction xs as [|[n d] xs IH]; intros ys b; cbn [run app]; [reflexivity|]. destruct (insert n d b); [apply IH|reflexivity]. Qed.

Inductive tree := Lf (n : Nd) | Br (a b : tree).
Fixpoint node_of (t : tree) : Nd := match t with Lf n => n | Br a b => combine (node_of b) (node_of a) end.   (* code's argument order *)
Fixpoint height (t : tree) : nat := match t with Lf _ => 0 | Br a b => S (Nat.max (height a) (height b)) end.
Fixpoint dfs (t : tree) (d : nat) : list (Nd * nat) := match t with Lf n => [(n, d)] | Br a b => dfs a (S d) ++ dfs b (S d) end.

Lemma ins_short n d b : length b <= d -> ins n d b = Ok (place n d b).
Proof. intros L. destruct b as [|[c|] rest]; cbn [ins]; [reflexivity| |].
  - destruct (Nat.eqb_spec (length (Some c :: rest)) (d + 1)) as [E|_]; [cbn [length] in *; lia|reflexivity].
  - destruct (Nat.eqb_spec (length (@None Nd :: rest)) (d + 1)) as [E|_]; [cbn [length] in *; lia|reflexivity]. Qed.
Lemma place_length n d b : length b <= d -> length (place n d b) = S d.
Proof. intros L. unfold place. cbn [length]. rewrite app_length, repeat_length. lia. Qed.

(* restart lemma: a right sibling arriving at depth d+1 behaves like its parent arriving at depth d *)
Lemma ins_restart a bnode d b : length b <= S d -> ins bnode (S d) (place a (S d) b) = ins (combine bnode a) d b.
Proof. intros L. unfold place. cbn [ins].
  assert (E : length (Some a :: repeat None (S d - length b) ++ b) = S d + 1) by (cbn [length]; rewrite app_length, repeat_length; lia).
  rewrite E, Nat.eqb_refl.
  destruct (Nat.eq_dec (length b) (S d)) as [Eq|Ne].
  - rewrite Eq, Nat.sub_diag. reflexivity.
  - assert (Lb : length b <= d) by lia. rewrite (ins_short _ _ _ Lb).
    replace (S d - length b) with (S (d - length b)) by lia. cbn [repeat app ins].
    assert (E2 : length (None :: repeat None (d - length b) ++ b) = d + 1) by (cbn [length]; rewrite app_length, repeat_length; lia).
    rewrite E2, Nat.eqb_refl. reflexivity. Qed.

Theorem run_subtree : forall t d b, length b <= S d -> d + height t <= MAXD ->
  run (dfs t d) b = insert (node_of t) d b.
Proof. induction t as [n|a IHa c IHc]; intros d b L Hh; cbn [dfs node_of].
  - cbn [run]. destruct (insert n d b); reflexivity.
  - cbn [height] in Hh. rewrite run_app, IHa by lia.
    unfold insert at 1. destruct (Nat.ltb_spec MAXD (S d)) as [|_]; [unfold MAXD in *; lia|].
    destruct (Nat.ltb_spec (S d + 1) (length b)) as [|_]; [lia|].
    (* first child lands without combining *)
    destruct (Nat.eq_dec (length b) (S d)) as [Eq|Ne].
    + (* b already has an entry at depth d: whatever it is, the left child is placed above it *)
      assert (Ia : ins (node_of a) (S d) b = Ok (place (node_of a) (S d) b)).
      { destruct b as [|[x|] rest]; cbn [ins]; [reflexivity| |].
        - destruct (Nat.eqb_spec (length (Some x :: rest)) (S d + 1)); [cbn [length] in *; lia|reflexivity].
        - destruct (Nat.eqb_spec (length (@None Nd :: rest)) (S d + 1)); [cbn [length] in *; lia|reflexivity]. }
      rewrite Ia, IHc by (rewrite ?place_length; lia).
      unfold insert. destruct (Nat.ltb_spec MAXD (S d)); [unfold MAXD in *; lia|].
      destruct (Nat.ltb_spec MAXD d); [unfold MAXD in *; lia|].
      rewrite place_length by lia. destruct (Nat.ltb_spec (S d + 1) (S (S d))); [lia|].
      destruct (Nat.ltb_spec (d + 1) (length b)); [lia|]. apply ins_restart. lia.
    + rewrite ins_short by lia. rewrite IHc by (rewrite ?place_length; lia).
      unfold insert. destruct (Nat.ltb_spec MAXD (S d)); [unfold MAXD in *; lia|].
      destruct (Nat.ltb_spec MAXD d); [unfold MAXD in *; lia|].
      rewrite place_length by lia. destruct (Nat.ltb_spec (S d + 1) (S (S d))); [lia|].
      destruct (Nat.ltb_spec (d + 1) (length b)); [lia|]. apply ins_restart. lia. Qed.

Corollary builder_sound t : height t <= MAXD -> run (dfs t 0) [] = Ok [Some (node_of t)].
Proof. intros Hh. rewrite run_subtree by (cbn; lia). reflexivity. Qed.
End TAP.
Print Assumptions builder_sound.
