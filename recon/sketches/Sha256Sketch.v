(* Design-validation sketch (not framework): SHA-256 compression over N, checked against FIPS 180 "abc". *)
From Coq Require Import List NArith.
Import ListNotations.
Open Scope N_scope.
Definition w32 (x:N) := N.land x 4294967295.
Definition add32 a b := w32 (a+b).
Definition rotr (x:N) (n:N) := w32 (N.lor (N.shiftr x n) (N.shiftl x (32-n))).
Definition shr (x:N) n := N.shiftr x n.
Definition Ch x y z := N.lxor (N.land x y) (N.land (w32 (N.lxor x 4294967295)) z).
Definition Maj x y z := N.lxor (N.lxor (N.land x y) (N.land x z)) (N.land y z).
Definition S0 x := N.lxor (N.lxor (rotr x 2) (rotr x 13)) (rotr x 22).
Definition S1 x := N.lxor (N.lxor (rotr x 6) (rotr x 11)) (rotr x 25).
Definition s0 x := N.lxor (N.lxor (rotr x 7) (rotr x 18)) (shr x 3).
Definition s1 x := N.lxor (N.lxor (rotr x 17) (rotr x 19)) (shr x 10).
Definition K : list N := [0x428a2f98;0x71374491;0xb5c0fbcf;0xe9b5dba5;0x3956c25b;0x59f111f1;0x923f82a4;0xab1c5ed5;0xd807aa98;0x12835b01;0x243185be;0x550c7dc3;0x72be5d74;0x80deb1fe;0x9bdc06a7;0xc19bf174;0xe49b69c1;0xefbe4786;0x0fc19dc6;0x240ca1cc;0x2de92c6f;0x4a7484aa;0x5cb0a9dc;0x76f988da;0x983e5152;0xa831c66d;0xb00327c8;0xbf597fc7;0xc6e00bf3;0xd5a79147;0x06ca6351;0x14292967;0x27b70a85;0x2e1b2138;0x4d2c6dfc;0x53380d13;0x650a7354;0x766a0abb;0x81c2c92e;0x92722c85;0xa2bfe8a1;0xa81a664b;0xc24b8b70;0xc76c51a3;0xd192e819;0xd6990624;0xf40e3585;0x106aa070;0x19a4c116;0x1e376c08;0x2748774c;0x34b0bcb5;0x391c0cb3;0x4ed8aa4a;0x5b9cca4f;0x682e6ff3;0x748f82ee;0x78a5636f;0x84c87814;0x8cc70208;0x90befffa;0xa4506ceb;0xbef9a3f7;0xc67178f2].
Fixpoint sched (n:nat) (w:list N) : list N := (* most-recent-first *)
  match n with O => w | S n' =>
    match w with
    | w1::w2::_ => sched n' (add32 (add32 (s1 w2) (nth 6 w 0)) (add32 (s0 (nth 14 w 0)) (nth 15 w 0)) :: w)
    | _ => w end end.
Definition round (st: N*N*N*N*N*N*N*N) (kw: N*N) :=
  let '(a,b,c,d,e,f,g,h) := st in let '(k,w) := kw in
  let t1 := add32 (add32 (add32 h (S1 e)) (add32 (Ch e f g) k)) w in
  let t2 := add32 (S0 a) (Maj a b c) in
  (add32 t1 t2, a,b,c, add32 d t1, e,f,g).
Definition compress (st: N*N*N*N*N*N*N*N) (blk: list N) :=
  let w := rev (sched 48 (rev blk)) in
  let '(a,b,c,d,e,f,g,h) := fold_left round (combine K w) st in
  let '(a0,b0,c0,d0,e0,f0,g0,h0) := st in
  (add32 a a0, add32 b b0, add32 c c0, add32 d d0, add32 e e0, add32 f f0, add32 g g0, add32 h h0).
Definition IV := (0x6a09e667,0xbb67ae85,0x3c6ef372,0xa54ff53a,0x510e527f,0x9b05688c,0x1f83d9ab,0x5be0cd19).
Definition abc : list N := [0x61626380;0;0;0;0;0;0;0;0;0;0;0;0;0;0;0x18].
Example sha256_abc : compress IV abc = (0xba7816bf,0x8f01cfea,0x414140de,0x5dae2223,0xb00361a3,0x96177a9c,0xb410ff61,0xf20015ad).
Proof. vm_compute. reflexivity. Qed.
