def sub(path, old, new, count=1):
    s=open(path).read()
    assert old in s, (path, old[:70])
    s=s.replace(old,new,count)
    open(path,'w').write(s)
sub('src/blech32/decode.rs', """    pub fn new_bech32(s: &'s str) -> Result<Self, SegwitHrpstringError> {
        let unchecked = UncheckedHrpstring::new(s)?;
""", """    pub fn new_bech32(s: &'s str) -> Result<Self, SegwitHrpstringError> {
        let unchecked = UncheckedHrpstring::new(s)?;

        if unchecked.data.is_empty() {
            return Err(SegwitHrpstringError::MissingWitnessVersion);
        }
""")
sub('src/pset/map/global.rs', """                    } else if derivation2[..]
                        == derivation1[derivation1.len() - derivation2.len()..]
                    {""", """                    } else if derivation2.len() < derivation1.len()
                        && derivation2[..] == derivation1[derivation1.len() - derivation2.len()..]
                    {""")
sub('src/pset/map/input.rs', "        merge!(redeem_script, self, other);\n        merge!(witness_script, self, other);\n        merge!(final_script_sig, self, other);", "        merge!(sighash_type, self, other);\n        merge!(sequence, self, other);\n        merge!(redeem_script, self, other);\n        merge!(witness_script, self, other);\n        merge!(final_script_sig, self, other);")
sub('src/pset/map/output.rs', "        merge!(redeem_script, self, other);\n        merge!(witness_script, self, other);\n        merge!(tap_internal_key, self, other);", "        merge!(amount, self, other);\n        merge!(asset, self, other);\n        merge!(redeem_script, self, other);\n        merge!(witness_script, self, other);\n        merge!(tap_internal_key, self, other);")
sub('src/address.rs', """            false => (None, data),
        };
""", """            false => (None, data),
        };

        if program.len() < 2 || program.len() > 40 {
            return Err(AddressError::InvalidWitnessProgramLength(program.len()));
        }
""")
sub('src/pset/mod.rs', """                    (Locktime::Minimum(x), _) => Ok(x.into()),
                    (_, Locktime::Minimum(x)) => Ok(x.into()),""", """                    (_, Locktime::Minimum(x)) => Ok(x.into()),
                    (Locktime::Minimum(x), _) => Ok(x.into()),""")
sub('src/pset/mod.rs', "            inp.sequence = Sequence::from_height(0);\n", "            inp.sequence = Sequence::from_height(0);\n            inp.script_sig = crate::Script::new();\n")
sub('src/pset/map/input.rs', "        self.previous_output_index & (1 << 30) != 0\n", "        self.previous_output_index != 0xffff_ffff && self.previous_output_index & (1 << 30) != 0\n")
sub('src/taproot.rs', "            node = NodeInfo::combine(node, child)?;", "            node = NodeInfo::combine(child, node)?;")
sub('src/pset/map/input.rs', """            let prevout = OutPoint {
                txid: self.previous_txid,
                vout: self.previous_output_index,
            };""", """            let vout = if self.previous_output_index == 0xffff_ffff {
                self.previous_output_index
            } else {
                self.previous_output_index & !((1u32 << 30) | (1 << 31))
            };
            let prevout = OutPoint {
                txid: self.previous_txid,
                vout,
            };""")
sub('src/blind.rs', '        let last_index = last_output_index.expect("Internal output calculation error");', '        let last_index = last_output_index.ok_or(BlindError::TooFewBlindingOutputs)?;')
sub('src/blind.rs', """            let out_commit = out
                .get_value_commit(secp)
                .map_err(|e| VerificationError::SpentTxOutError(i, e))?;
            out_commits.push(out_commit);""", """            let out_commit = match out.get_value_commit(secp) {
                // zero-value outputs on provably unspendable scripts carry no value
                Err(TxOutError::ZeroValueCommitment) => continue,
                r => r.map_err(|e| VerificationError::SpentTxOutError(i, e))?,
            };
            out_commits.push(out_commit);""")
sub('src/script.rs', """        self.0[0] <= opcodes::all::OP_PUSHNUM_16.into_u8() &&
        self.0[1] <= opcodes::all::OP_PUSHBYTES_40.into_u8()""", """        self.0[0] <= opcodes::all::OP_PUSHNUM_16.into_u8() &&
        self.0[1] >= opcodes::all::OP_PUSHBYTES_2.into_u8() &&
        self.0[1] <= opcodes::all::OP_PUSHBYTES_40.into_u8()""")
sub('src/taproot.rs', """            .ok_or(TaprootBuilderError::EmptyTree)?
            .expect("Builder invariant: last element of the branch must be some");""", """            .ok_or(TaprootBuilderError::EmptyTree)?
            .ok_or(TaprootBuilderError::IncompleteTree)?;""")
sub('src/sighash.rs', """    outputs: sha256::Hash,
    issuances: sha256::Hash,
}

/// Values cached for segwit inputs""","""    outputs: sha256::Hash,
    issuances: sha256::Hash,
    /// (taproot only) hash of all output witnesses; depends on the transaction alone
    output_witnesses: sha256::Hash,
}

/// Values cached for segwit inputs""")
sub('src/sighash.rs', """            self.common_cache().outputs.consensus_encode(&mut writer)?;
            self.taproot_cache(prevouts.get_all()?)
                .output_witnesses
                .consensus_encode(&mut writer)?;""","""            self.common_cache().outputs.consensus_encode(&mut writer)?;
            self.common_cache()
                .output_witnesses
                .consensus_encode(&mut writer)?;""")
sub('src/sighash.rs', """                    sha256::Hash::from_engine(enc)
                },
            }
        })
    }

    fn segwit_cache""","""                    sha256::Hash::from_engine(enc)
                },
                output_witnesses: {
                    let mut enc = sha256::Hash::engine();
                    for out in &tx.output {
                        out.witness.surjection_proof.consensus_encode(&mut enc).unwrap();
                        out.witness.rangeproof.consensus_encode(&mut enc).unwrap();
                    }
                    sha256::Hash::from_engine(enc)
                },
            }
        })
    }

    fn segwit_cache""")
print("patched")
