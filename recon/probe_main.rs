use std::convert::TryFrom;
use elements::*;
use elements::hashes::Hash;
use elements::pset::{PartiallySignedTransaction as Pset, Input, Output};
use elements::secp256k1_zkp::{self as zkp, Secp256k1};
use std::panic::catch_unwind;
use std::str::FromStr;
use elements::bitcoin::bip32::{Xpub, Fingerprint, DerivationPath, ChildNumber};

fn asset(b: u8) -> AssetId { AssetId::from_byte_array([b;32]) }

fn main() {
    let secp = Secp256k1::new();
    // F-new_bech32 panic
    let r = catch_unwind(|| elements::blech32::decode::SegwitHrpstring::new_bech32("a1").is_ok());
    println!("F4 new_bech32(\"a1\") => {:?}", r.map_err(|_| "PANIC"));

    // F2: from_script with v1 program length 1 / 0
    for s in [vec![0x51u8, 0x01, 0xaa], vec![0x51, 0x00], vec![0x60, 0x28].into_iter().chain(vec![7u8;40]).collect()] {
        let sc = Script::from(s.clone());
        let a = Address::from_script(&sc, None, &AddressParams::ELEMENTS);
        match a {
            Some(a) => { let t = a.to_string(); println!("F2 script {:02x?} -> addr {} ; reparse {:?} ; spk_eq {}", &s[..s.len().min(4)], t, Address::from_str(&t).map(|x| x == a), a.script_pubkey()==sc); }
            None => println!("F2 script {:02x?} -> None", s),
        }
    }
    // F3: blinded v1 address with program len 1 parses?
    let pk = zkp::PublicKey::from_secret_key(&secp, &zkp::SecretKey::from_slice(&[1u8;32]).unwrap());
    for plen in [0usize,1,2,40,41] {
        let a = Address { params: &AddressParams::LIQUID, payload: address::Payload::WitnessProgram{ version: bech32_fe(1), program: vec![9u8; plen]}, blinding_pubkey: Some(pk)};
        let t = a.to_string();
        println!("F3 blinded v1 plen={} parse => {:?}", plen, Address::from_str(&t).map(|x| x==a).map_err(|e| e.to_string()));
    }
    // F5: locktime both kinds
    let mut p = Pset::new_v2();
    let mut i1 = Input::from_prevout(OutPoint::new(Txid::from_byte_array([1;32]), 0));
    i1.required_time_locktime = Some(locktime::Time::from_consensus(600_000_000).unwrap());
    i1.required_height_locktime = Some(locktime::Height::from_consensus(100).unwrap());
    p.add_input(i1);
    println!("F5 locktime both => {:?}", p.locktime());
    // F6: unique_id changes with final_script_sig
    let mut p = Pset::new_v2();
    p.add_input(Input::from_prevout(OutPoint::new(Txid::from_byte_array([1;32]), 0)));
    p.add_output(Output::new_explicit(Script::new(), 5, asset(3), None));
    let id0 = p.unique_id().unwrap();
    p.inputs_mut()[0].final_script_sig = Some(Script::from(vec![0x51]));
    let id1 = p.unique_id().unwrap();
    p.inputs_mut()[0].final_script_sig = None;
    p.inputs_mut()[0].final_script_witness = Some(vec![vec![1,2]]);
    p.inputs_mut()[0].sequence = Some(Sequence(5));
    let id2 = p.unique_id().unwrap();
    println!("F6 unique_id stable under final_script_sig: {} ; under witness+sequence: {}", id0==id1, id0==id2);
    // F9/F10: from_tx issuance ids and coinbase roundtrip
    let mut txin = TxIn::default();
    txin.previous_output = OutPoint::new(Txid::from_byte_array([7;32]), 1);
    txin.asset_issuance.amount = confidential::Value::Explicit(10);
    let tx = Transaction{ version:2, lock_time: LockTime::ZERO, input: vec![txin.clone()], output: vec![TxOut::new_fee(1, asset(3))]};
    let ps = Pset::from_tx(tx.clone());
    println!("F9 issuance_ids txin==pset_input: {} ; extracted==txin: {}", txin.issuance_ids()==ps.inputs()[0].issuance_ids(), ps.extract_tx().unwrap().input[0].issuance_ids()==txin.issuance_ids());
    println!("F9b from_tx->extract identical (issuance tx): {}", ps.extract_tx().unwrap()==tx);
    let cb = Transaction{ version:2, lock_time: LockTime::ZERO, input: vec![TxIn::default()], output: vec![TxOut::new_fee(1, asset(3))]};
    let ex = Pset::from_tx(cb.clone()).extract_tx().unwrap();
    println!("F10 coinbase from_tx->extract identical: {} (is_pegin after = {})", ex==cb, ex.input[0].is_pegin);
    // F12 explicit output with nonce
    let mut o = TxOut::new_fee(5, asset(3)); o.script_pubkey = Script::from(vec![0x51]); o.nonce = confidential::Nonce::Confidential(pk);
    let t2 = Transaction{ version:2, lock_time: LockTime::ZERO, input: vec![{let mut i=TxIn::default(); i.previous_output.vout=0; i}], output: vec![o]};
    println!("F12 explicit-with-nonce from_tx->extract identical: {}", Pset::from_tx(t2.clone()).extract_tx().unwrap()==t2);
    // F7: merge xpub panic
    let xpub = Xpub::from_str("xpub661MyMwAqRbcFtXgS5sYJABqqG9YLmC4Q1Rdap9gSE8NqtwybGhePY2gZ29ESFjqJoCu1Rupje8YtGqsefD265TMg7usUDFdp6W1EGMcet8").unwrap();
    let mk = |path: Vec<u32>, fp: [u8;4]| { let mut p = Pset::new_v2(); p.add_input(Input::from_prevout(OutPoint::new(Txid::from_byte_array([1;32]), 0))); p.add_output(Output::new_explicit(Script::new(), 5, asset(3), None)); p.global.xpub.insert(xpub, (Fingerprint::from(fp), DerivationPath::from(path.into_iter().map(ChildNumber::from).collect::<Vec<_>>()))); p };
    let a = mk(vec![1,2,3], [0;4]); let b = mk(vec![9], [0;4]);
    let r = catch_unwind(move || { let mut a=a; a.merge(b).map_err(|e| e.to_string()) });
    println!("F7 merge xpub (self longer, other shorter non-suffix) => {:?}", r.map_err(|_| "PANIC"));
    let a = mk(vec![9], [0;4]); let b = mk(vec![1,2,3], [0;4]);
    let r = catch_unwind(move || { let mut a=a; a.merge(b).map_err(|e| e.to_string()) });
    println!("F7b merge xpub (self shorter, other longer non-suffix) => {:?}", r.map_err(|_| "PANIC"));
    let a = mk(vec![1,2], [0;4]); let b = mk(vec![1,2], [1;4]);
    let r = catch_unwind(move || { let mut a=a; let r=a.merge(b).map_err(|e| e.to_string()); (r, a.global.xpub.values().next().unwrap().0) });
    println!("F8 merge xpub equal path diff fingerprint => {:?}", r.map_err(|_| "PANIC"));
    // F11: merge loses sighash_type / sequence
    let mut a = mk(vec![1],[0;4]); let mut b = a.clone();
    b.inputs_mut()[0].sighash_type = Some(EcdsaSighashType::All.into()); b.inputs_mut()[0].sequence = Some(Sequence(7));
    a.merge(b).unwrap();
    println!("F11 after merge sighash_type={:?} sequence={:?}", a.inputs()[0].sighash_type, a.inputs()[0].sequence);
    // F15: blind with no marked outputs
    let mut t = Transaction{ version:2, lock_time: LockTime::ZERO, input: vec![{let mut i=TxIn::default(); i.previous_output.vout=0; i}], output: vec![TxOut::new_fee(5, asset(3))]};
    let sec = TxOutSecrets::new(asset(3), confidential::AssetBlindingFactor::zero(), 5, confidential::ValueBlindingFactor::zero());
    let r = catch_unwind(move || { let secp = Secp256k1::new(); t.blind(&mut rand::thread_rng(), &secp, &[sec], false).map(|m| m.len()).map_err(|e| e.to_string()) });
    println!("F15 blind with zero marked outputs => {:?}", r.map_err(|_| "PANIC"));
    // F16: verify explicit tx with zero-value OP_RETURN
    let spent = { let mut o = TxOut::new_fee(5, asset(3)); o.script_pubkey = Script::from(vec![0x51]); o };
    let mut opret = TxOut::new_fee(0, asset(3)); opret.script_pubkey = Script::from(vec![0x6a]);
    let t = Transaction{ version:2, lock_time: LockTime::ZERO, input: vec![{let mut i=TxIn::default(); i.previous_output.vout=0; i}], output: vec![TxOut::new_fee(5, asset(3)), opret]};
    println!("F16 verify balanced explicit tx w/ zero OP_RETURN => {:?}", t.verify_tx_amt_proofs(&secp, &[spent.clone()]));
    let t = Transaction{ version:2, lock_time: LockTime::ZERO, input: vec![{let mut i=TxIn::default(); i.previous_output.vout=0; i}], output: vec![TxOut::new_fee(5, asset(3))]};
    println!("F16b verify balanced explicit tx => {:?}", t.verify_tx_amt_proofs(&secp, &[spent]));
    // F14: taptree fixpoint
    let b = taproot::TaprootBuilder::new().add_leaf(1, Script::from(vec![0x51])).unwrap().add_leaf(1, Script::from(vec![0x52])).unwrap();
    let tt = pset::TapTree::from_inner(b).unwrap();
    use elements::pset::serialize::{Serialize, Deserialize};
    let s1 = tt.serialize(); let s2 = pset::TapTree::deserialize(&s1).unwrap().serialize(); let s3 = pset::TapTree::deserialize(&s2).unwrap().serialize();
    println!("F14 taptree ser fixpoint: s1==s2 {} s2==s3 {} s1==s3 {}", s1==s2, s2==s3, s1==s3);
    // F1: taproot sighash with Prevouts::One and ALL|ACP
    let tx = Transaction{ version:2, lock_time: LockTime::ZERO, input: vec![{let mut i=TxIn::default(); i.previous_output.vout=0; i}], output: vec![TxOut::new_fee(5, asset(3))]};
    let prev = TxOut::new_fee(5, asset(3));
    for ty in [SchnorrSighashType::AllPlusAnyoneCanPay, SchnorrSighashType::NonePlusAnyoneCanPay, SchnorrSighashType::SinglePlusAnyoneCanPay] {
        let mut c = sighash::SighashCache::new(&tx);
        let one = c.taproot_key_spend_signature_hash(0, &sighash::Prevouts::One(0, &prev), ty, BlockHash::from_byte_array([0;32])).map(|h| h.to_byte_array()[0]);
        let mut c = sighash::SighashCache::new(&tx);
        let all = c.taproot_key_spend_signature_hash(0, &sighash::Prevouts::All(&[&prev]), ty, BlockHash::from_byte_array([0;32])).map(|h| h.to_byte_array()[0]);
        println!("F1 {:?}: One => {:?} ; All => {:?}", ty, one.map_err(|e| e.to_string()), all.map_err(|e| e.to_string()));
    }
    // builder deser finalize panic
    let r = catch_unwind(|| { let b: taproot::TaprootBuilder = serde_json::from_str("{\"branch\":[null]}").unwrap(); let secp=Secp256k1::new(); let k = zkp::XOnlyPublicKey::from_slice(&[0x79,0xbe,0x66,0x7e,0xf9,0xdc,0xbb,0xac,0x55,0xa0,0x62,0x95,0xce,0x87,0x0b,0x07,0x02,0x9b,0xfc,0xdb,0x2d,0xce,0x28,0xd9,0x59,0xf2,0x81,0x5b,0x16,0xf8,0x17,0x98]).unwrap(); b.finalize(&secp, k).is_ok() });
    println!("F17 deserialized builder [null] finalize => {:?}", r.map_err(|_| "PANIC"));
}
fn bech32_fe(v: u8) -> bech32::Fe32 { bech32::Fe32::try_from(v).unwrap() }
