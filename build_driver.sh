#!/bin/sh
# Builds the OCaml driver from the extracted model. coq/model.ml(i) are produced by `make -C coq Extract/Extract.vo`.
# uint63.ml is Coq's own kernel implementation of primitive 63-bit integers (the code the kernel itself runs);
# the only edit is dropping its C stub for int->float conversion, which the model never uses.
set -e
cd "$(dirname "$0")/driver"
mkdir -p _build
cp ../coq/model.ml ../coq/model.mli main.ml _build/
cp /usr/lib/ocaml/coq-core/kernel/uint63.mli _build/
sed -e '/^external to_float/,/coq_uint63_to_float"/c let to_float (_ : int) : float = failwith "uint63 to_float: not used by the model"' \
    /usr/lib/ocaml/coq-core/kernel/uint63.ml > _build/uint63.ml
cd _build
ocamlfind ocamlopt -O3 -w -a uint63.mli uint63.ml model.mli model.ml main.ml -o ../driver.exe
