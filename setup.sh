#!/bin/sh
# One-time build after a fresh restore (offline): all Coq files (full .vo), extraction, OCaml driver, Rust harness.
set -e
cd "$(dirname "$0")"
export CARGO_NET_OFFLINE=true CARGO_TARGET_DIR="$PWD/.cache/target"
mkdir -p .cache evidence replays
python3 gen_registry.py
python3 translator/translate.py /repo coq/Gen/Tables.v
cd coq
coq_makefile -f _CoqProject -o Makefile $(find . -name '*.v' ! -name 'audit_*' ! -name 'assum_*' | sed 's|^\./||' | sort)
timeout 3000 make -j16
cd ..
./build_driver.sh
[ -f harness/Cargo.lock ] || cp /repo/Cargo.lock harness/Cargo.lock
sed "s#@REPO@#/repo#" harness/Cargo.toml.in > harness/Cargo.toml
(cd harness && RUSTFLAGS="--cfg elements_verif" cargo build --offline -q && RUSTFLAGS="--cfg elements_verif" cargo build --offline -q --release)
echo setup done
