#!/usr/bin/env python3
"""Regenerates section 11 of DESIGN.md (seeded changes and which checks caught them) from seeded/*/meta.json. Run after fold_notes.py."""
import glob, json, os
ROOT = os.path.dirname(os.path.abspath(__file__))
d = open(os.path.join(ROOT, "DESIGN.md")).read()
marker = "\n## 11. Seeded changes — which check catches which (generated from seeded/*/meta.json by fold_seeded.py)\n"
if marker in d:
    d = d[:d.index(marker)]
rows = []
for p in sorted(glob.glob(os.path.join(ROOT, "seeded", "*", "meta.json"))):
    m = json.load(open(p))
    name = os.path.basename(os.path.dirname(p))
    ok = m.get("confirmed", {})
    conf = "yes" if all(ok.values()) else "NO: " + ",".join(k for k, v in ok.items() if not v)
    checks = "; ".join("%s: %s" % kv for kv in sorted(m.get("checks", {}).items()))
    cur = m.get("checks_current")
    cur = "; ".join("%s: %s" % kv for kv in sorted(cur.items())) if isinstance(cur, dict) else (cur or "")
    rows.append("| `%s` | %s | %s | %s | %s | %s |" % (name, (m.get("breaks") or "").replace("|", "/")[:260], (m.get("needs") or "").replace("|", "/")[:200], conf, checks, cur))
out = [d.rstrip("\n"), "", marker.strip("\n"), "",
       "Each change was written by a fresh sub-agent that saw only the property text and a scratch worktree of the library (nothing from /verif). "
       "`confirmed` = I re-ran it: the demonstration passes on the clean tree, the 105 unit tests still pass with the change, the demonstration fails with it. "
       "`caught` = the quick check printed a VIOLATION line with a failing input; `caught-no-input` = VIOLATION ... no-failing-input-found (a proof or correspondence "
       "channel broke but the property predicate found no input in that run); `MISSED` entries in the column `first run` are kept as recorded history; the column `re-run` is the result of running the "
       "checks against the same change again after the checks were strengthened and the library repaired (empty = not re-run; `patch-does-not-apply-after-fixes` = a later "
       "`fix:` commit rewrote the lines the change touches).", "",
       "| change | what it breaks | needs | confirmed | first run | re-run |", "|---|---|---|---|---|---|"] + rows
open(os.path.join(ROOT, "DESIGN.md"), "w").write("\n".join(out) + "\n")
print("DESIGN.md section 11:", len(rows), "seeded changes")
