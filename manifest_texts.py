"""Texts for MANIFEST.json, one entry per claimed property."""
PENDING = {}
TEXTS = {
    "C18": dict(
        text="Kernel-checked theorems, for every list of leaves over an abstract node type and compression function: the incremental binary-counter "
             "algorithm of fast_merkle_root equals the level-by-level definitional tree (C18_refines), the empty/single cases (C18_small), and two "
             "different equally long leaf lists with equal roots exhibit an explicit compression collision (C18_depends). The model is tied to the code "
             "on every run by executing both on every leaf count 0..n with the real SHA-256 compression; the harness also evaluates the definitional "
             "tree directly on the implementation.",
        design_ref="DESIGN.md section 6, C18",
        note="Trusted: Coq kernel; hand-written model of the carry loop/final sweep as a list of optional nodes (slot k is Some iff bit k of count is set) — "
             "the u32 counter and the fixed 32-entry array are not modelled (lists >= 2^32 leaves); SHA-256 compression abstract in the theorems; "
             "extraction + 40-line OCaml driver audited by in-kernel vm_compute; Rust harness.",
        technique="Coq proof by induction (binary-counter invariant = split tree = level-by-level tree) + per-run model/implementation correspondence",
    ),
    "C16": dict(
        text="Kernel-checked theorems over an executable model of script.rs/opcodes.rs/address.rs, for every profile, every finite sequence of builder "
             "operations and every byte string: iterating a built script yields exactly the pushes and opcodes added, with push_int special cases and VERIFY "
             "folding explicit (C16_readback); which programs panic (C16_build_total); push_slice writes the shortest of the four header forms, all of which "
             "decode to the same push (C16_min_push, C16_push_forms_decode); instructions_minimal succeeds iff no pushed slice is a single byte in 1..16/0x81 "
             "(C16_min_iter); script numbers round-trip for |n| < 2^31 and give NumericOverflow beyond, i64::MIN panics iff overflow checks are on "
             "(C16_scriptint*); one byte-form iff per template predicate (C16_templates, C16_v1plus*); from_script yields an address exactly for the templates "
             "and its script_pubkey is the original script (C16_from_script, C16_from_script_roundtrip), text round trip relative to C06 (C16_from_script_text). "
             "Finding F14 is re-derived: from_script(51 01 aa) yields an address whose text does not parse (C16_from_script_refuted in Coq; end to end in the harness).",
        design_ref="DESIGN.md section 6, C16; finding F14 in section 7",
        note="Trusted: Coq kernel; hand-written model tied to the code by the per-run correspondence check (debug and release profiles); translator for opcode values; "
             "extraction + OCaml driver audited by in-kernel vm_compute; Rust harness. The address text codec is property C06 and enters as an explicit premise.",
        technique="Coq proof (builder invariant over an inductive 'built script' relation, 256-way opcode enumeration in the kernel, sign-magnitude arithmetic) "
                  "+ per-run model/implementation correspondence incl. an exhaustive length x opcode x push-length sweep around each template",
    ),
}
