"""Texts for MANIFEST.json live in props/Cxx.py (TEXT); this module re-exports them."""
from props_config import TEXTS
PENDING = {}
