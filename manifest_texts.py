"""Texts for MANIFEST.json, one entry per claimed property."""
PENDING = {}
TEXTS = {
    "C18": dict(
        text="Kernel-checked theorems, for every list of leaves over an abstract node type and compression function: the incremental binary-counter "
             "algorithm of fast_merkle_root equals the level-by-level definitional tree (C18_refines), the empty/single cases (C18_small), and two "
             "different equally long leaf lists with equal roots exhibit an explicit compression collision (C18_depends). The model is tied to the code "
             "on every run by executing both on every leaf count 0..n with the real SHA-256 compression; the harness also evaluates the definitional "
             "tree directly on the implementation.",
        design_ref="DESIGN.md section 6, C18",
        note="Trusted: Coq kernel; hand-written model of the carry loop/final sweep as a list of optional nodes (slot k is Some iff bit k of count is set) — "
             "the u32 counter and the fixed 32-entry array are not modelled (lists >= 2^32 leaves); SHA-256 compression abstract in the theorems; "
             "extraction + 40-line OCaml driver audited by in-kernel vm_compute; Rust harness.",
        technique="Coq proof by induction (binary-counter invariant = split tree = level-by-level tree) + per-run model/implementation correspondence",
    ),
}
