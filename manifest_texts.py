"""Texts for MANIFEST.json, one entry per claimed property."""
PENDING = {}
TEXTS = {
    "C18": dict(
        text="Kernel-checked theorems, for every list of leaves over an abstract node type and compression function: the incremental binary-counter "
             "algorithm of fast_merkle_root equals the level-by-level definitional tree (C18_refines), the empty/single cases (C18_small), and two "
             "different equally long leaf lists with equal roots exhibit an explicit compression collision (C18_depends). The model is tied to the code "
             "on every run by executing both on every leaf count 0..n with the real SHA-256 compression; the harness also evaluates the definitional "
             "tree directly on the implementation.",
        design_ref="DESIGN.md section 6, C18",
        note="Trusted: Coq kernel; hand-written model of the carry loop/final sweep as a list of optional nodes (slot k is Some iff bit k of count is set) — "
             "the u32 counter and the fixed 32-entry array are not modelled (lists >= 2^32 leaves); SHA-256 compression abstract in the theorems; "
             "extraction + 40-line OCaml driver audited by in-kernel vm_compute; Rust harness.",
        technique="Coq proof by induction (binary-counter invariant = split tree = level-by-level tree) + per-run model/implementation correspondence",
    ),
    "C15": dict(
        text="Kernel-checked theorems over abstract tagged hashes and an abstract secp256k1 oracle, for every script tree (leaves, hidden nodes) of height <= 128: "
             "the eager-combine builder fed the depth-first walk ends in the tree's sorted-pair merkle root with every leaf's sibling path (C15_builder_sound), only such "
             "walks finalize (C15_builder_complete), every leaf's control block verifies, has length 33+32*depth and survives from_slice/serialize (C15_cb_verifies), fails "
             "with the other parity or another output key (C15_cb_wrong_parity_or_key), anything that verifies is a leaf of the tree or an explicit hash collision "
             "(C15_cb_binding), the output key is the internal key tweaked by H_TapTweak(internal||root) and the tweaked key pair is its secret (C15_output_key, "
             "C15_keypair), Huffman construction keeps exactly the input leaves and never panics (C15_huffman_shape) and never puts a heavier leaf deeper when the weight "
             "sum does not saturate (C15_huffman_order). The model is tied to the code on every run by executing both on exhaustive and random depth sequences, "
             "chains around depth 128, control-block byte strings and Huffman weight vectors with the real tagged SHA-256; the harness also evaluates the property on the "
             "implementation against its own independent tree/tagged-hash computation.",
        design_ref="DESIGN.md section 6, C15; notes/C15.md",
        note="Trusted: Coq kernel; hand-written Gallina model of taproot.rs/schnorr.rs (builder loop, NodeInfo::combine, script map, control block codec, "
             "verify_taproot_commitment, with_huffman_tree as multiset extract-max); secp256k1 as an oracle with stated premises; translator for constants and tag "
             "strings; extraction + OCaml driver audited by in-kernel vm_compute; Rust harness. Findings re-derived: F9 (leaves held in reverse DFS order, proved; does not "
             "affect any C15 observable), F16 (finalize on a serde-only state panics; C10).",
        technique="Coq proof (restart lemma for the eager-combine loop, collision extraction, exchange-free Huffman depth-order invariant) + per-run model/implementation correspondence",
    ),
}
