"""Texts for MANIFEST.json, one entry per claimed property."""
PENDING = {}
TEXTS = {
    "C18": dict(
        text="Kernel-checked theorems, for every list of leaves over an abstract node type and compression function: the incremental binary-counter "
             "algorithm of fast_merkle_root equals the level-by-level definitional tree (C18_refines), the empty/single cases (C18_small), and two "
             "different equally long leaf lists with equal roots exhibit an explicit compression collision (C18_depends). The model is tied to the code "
             "on every run by executing both on every leaf count 0..n with the real SHA-256 compression; the harness also evaluates the definitional "
             "tree directly on the implementation.",
        design_ref="DESIGN.md section 6, C18",
        note="Trusted: Coq kernel; hand-written model of the carry loop/final sweep as a list of optional nodes (slot k is Some iff bit k of count is set) — "
             "the u32 counter and the fixed 32-entry array are not modelled (lists >= 2^32 leaves); SHA-256 compression abstract in the theorems; "
             "extraction + 40-line OCaml driver audited by in-kernel vm_compute; Rust harness.",
        technique="Coq proof by induction (binary-counter invariant = split tree = level-by-level tree) + per-run model/implementation correspondence",
    ),
    "C14": dict(
        text="Kernel-checked theorems over the per-field merge policy table that the translator rebuilds from the three `fn merge` bodies on every run: "
             "the unique-id gate refuses different ids (C14_gate); every field merged by a keeping statement keeps whatever either operand has, at the global map and "
             "every input/output position (C14_keeps_all), with the complement pinned as the finding class F3 and refuted by witnesses; the xpub key-source "
             "reconciliation equals its documented algorithm and never panics outside the two known classes F2/F4 (C14_xpub) which are refuted by witnesses; "
             "order/grouping independence for compatible descendants (C14_commutes, C14_family). Model and crate are run on the same PSETs on every check.",
        design_ref="DESIGN.md section 6, C14",
        note="Trusted: Coq kernel; translator (statement recogniser for fn merge bodies; unknown statements are a hard error); hand-written semantics of each "
             "statement kind; opaque canonical field values; harness listing code; unique id abstract in theorems.",
        technique="Coq proof generic in the regenerated policy table + per-run model/implementation correspondence",
    ),
    "C08": dict(
        text="Kernel-checked theorems: PartiallySignedTransaction::locktime equals BIP370 (transcribed from the BIP) and never panics, for any number of inputs and any "
             "requirements, with the arm order of its final match re-read from the source on every run (C08_locktime_spec, C08_locktime_total; class F6 refuted); "
             "extract_tx(from_tx(tx)) = tx for well-formed transactions (C08_rt; classes F8a, F8b refuted); extraction is the field-wise function with the BIP370 lock "
             "time (C08_extract_reflects); the unique-id pre-image is a function of an explicit field list, hence invariant under every other field update "
             "(C08_uid_depends, C08_uid_invariant; F7 refuted). Model and crate are run on the same PSETs and transactions on every check.",
        design_ref="DESIGN.md section 6, C08",
        note="Trusted: Coq kernel; translator anchors (match arms of locktime(), resets in unique_id(), body of is_pegin()); hand-written field-level model of from_tx/extract_tx; "
             "txid abstract; BIP370 transcription; harness listing code.",
        technique="Coq proof (fold invariant in closed form, case analysis over the regenerated arm order, field-dependence lemma) + per-run model/implementation correspondence",
    ),
}
