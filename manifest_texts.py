"""Texts for MANIFEST.json, one entry per claimed property."""
PENDING = {}
TEXTS = {
    "C18": dict(
        text="Kernel-checked theorems, for every list of leaves over an abstract node type and compression function: the incremental binary-counter "
             "algorithm of fast_merkle_root equals the level-by-level definitional tree (C18_refines), the empty/single cases (C18_small), and two "
             "different equally long leaf lists with equal roots exhibit an explicit compression collision (C18_depends). The model is tied to the code "
             "on every run by executing both on every leaf count 0..n with the real SHA-256 compression; the harness also evaluates the definitional "
             "tree directly on the implementation.",
        design_ref="DESIGN.md section 6, C18",
        note="Trusted: Coq kernel; hand-written model of the carry loop/final sweep as a list of optional nodes (slot k is Some iff bit k of count is set) — "
             "the u32 counter and the fixed 32-entry array are not modelled (lists >= 2^32 leaves); SHA-256 compression abstract in the theorems; "
             "extraction + 40-line OCaml driver audited by in-kernel vm_compute; Rust harness.",
        technique="Coq proof by induction (binary-counter invariant = split tree = level-by-level tree) + per-run model/implementation correspondence",
    ),
    "C17": dict(
        text="Kernel-checked: the checksum engine step is GF(2)-linear (C17_linear); the residue of a corrupted word is the residue of the word xor the "
             "syndrome of the error pattern (C17_syndrome); for each of bech32, bech32m (upstream constants) and blech32, blech32m (constants re-read from "
             "src/blech32/mod.rs) the 31*1023 values Z^a(u) are pairwise distinct and non-zero (C17_table, vm_compute), hence a word of total length <= 1023 "
             "at Hamming distance 1 or 2 from a codeword is not a codeword (C17_two_errors), and a word within distance 2 of a bech32 (blech32) codeword is "
             "not a bech32m (blech32m) codeword and vice versa for lengths <= 140 (C17_switch). Lifted to address strings by C17_address. The HRP clause and "
             "parsing under another network's parameters are partial (explicit residual disjunct).",
        design_ref="DESIGN.md section 6, C17",
        note="Trusted: Coq kernel incl. vm_compute; hand-written Gallina model of the bech32 0.11 engine/decoder and of src/blech32/decode.rs, src/address.rs; "
             "upstream bech32/bech32m constants transcribed by hand; translator regexes; extraction + OCaml driver audited by in-kernel vm_compute; Rust harness. "
             "The tie model<->code is differential testing on every run (sampled corruptions; complete position-pair enumerations in the thorough tier).",
        technique="Coq proof: bit-level linearity + syndrome decomposition + kernel-evaluated distance table (merge sort, 31 713 entries per code) + per-run "
                  "model/implementation correspondence with the property predicate evaluated on the implementation",
    ),
    "C06": dict(
        text="Kernel-checked, for every hash function and key-validity predicate: every well-formed segwit address (3 networks, blinded or not, versions 0..16, "
             "program 2..40 / 20|32) displays to a text that parse_with_params and FromStr map back to it (C06_roundtrip_segwit, via checksum "
             "create/verify, 8<->5 regrouping and decoder completeness); every parsed address outside the known class F5 has a 20-byte hash or a "
             "version<=16 program of 2..40 bytes (20|32 for v0) with the checksum variant its version requires (C06_parsed_shape); FromStr is "
             "parse_with_params of one built-in network; two built-in networks accept the same string only in the residual segwit-vs-base58check case "
             "(C06_one_network_partial). F5 is re-derived as C06_blinded_short_program_refuted. Base58 round trip, the upper-case form and canonicity are "
             "checked on the implementation only (harness predicates + model/implementation agreement), not proved.",
        design_ref="DESIGN.md section 6, C06",
        note="Trusted: Coq kernel incl. vm_compute; hand-written Gallina model of src/address.rs, src/blech32/decode.rs, bech32 0.11 and base58ck; upstream "
             "bech32 constants by hand; SHA-256d and secp256k1 key validity abstract in theorems; translator regexes; extraction + OCaml driver audited by "
             "in-kernel vm_compute; Rust harness with independent encoders. Known finding F5 (blinded short program) recorded in known_findings.txt.",
        technique="Coq proof over a hand-written model of src/address.rs, src/blech32/decode.rs, bech32 0.11 and base58ck + per-run correspondence",
    ),
}
