"""Texts for MANIFEST.json, one entry per claimed property."""
PENDING = {}
TEXTS = {
    "C18": dict(
        text="Kernel-checked theorems, for every list of leaves over an abstract node type and compression function: the incremental binary-counter "
             "algorithm of fast_merkle_root equals the level-by-level definitional tree (C18_refines), the empty/single cases (C18_small), and two "
             "different equally long leaf lists with equal roots exhibit an explicit compression collision (C18_depends). The model is tied to the code "
             "on every run by executing both on every leaf count 0..n with the real SHA-256 compression; the harness also evaluates the definitional "
             "tree directly on the implementation.",
        design_ref="DESIGN.md section 6, C18",
        note="Trusted: Coq kernel; hand-written model of the carry loop/final sweep as a list of optional nodes (slot k is Some iff bit k of count is set) — "
             "the u32 counter and the fixed 32-entry array are not modelled (lists >= 2^32 leaves); SHA-256 compression abstract in the theorems; "
             "extraction + 40-line OCaml driver audited by in-kernel vm_compute; Rust harness.",
        technique="Coq proof by induction (binary-counter invariant = split tree = level-by-level tree) + per-run model/implementation correspondence",
    ),
    "C01": dict(
        text="Kernel-checked theorems for every consensus codec (confidential value/asset/nonce, TxIn, TxOut, Transaction, dynafed Params/FullParams, BlockHeader, Block), "
             "each assembled from combinators whose laws are proved once: a decoder that accepts has consumed a prefix that re-encodes to exactly itself (so no two byte strings "
             "decode to equal values), decoder outputs satisfy the canonicity predicate wf, every wf value decodes back from its encoding whatever follows, and the length the "
             "encoder reports equals the bytes written. Unbounded in all sizes; for every curve-point oracle and every allocation cap. The model is run against "
             "deserialize_partial/serialize/consensus_encode of the real crate on structured, repository and mutated inputs on every check.",
        design_ref="DESIGN.md section 6, C01",
        note="Trusted: Coq kernel; hand-written Gallina codecs tied to the Rust by per-run correspondence; secp256k1 point validity as an oracle fed from the library; "
             "proof-format rules transcribed from the vendored C; element caps reported by the harness. The clause about values produced by the blinding functions is "
             "covered by correspondence only (C04's stream), not by a theorem.",
        technique="Coq proof (codec combinator laws by induction; flag-bit arithmetic by N bit lemmas + lia) + per-run model/implementation correspondence",
    ),
}
