# per-property table extraction; executed inside translate.py (uses src, const, defN, lines, errors, strip_comments, rust_int)

# ---------------------------------------------------------------- C10: constants of the small fallible integer constructors
def _c10():
    lines.append("(* C10: src/transaction.rs (Sequence), src/locktime.rs *)")
    s = strip_comments(src("transaction.rs"))
    m = re.search(r"const\s+LOCK_TYPE_MASK\s*:\s*u32\s*=\s*([0-9a-fA-Fx_]+)\s*;", s)
    if m: defN("C10_SEQ_LOCK_TYPE_MASK", rust_int(m.group(1)), "Sequence::LOCK_TYPE_MASK")
    else: errors.append("anchor missing: const LOCK_TYPE_MASK: u32 in src/transaction.rs")
    # from_seconds_floor: u16::try_from(seconds / N); from_seconds_ceil: u16::try_from(seconds.div_ceil(N))
    m = re.search(r"pub fn from_seconds_floor\(seconds: u32\)[^{]*\{\s*if let Ok\(interval\) = u16::try_from\(seconds / (\d+)\)", s)
    if m: defN("C10_SEQ_FLOOR_INTERVAL", int(m.group(1)), "Sequence::from_seconds_floor: seconds / N must fit a u16")
    else: errors.append("anchor missing: Sequence::from_seconds_floor `u16::try_from(seconds / N)` in src/transaction.rs")
    m = re.search(r"pub fn from_seconds_ceil\(seconds: u32\)[^{]*\{\s*if let Ok\(interval\) = u16::try_from\(seconds\.div_ceil\((\d+)\)\)", s)
    if m: defN("C10_SEQ_CEIL_INTERVAL", int(m.group(1)), "Sequence::from_seconds_ceil: seconds.div_ceil(N) must fit a u16")
    else: errors.append("anchor missing: Sequence::from_seconds_ceil `u16::try_from(seconds.div_ceil(N))` in src/transaction.rs")
    v = const("locktime.rs", "LOCK_TIME_THRESHOLD")
    if v is not None:
        try: defN("C10_LOCK_TIME_THRESHOLD", rust_int(v), "src/locktime.rs LOCK_TIME_THRESHOLD")
        except ValueError: errors.append("const LOCK_TIME_THRESHOLD in src/locktime.rs is not an integer literal: %s" % v)
    # EcdsaSighashType::from_standard: the accepted numeric values
    m = re.search(r"pub fn from_standard\(n: u32\)[^{]*\{\s*match n \{(.*?)non_standard\s*=>", s, flags=re.S)
    if m:
        vals = [rust_int(x) for x in re.findall(r"(0x[0-9a-fA-F]+|\d+)\s*=>\s*Ok\(", m.group(1))]
        lines.append("Definition C10_ECDSA_STANDARD : list N := [%s].  (* EcdsaSighashType::from_standard *)" % "; ".join(str(x) for x in vals))
    else: errors.append("anchor missing: EcdsaSighashType::from_standard match in src/transaction.rs")
    lines.append("")


_c10()
