# per-property table extraction; executed inside translate.py (uses src, const, defN, lines, errors, strip_comments, rust_int)

# ---------------------------------------------------------------------------------------------------------------
# C17 / C06: checksum codes of src/blech32/mod.rs, witness-length limits of src/blech32/decode.rs,
#            address parameters of src/address.rs
# ---------------------------------------------------------------------------------------------------------------
def _c17_c06():
    s = strip_comments(src("blech32/mod.rs"))
    for name in ("Blech32", "Blech32m"):
        m = re.search(r"impl\s+bech32::Checksum\s+for\s+%s\s*\{(.*?)\n\}" % name, s, flags=re.S)
        if not m:
            errors.append("anchor missing: impl bech32::Checksum for %s in src/blech32/mod.rs" % name)
            continue
        body = m.group(1)
        mr = re.search(r"type\s+MidstateRepr\s*=\s*u(\d+)\s*;", body)
        mg = re.search(r"const\s+GENERATOR_SH\s*:\s*\[\s*u\d+\s*;\s*5\s*\]\s*=\s*\[([^\]]*)\]\s*;", body)
        mc = re.search(r"const\s+CHECKSUM_LENGTH\s*:\s*usize\s*=\s*([^;]+);", body)
        mt = re.search(r"const\s+TARGET_RESIDUE\s*:\s*u\d+\s*=\s*([^;]+);", body)
        ml = re.search(r"const\s+CODE_LENGTH\s*:\s*usize\s*=\s*([^;]+);", body)
        if not (mr and mg and mc and mt and ml):
            errors.append("anchor missing: MidstateRepr/GENERATOR_SH/CHECKSUM_LENGTH/TARGET_RESIDUE/CODE_LENGTH of %s" % name)
            continue
        gens = [rust_int(t) for t in mg.group(1).split(",") if t.strip()]
        if len(gens) != 5:
            errors.append("GENERATOR_SH of %s does not have 5 entries" % name)
            continue
        lines.append("Definition %s_GENERATOR_SH : list N := [%s].  (* src/blech32/mod.rs *)" % (name, "; ".join("0x%x" % g for g in gens)))
        defN("%s_CHECKSUM_LENGTH" % name, rust_int(mc.group(1)))
        defN("%s_TARGET_RESIDUE" % name, rust_int(mt.group(1)))
        defN("%s_CODE_LENGTH" % name, rust_int(ml.group(1)))
        defN("%s_MIDSTATE_BITS" % name, int(mr.group(1)))

    # which checksum the local SegwitHrpstring::new selects for which witness version, and the version cap
    d = strip_comments(src("blech32/decode.rs"))
    m = re.search(r"pub\s+fn\s+new\s*\(\s*s\s*:\s*&'s\s+str\s*\)\s*->\s*Result<Self,\s*SegwitHrpstringError>\s*\{(.*?)\n    \}", d, flags=re.S)
    if not m:
        errors.append("anchor missing: SegwitHrpstring::new in src/blech32/decode.rs")
    else:
        body = m.group(1)
        mv = re.search(r"witness_version\.to_u8\(\)\s*>\s*(\d+)", body)
        m0 = re.search(r"VERSION_0\s*=>\s*unchecked\.validate_and_remove_checksum::<(\w+)>\(\)\?", body)
        m1 = re.search(r"_\s*=>\s*unchecked\.validate_and_remove_checksum::<(\w+)>\(\)\?", body)
        if not (mv and m0 and m1):
            errors.append("anchor missing: witness version cap / checksum selection in blech32 SegwitHrpstring::new")
        else:
            defN("BLECH_MAX_WITNESS_VERSION", int(mv.group(1)), "src/blech32/decode.rs SegwitHrpstring::new")
            codes = {"Blech32": 0, "Blech32m": 1}
            if m0.group(1) not in codes or m1.group(1) not in codes:
                errors.append("unknown checksum type selected in blech32 SegwitHrpstring::new")
            else:
                defN("BLECH_V0_CODE", codes[m0.group(1)], "0 = Blech32, 1 = Blech32m")
                defN("BLECH_V1PLUS_CODE", codes[m1.group(1)], "0 = Blech32, 1 = Blech32m")
    m = re.search(r"fn\s+validate_witness_program_length\s*\((.*?)\n    \}", d, flags=re.S)
    if not m:
        errors.append("anchor missing: validate_witness_program_length in src/blech32/decode.rs")
    else:
        body = m.group(1)
        a = re.search(r"if\s+len\s*<\s*(\d+)\s*\{", body)
        b = re.search(r"else\s+if\s+len\s*>\s*(\d+)\s*\+\s*(\d+)\s*\{", body)
        c = re.search(r"witness_version\s*==\s*Fe32::Q\s*&&\s*len\s*!=\s*(\d+)\s*&&\s*len\s*!=\s*(\d+)", body)
        if not (a and b and c):
            errors.append("anchor missing: length rules inside validate_witness_program_length (src/blech32/decode.rs)")
        else:
            defN("BLECH_WPL_MIN", int(a.group(1)), "src/blech32/decode.rs validate_witness_program_length")
            defN("BLECH_WPL_MAX", int(b.group(1)) + int(b.group(2)))
            defN("BLECH_WPL_V0_A", int(c.group(1)))
            defN("BLECH_WPL_V0_B", int(c.group(2)))

    # address parameters
    a = strip_comments(src("address.rs"))
    for net in ("LIQUID", "ELEMENTS", "LIQUID_TESTNET"):
        m = re.search(r"pub\s+const\s+%s\s*:\s*AddressParams\s*=\s*AddressParams\s*\{(.*?)\}\s*;" % net, a, flags=re.S)
        if not m:
            errors.append("anchor missing: AddressParams::%s in src/address.rs" % net)
            continue
        body = m.group(1)
        ok = True
        for f in ("p2pkh_prefix", "p2sh_prefix", "blinded_prefix"):
            mm = re.search(r"\b%s\s*:\s*([0-9a-fA-Fx_]+)\s*," % f, body)
            if not mm:
                errors.append("anchor missing: %s of AddressParams::%s" % (f, net)); ok = False
            else:
                defN("%s_%s" % (net, f), rust_int(mm.group(1)))
        for f in ("bech_hrp", "blech_hrp"):
            mm = re.search(r'\b%s\s*:\s*Hrp::parse_unchecked\("([^"\\]*)"\)\s*,' % f, body)
            if not mm:
                errors.append("anchor missing: %s of AddressParams::%s" % (f, net)); ok = False
            else:
                bs = mm.group(1).encode("ascii", "replace")
                lines.append("Definition %s_%s : list byte := [%s].  (* \"%s\" *)" % (net, f, "; ".join("x%02x" % c for c in bs), mm.group(1)))
    # the network order FromStr tries, and the base58 length guard
    m = re.search(r"let\s+net_arr\s*=\s*\[([^\]]*)\]\s*;", a)
    short = {"liq": "LIQUID", "ele": "ELEMENTS", "liq_test": "LIQUID_TESTNET"}
    if not m or [t.strip() for t in m.group(1).split(",") if t.strip()] != ["liq", "ele", "liq_test"]:
        errors.append("anchor missing or changed: `let net_arr = [liq, ele, liq_test];` in Address::from_str (the model tries the networks in this order)")
    guards = re.findall(r"if\s+s\.len\(\)\s*>\s*(\d+)\s*\{", a)
    if len(guards) != 2 or guards[0] != guards[1]:
        errors.append("anchor missing: the two `if s.len() > N` base58 guards in src/address.rs")
    else:
        defN("BASE58_MAX_LEN", int(guards[0]), "src/address.rs: strings longer than this are not base58-decoded")
    # the witness-program length test of Address::from_bech32 after the blinding key was split off (repair of finding F5, commit 86be616).
    # In a checkout without the repair the anchor is absent: the bounds of the repaired code are emitted nevertheless (the model is the
    # repaired code) and a note is printed; the missing test then shows up as model/implementation disagreement and as a predicate
    # failure on the F5 inputs, not as a translator error that would stop every other property's check.
    m = re.search(r"if\s+program\.len\(\)\s*<\s*(\d+)\s*\|\|\s*program\.len\(\)\s*>\s*(\d+)\s*\{\s*return\s+Err\(\s*AddressError::InvalidWitnessProgramLength", a)
    if m:
        defN("ADDR_PROG_LEN_MIN", int(m.group(1)), "src/address.rs from_bech32: program.len() < MIN || program.len() > MAX is rejected")
        defN("ADDR_PROG_LEN_MAX", int(m.group(2)))
    else:
        print("translator: note: src/address.rs from_bech32 has no `program.len() < .. || program.len() > ..` test (finding F5 unrepaired); using 2 / 40")
        defN("ADDR_PROG_LEN_MIN", 2, "anchor absent in this checkout (F5 unrepaired): bounds of commit 86be616")
        defN("ADDR_PROG_LEN_MAX", 40)
    lines.append("")


_c17_c06()
