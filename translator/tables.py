# per-property table extraction; executed inside translate.py (uses src, const, defN, lines, errors, strip_comments, rust_int)
