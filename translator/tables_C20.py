# per-property table extraction; executed inside translate.py (uses src, const, defN, lines, errors, strip_comments, rust_int)

# ---------------------------------------------------------------- C20: string tables and display directions of the text forms,
# field-name lists of the hand-written serde impls
def _c20():
    def blist(s):
        return "[%s]" % "; ".join("x%02x" % b for b in s.encode("utf8"))

    def body_after(s, anchor_re, what):
        """text of the brace-matched block that starts at the first `{` after the anchor"""
        m = re.search(anchor_re, s)
        if not m:
            errors.append("anchor missing: %s" % what)
            return None
        i = s.find("{", m.end() - 1)
        if i < 0:
            errors.append("anchor missing (no block): %s" % what)
            return None
        depth, j = 0, i
        while j < len(s):
            if s[j] == "{":
                depth += 1
            elif s[j] == "}":
                depth -= 1
                if depth == 0:
                    return s[i:j + 1]
            j += 1
        errors.append("unbalanced braces after: %s" % what)
        return None

    lines.append("(* C20: sighash-type enums, their Display and FromStr string tables (src/transaction.rs, src/sighash.rs, src/pset/map/input.rs) *)")

    def sighash_tables(rel, enum, coq):
        s = strip_comments(src(rel))
        # enum declaration: variant = discriminant
        b = body_after(s, r"pub\s+enum\s+%s\s*\{" % enum, "pub enum %s in src/%s" % (enum, rel))
        variants = re.findall(r"([A-Z][A-Za-z0-9]*)\s*=\s*(0x[0-9a-fA-F]+|\d+)\s*,", b or "")
        if not variants:
            errors.append("no `Variant = value` lines in enum %s (src/%s)" % (enum, rel))
        lines.append("Definition %s_variants : list (list byte * N) := [%s]." % (coq, "; ".join("(%s, %d)" % (blist(n), int(v, 0)) for n, v in variants)))
        # Display: Enum::Variant => "STRING"
        b = body_after(s, r"impl\s+fmt::Display\s+for\s+%s\s*\{" % enum, "impl fmt::Display for %s in src/%s" % (enum, rel))
        disp = re.findall(r"%s::([A-Za-z0-9]+)\s*=>\s*\"([^\"\\]*)\"\s*," % enum, b or "")
        if {n for n, _ in disp} != {n for n, _ in variants}:
            errors.append("Display for %s (src/%s) is not one `%s::V => \"..\"` arm per variant" % (enum, rel, enum))
        lines.append("Definition %s_display : list (list byte * list byte) := [%s]." % (coq, "; ".join("(%s, %s)" % (blist(n), blist(t)) for n, t in disp)))
        # FromStr: "STRING" => Ok(Enum::Variant)
        b = body_after(s, r"impl\s+(?:std::|::std::)?str::FromStr\s+for\s+%s\s*\{" % enum, "impl FromStr for %s in src/%s" % (enum, rel))
        frm = re.findall(r"\"([^\"\\]*)\"\s*=>\s*Ok\(\s*%s::([A-Za-z0-9]+)\s*\)\s*," % enum, b or "")
        if not frm:
            errors.append("FromStr for %s (src/%s) has no `\"..\" => Ok(%s::V)` arms" % (enum, rel, enum))
        if b is not None and not re.search(r"_\s*=>\s*Err\(", b):
            errors.append("FromStr for %s (src/%s) no longer ends in a `_ => Err(..)` arm" % (enum, rel))
        lines.append("Definition %s_fromstr : list (list byte * list byte) := [%s]." % (coq, "; ".join("(%s, %s)" % (blist(t), blist(n)) for t, n in frm)))
        return s

    sighash_tables("transaction.rs", "EcdsaSighashType", "ecdsa_sighash")
    s = sighash_tables("sighash.rs", "SchnorrSighashType", "schnorr_sighash")
    # SchnorrSighashType::from_u8 (used by PsbtSighashType::schnorr_hash_ty)
    b = body_after(s, r"pub\s+fn\s+from_u8\s*\(\s*hash_ty\s*:\s*u8\s*\)\s*->\s*Option<Self>\s*\{", "SchnorrSighashType::from_u8 in src/sighash.rs")
    fu8 = re.findall(r"(0x[0-9a-fA-F]+|\d+)\s*=>\s*Some\(\s*SchnorrSighashType::([A-Za-z0-9]+)\s*\)\s*,", b or "")
    if not fu8 or (b is not None and not re.search(r"_x?\s*=>\s*None", b)):
        errors.append("SchnorrSighashType::from_u8 (src/sighash.rs) is no longer a table of `0x.. => Some(V)` arms ending in `_ => None`")
    lines.append("Definition schnorr_sighash_from_u8 : list (N * list byte) := [%s]." % "; ".join("(%d, %s)" % (int(v, 0), blist(n)) for v, n in fu8))
    # PsbtSighashType: the shape of Display / FromStr the model transcribes
    s = strip_comments(src("pset/map/input.rs"))
    b = body_after(s, r"impl\s+fmt::Display\s+for\s+PsbtSighashType\s*\{", "impl fmt::Display for PsbtSighashType")
    if b is not None:
        if not re.search(r"Some\(SchnorrSighashType::Reserved\)\s*\|\s*None\s*=>\s*write!\(f,\s*\"\{:#x\}\",\s*self\.inner\)", b):
            errors.append("Display for PsbtSighashType no longer prints `{:#x}` for Reserved | None")
        if not re.search(r"Some\(schnorr_hash_ty\)\s*=>\s*fmt::Display::fmt\(&schnorr_hash_ty,\s*f\)", b):
            errors.append("Display for PsbtSighashType no longer delegates to SchnorrSighashType's Display")
    b = body_after(s, r"impl\s+FromStr\s+for\s+PsbtSighashType\s*\{", "impl FromStr for PsbtSighashType")
    if b is not None:
        m = re.search(r"u32::from_str_radix\(\s*s\.trim_start_matches\(\"([^\"]*)\"\)\s*,\s*(\d+)\s*\)", b)
        if not m:
            errors.append("FromStr for PsbtSighashType no longer parses `u32::from_str_radix(s.trim_start_matches(..), ..)`")
        else:
            lines.append("Definition psbt_sighash_prefix : list byte := %s." % blist(m.group(1)))
            defN("psbt_sighash_radix", int(m.group(2)))
        if not re.search(r"Ok\(SchnorrSighashType::Reserved\)\s*=>\s*\{\s*return\s+Err", b):
            errors.append("FromStr for PsbtSighashType no longer rejects the verbatim Reserved string")
    b = body_after(s, r"pub\s+fn\s+schnorr_hash_ty\s*\(self\)\s*->\s*Option<SchnorrSighashType>\s*\{", "PsbtSighashType::schnorr_hash_ty")
    m = re.search(r"if\s+self\.inner\s*>\s*(0x[0-9a-fA-F]+|\d+)u32\s*\{\s*None\s*\}\s*else\s*\{\s*SchnorrSighashType::from_u8\(self\.inner as u8\)", b or "")
    if not m:
        errors.append("PsbtSighashType::schnorr_hash_ty is no longer `if inner > K { None } else { from_u8(inner as u8) }`")
    else:
        defN("psbt_sighash_u8_max", rust_int(m.group(1)))
    lines.append("")

    # ---- lock time threshold
    lines.append("(* C20: src/locktime.rs *)")
    v = const("locktime.rs", "LOCK_TIME_THRESHOLD")
    if v is not None:
        defN("C20_LOCK_TIME_THRESHOLD", rust_int(v))
    s = strip_comments(src("locktime.rs"))
    if not re.search(r"fn\s+is_block_height\(n:\s*u32\)\s*->\s*bool\s*\{\s*n\s*<\s*LOCK_TIME_THRESHOLD\s*\}", s) or \
       not re.search(r"fn\s+is_block_time\(n:\s*u32\)\s*->\s*bool\s*\{\s*n\s*>=\s*LOCK_TIME_THRESHOLD\s*\}", s):
        errors.append("is_block_height / is_block_time in src/locktime.rs are no longer `n < LOCK_TIME_THRESHOLD` / `n >= LOCK_TIME_THRESHOLD`")
    # serde of LockTime: the enum and Serialize of Height / Time are derived; Deserialize of Height / Time goes through from_consensus
    # (repair of F17; Model/Serde.v de_height / de_time transcribe that)
    if not re.search(r"derive\(serde::Serialize,\s*serde::Deserialize\)\)\]\s*pub\s+enum\s+LockTime\s*\{", s):
        errors.append("enum LockTime no longer derives serde::Serialize, serde::Deserialize")
    for ty, ctor in (("Height", "Blocks"), ("Time", "Seconds")):
        if not re.search(r"%s\(%s\)" % (ctor, ty), s):
            errors.append("LockTime::%s(%s) variant not found" % (ctor, ty))
        if not re.search(r"#\[cfg_attr\(feature = \"serde\", derive\(serde::Serialize\)\)\]\s*pub\s+struct\s+%s\(u32\);" % ty, s):
            errors.append("struct %s(u32) no longer derives exactly serde::Serialize (a derived Deserialize does not validate the lock-time threshold: finding F17)" % ty)
        if not re.search(r"impl_validated_newtype_deserialize!\(%s\);" % ty, s):
            errors.append("impl_validated_newtype_deserialize!(%s) not found in src/locktime.rs" % ty)
    b = body_after(s, r"macro_rules!\s+impl_validated_newtype_deserialize\s*\{", "macro impl_validated_newtype_deserialize in src/locktime.rs")
    if b is not None:
        if len(re.findall(r"\$ty::from_consensus\(n\)\.map_err\(serde::de::Error::custom\)", b)) != 2 or \
           "<u32 as serde::Deserialize>::deserialize(d)?" not in b or "d.deserialize_newtype_struct(stringify!($ty), Visitor)" not in b:
            errors.append("impl_validated_newtype_deserialize no longer reads a u32 newtype and validates it with from_consensus")
    lines.append("")

    # ---- OutPoint text form
    lines.append("(* C20: OutPoint Display / FromStr (src/transaction.rs) *)")
    s = strip_comments(src("transaction.rs"))
    b = body_after(s, r"impl\s+fmt::Display\s+for\s+OutPoint\s*\{", "impl fmt::Display for OutPoint")
    m1 = re.search(r"f\.write_str\(\"([^\"]*)\"\)\?;\s*write!\(f,\s*\"\{\}([^\"{}]*)\{\}\",\s*self\.txid,\s*self\.vout\)", b or "")
    if not m1:
        errors.append("Display for OutPoint is no longer `write_str(PREFIX); write!(\"{}SEP{}\", txid, vout)`")
    else:
        lines.append("Definition outpoint_display_prefix : list byte := %s." % blist(m1.group(1)))
        lines.append("Definition outpoint_display_sep : list byte := %s." % blist(m1.group(2)))
    b = body_after(s, r"impl\s+::std::str::FromStr\s+for\s+OutPoint\s*\{", "impl FromStr for OutPoint")
    m2 = re.search(r"if\s+s\.starts_with\(\"([^\"]*)\"\)\s*\{\s*s\s*=\s*&s\[(\d+)\.\.\];\s*\}\s*let\s+bitcoin_outpoint\s*=\s*bitcoin::OutPoint::from_str\(s\)\?;", b or "")
    if not m2:
        errors.append("FromStr for OutPoint is no longer `if s.starts_with(PREFIX) { s = &s[N..] }; bitcoin::OutPoint::from_str(s)`")
    else:
        lines.append("Definition outpoint_parse_prefix : list byte := %s." % blist(m2.group(1)))
        defN("outpoint_parse_skip", int(m2.group(2)))
    lines.append("")

    # ---- hash newtypes: byte length and display direction
    lines.append("(* C20: hash newtypes (hash_newtype! / impl_sha256_midstate_wrapper!): (name, length, displayed-backward) *)")
    inner = {"sha256d": (32, True), "sha256": (32, False), "hash160": (20, False), "sha256t": (32, False)}
    rows = []
    for rel in ("hash_types.rs", "issuance.rs", "taproot.rs"):
        s = strip_comments(src(rel))
        for blk in re.finditer(r"hash_newtype!\s*([\{\(])", s):
            op = blk.group(1); cl = "}" if op == "{" else ")"
            depth, j = 0, blk.end() - 1
            while j < len(s):
                if s[j] == op:
                    depth += 1
                elif s[j] == cl:
                    depth -= 1
                    if depth == 0:
                        break
                j += 1
            b = s[blk.end():j]
            for m in re.finditer(r"((?:#\[[^\]]*\]\s*)*)pub\s+struct\s+([A-Za-z0-9]+)\s*\(\s*(?:pub(?:\([a-z]+\))?\s+)?([a-z0-9]+)::Hash", b):
                attrs, name, h = m.group(1), m.group(2), m.group(3)
                if h not in inner:
                    errors.append("hash newtype %s wraps unknown hash %s (src/%s)" % (name, h, rel))
                    continue
                ln, back = inner[h]
                if "hash_newtype(backward)" in attrs:
                    back = True
                if "hash_newtype(forward)" in attrs:
                    back = False
                rows.append((name, ln, back, back))
    # which of them have Display/FromStr (impl_hex_for_newtype!)
    hexed = set()
    for rel in ("hash_types.rs", "issuance.rs", "taproot.rs"):
        for m in re.finditer(r"impl_hex_for_newtype!\(([^)]*)\)", strip_comments(src(rel))):
            hexed |= {x.strip() for x in m.group(1).split(",") if x.strip()}
    rows = [r for r in rows if r[0] in hexed]
    # impl_sha256_midstate_wrapper!: direction of LowerHex (Display) and of FromStr, read from the macro body
    s = strip_comments(src("internal_macros.rs"))
    b = body_after(s, r"macro_rules!\s+impl_sha256_midstate_wrapper\s*\{", "macro impl_sha256_midstate_wrapper")
    if b is not None:
        lh = body_after(b, r"impl\s+::std::fmt::LowerHex\s+for\s+\$ty\s*\{", "LowerHex in impl_sha256_midstate_wrapper")
        fs = body_after(b, r"impl\s+::core::str::FromStr\s+for\s+\$ty\s*\{", "FromStr in impl_sha256_midstate_wrapper")
        dp = body_after(b, r"impl\s+::std::fmt::Display\s+for\s+\$ty\s*\{", "Display in impl_sha256_midstate_wrapper")
        if dp is not None and "::std::fmt::LowerHex::fmt(&self, f)" not in dp:
            errors.append("Display in impl_sha256_midstate_wrapper no longer delegates to LowerHex")
        if lh is not None and fs is not None:
            m = re.search(r"hex::fmt_hex_exact!\(f,\s*(\d+),\s*self\.0\.iter\(\)(\.rev\(\))?,\s*hex::Case::Lower\)", lh)
            if not m:
                errors.append("LowerHex in impl_sha256_midstate_wrapper is no longer fmt_hex_exact!(f, 32, self.0.iter()[.rev()], Lower)")
            else:
                d_back = m.group(2) is not None
                if not re.search(r"let\s+mut\s+arr\s*=\s*hex::decode_to_array\(s\)\?;", fs):
                    errors.append("FromStr in impl_sha256_midstate_wrapper no longer uses hex::decode_to_array")
                p_back = re.search(r"arr\.reverse\(\);", fs) is not None
                for rel in ("issuance.rs", "dynafed.rs", "block.rs"):
                    for mm in re.finditer(r"impl_sha256_midstate_wrapper!\s*\{\s*pub\s+struct\s+([A-Za-z0-9]+)\(\[u8;\s*(\d+)\]\);", strip_comments(src(rel))):
                        rows.append((mm.group(1), int(mm.group(2)), d_back, p_back))
    want = {"Txid", "Wtxid", "BlockHash", "TxMerkleNode", "ScriptHash", "WScriptHash", "ContractHash", "AssetEntropy", "AssetId",
            "TapLeafHash", "TapNodeHash", "TapTweakHash", "ParamsRoot", "ElidedRoot", "DynafedRoot"}
    have = {r[0] for r in rows}
    if want - have:
        errors.append("hash newtypes with a text form not found in the source: %s" % sorted(want - have))
    for name, ln, d_back, p_back in rows:
        defN("hashlen_%s" % name, ln)
        lines.append("Definition hash_display_backward_%s : bool := %s." % (name, "true" if d_back else "false"))
        lines.append("Definition hash_parse_backward_%s : bool := %s." % (name, "true" if p_back else "false"))
    # serde of the hash_newtype! types comes from impl_serde_for_newtype! (same direction constant as Display); the midstate wrappers
    # serialize through sha256d::Hash instead (Model/Serde.v ser_midstate)
    serded = set()
    for rel in ("hash_types.rs", "issuance.rs", "taproot.rs"):
        for m in re.finditer(r"impl_serde_for_newtype!\(([^)]*)\)", strip_comments(src(rel))):
            serded |= {x.strip() for x in m.group(1).split(",") if x.strip()}
    lines.append("Definition hash_serde_table : list (list byte * (N * (bool * bool))) := [%s]." %
                 "; ".join("(%s, (%d, (%s, %s)))" % (blist(n), ln, "true" if d else "false", "true" if p else "false") for n, ln, d, p in rows if n in serded))
    b = body_after(strip_comments(src("internal_macros.rs")), r"macro_rules!\s+impl_sha256_midstate_wrapper\s*\{", "macro impl_sha256_midstate_wrapper")
    if b is not None and (b.count("crate::hashes::sha256d::Hash::from_byte_array(self.to_byte_array()).serialize(serializer)") != 1 or
                          b.count("crate::hashes::sha256d::Hash::deserialize(deserializer)?") != 1):
        errors.append("impl_sha256_midstate_wrapper no longer (de)serializes through sha256d::Hash")
    lines.append("Definition midstate_wrapper_names : list (list byte) := [%s]." % "; ".join(blist(n) for n, ln, d, p in rows if n not in hexed))
    lines.append("Definition hash_text_table : list (list byte * (N * (bool * bool))) := [%s]." %
                 "; ".join("(%s, (%d, (%s, %s)))" % (blist(n), ln, "true" if d else "false", "true" if p else "false") for n, ln, d, p in rows))
    # ---- blinding factors
    s = strip_comments(src("confidential.rs"))
    for ty in ("AssetBlindingFactor", "ValueBlindingFactor"):
        m = re.search(r"hex::impl_fmt_traits!\s*\{\s*#\[display_backward\((true|false)\)\]\s*impl\s+fmt_traits\s+for\s+%s\s*\{\s*const\s+LENGTH:\s*usize\s*=\s*(\d+);" % ty, s)
        b = body_after(s, r"impl\s+str::FromStr\s+for\s+%s\s*\{" % ty, "impl FromStr for %s" % ty)
        if not m:
            errors.append("hex::impl_fmt_traits! for %s not found in src/confidential.rs" % ty)
            continue
        if b is None:
            continue
        if not re.search(r"let\s+mut\s+slice:\s*\[u8;\s*%s\]\s*=\s*hex::decode_to_array\(s\)\?;" % m.group(2), b) or "Tweak::from_inner(slice)?" not in b:
            errors.append("FromStr for %s is no longer decode_to_array -> [reverse] -> Tweak::from_inner" % ty)
        defN("hashlen_%s" % ty, int(m.group(2)))
        lines.append("Definition hash_display_backward_%s : bool := %s." % (ty, m.group(1)))
        lines.append("Definition hash_parse_backward_%s : bool := %s." % (ty, "true" if re.search(r"slice\.reverse\(\);", b) else "false"))
    lines.append("")

    # ---------------------------------------------------------------- serde: field-name lists of the hand-written impls
    lines.append("(* C20: serde field names — serde_struct_impl! / serde_struct_human_string_impl! invocations; ExtData and Params impls *)")
    s = strip_comments(src("internal_macros.rs"))
    for mac, nser, nde in (("serde_struct_impl", 1, 1), ("serde_struct_human_string_impl", 1, 1)):
        b = body_after(s, r"macro_rules!\s+%s\s*\{" % mac, "macro %s" % mac)
        if b is None:
            continue
        if len(re.findall(r"st\.serialize_field\(stringify!\(\$fe\),\s*&self\.\$fe\)\?;", b)) != nser:
            errors.append("%s no longer serializes each field under stringify!($fe)" % mac)
        if len(re.findall(r"stringify!\(\$fe\)\s*=>\s*Ok\(Enum::\$fe\)", b)) != nde:
            errors.append("%s no longer matches field keys against stringify!($fe)" % mac)
        if len(re.findall(r"Some\(Enum::\$fe\)\s*=>\s*\{\s*\$fe\s*=\s*Some\(map\.next_value\(\)\?\);", b)) != nde:
            errors.append("%s no longer stores each recognised field with `$fe = Some(map.next_value()?)`" % mac)
        if len(re.findall(r"return\s+Err\(A::Error::missing_field\(stringify!\(\$fe\)\)\);", b)) != nde:
            errors.append("%s no longer reports missing fields" % mac)
        if "serializer.serialize_struct(stringify!($name), FIELDS.len())" not in b:
            errors.append("%s no longer calls serialize_struct(stringify!($name), FIELDS.len())" % mac)
    seen = {}
    for rel in ("transaction.rs", "block.rs"):
        for m in re.finditer(r"^(serde_struct_impl|serde_struct_human_string_impl)!\(\s*([A-Za-z0-9]+)\s*,\s*(?:\"[^\"]*\"\s*,\s*)?([a-z0-9_,\s]+)\);", strip_comments(src(rel)), flags=re.M):
            seen[m.group(2)] = (m.group(1), [x.strip() for x in m.group(3).split(",") if x.strip()])
    for name in ("AssetIssuance", "OutPoint", "TxInWitness", "TxIn", "TxOutWitness", "TxOut", "Transaction", "BlockHeader", "Block"):
        if name not in seen:
            errors.append("serde struct macro invocation for %s not found" % name)
            continue
        mac, fields = seen[name]
        want = "serde_struct_human_string_impl" if name == "OutPoint" else "serde_struct_impl"
        if mac != want:
            errors.append("%s is now implemented by %s (the model transcribes %s)" % (name, mac, want))
        lines.append("Definition serde_fields_%s : list (list byte) := [%s]." % (name, "; ".join(blist(f) for f in fields)))

    def ser_fields(body, what):
        """[(count, [field names])] for every `serialize_struct(NAME, n)` block followed by serialize_field calls"""
        out = []
        for m in re.finditer(r"serialize_struct\(\s*(?:\"[A-Za-z]+\"|name)\s*,\s*(\d+)\s*\)\?;(.*?)st\.end\(\)", body, flags=re.S):
            names = re.findall(r"serialize_field\(\s*\"([a-z_]+)\"", m.group(2))
            if len(names) != int(m.group(1)):
                errors.append("%s: serialize_struct announces %s fields but writes %d" % (what, m.group(1), len(names)))
            out.append(names)
        return out

    def de_keys(body, what):
        b2 = body_after(body, r"fn\s+visit_str<E:\s*de::Error>\(self,\s*v:\s*&str\)\s*->\s*Result<Self::Value,\s*E>\s*\{\s*match\s+v\s*\{", what + " EnumVisitor::visit_str")
        keys = re.findall(r"\"([a-z_]+)\"\s*=>\s*Ok\(Enum::([A-Za-z]+)\)", b2 or "")
        if not keys or (b2 is not None and not re.search(r"_\s*=>\s*Ok\(Enum::Unknown\)", b2)):
            errors.append("%s: field-key table not found" % what)
        return keys

    s = strip_comments(src("block.rs"))
    b = body_after(s, r"impl\s+Serialize\s+for\s+ExtData\s*\{", "impl Serialize for ExtData")
    sf = ser_fields(b or "", "Serialize for ExtData")
    if len(sf) != 2:
        errors.append("Serialize for ExtData no longer has two serialize_struct arms")
    else:
        lines.append("Definition extdata_ser_proof : list (list byte) := [%s]." % "; ".join(blist(f) for f in sf[0]))
        lines.append("Definition extdata_ser_dynafed : list (list byte) := [%s]." % "; ".join(blist(f) for f in sf[1]))
    b = body_after(s, r"impl<'de>\s+Deserialize<'de>\s+for\s+ExtData\s*\{", "impl Deserialize for ExtData")
    keys = de_keys(b or "", "Deserialize for ExtData")
    lines.append("Definition extdata_de_keys : list (list byte * list byte) := [%s]." % "; ".join("(%s, %s)" % (blist(k), blist(v)) for k, v in keys))
    if b is not None:
        for var, slot in (("Challenge", "challenge"), ("Solution", "solution"), ("Current", "current"), ("Proposed", "proposed"), ("Witness", "witness")):
            if not re.search(r"Some\(Enum::%s\)\s*=>\s*%s\s*=\s*Some\(map\.next_value\(\)\?\)" % (var, slot), b):
                errors.append("Deserialize for ExtData: Enum::%s no longer fills `%s`" % (var, slot))
        if not re.search(r"if\s+let\s+\(Some\(chal\),\s*Some\(soln\)\)\s*=\s*\(challenge,\s*solution\)", b) or \
           not re.search(r"else\s+if\s+let\s+\(Some\(cur\),\s*Some\(prop\),\s*Some\(wit\)\)\s*=\s*\(current,\s*proposed,\s*witness\)", b):
            errors.append("Deserialize for ExtData: variant selection (Proof first, then Dynafed) changed")

    s = strip_comments(src("dynafed.rs"))
    b = body_after(s, r"impl\s+Serialize\s+for\s+Params\s*\{", "impl Serialize for Params")
    sf = ser_fields(b or "", "Serialize for Params")
    if len(sf) != 2 or sf[0] != []:
        errors.append("Serialize for Params no longer has an empty struct for Null and a 3-field struct for Compact")
    else:
        lines.append("Definition params_ser_compact : list (list byte) := [%s]." % "; ".join(blist(f) for f in sf[1]))
    if b is not None and 'Params::Full(ref full) => full.serde_serialize(s, "Params")' not in b:
        errors.append("Serialize for Params::Full no longer delegates to FullParams::serde_serialize")
    b = body_after(s, r"fn\s+serde_serialize<S:\s*Serializer>\(&self,\s*s:\s*S,\s*name:\s*&'static\s+str\)\s*->\s*Result<S::Ok,\s*S::Error>\s*\{", "FullParams::serde_serialize")
    sf = ser_fields(b or "", "FullParams::serde_serialize")
    if len(sf) != 1:
        errors.append("FullParams::serde_serialize shape changed")
    else:
        lines.append("Definition params_ser_full : list (list byte) := [%s]." % "; ".join(blist(f) for f in sf[0]))
        if b is not None and (not re.search(r"\"fedpegscript\",\s*&HexBytes\(&self\.fedpegscript\)", b) or not re.search(r"\"extension_space\",\s*&HexBytesArray\(&self\.extension_space\)", b)):
            errors.append("FullParams::serde_serialize no longer wraps fedpegscript / extension_space in HexBytes / HexBytesArray")
    b = body_after(s, r"impl<'de>\s+Deserialize<'de>\s+for\s+Params\s*\{", "impl Deserialize for Params")
    keys = de_keys(b or "", "Deserialize for Params")
    lines.append("Definition params_de_keys : list (list byte * list byte) := [%s]." % "; ".join("(%s, %s)" % (blist(k), blist(v)) for k, v in keys))
    if b is not None:
        for var, slot in (("SignblockScript", "signblockscript"), ("SignblockWitnessLimit", "signblock_witness_limit"), ("ElidedRoot", "elided_root"),
                          ("FedpegProgram", "fedpeg_program"), ("FedpegScript", "fedpegscript"), ("ExtSpace", "extension_space")):
            if not re.search(r"Some\(Enum::%s\)\s*=>\s*\{\s*%s\s*=\s*Some\(map\.next_value\(\)\?\);" % (var, slot), b):
                errors.append("Deserialize for Params: Enum::%s no longer fills `%s`" % (var, slot))
        if not re.search(r"_\s*=>\s*Ok\(Params::Null\)", b):
            errors.append("Deserialize for Params: the fall-through to Params::Null changed")
    # confidential Value / Asset / Nonce: the tags and the byte swap
    s = strip_comments(src("confidential.rs"))
    for ty in ("Value", "Asset", "Nonce"):
        bs = body_after(s, r"impl\s+Serialize\s+for\s+%s\s*\{" % ty, "impl Serialize for %s" % ty)
        bd = body_after(s, r"impl<'de>\s+Deserialize<'de>\s+for\s+%s\s*\{" % ty, "impl Deserialize for %s" % ty)
        if bs is None or bd is None:
            continue
        st = re.findall(r"%s::(Null|Explicit|Confidential)(?:\([a-z_]*\))?\s*=>\s*(?:\{\s*)?seq\.serialize_element\(&(\d+)u8\)\?" % ty, bs)
        dt = re.findall(r"Some\((\d+)\)\s*=>\s*(?:\{\s*match\s+access\.next_element\(\)\?\s*\{\s*Some\(x\)\s*=>\s*)?Ok\(%s::(Null|Explicit|Confidential)" % ty, bd)
        if len(st) != 3 or len(dt) != 3:
            errors.append("serde of confidential::%s: tag tables not found (ser %s, de %s)" % (ty, st, dt))
            continue
        lines.append("Definition conf_ser_tags_%s : list (list byte * N) := [%s]." % (ty, "; ".join("(%s, %s)" % (blist(n), t) for n, t in st)))
        lines.append("Definition conf_de_tags_%s : list (N * list byte) := [%s]." % (ty, "; ".join("(%s, %s)" % (t, blist(n)) for t, n in dt)))
        if ty == "Value":
            lines.append("Definition value_ser_swaps : bool := %s." % ("true" if re.search(r"seq\.serialize_element\(&u64::swap_bytes\(n\)\)\?", bs) else "false"))
            lines.append("Definition value_de_swaps : bool := %s." % ("true" if re.search(r"Ok\(Value::Explicit\(u64::swap_bytes\(x\)\)\)", bd) else "false"))
    lines.append("")

    # ---------------------------------------------------------------- derived serde of the PSET types: field lists and serde attributes
    lines.append("(* C20: serde_derive'd PSET structs: (field name, \"type|attribute\") in declaration order; Model/SerdePset.v maps the strings to codecs *)")
    here = os.path.dirname(os.path.abspath(_piece)) if "_piece" in globals() else os.path.dirname(os.path.abspath(__file__))
    try:
        known_keys = set(re.findall(r'\(K "([^"]*)"', open(os.path.join(here, "..", "coq", "Model", "SerdePset.v")).read()))
    except OSError:
        known_keys = None
        errors.append("coq/Model/SerdePset.v not readable: cannot check the field types of the derived PSET structs against the model")

    def split_top(body):
        """split a struct body at top-level commas (outside <>, (), [], {})"""
        out, depth, cur = [], 0, ""
        for ch in body:
            if ch in "<([{":
                depth += 1
            elif ch in ">)]}":
                depth -= 1
            if ch == "," and depth == 0:
                out.append(cur); cur = ""
            else:
                cur += ch
        if cur.strip():
            out.append(cur)
        return out

    def derived_struct(rel, name, coqname=None):
        s = strip_comments(src(rel))
        m = re.search(r"((?:#\[[^\]]*\]\s*)*)pub\s+struct\s+%s\b[^{;(]*\{" % name, s)
        if not m:
            errors.append("derived struct %s not found in src/%s" % (name, rel)); return
        attrs = re.sub(r"\s+", "", m.group(1))
        if "derive(serde::Serialize,serde::Deserialize)" not in attrs:
            errors.append("struct %s (src/%s) no longer derives serde::Serialize, serde::Deserialize" % (name, rel))
        if re.search(r"serde\((?!crate)", attrs.replace("derive(serde::Serialize,serde::Deserialize)", "")):
            errors.append("struct %s (src/%s) carries a container-level serde attribute the model does not know: %s" % (name, rel, attrs))
        b = body_after(s[m.start():], r"pub\s+struct\s+%s\b[^{;(]*\{" % name, "struct %s" % name)
        rows = []
        for item in split_top((b or "{}")[1:-1]):
            item = item.strip()
            if not item:
                continue
            fm = re.fullmatch(r"((?:#\[.*?\]\s*)*)(?:pub(?:\([a-z]+\))?\s+)?([a-z_0-9]+)\s*:\s*(.+)", item, flags=re.S)
            if not fm:
                errors.append("struct %s: cannot read field `%s`" % (name, item[:60])); continue
            fattrs, fname, fty = re.sub(r"\s+", "", fm.group(1)), fm.group(2), re.sub(r"\s+", "", fm.group(3))
            sattrs = re.findall(r"serde\(([^()]*(?:\([^()]*\))?[^()]*)\)", fattrs)
            attr = ""
            for a in sattrs:
                w = re.fullmatch(r'with="crate::serde_utils::([a-z_]+)"', a)
                d = re.fullmatch(r'deserialize_with="([a-z_:]+)"', a)
                if w and not attr:
                    attr = w.group(1)
                elif d and not attr:
                    attr = d.group(1)
                else:
                    errors.append("struct %s field %s: serde attribute `%s` has no counterpart in the model (flatten / rename / default / skip change the wire form)" % (name, fname, a))
            key = "%s|%s" % (fty, attr)
            if known_keys is not None and key not in known_keys:
                errors.append("struct %s field %s: type/attribute `%s` has no codec in coq/Model/SerdePset.v (a field was added or its type or serde attribute changed)" % (name, fname, key))
            rows.append((fname, key))
        lines.append("Definition pset_serde_%s : list (list byte * list byte) := [%s]." % (coqname or name, "; ".join("(%s, %s)" % (blist(n), blist(k)) for n, k in rows)))

    derived_struct("pset/mod.rs", "PartiallySignedTransaction")
    derived_struct("pset/map/global.rs", "TxData")
    derived_struct("pset/map/global.rs", "Global")
    derived_struct("pset/map/input.rs", "Input")
    derived_struct("pset/map/output.rs", "Output")
    derived_struct("pset/raw.rs", "Key")
    derived_struct("pset/raw.rs", "ProprietaryKey")
    derived_struct("schnorr.rs", "SchnorrSig")
    derived_struct("taproot.rs", "ControlBlock")
    # the helpers of src/serde_utils.rs the model transcribes
    s = strip_comments(src("serde_utils.rs"))
    for mod in ("btreemap_byte_values", "btreemap_as_seq", "btreemap_as_seq_byte_values", "hex_bytes"):
        b = body_after(s, r"pub\s+mod\s+%s\s*\{" % mod, "mod %s in src/serde_utils.rs" % mod)
        if b is None:
            continue
        if b.count("is_human_readable()") != 2:
            errors.append("serde_utils::%s no longer branches on is_human_readable in serialize and deserialize" % mod)
        if mod != "hex_bytes" and b.count("serde::Serialize::serialize(v, s)") != 1 or b.count("serde::Deserialize::deserialize(d)") != 1:
            errors.append("serde_utils::%s no longer falls back to the plain impl when not human readable" % mod)
    b = body_after(s, r"pub\s+mod\s+btreemap_byte_values\s*\{", "mod btreemap_byte_values")
    if b is not None and ("a.next_entry::<T, String>()?" not in b or "map.serialize_entry(key, &value.to_lower_hex_string())?" not in b):
        errors.append("serde_utils::btreemap_byte_values no longer writes hex-string values and reads them as owned strings (F30)")
    b = body_after(s, r"pub\s+mod\s+btreemap_as_seq\s*\{", "mod btreemap_as_seq")
    if b is not None and ("seq.serialize_element(&pair)?" not in b or "while let Some((key, value)) = a.next_element()?" not in b):
        errors.append("serde_utils::btreemap_as_seq no longer writes / reads a sequence of (key, value) pairs")
    b = body_after(s, r"pub\s+mod\s+btreemap_as_seq_byte_values\s*\{", "mod btreemap_as_seq_byte_values")
    if b is not None and ("seq.serialize_element(&BorrowedPair(key, value))?" not in b or "OwnedPair(key, value)) = a.next_element()?" not in b
                          or b.count('with = "crate::serde_utils::hex_bytes::') != 2):
        errors.append("serde_utils::btreemap_as_seq_byte_values no longer writes / reads (key, hex bytes) tuple structs")
    s = strip_comments(src("taproot.rs"))
    if not re.search(r"fn\s+deserialize_parity<'de,\s*D:\s*serde::Deserializer<'de>>\(d:\s*D\)\s*->\s*Result<secp256k1_zkp::Parity,\s*D::Error>\s*\{\s*let\s+v\s*=\s*<u8\s+as\s+serde::Deserialize>::deserialize\(d\)\?;\s*secp256k1_zkp::Parity::from_u8\(v\)\.map_err\(serde::de::Error::custom\)", s):
        errors.append("taproot::deserialize_parity (a u8 through Parity::from_u8; repair of F29) not found")
    lines.append("")


_c20()
