"""rust2coq.py — translates straight-line Rust functions of rust-elements into Gallina definitions (used by the tables_*.py pieces).

Supported subset (anything else raises Unsupported, which the calling piece reports as a broken tie):
  fn bodies made of `let [mut] x = e;`, `x -= e;`, `x += e;`, `for v in &e { … }` over one accumulator, `if c { … }` statements,
  and a final expression; expressions with + - * / == != < <= > >= && || ! & * (deref), integer literals, paths, field access,
  method calls on the known types (len, iter, map, sum, any, all, as_ref, map_or, is_none, is_some, is_empty, div_ceil,
  saturating_sub, size of VarInt, encoded_length …), closures `|x| e`, `if c { a } else { b }`, blocks, `as T` casts,
  `match *self { Path(..) => e, … }` and `matches!(*self, Path(..))` over the confidential enums, `match n { lo..=hi => e, …, _ => e }` over
  integers, and calls of other translated functions (methods or `Type::f` paths).

The result mirrors the Rust term by term, so the hand-written model is normally *convertible* with it (proofs by reflexivity);
`usize` arithmetic is emitted over N with truncated subtraction (the models state separately that no subtraction truncates)."""
import re


class Unsupported(Exception):
    pass


TOK = re.compile(r"""
    (?P<ws>\s+)
  | (?P<num>0x[0-9a-fA-F_]+(?:u8|u16|u32|u64|usize|i32|i64)?|\d[\d_]*(?:u8|u16|u32|u64|usize|i32|i64)?)
  | (?P<id>[A-Za-z_][A-Za-z0-9_]*)
  | (?P<life>'[a-z_]+)
  | (?P<op>::<|::|->|=>|==|!=|<=|>=|&&|\|\||\+=|-=|\.\.|[-+*/%!&|.,;:(){}\[\]<>=?#])
""", re.X)


def tokenize(s):
    s = re.sub(r"//[^\n]*", "", s)
    s = re.sub(r"/\*.*?\*/", "", s, flags=re.S)
    out, i = [], 0
    while i < len(s):
        m = TOK.match(s, i)
        if not m:
            raise Unsupported("cannot tokenize at %r" % s[i:i + 20])
        i = m.end()
        if m.lastgroup == "ws":
            continue
        out.append((m.lastgroup, m.group()))
    return out


def find_fn(text, impl_re, name):
    """body text (including braces) and parameter text of `fn name` inside the first impl block matching impl_re"""
    text = re.sub(r"//[^\n]*", lambda m: " " * len(m.group()), text)
    m = re.search(impl_re, text)
    if not m:
        raise Unsupported("anchor missing: %s" % impl_re)
    start = text.index("{", m.end() - 1) if text[m.end() - 1] != "{" else m.end() - 1
    end = match_brace(text, start)
    block = text[start:end + 1]
    f = re.search(r"\bfn\s+%s\s*(?:<[^>]*>)?\s*\(([^)]*)\)\s*(?:->\s*([^{]+?))?\s*\{" % re.escape(name), block)
    if not f:
        raise Unsupported("anchor missing: fn %s in %s" % (name, impl_re))
    b0 = f.end() - 1
    b1 = match_brace(block, b0)
    return f.group(1), (f.group(2) or "").strip(), block[b0:b1 + 1]


def match_brace(text, i):
    depth = 0
    for j in range(i, len(text)):
        if text[j] == "{":
            depth += 1
        elif text[j] == "}":
            depth -= 1
            if depth == 0:
                return j
    raise Unsupported("unbalanced braces")


# ------------------------------------------------------------------------------------------------ parser
class P:
    def __init__(self, toks):
        self.t, self.i = toks, 0

    def peek(self, k=0):
        return self.t[self.i + k][1] if self.i + k < len(self.t) else None

    def kind(self, k=0):
        return self.t[self.i + k][0] if self.i + k < len(self.t) else None

    def eat(self, v=None):
        if self.i >= len(self.t):
            raise Unsupported("unexpected end of input")
        k, x = self.t[self.i]
        if v is not None and x != v:
            raise Unsupported("expected %r, found %r" % (v, x))
        self.i += 1
        return x

    def skip_type(self):
        """a type after `as`, `:` or inside a turbofish"""
        if self.peek() == "&":
            self.eat()
            if self.kind() == "life":
                self.eat()
            if self.peek() == "mut":
                self.eat()
        if self.peek() == "[":
            depth = 0
            while True:
                x = self.eat()
                depth += x == "["
                depth -= x == "]"
                if depth == 0:
                    return
        if self.kind() != "id":
            raise Unsupported("type expected, found %r" % self.peek())
        self.eat()
        while self.peek() == "::":
            self.eat(); self.eat()
        if self.peek() in ("<", "::<"):
            depth = 0
            while True:
                x = self.eat()
                if x in ("<", "::<"):
                    depth += 1
                elif x == ">":
                    depth -= 1
                    if depth == 0:
                        return

    def block(self):
        self.eat("{")
        stmts = []
        final = None
        while self.peek() != "}":
            if self.peek() == "let":
                self.eat()
                mut = False
                if self.peek() == "mut":
                    self.eat(); mut = True
                name = self.eat()
                if self.peek() == ":":
                    self.eat(); self.skip_type()
                self.eat("=")
                e = self.expr()
                self.eat(";")
                stmts.append(("let", name, e, mut))
            elif self.peek() == "for":
                self.eat()
                v = self.eat()
                self.eat("in")
                it = self.expr(no_struct=True)
                body = self.block()
                stmts.append(("for", v, it, body))
            else:
                e = self.expr()
                if self.peek() in ("-=", "+="):
                    op = self.eat()
                    rhs = self.expr()
                    self.eat(";")
                    stmts.append(("assign", op[0], e, rhs))
                elif self.peek() == ";":
                    self.eat()
                    stmts.append(("expr", e))
                elif e[0] == "if" and e[3] is None:     # `if c { … }` used as a statement
                    stmts.append(("expr", e))
                elif self.peek() == "}":
                    final = e
                else:
                    raise Unsupported("statement form not supported near %r" % self.peek())
        self.eat("}")
        return ("block", stmts, final)

    PREC = [("||",), ("&&",), ("==", "!=", "<", "<=", ">", ">="), ("+", "-"), ("*", "/", "%")]

    def expr(self, level=0, no_struct=False):
        if level == len(self.PREC):
            return self.unary()
        lhs = self.expr(level + 1)
        while self.peek() in self.PREC[level]:
            op = self.eat()
            rhs = self.expr(level + 1)
            lhs = ("bin", op, lhs, rhs)
        return lhs

    def unary(self):
        if self.peek() == "!":
            self.eat(); return ("not", self.unary())
        if self.peek() in ("&", "*"):
            self.eat()
            if self.peek() == "mut":
                self.eat()
            return self.unary()        # references and derefs are transparent in the model
        if self.peek() == "-":
            raise Unsupported("negation")
        return self.postfix(self.primary())

    def args(self):
        self.eat("(")
        a = []
        while self.peek() != ")":
            a.append(self.expr())
            if self.peek() == ",":
                self.eat()
        self.eat(")")
        return a

    def postfix(self, e):
        while True:
            x = self.peek()
            if x == ".":
                self.eat()
                name = self.eat()
                if self.peek() == "::<":
                    self.skip_turbofish()
                if self.peek() == "(":
                    e = ("mcall", e, name, self.args())
                else:
                    e = ("field", e, name)
            elif x == "as":
                self.eat(); self.skip_type()
            elif x == "?":
                raise Unsupported("? operator")
            elif x == "[":
                self.eat()
                idx = self.expr()
                self.eat("]")
                e = ("index", e, idx)
            else:
                return e

    def skip_turbofish(self):
        depth = 0
        while True:
            x = self.eat()
            if x in ("<", "::<"):
                depth += 1
            elif x == ">":
                depth -= 1
                if depth == 0:
                    return

    def pattern(self):
        if self.peek() == "_":
            self.eat(); return ("wild",)
        if self.kind() == "num":
            lo = self.primary()[1]
            if self.peek() == "..":
                self.eat()
                incl = False
                if self.peek() == "=":
                    self.eat(); incl = True
                hi = self.primary()[1]
                return ("range", lo, hi if incl else hi - 1)
            return ("range", lo, lo)
        path = [self.eat()]
        while self.peek() == "::":
            self.eat(); path.append(self.eat())
        if self.peek() == "(":
            depth = 0
            while True:
                x = self.eat()
                depth += x == "("
                depth -= x == ")"
                if depth == 0:
                    break
        return ("ctor", "::".join(path))

    def primary(self):
        k, x = self.kind(), self.peek()
        if k == "num":
            self.eat()
            v = re.sub(r"(u8|u16|u32|u64|usize|i32|i64)$", "", x.replace("_", ""))
            return ("num", int(v, 0))
        if x == "(":
            self.eat(); e = self.expr(); self.eat(")"); return e
        if x == "{":
            return self.block()
        if x == "|":
            self.eat()
            params = []
            while self.peek() != "|":
                params.append(self.eat())
                if self.peek() == ",":
                    self.eat()
            self.eat("|")
            return ("closure", params, self.expr())
        if x == "||":
            raise Unsupported("closure without parameters")
        if x == "if":
            self.eat()
            c = self.expr(no_struct=True)
            a = self.block()
            b = None
            if self.peek() == "else":
                self.eat()
                b = self.primary() if self.peek() == "if" else self.block()
            return ("if", c, a, b)
        if x == "match":
            self.eat()
            scrut = self.expr(no_struct=True)
            self.eat("{")
            arms = []
            while self.peek() != "}":
                pat = self.pattern()
                if self.peek() == "if":
                    raise Unsupported("match guard")
                self.eat("=>")
                arms.append((pat, self.expr()))
                if self.peek() == ",":
                    self.eat()
            self.eat("}")
            return ("match", scrut, arms)
        if k == "id":
            if x == "matches" and self.peek(1) == "!":
                self.eat(); self.eat(); self.eat("(")
                scrut = self.expr()
                self.eat(",")
                pat = self.pattern()
                self.eat(")")
                return ("match", scrut, [(pat, ("bool", True)), (("wild",), ("bool", False))])
            if x in ("true", "false"):
                self.eat(); return ("bool", x == "true")
            path = [self.eat()]
            while self.peek() == "::":
                self.eat(); path.append(self.eat())
            if self.peek() == "!":
                raise Unsupported("macro %s!" % path[0])
            if self.peek() == "(":
                return ("call", "::".join(path), self.args())
            return ("path", "::".join(path))
        raise Unsupported("unexpected token %r" % x)


# ------------------------------------------------------------------------------------------------ typed emitter
FIELDS = {
    ("tx", "input"): ("tx_in", ("list", "txin")), ("tx", "output"): ("tx_out", ("list", "txout")),
    ("txin", "script_sig"): ("in_script", "bytes"), ("txin", "witness"): ("in_wit", "inwit"), ("txin", "asset_issuance"): ("in_iss", "issuance"),
    ("txin", "is_pegin"): ("in_pegin", "bool"),
    ("inwit", "amount_rangeproof"): ("w_amount_rp", "optbytes"), ("inwit", "inflation_keys_rangeproof"): ("w_keys_rp", "optbytes"),
    ("inwit", "script_witness"): ("w_script", ("list", "bytes")), ("inwit", "pegin_witness"): ("w_pegin", ("list", "bytes")),
    ("issuance", "amount"): ("i_amount", "cvalue"), ("issuance", "inflation_keys"): ("i_keys", "cvalue"),
    ("txout", "asset"): ("out_asset", "casset"), ("txout", "value"): ("out_value", "cvalue"), ("txout", "nonce"): ("out_nonce", "cnonce"),
    ("txout", "script_pubkey"): ("out_script", "bytes"), ("txout", "witness"): ("out_wit", "outwit"),
    ("outwit", "surjection_proof"): ("w_surj", "optbytes"), ("outwit", "rangeproof"): ("w_range", "optbytes"),
    ("block", "header"): ("b_header", "header"), ("block", "txdata"): ("b_txs", ("list", "tx")),
}
CTORS = {
    "Value::Null": ("cvalue", "VNull"), "Value::Explicit": ("cvalue", "VExplicit _"), "Value::Confidential": ("cvalue", "VConf _"),
    "Asset::Null": ("casset", "ANull"), "Asset::Explicit": ("casset", "AExplicit _"), "Asset::Confidential": ("casset", "AConf _"),
    "Nonce::Null": ("cnonce", "NNull"), "Nonce::Explicit": ("cnonce", "NExplicit _"), "Nonce::Confidential": ("cnonce", "NConf _"),
}
CONSTS = {"MAX_SCRIPT_SIZE": ("MAX_SCRIPT_SIZE", "N")}      # free constants that Gen/Tables.v already carries
RUST_TYPE = {"Script": "script", "Transaction": "tx", "TxIn": "txin", "TxOut": "txout", "TxInWitness": "inwit", "TxOutWitness": "outwit", "AssetIssuance": "issuance",
             "Value": "cvalue", "Asset": "casset", "Nonce": "cnonce", "Block": "block", "VarInt": "varint"}
COQ_TYPE = {"tx": "tx", "txin": "txin", "txout": "txout", "inwit": "inwit", "outwit": "outwit", "issuance": "issuance", "cvalue": "cvalue",
            "casset": "casset", "cnonce": "cnonce", "block": "block", "N": "N", "bool": "bool", "bytes": "bytes", "varint": "N", "script": "bytes"}


class Emitter:
    def __init__(self, fns):
        self.fns = fns          # (type, method) -> (coq name, [param types], ret type, extra leading coq args)
        self.varint_size = "vi_size"
        self.safe = set()       # coq names that have a generated <name>_safe

    def ty_of_ret(self, s):
        s = s.strip()
        if s in ("usize", "u64", "u32", "u8"):
            return "N"
        if s == "bool":
            return "bool"
        raise Unsupported("return type %s" % s)

    def e(self, x, env):
        """-> (gallina text, type)"""
        k = x[0]
        if k == "num":
            return str(x[1]), "N"
        if k == "bool":
            return ("true" if x[1] else "false"), "bool"
        if k == "path":
            if x[1] in env:
                return env[x[1]]
            m = re.fullmatch(r"opcodes::all::(OP_[A-Za-z0-9_]+)", x[1])
            if m:
                return m.group(1), "opcode"          # the byte value, a constant of Gen/Tables.v (regenerated from src/opcodes.rs)
            if x[1] in CONSTS:
                return CONSTS[x[1]]
            raise Unsupported("unknown name %s" % x[1])
        if k == "index":
            r, t = self.e(x[1], env)
            i, ti = self.e(x[2], env)
            self.want(t, "bytes"); self.want(ti, "N")
            return "(at_ %s %s)" % (r, ("%s%%nat" % i) if i.isdigit() else "(N.to_nat %s)" % i), "N"
        if k == "field":
            r, t = self.e(x[1], env)
            if t == "varint" and x[2] == "0":
                return r, "N"
            if t == "script" and x[2] == "0":
                return r, "bytes"
            if (t, x[2]) not in FIELDS:
                raise Unsupported("field %s of %s" % (x[2], t))
            acc, ft = FIELDS[(t, x[2])]
            return "(%s %s)" % (acc, r), ft
        if k == "not":
            r, t = self.e(x[1], env)
            self.want(t, "bool")
            return "(negb %s)" % r, "bool"
        if k == "bin":
            op = x[1]
            a, ta = self.e(x[2], env)
            b, tb = self.e(x[3], env)
            if op in ("+", "-", "*", "/"):
                self.want(ta, "N"); self.want(tb, "N")
                return "(%s %s %s)" % (a, op, b), "N"
            if op in ("&&", "||"):
                self.want(ta, "bool"); self.want(tb, "bool")
                return "(%s %s %s)" % (a, op, b), "bool"
            if op in ("==", "!=", "<", "<=", ">", ">="):
                if ta == "opcode" and tb == "opcode" and op in ("==", "!="):
                    ta = tb = "N"
                self.want(ta, "N"); self.want(tb, "N")
                c = {"==": "(%s =? %s)", "!=": "(negb (%s =? %s))", "<": "(%s <? %s)", "<=": "(%s <=? %s)", ">": "(%s <? %s)", ">=": "(%s <=? %s)"}[op]
                return (c % ((b, a) if op in (">", ">=") else (a, b))), "bool"
            raise Unsupported("operator %s" % op)
        if k == "if":
            c, tc = self.e(x[1], env)
            self.want(tc, "bool")
            a, ta = self.e(x[2], env)
            if x[3] is None:
                raise Unsupported("if without else used as a value")
            b, tb = self.e(x[3], env)
            self.want(tb, ta)
            return "(if %s then %s else %s)" % (c, a, b), ta
        if k == "block":
            return self.block(x, env)
        if k == "match" and any(p[0] == "range" for p, _ in x[2]):
            s, ts = self.e(x[1], env)
            self.want(ts, "N")
            if x[2][-1][0][0] != "wild" or any(p[0] != "range" for p, _ in x[2][:-1]):
                raise Unsupported("range match must be ranges followed by a catch-all arm")
            out, rt = self.e(x[2][-1][1], env)
            for pat, body in reversed(x[2][:-1]):
                b, tb = self.e(body, env)
                self.want(tb, rt)
                out = "(if (%d <=? %s) && (%s <=? %d) then %s else %s)" % (pat[1], s, s, pat[2], b, out)
            return out, rt
        if k == "match":
            s, ts = self.e(x[1], env)
            arms = []
            rt = None
            for pat, body in x[2]:
                if pat[0] == "wild":
                    p = "_"
                else:
                    if pat[1] not in CTORS or CTORS[pat[1]][0] != ts:
                        raise Unsupported("pattern %s on %s" % (pat[1], ts))
                    p = CTORS[pat[1]][1]
                b, tb = self.e(body, env)
                rt = rt or tb
                self.want(tb, rt)
                arms.append("%s => %s" % (p, b))
            return "(match %s with %s end)" % (s, " | ".join(arms)), rt
        if k == "call":
            name, args = x[1], x[2]
            if name == "VarInt" and len(args) == 1:
                a, ta = self.e(args[0], env)
                self.want(ta, "N")
                return a, "varint"
            if name == "serialize" and len(args) == 1:
                a, ta = self.e(args[0], env)
                if ta == "header":
                    return "(enc (c_header maxvec cap_vecu8) %s)" % a, "bytes"
                raise Unsupported("serialize of %s" % ta)
            if name == "opcodes::All::from" and len(args) == 1:
                a, ta = self.e(args[0], env)
                self.want(ta, "N")
                return a, "opcode"
            raise Unsupported("call of %s" % name)
        if k == "mcall":
            return self.mcall(x, env)
        raise Unsupported("expression form %s" % k)

    def want(self, got, exp):
        if got != exp:
            raise Unsupported("type %s where %s is expected" % (got, exp))

    def closure(self, c, elem_t, env):
        if c[0] == "path":          # a function path used as a closure, e.g. Transaction::size
            parts = c[1].split("::")
            if len(parts) == 2 and (RUST_TYPE.get(parts[0]), parts[1]) in self.fns and RUST_TYPE.get(parts[0]) == elem_t:
                coq, ptys, rt, lead = self.fns[(elem_t, parts[1])]
                if ptys:
                    raise Unsupported("function path with parameters")
                return "%s%s" % (coq, lead), rt
            raise Unsupported("function path %s" % c[1])
        if c[0] != "closure" or len(c[1]) != 1:
            raise Unsupported("closure expected")
        v = c[1][0]
        env2 = dict(env); env2[v] = (v, elem_t)
        b, tb = self.e(c[2], env2)
        return "(fun %s => %s)" % (v, b), tb

    def mcall(self, x, env):
        _, recv, name, args = x
        r, t = self.e(recv, env)
        islist = isinstance(t, tuple) and t[0] == "list"
        if name == "into_u8" and t == "opcode" and not args:
            return r, "N"
        if name in ("len", "is_empty") and t == "script" and not args and (t, name) not in self.fns:
            t = "bytes"
        if name == "len" and not args:
            if t == "bytes":
                return "(blen %s)" % r, "N"
            if islist:
                return "(N.of_nat (length %s))" % r, "N"
        if name in ("iter", "as_ref", "clone") and not args:
            return r, t
        if name == "size" and t == "varint" and not args:
            # which VarInt the file imports decides: the crate's own (translated: src_VarInt_size) or rust-bitcoin's (a dependency: vi_size of Base/Codec.v)
            return "(%s %s)" % (self.varint_size, r), "N"
        if name == "map" and islist and len(args) == 1:
            f, rt = self.closure(args[0], t[1], env)
            return "(map %s %s)" % (f, r), ("list", rt)
        if name == "sum" and t == ("list", "N") and not args:
            return "(nsum %s)" % r, "N"
        if name in ("any", "all") and islist and len(args) == 1:
            f, rt = self.closure(args[0], t[1], env)
            self.want(rt, "bool")
            return "(%s %s %s)" % ("existsb" if name == "any" else "forallb", f, r), "bool"
        if name == "map_or" and t == "optbytes" and len(args) == 2:
            d, td = self.e(args[0], env)
            c = args[1]
            if c[0] != "closure" or len(c[1]) != 1:
                raise Unsupported("map_or closure")
            env2 = dict(env); env2[c[1][0]] = (c[1][0], "bytes")
            b, tb = self.e(c[2], env2)
            self.want(tb, td)
            return "(match %s with None => %s | Some %s => %s end)" % (r, d, c[1][0], b), td
        if name in ("is_none", "is_some") and t == "optbytes" and not args:
            return "(match %s with None => %s | Some _ => %s end)" % (r, "true" if name == "is_none" else "false", "false" if name == "is_none" else "true"), "bool"
        if name == "is_empty" and not args and (islist or t == "bytes") and (t, "is_empty") not in self.fns:
            return "(match %s with [] => true | _ :: _ => false end)" % r, "bool"
        if name == "div_ceil" and t == "N" and len(args) == 1:
            a, ta = self.e(args[0], env)
            self.want(ta, "N")
            return "((%s + (%s - 1)) / %s)" % (r, a, a), "N"
        if name == "saturating_sub" and t == "N" and len(args) == 1:
            a, ta = self.e(args[0], env)
            self.want(ta, "N")
            return "(%s - %s)" % (r, a), "N"
        if (t, name) in self.fns:
            coq, ptys, rt, lead = self.fns[(t, name)]
            if len(ptys) != len(args):
                raise Unsupported("arity of %s" % name)
            aa = []
            for a, pt in zip(args, ptys):
                s, ta = self.e(a, env)
                self.want(ta, pt)
                aa.append(s)
            return "(%s%s %s%s)" % (coq, lead, r, "".join(" " + a for a in aa)), rt
        raise Unsupported("method %s on %s" % (name, t))

    # ------------------------------------------------------------------------------------ safety conditions (no-panic obligations)
    # ok(x) is a Gallina boolean that is true exactly when evaluating x (left to right, && and || short-circuiting, as Rust does) performs
    # no out-of-bounds index, no usize subtraction below zero (a panic in builds with overflow checks) and no division by zero.
    @staticmethod
    def conj(*cs):
        cs = [c for c in cs if c != "true"]
        if not cs:
            return "true"
        out = cs[0]
        for c in cs[1:]:
            out = "(%s && %s)" % (out, c)
        return out

    def ok(self, x, env):
        k = x[0]
        if k in ("num", "bool", "path"):
            return "true"
        if k == "field":
            return self.ok(x[1], env)
        if k == "not":
            return self.ok(x[1], env)
        if k == "index":
            r, _ = self.e(x[1], env)
            i, _ = self.e(x[2], env)
            return self.conj(self.ok(x[1], env), self.ok(x[2], env), "(%s <? blen %s)" % (i, r))
        if k == "bin":
            op = x[1]
            oa, ob = self.ok(x[2], env), self.ok(x[3], env)
            a, _ = self.e(x[2], env)
            b, _ = self.e(x[3], env)
            if op == "&&":
                return self.conj(oa, "true" if ob == "true" else "(if %s then %s else true)" % (a, ob))
            if op == "||":
                return self.conj(oa, "true" if ob == "true" else "(if %s then true else %s)" % (a, ob))
            if op == "-":
                return self.conj(oa, ob, "(%s <=? %s)" % (b, a))
            if op == "/":
                return self.conj(oa, ob, "(negb (%s =? 0))" % b)
            return self.conj(oa, ob)
        if k == "if":
            c, _ = self.e(x[1], env)
            oa = self.ok(x[2], env)
            ob = self.ok(x[3], env) if x[3] is not None else "true"
            return self.conj(self.ok(x[1], env), "true" if oa == ob == "true" else "(if %s then %s else %s)" % (c, oa, ob))
        if k == "block":
            return self.ok_stmts(x[1], env, (lambda e2: self.ok(x[2], e2)) if x[2] is not None else (lambda e2: "true"))
        if k == "match":
            s_, ts = self.e(x[1], env)
            if any(p[0] == "range" for p, _ in x[2]):
                out = self.ok(x[2][-1][1], env)
                for pat, body in reversed(x[2][:-1]):
                    ob = self.ok(body, env)
                    out = "true" if ob == out == "true" else "(if (%d <=? %s) && (%s <=? %d) then %s else %s)" % (pat[1], s_, s_, pat[2], ob, out)
                return self.conj(self.ok(x[1], env), out)
            arms = [(("_" if pat[0] == "wild" else CTORS[pat[1]][1]), self.ok(body, env)) for pat, body in x[2]]
            inner = "true" if all(o == "true" for _, o in arms) else "(match %s with %s end)" % (s_, " | ".join("%s => %s" % a for a in arms))
            return self.conj(self.ok(x[1], env), inner)
        if k == "call":
            return self.conj(*[self.ok(a, env) for a in x[2]])
        if k == "mcall":
            _, recv, name, args = x
            r, t = self.e(recv, env)
            islist = isinstance(t, tuple) and t[0] == "list"
            orecv = self.ok(recv, env)
            if name in ("map", "any", "all") and islist and len(args) == 1 and args[0][0] == "closure":
                v = args[0][1][0]
                env2 = dict(env); env2[v] = (v, t[1])
                ob = self.ok(args[0][2], env2)
                # for the short-circuiting any / all this asks the closure to be safe on EVERY element: sufficient, not necessary
                return self.conj(orecv, "true" if ob == "true" else "(forallb (fun %s => %s) %s)" % (v, ob, r))
            if name in ("map", "any", "all") and islist and len(args) == 1 and args[0][0] == "path":
                parts = args[0][1].split("::")
                coq, ptys, rt, lead = self.fns[(t[1], parts[1])]
                if coq not in self.safe:
                    raise Unsupported("callee %s has no safety condition" % coq)
                return self.conj(orecv, "(forallb %s_safe%s %s)" % (coq, lead, r))
            if name == "map_or" and t == "optbytes" and len(args) == 2:
                v = args[1][1][0]
                env2 = dict(env); env2[v] = (v, "bytes")
                od, ob = self.ok(args[0], env), self.ok(args[1][2], env2)
                return self.conj(orecv, "true" if od == ob == "true" else "(match %s with None => %s | Some %s => %s end)" % (r, od, v, ob))
            oargs = [self.ok(a, env) for a in args if a[0] != "closure"]
            if name == "div_ceil":
                a, _ = self.e(args[0], env)
                return self.conj(orecv, *oargs, "(negb (%s =? 0))" % a)
            tt = "bytes" if (t == "script" and name in ("len", "is_empty") and (t, name) not in self.fns) else t
            if t == "varint" and name == "size" and self.varint_size == "vi_size":
                return self.conj(orecv, *oargs)          # rust-bitcoin's VarInt::size: a dependency, total
            if (tt, name) in self.fns:
                coq, ptys, rt, lead = self.fns[(tt, name)]
                if coq not in self.safe:
                    raise Unsupported("callee %s has no safety condition" % coq)
                aa = [self.e(a, env)[0] for a in args]
                return self.conj(orecv, *oargs, "(%s_safe%s %s%s)" % (coq, lead, r, "".join(" " + a for a in aa)))
            return self.conj(orecv, *oargs)
        raise Unsupported("safety condition of expression form %s" % k)

    def ok_stmts(self, stmts, env, tail):
        if not stmts:
            return tail(env)
        st, rest = stmts[0], stmts[1:]
        if st[0] == "let":
            v, t = self.e(st[2], env)
            env2 = dict(env); env2[st[1]] = (st[1], t)
            r = self.ok_stmts(rest, env2, tail)
            return self.conj(self.ok(st[2], env), "true" if r == "true" else "(let %s := %s in %s)" % (st[1], v, r))
        raise Unsupported("safety condition of a function with assignments or loops")

    def assigned(self, stmts):
        s = set()
        for st in stmts:
            if st[0] == "assign":
                if st[2][0] != "path":
                    raise Unsupported("assignment target")
                s.add(st[2][1])
            elif st[0] == "for":
                s |= self.assigned(st[3][1])
            elif st[0] == "expr" and st[1][0] == "if":
                s |= self.assigned(st[1][2][1])
                if st[1][3] is not None:
                    raise Unsupported("if/else statement")
        return s

    def stmts(self, stmts, env, tail):
        """emit statements followed by `tail(env)`"""
        if not stmts:
            return tail(env)
        st, rest = stmts[0], stmts[1:]
        if st[0] == "let":
            v, t = self.e(st[2], env)
            env2 = dict(env); env2[st[1]] = (st[1], t)
            r, rt = self.stmts(rest, env2, tail)
            return "(let %s := %s in %s)" % (st[1], v, r), rt
        if st[0] == "assign":
            name = st[2][1]
            if name not in env:
                raise Unsupported("assignment to unknown %s" % name)
            v, t = self.e(st[3], env)
            self.want(t, "N"); self.want(env[name][1], "N")
            r, rt = self.stmts(rest, env, tail)
            return "(let %s := %s %s %s in %s)" % (name, name, st[1], v, r), rt
        if st[0] == "expr" and st[1][0] == "if":
            acc = sorted(self.assigned(st[1][2][1]))
            if len(acc) != 1 or st[1][2][2] is not None:
                raise Unsupported("if statement must update exactly one accumulator")
            a = acc[0]
            c, tc = self.e(st[1][1], env)
            self.want(tc, "bool")
            inner, _ = self.stmts(st[1][2][1], env, lambda e2: e2[a])
            r, rt = self.stmts(rest, env, tail)
            return "(let %s := (if %s then %s else %s) in %s)" % (a, c, inner, a, r), rt
        if st[0] == "for":
            acc = sorted(self.assigned(st[3][1]))
            if len(acc) != 1 or st[3][2] is not None:
                raise Unsupported("for loop must update exactly one accumulator")
            a = acc[0]
            it, ti = self.e(st[2], env)
            if not (isinstance(ti, tuple) and ti[0] == "list"):
                raise Unsupported("for over %s" % (ti,))
            env2 = dict(env); env2[st[1]] = (st[1], ti[1])
            inner, _ = self.stmts(st[3][1], env2, lambda e2: e2[a])
            r, rt = self.stmts(rest, env, tail)
            return "(let %s := fold_left (fun %s %s => %s) %s %s in %s)" % (a, a, st[1], inner, it, a, r), rt
        raise Unsupported("statement %s" % st[0])

    def block(self, b, env):
        if b[2] is None:
            raise Unsupported("block without a value")
        return self.stmts(b[1], env, lambda e2: self.e(b[2], e2))


def translate_fn(em, text, impl_re, rust_type, name, coq_name, lead_params="", safety="optional"):
    """-> Gallina Definition text; registers the function in em.fns"""
    params, ret, body = find_fn(text, impl_re, name)
    self_t = RUST_TYPE[rust_type]
    ps = [p.strip() for p in params.split(",") if p.strip()]
    if not ps or ps[0] not in ("&self", "self"):
        raise Unsupported("fn %s: first parameter must be self" % name)
    env = {"self": ("self", self_t)}
    sig = ["(self : %s)" % COQ_TYPE[self_t]]
    ptys = []
    for p in ps[1:]:
        m = re.fullmatch(r"([a-z_]+)\s*:\s*(usize|u64|u32|bool)", p)
        if not m:
            raise Unsupported("fn %s: parameter %s" % (name, p))
        t = "bool" if m.group(2) == "bool" else "N"
        env[m.group(1)] = (m.group(1), t)
        sig.append("(%s : %s)" % (m.group(1), t))
        ptys.append(t)
    rt = em.ty_of_ret(ret)
    ast = P(tokenize(body)).block()
    g, t = em.block(ast, env)
    em.want(t, rt)
    em.fns[(self_t, name)] = (coq_name, ptys, rt, lead_params)
    out = "Definition %s %s : %s :=\n  %s." % (coq_name, " ".join(sig), rt, g)
    if safety:
        try:
            out += "\nDefinition %s_safe %s : bool :=\n  %s." % (coq_name, " ".join(sig), em.ok(ast, env))
            em.safe.add(coq_name)
        except Unsupported as e:
            if safety == "required":
                raise
            out += "\n(* no safety condition generated for %s: %s *)" % (coq_name, e)
    return out
