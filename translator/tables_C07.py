# per-property table extraction; executed inside translate.py (uses src, const, defN, lines, errors, strip_comments, rust_int)

# ---------------------------------------------------------------- C07: PSET field tables (src/pset/map/{global,input,output}.rs, src/pset/mod.rs)
# For each of the three maps, one descriptor per field IN THE ORDER `Map::get_pairs` EMITS IT:
#   (name, mode, emit_type, decode_type, key_type, value_type)
#   mode 0 = Option field, plain key type            (impl_pset_get_pair!{rv.push(..)} / impl_pset_insert_pair! unkeyed arm)
#        1 = mandatory field, plain key type         (rv.push_mandatory / hand-written unconditional push; decoded in `impl Decodable`)
#        2 = Option field, proprietary "pset" subtype (rv.push_prop / impl_pset_prop_insert_pair!)
#        3 = BTreeMap field, plain key type           (keyed arm of both macros, pset_insert_hash_pair)
#        4 = hand-written BTreeMap loop, plain type   (global xpub)
#        5 = hand-written Vec loop, "pset" subtype    (global scalars; value must be empty)
#        6 = the `proprietary` map   7 = the `unknown` map
#        8 = (unused) a type that is always rejected
#        9 = Option field, "pset" subtype, assigned on decode WITHOUT a duplicate test (global elements tx-modifiable flag)
#   emit_type   = the constant get_pairs uses, decode_type = the constant of the match arm that parses the field
#   key_type / value_type = the Rust types named in the insert macro (whitespace removed), "" when there is none.
def _c07():
    import re as _re

    def body_after(s, anchor_re, what, rel):
        """text of the brace block that follows the first match of anchor_re"""
        m = _re.search(anchor_re, s)
        if not m:
            errors.append("anchor missing: %s in src/%s" % (what, rel))
            return ""
        i = s.index("{", m.end() - 1) if s[m.end() - 1] != "{" else m.end() - 1
        depth, j = 0, i
        while j < len(s):
            if s[j] == "{":
                depth += 1
            elif s[j] == "}":
                depth -= 1
                if depth == 0:
                    return s[i + 1:j]
            j += 1
        errors.append("unbalanced braces after %s in src/%s" % (what, rel))
        return ""

    def consts_of(s):
        out = {}
        for m in _re.finditer(r"(?:pub(?:\([a-z]+\))?\s+)?const\s+(PS[BE]T_\w+)\s*:\s*u8\s*=\s*([^;]+);", s):
            try:
                out[m.group(1)] = rust_int(m.group(2))
            except ValueError:
                errors.append("const %s is not an integer literal: %s" % (m.group(1), m.group(2)))
        return out

    def resolve(tok, consts, rel):
        tok = tok.strip()
        if tok in consts:
            return consts[tok]
        try:
            return rust_int(tok)
        except ValueError:
            errors.append("cannot resolve key type constant %s in src/%s" % (tok, rel))
            return 0

    def norm_ty(t):
        return _re.sub(r"\s+", "", t)

    def coq_str(t):
        return "[" + "; ".join("x%02x" % b for b in t.encode("utf8")) + "]"

    def emit_list(body, consts, rel):
        """ordered emission list of get_pairs: (field, mode, const token)"""
        pats = [
            ("macro", r"impl_pset_get_pair!\s*[\(\{]\s*rv\.(push|push_prop|push_mandatory)\(\s*(?:self\.)?(\w+)\s+as\s+<\s*(\w+)\s*,\s*([^>]*?)\s*>\s*\)\s*[\)\}]"),
            ("mand", r"rv\.push\(raw::Pair\s*\{\s*key:\s*raw::Key\s*\{\s*type_value:\s*(\w+)\s*,\s*key:\s*vec!\[\]\s*,?\s*\}\s*,\s*value:\s*[\w:]+::serialize\(&self\.(\w+)\)"),
            ("xpub", r"for\s*\(\s*\w+\s*,\s*\([^)]*\)\s*\)\s*in\s*&self\.(\w+)\s*\{\s*rv\.push\(raw::Pair\s*\{\s*key:\s*raw::Key\s*\{\s*type_value:\s*(\w+)"),
            ("vec", r"for\s+\w+\s+in\s+&self\.(\w+)\s*\{\s*let\s+key\s*=\s*raw::ProprietaryKey::from_pset_pair\(\s*(\w+)\s*,"),
            ("prop", r"for\s*\(key,\s*value\)\s*in\s*&self\.proprietary\s*\{\s*rv\.push\(raw::Pair\s*\{\s*key:\s*key\.to_key\(\)\s*,\s*value:\s*value\.clone\(\)"),
            ("unk", r"for\s*\(key,\s*value\)\s*in\s*&self\.unknown\s*\{\s*rv\.push\(raw::Pair\s*\{\s*key:\s*key\.clone\(\)\s*,\s*value:\s*value\.clone\(\)"),
        ]
        found = []
        for kind, pat in pats:
            for m in _re.finditer(pat, body):
                found.append((m.start(), kind, m))
        found.sort(key=lambda x: x[0])
        out = []
        for _, kind, m in found:
            if kind == "macro":
                how, field, ctok, kty = m.group(1), m.group(2), m.group(3), norm_ty(m.group(4))
                if how == "push_prop":
                    out.append((field, 2, ctok))
                elif how == "push_mandatory":
                    out.append((field, 1, ctok))
                else:
                    out.append((field, 0 if kty == "_" else 3, ctok))
            elif kind == "mand":
                out.append((m.group(2), 1, m.group(1)))
            elif kind == "xpub":
                out.append((m.group(1), 4, m.group(2)))
            elif kind == "vec":
                out.append((m.group(1), 5, m.group(2)))
            elif kind == "prop":
                out.append(("proprietary", 6, "0xFC"))
            elif kind == "unk":
                out.append(("unknown", 7, "0x00"))
        # every push in get_pairs must have been recognised
        n_push = len(_re.findall(r"\brv\.push(?:_prop|_mandatory)?\s*\(", body))
        if n_push != len(out):
            errors.append("get_pairs of src/%s has %d pushes but %d were recognised" % (rel, n_push, len(out)))
        return out

    def decode_arms(text, rel):
        """field -> (const token, key type, value type, kind) from the insert macros / hash-pair calls of insert_pair and consensus_decode"""
        arms = {}
        by_const = {}
        for m in _re.finditer(r"(\w+)\s*=>\s*\{\s*impl_pset_insert_pair!\s*[\(\{]\s*(?:self\.)?(\w+)\s*<=\s*<\s*raw_key\s*:\s*([^>]+?)\s*>\s*\|\s*<\s*raw_value\s*:\s*(.*?)>\s*;?\s*[\)\}]", text, flags=_re.S):
            ctok, field, kty, vty = m.group(1), m.group(2), norm_ty(m.group(3)), norm_ty(m.group(4))
            arms[field] = (ctok, "" if kty == "_" else kty, vty, "plain")
            by_const[ctok] = field
        for m in _re.finditer(r"(\w+)\s*=>\s*\{\s*impl_pset_prop_insert_pair!\s*\(\s*(?:self\.)?(\w+)\s*<=\s*<\s*raw_key\s*:\s*_\s*>\s*\|\s*<\s*raw_value\s*:\s*(.*?)>\s*\)", text, flags=_re.S):
            ctok, field, vty = m.group(1), m.group(2), norm_ty(m.group(3))
            arms[field] = (ctok, "", vty, "prop")
            by_const[ctok] = field
        for m in _re.finditer(r"(\w+)\s*=>\s*\{\s*pset_insert_hash_pair::<\s*(\w+)::HashEngine\s*>\(\s*&mut\s+self\.(\w+)", text):
            ctok, eng, field = m.group(1), m.group(2), m.group(3)
            arms[field] = (ctok, eng + "::Hash", "preimage:" + eng, "plain")
            by_const[ctok] = field
        return arms, by_const

    def emit_table(coqname, rows):
        lines.append("Definition %s : list (list byte * N * N * N * list byte * list byte) := [" % coqname)
        for k, (name, mode, et, dt, kty, vty) in enumerate(rows):
            lines.append("  (%s, %d, %d, %d, %s, %s)%s   (* %s : <%s> -> <%s> *)" % (coq_str(name), mode, et, dt, coq_str(kty), coq_str(vty), ";" if k + 1 < len(rows) else "", name, kty, vty))
        lines.append("].")

    lines.append("(* C07: PSET field tables, in get_pairs emission order: (name, mode, emit type, decode type, key type, value type) *)")
    for rel, impl, coqname in (("pset/map/global.rs", "Global", "C07_GLOBAL_FIELDS"), ("pset/map/input.rs", "Input", "C07_INPUT_FIELDS"), ("pset/map/output.rs", "Output", "C07_OUTPUT_FIELDS")):
        s = strip_comments(src(rel))
        consts = consts_of(s)
        mapimpl = body_after(s, r"impl\s+Map\s+for\s+%s\s*\{" % impl, "impl Map for %s" % impl, rel)
        getp = body_after(mapimpl, r"fn\s+get_pairs\s*\(\s*&self\s*\)[^{]*\{", "fn get_pairs", rel)
        insp = body_after(mapimpl, r"fn\s+insert_pair\s*\([^)]*\)[^{]*\{", "fn insert_pair", rel)
        decimpl = body_after(s, r"impl\s+Decodable\s+for\s+%s\s*\{" % impl, "impl Decodable for %s" % impl, rel)
        em = emit_list(getp, consts, rel)
        arms, by_const = decode_arms(insp + "\n" + decimpl, rel)
        rows = []
        used = set()
        for field, mode, ctok in em:
            et = resolve(ctok, consts, rel)
            if mode in (6, 7):
                rows.append((field, mode, et, et, "", ""))
                continue
            arm = arms.get(field)
            if ctok in by_const and (arm is None or arm[0] != ctok):   # locals / renamed fields: join on the constant
                arm = arms[by_const[ctok]]
                used.add(by_const[ctok])
            else:
                used.add(field)
            if mode == 4:      # global xpub: hand-written arm
                if not _re.search(r"PSET_GLOBAL_XPUB\s*=>\s*\{.*?Xpub::decode\(&raw_key\.key\).*?raw_value\.is_empty\(\)\s*\|\|\s*raw_value\.len\(\)\s*%\s*4\s*!=\s*0.*?xpub_map\s*\.insert\(", decimpl, flags=_re.S):
                    errors.append("anchor missing: hand-written PSET_GLOBAL_XPUB arm (Xpub::decode, len % 4, xpub_map.insert) in src/" + rel)
                rows.append((field, 4, et, resolve("PSET_GLOBAL_XPUB", consts, rel), "Xpub", "KeySource"))
                continue
            if mode == 5:      # global scalars: hand-written arm
                if not _re.search(r"prop_key\.subtype\s*==\s*PSBT_ELEMENTS_GLOBAL_SCALAR\s*\{\s*if\s+raw_value\.is_empty\(\)\s*&&\s*prop_key\.key\.len\(\)\s*==\s*32\s*\{\s*let\s+scalar\s*=\s*Tweak::from_slice\(&prop_key\.key\)\?;\s*if\s+scalars\.contains\(&scalar\)\s*\{\s*return\s+Err\(Error::DuplicateKey", decimpl):
                    errors.append("anchor missing: hand-written PSBT_ELEMENTS_GLOBAL_SCALAR arm in src/" + rel)
                rows.append((field, 5, et, resolve("PSBT_ELEMENTS_GLOBAL_SCALAR", consts, rel), "Tweak", "empty"))
                continue
            if arm is None and impl == "Global" and mode == 2:
                # global elements tx-modifiable flag: hand-written; record whether a duplicate test exists
                m = _re.search(r"prop_key\.subtype\s*==\s*(PSBT_ELEMENTS_GLOBAL_TX_MODIFIABLE)\s*\{(.*?)\}\s*else\s*\{\s*match\s+proprietary\.entry", decimpl, flags=_re.S)
                if not m or not _re.search(r"if\s+prop_key\.key\.is_empty\(\)\s*&&\s*raw_value\.len\(\)\s*==\s*1\s*\{\s*%s\s*=\s*Some\(raw_value\[0\]\);" % field, m.group(2)):
                    errors.append("anchor missing: hand-written PSBT_ELEMENTS_GLOBAL_TX_MODIFIABLE arm in src/" + rel)
                    continue
                dup = ("DuplicateKey" in m.group(2)) or ("is_none()" in m.group(2))
                rows.append((field, 2 if dup else 9, et, resolve(m.group(1), consts, rel), "", "u8"))
                continue
            if arm is None:
                errors.append("field %s emitted by get_pairs has no decode arm in src/%s" % (field, rel))
                continue
            dtok, kty, vty, akind = arm
            if (mode == 2) != (akind == "prop"):
                errors.append("field %s: emit side and decode side disagree on proprietary/plain in src/%s" % (field, rel))
            if (mode == 3) != (kty != ""):
                errors.append("field %s: emit side and decode side disagree on keyed/unkeyed in src/%s" % (field, rel))
            rows.append((field, mode, et, resolve(dtok, consts, rel), kty, vty))
        for field in arms:
            if field not in used:
                errors.append("field %s is decoded but never emitted by get_pairs in src/%s" % (field, rel))
        if impl == "Global":
            # PSET_GLOBAL_UNSIGNED_TX is refused by Global::insert_pair only; Global::consensus_decode has no arm for it (it lands
            # in `unknown`), so it is not a row of the decode table.  A new arm would have to be modelled: anchor on its absence.
            if _re.search(r"PSET_GLOBAL_UNSIGNED_TX\s*=>", decimpl):
                errors.append("Global::consensus_decode now has an arm for PSET_GLOBAL_UNSIGNED_TX (not modelled) in src/" + rel)
            # mandatory-field and version checks after the loop
            for pat, what in ((r"version\.ok_or\(Error::IncorrectPsetVersion\)\?;\s*if\s+version\s*!=\s*2\s*\{\s*return\s+Err\(Error::IncorrectPsetVersion", "version present and == 2"),
                              (r"tx_version\.ok_or\(Error::MissingTxVersion\)\?", "tx_version mandatory"),
                              (r"input_count\.ok_or\(Error::MissingInputCount\)\?", "input_count mandatory"),
                              (r"output_count\.ok_or\(Error::MissingOutputCount\)\?", "output_count mandatory")):
                if not _re.search(pat, decimpl):
                    errors.append("anchor missing: Global::consensus_decode check `%s` in src/%s" % (what, rel))
        if impl == "Input":
            for pat, what in ((r"prev_txid\.ok_or\(Error::MissingInputPrevTxId\)\?", "previous txid mandatory"), (r"prev_vout\.ok_or\(Error::MissingInputPrevVout\)\?", "previous vout mandatory")):
                if not _re.search(pat, decimpl):
                    errors.append("anchor missing: Input::consensus_decode check `%s` in src/%s" % (what, rel))
        if impl == "Output":
            for pat, what in ((r"out_spk\.ok_or\(Error::MissingOutputSpk\)\?", "script mandatory"),
                              (r"if\s+let\s+\(None,\s*None\)\s*=\s*\(rv\.amount,\s*rv\.amount_comm\)\s*\{\s*return\s+Err\(encode::Error::PsetError\(Error::MissingOutputValue\)\)", "amount or amount commitment"),
                              (r"if\s+let\s+\(None,\s*None\)\s*=\s*\(rv\.asset,\s*rv\.asset_comm\)\s*\{\s*return\s+Err\(encode::Error::PsetError\(Error::MissingOutputAsset\)\)", "asset or asset commitment"),
                              (r"if\s+let\s+\(Some\(_\),\s*None\)\s*=\s*\(rv\.blinding_key,\s*rv\.blinder_index\)\s*\{\s*return\s+Err\(encode::Error::PsetError\(Error::MissingBlinderIndex\)\)", "blinder index with blinding key"),
                              (r"if\s+rv\.is_marked_for_blinding\(\)\s*&&\s*rv\.is_partially_blinded\(\)\s*&&\s*!rv\.is_fully_blinded\(\)\s*\{\s*return\s+Err\(encode::Error::PsetError\(Error::MissingBlindingInfo\)\)", "blinding data absent or complete")):
                if not _re.search(pat, decimpl):
                    errors.append("anchor missing: Output::consensus_decode check `%s` in src/%s" % (what, rel))
            # the three blinding predicates the last check uses
            for pat, what in ((r"fn\s+is_marked_for_blinding\(&self\)\s*->\s*bool\s*\{\s*self\.blinding_key\.is_some\(\)\s*\}", "is_marked_for_blinding"),
                              (r"fn\s+is_partially_blinded\(&self\)\s*->\s*bool\s*\{\s*self\.is_marked_for_blinding\(\)\s*&&\s*\(\s*self\.amount_comm\.is_some\(\)\s*\|\|\s*self\.asset_comm\.is_some\(\)\s*\|\|\s*self\.value_rangeproof\.is_some\(\)\s*\|\|\s*self\.asset_surjection_proof\.is_some\(\)\s*\|\|\s*self\.ecdh_pubkey\.is_some\(\)\s*\)\s*\}", "is_partially_blinded"),
                              (r"fn\s+is_fully_blinded\(&self\)\s*->\s*bool\s*\{\s*self\.is_marked_for_blinding\(\)\s*&&\s*self\.amount_comm\.is_some\(\)\s*&&\s*self\.asset_comm\.is_some\(\)\s*&&\s*self\.value_rangeproof\.is_some\(\)\s*&&\s*self\.asset_surjection_proof\.is_some\(\)\s*&&\s*self\.ecdh_pubkey\.is_some\(\)\s*\}", "is_fully_blinded")):
                if not _re.search(pat, s):
                    errors.append("anchor missing: Output::%s has changed in src/%s" % (what, rel))
        emit_table(coqname, rows)
    # PartiallySignedTransaction: magic, separator, caps
    rel = "pset/mod.rs"
    s = strip_comments(src(rel))
    enc = body_after(s, r"impl\s+Encodable\s+for\s+PartiallySignedTransaction\s*\{", "impl Encodable for PartiallySignedTransaction", rel)
    m = _re.search(r'b"([^"\\]*)"\.consensus_encode\(&mut s\)\?;\s*len\s*\+=\s*(0x[0-9a-fA-F_]+)_u8\.consensus_encode', enc)
    if m:
        lines.append("Definition C07_MAGIC : list byte := [%s].  (* b\"%s\", %s *)" % ("; ".join(["x%02x" % b for b in m.group(1).encode()] + ["x%02x" % rust_int(m.group(2))]), m.group(1), m.group(2)))
    else:
        errors.append("anchor missing: magic bytes and separator in PartiallySignedTransaction::consensus_encode (src/pset/mod.rs)")
    dec = body_after(s, r"impl\s+Decodable\s+for\s+PartiallySignedTransaction\s*\{", "impl Decodable for PartiallySignedTransaction", rel)
    caps = _re.findall(r"if\s+(inputs_len|outputs_len)\s*>\s*([0-9_]+)\s*\{\s*return\s+Err\(Error::TooLargePset", dec)
    if len(caps) == 2 and caps[0][0] == "inputs_len" and caps[1][0] == "outputs_len" and caps[0][1] == caps[1][1]:
        defN("C07_PSET_CAP", rust_int(caps[0][1]), "maximum number of input / output maps")
    else:
        errors.append("anchor missing: the two TooLargePset caps in PartiallySignedTransaction::consensus_decode (src/pset/mod.rs)")
    if not _re.search(r'if\s+\*b"pset"\s*!=\s*magic', dec) or not _re.search(r"if\s+0xff_u8\s*!=\s*u8::consensus_decode", dec):
        errors.append("anchor missing: magic / separator checks in PartiallySignedTransaction::consensus_decode (src/pset/mod.rs)")
    # the PSET value decoders of PedersenCommitment / Generator check the slice length before libsecp reads 33 bytes (fix 838e50c);
    # the model's canonisers demand exactly 33 bytes
    ser = strip_comments(src("pset/serialize.rs"))
    for ty in ("secp256k1_zkp::PedersenCommitment", "secp256k1_zkp::Generator"):
        if not _re.search(r"impl\s+Deserialize\s+for\s+%s\s*\{\s*fn\s+deserialize\(bytes:\s*&\[u8\]\)\s*->\s*Result<Self,\s*encode::Error>\s*\{\s*if\s+bytes\.len\(\)\s*!=\s*33\s*\{\s*return\s+Err" % _re.escape(ty), ser):
            errors.append("anchor missing: `if bytes.len() != 33 { return Err` at the head of `impl Deserialize for %s` in src/pset/serialize.rs (F18: the slice length must be checked before libsecp reads 33 bytes)" % ty)
    v = const("locktime.rs", "LOCK_TIME_THRESHOLD")
    if v is not None:
        defN("C07_LOCK_TIME_THRESHOLD", rust_int(v))
    # ELIP-100 / ELIP-102 constants
    for rel2, name in (("pset/elip100.rs", "PSBT_ELEMENTS_HWW_GLOBAL_ASSET_METADATA"), ("pset/elip100.rs", "PSBT_ELEMENTS_HWW_GLOBAL_REISSUANCE_TOKEN"),
                       ("pset/elip102.rs", "PSBT_ELEMENTS_LIQUIDEX_IN_ABF"), ("pset/elip102.rs", "PSBT_ELEMENTS_LIQUIDEX_OUT_ABF")):
        v = const(rel2, name)
        if v is not None:
            defN("C07_" + name, rust_int(v))
    for rel2, name in (("pset/elip100.rs", "PSET_HWW_PREFIX"), ("pset/elip102.rs", "PSET_LIQUIDEX_PREFIX")):
        m = _re.search(r'const\s+%s\s*:\s*&\[u8\]\s*=\s*b"([^"\\]*)"\s*;' % name, strip_comments(src(rel2)))
        if m:
            lines.append("Definition C07_%s : list byte := %s.  (* b\"%s\" *)" % (name, coq_str(m.group(1)), m.group(1)))
        else:
            errors.append("anchor missing: const %s in src/%s" % (name, rel2))
    lines.append("")


_c07()
