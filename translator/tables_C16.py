# per-property table extraction; executed inside translate.py (uses src, const, defN, lines, errors, strip_comments, rust_int)

# ---- C16: opcode byte values (src/opcodes.rs), Ordinary opcode list, MAX_SCRIPT_SIZE (src/script.rs) ----
def _c16_tables():
    s = strip_comments(src("opcodes.rs"))
    ops = re.findall(r"pub\s+const\s+(OP_[A-Za-z0-9_]+)\s*:\s*All\s*=\s*All\s*\{\s*code\s*:\s*(0x[0-9a-fA-F]+|\d+)\s*\}\s*;", s)
    if len(ops) != 256:
        errors.append("anchor missing: expected 256 `pub const OP_*: All = All {code: ..}` in src/opcodes.rs, found %d" % len(ops))
    val = {}
    lines.append("(* C16: opcode byte values, src/opcodes.rs `pub mod all` *)")
    for name, code in ops:
        if name in val:
            errors.append("duplicate opcode constant %s in src/opcodes.rs" % name)
        val[name] = int(code, 0)
        defN(name, val[name])
    for alias in ("OP_FALSE", "OP_TRUE"):
        m = re.search(r"pub\s+static\s+%s\s*:\s*All\s*=\s*all::(OP_[A-Za-z0-9_]+)\s*;" % alias, s)
        if not m or m.group(1) not in val:
            errors.append("anchor missing: pub static %s in src/opcodes.rs" % alias)
        else:
            defN(alias, val[m.group(1)], "= all::" + m.group(1))
    m = re.search(r"ordinary_opcode!\s*\{([^}]*)\}", s)
    if not m:
        errors.append("anchor missing: ordinary_opcode! { .. } invocation in src/opcodes.rs")
    else:
        names = [x.strip() for x in m.group(1).split(",") if x.strip()]
        bad = [x for x in names if x not in val]
        if bad or not names:
            errors.append("ordinary_opcode! names not found among the opcode constants: %s" % bad)
        else:
            lines.append("(* C16: the opcodes `Ordinary::try_from_all` accepts (ordinary_opcode! invocation) *)")
            lines.append("Definition ordinary_opcodes : list N := [%s]." % "; ".join(names))
    ms = const("script.rs", "MAX_SCRIPT_SIZE")
    if ms is not None:
        defN("MAX_SCRIPT_SIZE", rust_int(ms), "src/script.rs")
    lines.append("")
_c16_tables()
