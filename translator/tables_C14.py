# per-property table extraction; executed inside translate.py (uses src, const, defN, lines, errors, strip_comments, rust_int)

# ======================================================================================================================
# C14 / C08 — PSET field lists, merge policy tables, xpub reconciliation shape, locktime arm order, unique-id clearing
# ======================================================================================================================
def _c14_section():
    def norm(s):
        return re.sub(r"\s+", " ", s).strip()

    def block_after(text, start):
        """text[start] must be '{'; returns (body, index after the closing brace)"""
        depth = 0
        for i in range(start, len(text)):
            c = text[i]
            if c == "{":
                depth += 1
            elif c == "}":
                depth -= 1
                if depth == 0:
                    return text[start + 1:i], i + 1
        return None, None

    def fn_body(rel, sig_re):
        s = strip_comments(src(rel))
        m = re.search(sig_re, s)
        if not m:
            errors.append("anchor missing: %s in src/%s" % (sig_re, rel))
            return None
        b = s.find("{", m.end() - 1)
        body, _ = block_after(s, b)
        if body is None:
            errors.append("unbalanced braces after %s in src/%s" % (sig_re, rel))
        return body

    def struct_fields(rel, name):
        """[(field, kind)] in declaration order; kind in opt|map|set|mand|nested:<Type>"""
        s = strip_comments(src(rel))
        m = re.search(r"pub struct %s\s*\{" % re.escape(name), s)
        if not m:
            errors.append("anchor missing: pub struct %s in src/%s" % (name, rel))
            return []
        body, _ = block_after(s, m.end() - 1)
        # drop attributes (possibly multi-line, with nested parentheses/brackets)
        out, i = [], 0
        while i < len(body):
            if body[i] == "#" and body[i + 1:i + 2] == "[":
                depth = 0
                while i < len(body):
                    if body[i] == "[":
                        depth += 1
                    elif body[i] == "]":
                        depth -= 1
                        if depth == 0:
                            i += 1
                            break
                    i += 1
            else:
                out.append(body[i]); i += 1
        body = "".join(out)
        # split on top-level commas
        parts, depth, cur = [], 0, ""
        for c in body:
            if c in "<([":
                depth += 1
            elif c in ">)]":
                depth -= 1
            if c == "," and depth == 0:
                parts.append(cur); cur = ""
            else:
                cur += c
        parts.append(cur)
        res = []
        for p in parts:
            p = norm(p)
            if not p:
                continue
            fm = re.fullmatch(r"(?:pub(?:\([a-z]+\))?\s+)?([a-z_0-9]+)\s*:\s*(.+)", p)
            if not fm:
                errors.append("cannot parse field %r of struct %s" % (p, name))
                continue
            f, ty = fm.group(1), fm.group(2)
            if ty.startswith("Option<"):
                k = "opt"
            elif ty.startswith("BTreeMap<"):
                k = "map"
            elif ty.startswith("Vec<Tweak>"):
                k = "set"
            elif ty == "TxData":
                k = "nested:TxData"
            else:
                k = "mand"
            res.append((f, k))
        return res

    def statements(body):
        """top-level statements of a block: split at ';' and at the '}' that closes a top-level if/for block"""
        stmts, depth, cur, i = [], 0, "", 0
        while i < len(body):
            c = body[i]
            cur += c
            if c in "({[":
                depth += 1
            elif c in ")}]":
                depth -= 1
                if c == "}" and depth == 0 and re.match(r"\s*(if|for|match|while|loop)\b", cur):
                    # an `else` may follow
                    rest = body[i + 1:]
                    if not re.match(r"\s*else\b", rest):
                        stmts.append(norm(cur)); cur = ""
            elif c == ";" and depth == 0:
                stmts.append(norm(cur)); cur = ""
            i += 1
        if norm(cur):
            stmts.append(norm(cur))
        return stmts

    F = r"([a-z_0-9]+(?:\.[a-z_0-9]+)*)"

    def classify(stmt, where, extras):
        """-> list of (field, policy_coq) or [] for ignorable statements"""
        s = stmt
        m = re.fullmatch(r"merge!\(\s*([a-z_0-9]+)\s*,\s*self\s*,\s*other\s*\);", s)
        if m:
            return [(m.group(1), "MP_FirstWins")]
        m = re.fullmatch(r"self\.%s\.extend\(other\.%s\);" % (F, F), s)
        if m and m.group(1) == m.group(2):
            first = m.group(1) not in extras.setdefault("__ops__", {})
            extras["__ops__"].setdefault(m.group(1), []).append("VO_Extend")
            return [(m.group(1), "EXTEND")] if first else []
        m = re.fullmatch(r"self\.%s\.sort\(\);" % F, s)
        if m:
            extras.setdefault("__ops__", {}).setdefault(m.group(1), []).append("VO_Sort"); return []
        m = re.fullmatch(r"self\.%s\.dedup\(\);" % F, s)
        if m:
            extras.setdefault("__ops__", {}).setdefault(m.group(1), []).append("VO_Dedup"); return []
        m = re.fullmatch(r"self\.%s = cmp::max\(\s*self\.%s\s*,\s*other\.%s\s*,?\s*\);" % (F, F, F), s)
        if m and m.group(1) == m.group(2) == m.group(3):
            return [(m.group(1), "MP_Max")]
        m = re.fullmatch(r"self\.%s = Some\(\s*self\.%s\.unwrap_or\(0\) \| other\.%s\.unwrap_or\(0\)\s*,?\s*\);" % (F, F, F), s)
        if m and m.group(1) == m.group(2) == m.group(3):
            return [(m.group(1), "MP_OrFlags")]
        m = re.fullmatch(r"if let \(&None, Some\(([a-z_0-9]+)\)\) = \(&self\.%s, other\.%s\) \{(.*)\}" % (F, F), s)
        if m and m.group(2) == m.group(3):
            f = m.group(2)
            inner = [x for x in statements(m.group(4))]
            cleared, ok = [], False
            for st in inner:
                a = re.fullmatch(r"self\.%s = Some\(%s\);" % (re.escape(f), re.escape(m.group(1))), st)
                if a:
                    ok = True; continue
                c = re.fullmatch(r"self\.%s = None;" % F, st)
                if c:
                    cleared.append(c.group(1)); continue
                errors.append("unrecognised statement inside first-wins block of %s in %s: %s" % (f, where, st))
            if not ok:
                errors.append("first-wins block of %s in %s does not assign the field" % (f, where))
            if cleared:
                return [(f, "(MP_FirstWinsClearing [%s])" % "; ".join('fld "%s"' % c for c in cleared))]
            return [(f, "MP_FirstWins")]
        m = re.match(r"for \(xpub, \(fingerprint1, derivation1\)\) in other\.%s \{" % F, s)
        if m:
            extras["__xpub_loop__"] = s
            return [(m.group(1), "MP_Xpub")]
        if s in ("Ok(())", "Ok(());"):
            return []
        errors.append("unrecognised statement in fn merge of %s: %s" % (where, s[:120]))
        return []

    def merge_table(rel, where, kinds):
        body = fn_body(rel, r"fn merge\(&mut self, other: Self\) -> Result<\(\), pset::Error>\s*\{")
        if body is None:
            return [], {}
        extras, tbl = {}, []
        for st in statements(body):
            tbl += classify(st, where, extras)
        ops = extras.get("__ops__", {})
        for f in ops:
            if f not in [g for g, _ in tbl]:
                errors.append("field %s of %s is sorted/deduplicated but never extended" % (f, where))
        out = []
        for f, p in tbl:
            if p == "EXTEND":
                if kinds.get(f) == "set":
                    # a Vec: the exact sequence of vector operations, in source order
                    p = "(MP_VecOps [%s])" % "; ".join(ops[f])
                elif ops[f] == ["VO_Extend"]:
                    p = "MP_Extend"
                else:
                    errors.append("map field %s of %s is merged with %s" % (f, where, ops[f])); p = "MP_Extend"
            out.append((f, p))
        names = [f for f, _ in out]
        for f in set(names):
            if names.count(f) > 1:
                errors.append("field %s merged twice in fn merge of %s" % (f, where))
        return out, extras

    def flatten(fields, rel):
        res = []
        for f, k in fields:
            if k.startswith("nested:"):
                for g, kk in struct_fields(rel, k.split(":")[1]):
                    res.append((f + "." + g, kk))
            else:
                res.append((f, k))
        return res

    lines.append("(* ---- C14/C08: PSET field lists, merge policies (rebuilt from the three `fn merge` bodies), xpub arm shape, locktime arms ---- *)")
    lines.append("From EV Require Import Base.Bytes.")
    lines.append("Definition fld (s : blit) : list byte := unlit s.")
    lines.append("Inductive field_kind := FK_opt | FK_map | FK_set | FK_mand.")
    lines.append("Inductive vec_op := VO_Extend | VO_Sort | VO_Dedup.   (* Vec::extend(other), Vec::sort(), Vec::dedup() *)")
    lines.append("Inductive merge_policy := MP_FirstWins | MP_FirstWinsClearing (cleared : list (list byte)) | MP_Extend | MP_Max | MP_OrFlags | MP_VecOps (ops : list vec_op) | MP_Xpub | MP_NotMerged.")
    kindc = {"opt": "FK_opt", "map": "FK_map", "set": "FK_set", "mand": "FK_mand"}
    xpub_loop = None
    for mapname, rel, struct in (("global", "pset/map/global.rs", "Global"), ("input", "pset/map/input.rs", "Input"), ("output", "pset/map/output.rs", "Output")):
        fields = flatten(struct_fields(rel, struct), rel)
        tbl, extras = merge_table(rel, struct, dict(fields))
        if "__xpub_loop__" in extras:
            xpub_loop = extras["__xpub_loop__"]
        fnames = [f for f, _ in fields]
        for f, _ in tbl:
            if f not in fnames:
                errors.append("fn merge of %s mentions %s which is not a field of the struct" % (struct, f))
        lines.append("Definition pset_%s_fields : list (list byte * field_kind) := [" % mapname)
        lines.append(";\n".join('  (fld "%s", %s)' % (f, kindc[k]) for f, k in fields) + "].")
        lines.append("(* statements of %s::merge in source order; a field of the struct that is absent here is not merged at all *)" % struct)
        lines.append("Definition pset_%s_merge : list (list byte * merge_policy) := [" % mapname)
        lines.append(";\n".join('  (fld "%s", %s)' % (f, p) for f, p in tbl) + "].")
        notm = [f for f in fnames if f not in [g for g, _ in tbl]]
        lines.append("(* not merged: %s *)" % ", ".join(notm))

    # ---- xpub reconciliation: shape of the three tests (the bodies are hand-modelled; the guard of the third is data)
    if xpub_loop is None:
        errors.append("anchor missing: the xpub loop of Global::merge")
    else:
        conds = re.findall(r"(?:\bif|else if) (.*?) \{", xpub_loop)
        conds = [norm(c) for c in conds]
        exp1 = "derivation1 == derivation2 && fingerprint1 == fingerprint2"
        exp2 = "derivation1.len() < derivation2.len() && derivation1[..] == derivation2[derivation2.len() - derivation1.len()..]"
        exp3u = "derivation2[..] == derivation1[derivation1.len() - derivation2.len()..]"
        exp3g = "derivation2.len() < derivation1.len() && " + exp3u
        if len(conds) != 3 or conds[0] != exp1 or conds[1] != exp2 or conds[2] not in (exp3u, exp3g):
            errors.append("xpub reconciliation in Global::merge has an unexpected shape: %r" % (conds,))
        else:
            lines.append("(* third test of the xpub reconciliation: %s *)" % conds[2])
            lines.append("Definition xpub_take_arm_guarded : bool := %s." % ("true" if conds[2] == exp3g else "false"))
        if "entry.insert((fingerprint1, derivation1))" not in xpub_loop or "MergeConflict" not in xpub_loop:
            errors.append("xpub reconciliation: take/conflict actions not found")

    # ---- C08: locktime final match, arm by arm
    body = fn_body("pset/mod.rs", r"pub fn locktime\(&self\) -> Result<LockTime, Error>\s*\{")
    if body is not None:
        m = re.search(r"match \(time_locktime, height_locktime\)\s*\{", body)
        if not m:
            errors.append("anchor missing: final match of locktime()")
        else:
            mb, _ = block_after(body, m.end() - 1)
            arms, mbn, pos = [], norm(mb), 0
            while True:
                am = re.compile(r"\(\s*([A-Za-z_:()x]+)\s*,\s*([A-Za-z_:()x]+)\s*\)\s*=>\s*").search(mbn, pos)
                if not am:
                    break
                if mbn[am.end()] == "{":
                    act, pos = block_after(mbn, am.end())
                else:
                    e = mbn.find(",", am.end())
                    e = len(mbn) if e < 0 else e
                    act, pos = mbn[am.end():e], e
                arms.append((am.group(1), am.group(2), act))
            pat = {"Locktime::Unconstrained": "LP_U", "Locktime::Disallowed": "LP_D", "_": "LP_Any", "Locktime::Minimum(x)": "LP_Min"}
            out = []
            for pt, ph, act in arms:
                act = norm(act).strip("{} ")
                if pt not in pat or ph not in pat:
                    errors.append("locktime(): unrecognised pattern (%s, %s)" % (pt, ph)); continue
                if act == "Ok(fallback_locktime.unwrap_or(LockTime::ZERO))":
                    a = "LA_Fallback"
                elif act == "Ok(x.into())" and pt == "Locktime::Minimum(x)" and ph != "Locktime::Minimum(x)":
                    a = "LA_Time"
                elif act == "Ok(x.into())" and ph == "Locktime::Minimum(x)" and pt != "Locktime::Minimum(x)":
                    a = "LA_Height"
                elif act == "Err(Error::LocktimeConflict)":
                    a = "LA_Conflict"
                elif act == "unreachable!()":
                    a = "LA_Unreachable"
                else:
                    errors.append("locktime(): unrecognised arm action %r" % act); continue
                out.append("(%s, %s, %s)" % (pat[pt], pat[ph], a))
            if len(out) < 4:
                errors.append("locktime(): fewer than 4 arms recognised")
            lines.append("Inductive lt_pat := LP_U | LP_Min | LP_D | LP_Any.")
            lines.append("Inductive lt_act := LA_Fallback | LA_Time | LA_Height | LA_Conflict | LA_Unreachable.")
            lines.append("(* arms of the final `match (time_locktime, height_locktime)` of PartiallySignedTransaction::locktime, in source order *)")
            lines.append("Definition locktime_arms : list (lt_pat * lt_pat * lt_act) := [%s]." % "; ".join(out))
        # the per-input fold: shape check only (hand-modelled)
        fold = norm(body)
        for need in ("(Some(rt), Some(rh)) => { time_locktime = cmp::max(time_locktime, Locktime::Minimum(rt)); height_locktime = cmp::max(height_locktime, Locktime::Minimum(rh)); }",
                     "(Some(rt), None) => { time_locktime = cmp::max(time_locktime, Locktime::Minimum(rt)); height_locktime = Locktime::Disallowed; }",
                     "(None, Some(rh)) => { time_locktime = Locktime::Disallowed; height_locktime = cmp::max(height_locktime, Locktime::Minimum(rh)); }",
                     "(None, None) => {}",
                     "enum Locktime<T: Ord> { Unconstrained, Minimum(T), Disallowed, }"):
            if need not in fold:
                errors.append("locktime(): the per-input fold changed shape (missing: %s)" % need[:60])
    # ---- C08: which TxIn fields unique_id resets before hashing
    body = fn_body("pset/mod.rs", r"pub fn unique_id\(&self\) -> Result<Txid, Error>\s*\{")
    if body is not None:
        m = re.search(r"for inp in &mut tx\.input\s*\{", body)
        if not m or "self.extract_tx()?" not in body or "tx.txid()" not in body:
            errors.append("unique_id(): unexpected shape")
        else:
            lb, _ = block_after(body, m.end() - 1)
            cleared = []
            for st in statements(lb):
                a = re.fullmatch(r"inp\.([a-z_]+) = (.*);", st)
                if not a:
                    errors.append("unique_id(): unrecognised statement %s" % st); continue
                f, v = a.group(1), norm(a.group(2))
                okv = {"sequence": ("Sequence::from_height(0)", "Sequence(0)", "Sequence::ZERO"),
                       "script_sig": ("Script::new()", "crate::Script::new()", "Script::default()", "crate::Script::default()", "Default::default()")}
                if f not in okv or v not in okv[f]:
                    errors.append("unique_id(): unrecognised reset %s" % st); continue
                cleared.append(f)
            lines.append("(* TxIn fields that unique_id() resets before taking the txid *)")
            lines.append("Definition uid_cleared_txin_fields : list (list byte) := [%s]." % "; ".join('fld "%s"' % c for c in cleared))
    # ---- C08: Input::is_pegin
    body = fn_body("pset/map/input.rs", r"pub fn is_pegin\(&self\) -> bool\s*\{")
    if body is not None:
        b = norm(body)
        plain = "self.previous_output_index & (1 << 30) != 0"
        if b == plain:
            lines.append("Definition is_pegin_exempts_coinbase : bool := false.  (* %s *)" % b)
        elif re.fullmatch(r"self\.previous_output_index != 0xffff_ffff && \(?self\.previous_output_index & \(1 << 30\) != 0\)?", b, flags=re.I):
            lines.append("Definition is_pegin_exempts_coinbase : bool := true.  (* %s *)" % b)
        else:
            errors.append("Input::is_pegin has an unexpected body: %s" % b)
    v = const("locktime.rs", "LOCK_TIME_THRESHOLD")
    if v is not None:
        defN("lock_time_threshold", rust_int(v), "src/locktime.rs LOCK_TIME_THRESHOLD")


_c14_section()
