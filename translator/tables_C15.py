# per-property table extraction; executed inside translate.py (uses src, const, defN, lines, errors, strip_comments, rust_int)

# ---------------------------------------------------------------- C15: taproot constants and tag strings (src/taproot.rs)
def _c15():
    rel = "taproot.rs"
    s = strip_comments(src(rel))
    lines.append("(* C15: src/taproot.rs *)")
    for name in ("TAPROOT_CONTROL_MAX_NODE_COUNT", "TAPROOT_CONTROL_NODE_SIZE", "TAPROOT_LEAF_MASK", "TAPROOT_LEAF_TAPSCRIPT",
                 "TAPROOT_CONTROL_BASE_SIZE"):
        v = const(rel, name)
        if v is not None:
            try:
                defN(name, rust_int(v))
            except ValueError:
                errors.append("const %s in src/%s is not an integer literal: %s" % (name, rel, v))
    # TAPROOT_CONTROL_MAX_SIZE must still be BASE + NODE * COUNT (the model computes it that way)
    v = const(rel, "TAPROOT_CONTROL_MAX_SIZE")
    if v is not None and re.sub(r"\s+", "", v) != "TAPROOT_CONTROL_BASE_SIZE+TAPROOT_CONTROL_NODE_SIZE*TAPROOT_CONTROL_MAX_NODE_COUNT":
        errors.append("const TAPROOT_CONTROL_MAX_SIZE in src/taproot.rs is no longer BASE + NODE_SIZE * MAX_NODE_COUNT: %s" % v)
    # the forbidden leaf version (annex tag) in LeafVersion::from_u8
    m = re.search(r"fn\s+from_u8\s*\(\s*ver\s*:\s*u8\s*\)\s*->\s*Result<Self,\s*TaprootError>\s*\{\s*if\s+ver\s*&\s*TAPROOT_LEAF_MASK\s*==\s*ver\s*&&\s*ver\s*!=\s*(0x[0-9a-fA-F]+|\d+)\s*\{", s)
    if m:
        defN("TAPROOT_LEAF_FORBIDDEN", rust_int(m.group(1)), "LeafVersion::from_u8 rejects this value (annex tag)")
    else:
        errors.append("anchor missing: LeafVersion::from_u8 condition `ver & TAPROOT_LEAF_MASK == ver && ver != <lit>` in src/taproot.rs")
    # tag strings of the sha256t tagged hashes
    for tagname, coqname in (("TapLeafTag", "TAG_TAPLEAF"), ("TapBranchTag", "TAG_TAPBRANCH"), ("TapTweakTag", "TAG_TAPTWEAK")):
        m = re.search(r"pub\s+struct\s+%s\s*=\s*hash_str\(\s*\"([^\"\\]*)\"\s*\)\s*;" % tagname, s)
        if not m:
            errors.append("anchor missing: sha256t_tag! %s = hash_str(\"...\") in src/taproot.rs" % tagname)
            continue
        bs = m.group(1).encode("utf8")
        lines.append("Definition %s : list byte := [%s].  (* \"%s\" *)" % (coqname, "; ".join("x%02x" % b for b in bs), m.group(1)))
    # which hash newtype wraps which tag (leaf / node / tweak)
    for newtype, tagname in (("TapLeafHash", "TapLeafTag"), ("TapNodeHash", "TapBranchTag"), ("TapTweakHash", "TapTweakTag")):
        if not re.search(r"pub\s+struct\s+%s\s*\(\s*sha256t::Hash::<%s>\s*\)\s*;" % (newtype, tagname), s):
            errors.append("anchor missing: hash_newtype %s(sha256t::Hash::<%s>) in src/taproot.rs" % (newtype, tagname))
    lines.append("")


_c15()
