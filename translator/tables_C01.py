# Piece of translate.py (executed inside it): constants the C01 / C02 / C11 / C12 / C19 models hard-wire, re-read from the
# Rust source on every run.  `coq/Proofs/TablesTie.v` proves (by reflexivity) that the models use exactly these numbers, so a
# changed constant in the source breaks a proof obligation even before the correspondence check runs.
_tx = strip_comments(src("transaction.rs"))
_cf = strip_comments(src("confidential.rs"))
_dy = strip_comments(src("dynafed.rs"))
_bl = strip_comments(src("block.rs"))
_is = strip_comments(src("issuance.rs"))


def _need(m, what):
    if not m:
        errors.append("anchor missing: " + what)
    return m


def _body(text, header_re, what):
    """text of the brace-balanced block that follows the first match of header_re"""
    m = re.search(header_re, text)
    if not _need(m, what):
        return ""
    i = text.index("{", m.end() - 1)
    depth, j = 0, i
    while j < len(text):
        if text[j] == "{":
            depth += 1
        elif text[j] == "}":
            depth -= 1
            if depth == 0:
                return text[i:j + 1]
        j += 1
    errors.append("unbalanced block: " + what)
    return ""


# --- TxIn: flag bits carried in the output index (encode and decode must use the same two bits) -------------------------------
_enc = _body(_tx, r"impl\s+Encodable\s+for\s+TxIn\s*\{", "impl Encodable for TxIn")
_dec = _body(_tx, r"impl\s+Decodable\s+for\s+TxIn\s*\{", "impl Decodable for TxIn")
m = _need(re.search(r"if\s+self\.is_pegin\s*\{\s*vout\s*\|=\s*1\s*<<\s*(\d+)\s*;", _enc), "TxIn encode: pegin bit")
pegin_enc = int(m.group(1)) if m else 0
m = _need(re.search(r"if\s+self\.has_issuance\(\)\s*\{\s*vout\s*\|=\s*1\s*<<\s*(\d+)\s*;", _enc), "TxIn encode: issuance bit")
iss_enc = int(m.group(1)) if m else 0
m = _need(re.search(r"is_pegin\s*=\s*outp\.vout\s*&\s*\(1\s*<<\s*(\d+)\)\s*!=\s*0", _dec), "TxIn decode: pegin bit")
pegin_dec = int(m.group(1)) if m else 0
m = _need(re.search(r"has_issuance\s*=\s*outp\.vout\s*&\s*\(1\s*<<\s*(\d+)\)\s*!=\s*0", _dec), "TxIn decode: issuance bit")
iss_dec = int(m.group(1)) if m else 0
m = _need(re.search(r"outp\.vout\s*&=\s*!\(\(1\s*<<\s*(\d+)\)\s*\|\s*\(1\s*<<\s*(\d+)\)\)", _dec), "TxIn decode: flag mask")
mask_bits = sorted(int(x) for x in m.groups()) if m else []
m = _need(re.search(r"if\s+outp\.vout\s*==\s*(0x[0-9a-fA-F_]+)", _dec), "TxIn decode: coinbase index")
coinbase_vout = rust_int(m.group(1)) if m else 0
lines.append("(* ---- C01/C02/C11/C12/C19 constants (translator/tables_C01.py) ---- *)")
defN("c01_pegin_bit_enc", 1 << pegin_enc, "src/transaction.rs impl Encodable for TxIn")
defN("c01_issuance_bit_enc", 1 << iss_enc)
defN("c01_pegin_bit_dec", 1 << pegin_dec, "src/transaction.rs impl Decodable for TxIn")
defN("c01_issuance_bit_dec", 1 << iss_dec)
defN("c01_flag_mask", sum(1 << b for b in mask_bits), "bits cleared from the decoded output index")
defN("c01_coinbase_vout", coinbase_vout, "index for which the flag bits are not interpreted")

# --- confidential prefixes ------------------------------------------------------------------------------------------------------
for _ty, _nm in (("Value", "value"), ("Asset", "asset"), ("Nonce", "nonce")):
    _d = _body(_cf, r"impl\s+Decodable\s+for\s+%s\s*\{" % _ty, "impl Decodable for " + _ty)
    m0 = _need(re.search(r"\b(\d+)\s*=>\s*Ok\(%s::Null\)" % _ty, _d), _ty + " decode: null prefix")
    m1 = _need(re.search(r"Ok\(%s::Null\)\s*,\s*(\d+)\s*=>" % _ty, _d), _ty + " decode: explicit prefix")
    m2 = _need(re.search(r"p\s+if\s+p\s*==\s*(0x[0-9a-fA-F]+)\s*\|\|\s*p\s*==\s*(0x[0-9a-fA-F]+)\s*=>", _d), _ty + " decode: confidential prefixes")
    defN("c01_%s_prefix_null" % _nm, int(m0.group(1)) if m0 else 0, "src/confidential.rs impl Decodable for " + _ty)
    defN("c01_%s_prefix_explicit" % _nm, int(m1.group(1)) if m1 else 0)
    defN("c01_%s_prefix_conf_even" % _nm, rust_int(m2.group(1)) if m2 else 0)
    defN("c01_%s_prefix_conf_odd" % _nm, rust_int(m2.group(2)) if m2 else 0)

# --- MAX_VEC_SIZE: re-exported from the bitcoin crate named in Cargo.lock -----------------------------------------------------------
_enc_rs = strip_comments(src("encode.rs"))
_need(re.search(r"pub\s+use\s+bitcoin::\{self,\s*consensus::encode::MAX_VEC_SIZE\}", _enc_rs), "encode.rs: MAX_VEC_SIZE re-export")
_need(re.search(r"if\s+s\s*>\s*MAX_VEC_SIZE", _enc_rs), "encode.rs: Vec<u8> length test `s > MAX_VEC_SIZE`")
_need(re.search(r"if\s+byte_size\s*>\s*MAX_VEC_SIZE", _enc_rs), "encode.rs: Vec<T> length test `byte_size > MAX_VEC_SIZE`")
_maxvec = None
# the crate version actually compiled into the harness: harness/Cargo.lock (copied from the repository's lock), else the repository's own lock files
for _lk in (os.path.join(os.path.dirname(os.path.abspath(_piece)), "..", "harness", "Cargo.lock"), os.path.join(repo, "Cargo.lock"), os.path.join(repo, "Cargo-recent.lock")):
    if _maxvec is not None or not os.path.exists(_lk):
        continue
    _ver = re.search(r'name = "bitcoin"\nversion = "([^"]+)"', open(_lk, encoding="utf8").read())
    if _ver:
        for _p in glob.glob(os.path.expanduser("~/.cargo/registry/src/*/bitcoin-%s/src/consensus/encode.rs" % _ver.group(1))):
            mm = re.search(r"pub\s+const\s+MAX_VEC_SIZE\s*:\s*usize\s*=\s*([0-9_]+)\s*;", open(_p, encoding="utf8").read())
            if mm:
                _maxvec = rust_int(mm.group(1))
if _maxvec is None:
    errors.append("anchor missing: bitcoin::consensus::encode::MAX_VEC_SIZE in the vendored bitcoin crate of Cargo.lock")
    _maxvec = 0
defN("c01_max_vec_size", _maxvec, "bitcoin::consensus::encode::MAX_VEC_SIZE (crate version from Cargo.lock)")

# --- dynafed parameter tags, header version bit -------------------------------------------------------------------------------------
_pe = _body(_dy, r"impl\s+Encodable\s+for\s+Params\s*\{", "impl Encodable for Params")
m0 = _need(re.search(r"Params::Null\s*=>\s*Encodable::consensus_encode\(&(\d+)u8", _pe), "Params encode: Null tag")
m1 = _need(re.search(r"Params::Compact\s*\{[^}]*\}\s*=>\s*\{?\s*Encodable::consensus_encode\(&(\d+)u8", _pe), "Params encode: Compact tag")
m2 = _need(re.search(r"Params::Full\((?:ref\s+)?[a-z_]+\)\s*=>\s*\{?\s*Encodable::consensus_encode\(&(\d+)u8", _pe), "Params encode: Full tag")
defN("c01_params_tag_null", int(m0.group(1)) if m0 else 0, "src/dynafed.rs impl Encodable for Params")
defN("c01_params_tag_compact", int(m1.group(1)) if m1 else 0)
defN("c01_params_tag_full", int(m2.group(1)) if m2 else 0)
_he = _body(_bl, r"impl\s+Encodable\s+for\s+BlockHeader\s*\{", "impl Encodable for BlockHeader")
_hd = _body(_bl, r"impl\s+Decodable\s+for\s+BlockHeader\s*\{", "impl Decodable for BlockHeader")
m = _need(re.search(r"self\.version\s*\|\s*(0x[0-9a-fA-F_]+)", _he), "BlockHeader encode: dynafed version bit")
defN("c01_header_dyna_bit_enc", rust_int(m.group(1)) if m else 0, "src/block.rs impl Encodable for BlockHeader")
m = _need(re.search(r"if\s+version\s*>>\s*(\d+)\s*==\s*1\s*\{\s*version\s*&=\s*(0x[0-9a-fA-F_]+)\s*;", _hd), "BlockHeader decode: dynafed version bit test and mask")
defN("c01_header_dyna_shift_dec", int(m.group(1)) if m else 0, "src/block.rs impl Decodable for BlockHeader")
defN("c01_header_version_mask_dec", rust_int(m.group(2)) if m else 0)

# --- C12: weights ----------------------------------------------------------------------------------------------------------------------
m = _need(re.search(r"pub\s+fn\s+weight\(&self\)\s*->\s*usize\s*\{\s*self\.scaled_size\((\d+)\)", _tx), "Transaction::weight scale factor")
defN("c12_weight_scale", int(m.group(1)) if m else 0, "src/transaction.rs Transaction::weight")
m = _need(re.search(r"pub\s+fn\s+size\(&self\)\s*->\s*usize\s*\{\s*self\.scaled_size\((\d+)\)", _tx), "Transaction::size scale factor")
defN("c12_size_scale", int(m.group(1)) if m else 0)
m = _need(re.search(r"let\s+weight\s*=\s*self\.weight\(\);\s*weight\.div_ceil\((\d+)\)", _tx), "Transaction::vsize divisor")
defN("c12_vsize_div", int(m.group(1)) if m else 0)
_dw = _body(_tx, r"pub\s+fn\s+discount_weight\(&self\)\s*->\s*usize\s*\{", "Transaction::discount_weight")
m = _need(re.search(r"let\s+mut\s+weight\s*=\s*self\.scaled_size\((\d+)\)", _dw), "discount_weight: start weight")
defN("c12_discount_scale", int(m.group(1)) if m else 0)
m = _need(re.search(r"witness_weight\.saturating_sub\((\d+)\)", _dw), "discount_weight: saturating_sub")
defN("c12_discount_witness_keep", int(m.group(1)) if m else 0)
m = _need(re.search(r"if\s+out\.value\.is_confidential\(\)\s*\{\s*weight\s*-=\s*\((\d+)\s*-\s*(\d+)\)\s*\*\s*(\d+)\s*;", _dw), "discount_weight: value discount")
defN("c12_discount_value", (int(m.group(1)) - int(m.group(2))) * int(m.group(3)) if m else 0)
m = _need(re.search(r"if\s+out\.nonce\.is_confidential\(\)\s*\{\s*weight\s*-=\s*\((\d+)\s*-\s*(\d+)\)\s*\*\s*(\d+)\s*;", _dw), "discount_weight: nonce discount")
defN("c12_discount_nonce", (int(m.group(1)) - int(m.group(2))) * int(m.group(3)) if m else 0)
m = _need(re.search(r"pub\s+fn\s+discount_vsize\(&self\)\s*->\s*usize\s*\{\s*self\.discount_weight\(\)\.div_ceil\((\d+)\)", _tx), "discount_vsize divisor")
defN("c12_discount_vsize_div", int(m.group(1)) if m else 0)

# --- C11: the three 32-byte constants of the issuance id derivation ---------------------------------------------------------------------
for _nm in ("ZERO32", "ONE32", "TWO32"):
    m = _need(re.search(r"const\s+%s\s*:\s*\[u8;\s*32\]\s*=\s*\[([^\]]*)\]" % _nm, _is), "issuance.rs: const " + _nm)
    _vals = [rust_int(x) for x in m.group(1).split(",") if x.strip()] if m else []
    if m and len(_vals) != 32:
        errors.append("issuance.rs: const %s does not have 32 entries" % _nm)
    lines.append("Definition c11_%s : list N := [%s]." % (_nm.lower(), "; ".join(str(v) for v in _vals)))


# ---------------------------------------------------------------- C01 (used by C02, C12): the small predicates the encoders branch on,
# translated function by function into Gen/SrcPreds.v; Proofs/SrcPreds.v proves each equal to the hand-written model definition.
def _c01_preds():
    R = rust2coq
    em = R.Emitter({})
    conf, txrs = src("confidential.rs"), src("transaction.rs")
    todo = []
    for ty in ("Value", "Asset", "Nonce"):
        for f in ("is_null", "is_explicit", "is_confidential", "encoded_length"):
            todo.append((conf, r"impl\s+%s\s*\{" % ty, ty, f))
    todo += [(txrs, r"impl\s+AssetIssuance\s*\{", "AssetIssuance", "is_null"),
             (txrs, r"impl\s+TxInWitness\s*\{", "TxInWitness", "is_empty"),
             (txrs, r"impl\s+TxOutWitness\s*\{", "TxOutWitness", "is_empty"),
             (txrs, r"impl\s+TxOutWitness\s*\{", "TxOutWitness", "rangeproof_len"),
             (txrs, r"impl\s+TxOutWitness\s*\{", "TxOutWitness", "surjectionproof_len"),
             (txrs, r"impl\s+TxIn\s*\{", "TxIn", "has_issuance"),
             (txrs, r"impl\s+Transaction\s*\{", "Transaction", "has_witness")]
    todo.append((src("encode.rs"), r"impl\s+VarInt\s*\{", "VarInt", "size"))
    defs = []
    for text, impl_re, ty, f in todo:
        try:
            defs.append(R.translate_fn(em, text, impl_re, ty, f, "src_%s_%s" % (ty, f)))
        except R.Unsupported as e:
            errors.append("%s::%s is no longer in the translatable subset (%s)" % (ty, f, e))
    head = ["(* GENERATED by translator/tables_C01.py (rust2coq) from /repo/src/confidential.rs and /repo/src/transaction.rs on every run — do not edit. *)",
            "From Coq Require Import List NArith Bool.", "From Coq.Strings Require Import Byte.",
            "From EV Require Import Base.Bytes Base.Codec Model.Tx Model.Sizes.   (* Model.Sizes only for the helpers blen and nsum *)",
            "Import ListNotations.", "Open Scope N_scope.", "Open Scope bool_scope.", ""]
    write_gen("SrcPreds.v", "\n".join(head + defs) + "\n")
    globals()["_src_preds_fns"] = em.fns
    globals()["_src_preds_safe"] = em.safe


_c01_preds()
