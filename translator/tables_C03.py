# per-property table extraction; executed inside translate.py (uses src, const, defN, lines, errors, strip_comments, rust_int)

# ---------------------------------------------------------------- C03 / C13: sighash-type numeric values, the ANYONECANPAY split tables,
# the TapSighash tag, KEY_VERSION_0, the default code-separator position and the SIGHASH_SINGLE out-of-range constant
def _c03():
    lines.append("(* C03/C13: src/transaction.rs (EcdsaSighashType), src/sighash.rs (SchnorrSighashType, constants), src/taproot.rs (TapSighashTag) *)")

    def enum_values(rel, enum, variants, prefix):
        s = strip_comments(src(rel))
        m = re.search(r"pub\s+enum\s+%s\s*\{(.*?)\n\}" % enum, s, flags=re.S)
        if not m:
            errors.append("anchor missing: pub enum %s in src/%s" % (enum, rel))
            return
        body = m.group(1)
        found = re.findall(r"^\s*([A-Za-z]+)\s*=\s*(0x[0-9a-fA-F]+|\d+)\s*,", body, flags=re.M)
        names = [a for a, _ in found]
        if names != variants:
            errors.append("enum %s in src/%s no longer has exactly the variants %s (found %s)" % (enum, rel, variants, names))
            return
        for a, v in found:
            defN("%s_%s" % (prefix, a), rust_int(v))

    def split_table(rel, enum, variants, prefix):
        # fn split_anyonecanpay_flag: one arm per variant, `Enum::X => (Enum::Y, bool)`
        s = strip_comments(src(rel))
        m = re.search(r"impl\s+%s\s*\{.*?fn\s+split_anyonecanpay_flag\s*\(self\)\s*->\s*\(%s,\s*bool\)\s*\{\s*match\s+self\s*\{(.*?)\}\s*\}" % (enum, enum), s, flags=re.S)
        if not m:
            errors.append("anchor missing: %s::split_anyonecanpay_flag in src/%s" % (enum, rel))
            return
        arms = re.findall(r"%s::([A-Za-z]+)\s*=>\s*\(\s*%s::([A-Za-z]+)\s*,\s*(true|false)\s*\)" % (enum, enum), m.group(1))
        if [a for a, _, _ in arms] != variants:
            errors.append("%s::split_anyonecanpay_flag in src/%s no longer has one arm per variant in declaration order" % (enum, rel))
            return
        # emitted as a list of (value of the variant, (value of the base variant, anyone_can_pay))
        items = ["(%s_%s, (%s_%s, %s))" % (prefix, a, prefix, b, c) for a, b, c in arms]
        lines.append("Definition %s_SPLIT : list (N * (N * bool)) := [%s]." % (prefix, "; ".join(items)))

    ecdsa = ["All", "None", "Single", "AllPlusAnyoneCanPay", "NonePlusAnyoneCanPay", "SinglePlusAnyoneCanPay"]
    schnorr = ["Default", "All", "None", "Single", "AllPlusAnyoneCanPay", "NonePlusAnyoneCanPay", "SinglePlusAnyoneCanPay", "Reserved"]
    enum_values("transaction.rs", "EcdsaSighashType", ecdsa, "ECDSA")
    split_table("transaction.rs", "EcdsaSighashType", ecdsa, "ECDSA")
    enum_values("sighash.rs", "SchnorrSighashType", schnorr, "SCHNORR")
    split_table("sighash.rs", "SchnorrSighashType", schnorr, "SCHNORR")

    v = const("sighash.rs", "KEY_VERSION_0")
    if v is not None:
        try:
            defN("KEY_VERSION_0", rust_int(v))
        except ValueError:
            errors.append("const KEY_VERSION_0 in src/sighash.rs is not an integer literal: %s" % v)

    s = strip_comments(src("sighash.rs"))
    # ScriptPath::with_defaults and taproot_script_spend_signature_hash both use the "no code separator" position
    m1 = re.search(r"fn\s+with_defaults\s*\(script:\s*&'s\s+Script\)\s*->\s*Self\s*\{\s*Self::new\(script,\s*(0x[0-9a-fA-F_]+)u32,\s*LeafVersion::TAPSCRIPT\)", s)
    m2 = re.search(r"Some\(\(leaf_hash\.into\(\),\s*(0x[0-9a-fA-F_]+)\)\)", s)
    if m1 and m2 and rust_int(m1.group(1)) == rust_int(m2.group(1)):
        defN("DEFAULT_CODESEP_POS", rust_int(m1.group(1)), "ScriptPath::with_defaults / taproot_script_spend_signature_hash")
    else:
        errors.append("anchor missing: default code separator position (ScriptPath::with_defaults / taproot_script_spend_signature_hash) in src/sighash.rs")
    # the SIGHASH_SINGLE out-of-range constant written by encode_legacy_signing_data_to
    m = re.search(r"if\s+sighash\s*==\s*EcdsaSighashType::Single\s*&&\s*input_index\s*>=\s*self\.tx\.output\.len\(\)\s*\{\s*writer\.write_all\(&\[([0-9,\s]+)\]\)\?;\s*return\s+Ok\(\(\)\);", s)
    if m:
        bs = [int(x) for x in m.group(1).replace("\n", " ").split(",") if x.strip()]
        lines.append("Definition LEGACY_SINGLE_BUG_BYTES : list byte := [%s]." % "; ".join("x%02x" % b for b in bs))
    else:
        errors.append("anchor missing: SIGHASH_SINGLE out-of-range special case in encode_legacy_signing_data_to (src/sighash.rs)")
    # the annex prefix checked by Annex::new
    m = re.search(r"if\s+annex_bytes\.first\(\)\s*==\s*Some\(&(0x[0-9a-fA-F]+)\)", s)
    if m:
        defN("ANNEX_PREFIX", rust_int(m.group(1)), "Annex::new")
    else:
        errors.append("anchor missing: Annex::new prefix check in src/sighash.rs")
    # tag of the taproot signature hash
    t = strip_comments(src("taproot.rs"))
    m = re.search(r"pub\s+struct\s+TapSighashTag\s*=\s*hash_str\(\s*\"([^\"\\]*)\"\s*\)\s*;", t)
    if m and re.search(r"pub\s+struct\s+TapSighashHash\s*\(\s*pub\(crate\)\s+sha256t::Hash::<TapSighashTag>\s*\)\s*;", t):
        bs = m.group(1).encode("utf8")
        lines.append("Definition TAG_TAPSIGHASH : list byte := [%s].  (* \"%s\" *)" % ("; ".join("x%02x" % b for b in bs), m.group(1)))
    else:
        errors.append("anchor missing: TapSighashTag = hash_str(\"...\") / TapSighashHash newtype in src/taproot.rs")
    lines.append("")


_c03()
