# per-property table extraction; executed inside translate.py (uses src, const, defN, lines, errors, strip_comments, rust_int)

# ---------------------------------------------------------------- C04/C05/C09: rangeproof parameters of TxOut (src/blind.rs)
def _c04():
    rel = "blind.rs"
    lines.append("(* C04: src/blind.rs, impl TxOut *)")
    for name, coqname in (("RANGEPROOF_MIN_VALUE", "CT_RANGEPROOF_MIN_VALUE"), ("RANGEPROOF_EXP_SHIFT", "CT_RANGEPROOF_EXP_SHIFT"),
                          ("RANGEPROOF_MIN_PRIV_BITS", "CT_RANGEPROOF_MIN_PRIV_BITS")):
        v = const(rel, name)
        if v is not None:
            try:
                defN(coqname, rust_int(v), "TxOut::%s" % name)
            except ValueError:
                errors.append("const %s in src/%s is not an integer literal: %s" % (name, rel, v))
    s = strip_comments(src(rel))
    # the model's blinding of a value passes exactly these three constants to RangeProof::new
    if not re.search(r"RangeProof::new\(\s*secp,\s*TxOut::RANGEPROOF_MIN_VALUE,", s):
        errors.append("anchor missing: RangeProof::new(secp, TxOut::RANGEPROOF_MIN_VALUE, ..) in Value::blind_with_shared_secret (src/blind.rs)")
    lines.append("")


_c04()
