# per-property table extraction; executed inside translate.py (uses src, const, defN, lines, errors, strip_comments, rust_int)

# ---------------------------------------------------------------- C04/C05/C09: rangeproof parameters of TxOut, surjection-proof domain limit of Asset::blind (src/blind.rs)
def _c04():
    rel = "blind.rs"
    lines.append("(* C04: src/blind.rs, impl TxOut *)")
    for name, coqname in (("RANGEPROOF_MIN_VALUE", "CT_RANGEPROOF_MIN_VALUE"), ("RANGEPROOF_EXP_SHIFT", "CT_RANGEPROOF_EXP_SHIFT"),
                          ("RANGEPROOF_MIN_PRIV_BITS", "CT_RANGEPROOF_MIN_PRIV_BITS")):
        v = const(rel, name)
        if v is not None:
            try:
                defN(coqname, rust_int(v), "TxOut::%s" % name)
            except ValueError:
                errors.append("const %s in src/%s is not an integer literal: %s" % (name, rel, v))
    s = strip_comments(src(rel))
    # the model's blinding of a value passes exactly these three constants to RangeProof::new
    if not re.search(r"RangeProof::new\(\s*secp,\s*TxOut::RANGEPROOF_MIN_VALUE,", s):
        errors.append("anchor missing: RangeProof::new(secp, TxOut::RANGEPROOF_MIN_VALUE, ..) in Value::blind_with_shared_secret (src/blind.rs)")
    # Asset::blind: the size limit of the surjection proof's domain (a free const of src/blind.rs) and the guard that applies it,
    # after the surjection targets are collected and before SurjectionProof::new
    v = const(rel, "SURJECTIONPROOF_MAX_N_INPUTS")
    if v is not None:
        try:
            defN("CT_SURJECTIONPROOF_MAX_N_INPUTS", rust_int(v), "SURJECTIONPROOF_MAX_N_INPUTS (src/blind.rs)")
        except ValueError:
            errors.append("const SURJECTIONPROOF_MAX_N_INPUTS in src/%s is not an integer literal: %s" % (rel, v))
    if not re.search(r"\.collect::<Result<Vec<_>,\s*_>>\(\)\?;\s*"
                     r"if\s+inputs\.len\(\)\s*>\s*SURJECTIONPROOF_MAX_N_INPUTS\s*\{\s*"
                     r"return\s+Err\(\s*ConfidentialTxOutError::Upstream\(\s*secp256k1_zkp::Error::CannotProveSurjection\s*\)\s*\)\s*;\s*\}\s*"
                     r"let\s+surjection_proof\s*=\s*SurjectionProof::new\(", s):
        errors.append("anchor missing: `if inputs.len() > SURJECTIONPROOF_MAX_N_INPUTS { return Err(..Upstream(..CannotProveSurjection)); }` "
                      "between the collection of the surjection targets and SurjectionProof::new in Asset::blind (src/blind.rs)")
    lines.append("")


_c04()
