//! C07: PSET serialization round-trips and re-serialization is a fixpoint.
//! case: `C07 <mode> <caps> <pt> <pk> <xonly> <rip> <h160> <payload...>` (see coq/Extract/RunC07.v)
//!   modes bin | built | rejdup | rejmissing | rejcount | rejpreimage  : payload = hex of the bytes (the model treats them alike;
//!         the mode tells the predicate what the input was constructed to be)
//!   text : payload = base64 text          elip : payload = hex bytes, hex asset id / -, hex value, selector 0..3
use crate::{txgen::*, util::*, Case, Out};
use elements::bitcoin;
use elements::bitcoin::hashes::Hash as _;
use elements::bitcoin::bip32::{ChildNumber, DerivationPath, Fingerprint, KeySource, Xpub};
use elements::encode::{deserialize, serialize, Error as EncErr};
use elements::hashes::{hash160, ripemd160, sha256, sha256d, Hash};
use elements::pset::elip100::{AssetMetadata, TokenMetadata};
use elements::pset::{self, raw, Input, Output, PartiallySignedTransaction as Pset, PsbtSighashType, TapTree};
use elements::schnorr::SchnorrSig;
use elements::secp256k1_zkp::{self as zkp, XOnlyPublicKey};
use elements::taproot::{ControlBlock, LeafVersion, TapLeafHash, TapNodeHash, TaprootBuilder};
use elements::{confidential::AssetBlindingFactor, AssetId, BlockHash, LockTime, OutPoint, SchnorrSighashType, Script, Sequence, Txid};
use rand::seq::SliceRandom;
use rand::Rng;
use rand_chacha::ChaCha20Rng;
use std::str::FromStr;

pub fn caps() -> String {
    let m = elements::encode::MAX_VEC_SIZE;
    format!("{},{},{},{},{}", m, m / std::mem::size_of::<elements::TxIn>(), m / std::mem::size_of::<elements::TxOut>(), m / std::mem::size_of::<Vec<u8>>(), m / std::mem::size_of::<TapLeafHash>())
}

// ------------------------------------------------------------------------------------------------ raw view of an encoding
type RPair = (u8, Vec<u8>, Vec<u8>); // (type, key data, value)
fn rd_varint(b: &[u8], p: &mut usize) -> Option<u64> {
    let t = *b.get(*p)?; *p += 1;
    let (n, min) = match t { 0xff => (8, 0x1_0000_0000u64), 0xfe => (4, 0x1_0000), 0xfd => (2, 0xfd), _ => return Some(t as u64) };
    if *p + n > b.len() { return None; }
    let mut v = 0u64; for i in 0..n { v |= (b[*p + i] as u64) << (8 * i); } *p += n;
    if v < min { None } else { Some(v) }
}
fn wr_varint(o: &mut Vec<u8>, n: u64) {
    if n < 0xfd { o.push(n as u8) } else if n < 0x1_0000 { o.push(0xfd); o.extend_from_slice(&(n as u16).to_le_bytes()) }
    else if n < 0x1_0000_0000 { o.push(0xfe); o.extend_from_slice(&(n as u32).to_le_bytes()) } else { o.push(0xff); o.extend_from_slice(&n.to_le_bytes()) }
}
/// the maps of an encoding (after the 5 magic bytes), as far as the framing parses; `None` if it does not start with the magic
fn parse_maps(b: &[u8]) -> Option<(Vec<Vec<RPair>>, bool)> {
    if b.len() < 5 || &b[..5] != b"pset\xff" { return None; }
    let mut p = 5; let mut maps = Vec::new(); let mut cur: Vec<RPair> = Vec::new();
    while p < b.len() {
        let kl = match rd_varint(b, &mut p) { Some(v) => v as usize, None => { maps.push(cur); return Some((maps, false)) } };
        if kl == 0 { maps.push(std::mem::take(&mut cur)); continue; }
        if kl > 4_000_001 || p + kl > b.len() { maps.push(cur); return Some((maps, false)); }
        let t = b[p]; let k = b[p + 1..p + kl].to_vec(); p += kl;
        let vl = match rd_varint(b, &mut p) { Some(v) => v as usize, None => { cur.push((t, k, vec![])); maps.push(cur); return Some((maps, false)) } };
        if vl > 4_000_000 || p + vl > b.len() { cur.push((t, k, vec![])); maps.push(cur); return Some((maps, false)); }
        cur.push((t, k, b[p..p + vl].to_vec())); p += vl;
    }
    let clean = cur.is_empty();
    if !clean { maps.push(cur); }
    Some((maps, clean))
}
fn unparse(maps: &[Vec<RPair>]) -> Vec<u8> {
    let mut o = b"pset\xff".to_vec();
    for m in maps {
        for (t, k, v) in m { wr_varint(&mut o, 1 + k.len() as u64); o.push(*t); o.extend_from_slice(k); wr_varint(&mut o, v.len() as u64); o.extend_from_slice(v); }
        o.push(0);
    }
    o
}

// ------------------------------------------------------------------------------------------------ oracles
#[derive(Default)]
struct Oracles { pt: Vec<Vec<u8>>, pk: Vec<Vec<u8>>, xo: Vec<Vec<u8>>, rip: Vec<(Vec<u8>, Vec<u8>)>, h160: Vec<(Vec<u8>, Vec<u8>)> }
fn push_u(v: &mut Vec<Vec<u8>>, x: &[u8]) { if !v.iter().any(|y| y == x) { v.push(x.to_vec()); } }
fn probe(o: &mut Oracles, x: &[u8]) {
    if x.len() == 33 || x.len() == 65 { if zkp::PublicKey::from_slice(x).is_ok() { push_u(&mut o.pk, x); } }
    if x.len() == 32 { if XOnlyPublicKey::from_slice(x).is_ok() { push_u(&mut o.xo, x); } }
    if x.len() == 78 { probe(o, &x[45..]); }     // the compressed key inside an xpub
}
fn oracles(b: &[u8]) -> Oracles {
    let mut o = Oracles::default();
    for w in valid_points(b) { push_u(&mut o.pt, &w); }
    if let Some((maps, _)) = parse_maps(b) {
        for m in &maps {
            for (t, k, v) in m {
                probe(&mut o, k); probe(&mut o, v);
                if k.len() >= 32 { probe(&mut o, &k[..32]); }
                if k.len() >= 33 { probe(&mut o, &k[1..33]); }
                if (*t == 0x0a || *t == 0x0c) && v.len() <= 0x10001 {
                    let r = ripemd160::Hash::hash(v).to_byte_array().to_vec(); if !o.rip.iter().any(|(x, _)| x == v) { o.rip.push((v.clone(), r)); }
                    let h = hash160::Hash::hash(v).to_byte_array().to_vec(); if !o.h160.iter().any(|(x, _)| x == v) { o.h160.push((v.clone(), h)); }
                }
            }
        }
    }
    o
}
fn kvlist(l: &[(Vec<u8>, Vec<u8>)]) -> String { if l.is_empty() { "-".into() } else { l.iter().map(|(k, v)| format!("{}:{}", hex(k), hex(v))).collect::<Vec<_>>().join(",") } }
fn head(mode: &str, b: &[u8]) -> String {
    let o = oracles(b);
    format!("C07 {} {} {} {} {} {} {}", mode, caps(), hexlist(&o.pt), hexlist(&o.pk), hexlist(&o.xo), kvlist(&o.rip), kvlist(&o.h160))
}
fn hx(b: &[u8]) -> String { if b.is_empty() { "-".into() } else { hex(b) } }
/// a commitment-typed value ("pset" subtype 01 / 03 / 0b, no key data) shorter than 33 bytes: Generator::from_slice and
/// PedersenCommitment::from_slice would read past the end of the buffer (finding F18); such inputs are never run
fn short_commitment(b: &[u8]) -> bool {
    if let Some((maps, _)) = parse_maps(b) {
        for m in maps.iter().skip(1) { for (t, k, v) in m { if *t == 0xfc && k.len() == 6 && &k[..5] == b"\x04pset" && [1u8, 3, 0x0b].contains(&k[5]) && v.len() < 33 { return true; } } }
    }
    false
}
/// Does the library check the length of commitment / generator slices (fix 838e50c)?  Probed without undefined behaviour: the
/// 32-byte prefix of a 33-byte buffer holding a valid generator.  Only if it does are short values fed to the decoder.
fn length_checked() -> bool {
    use elements::pset::serialize::Deserialize;
    static CELL: std::sync::OnceLock<bool> = std::sync::OnceLock::new();
    *CELL.get_or_init(|| {
        let g = zkp::Generator::new_unblinded(secp(), zkp::Tag::from([7u8; 32])).serialize();
        <zkp::Generator as Deserialize>::deserialize(&g[..32]).is_err() && <zkp::Generator as Deserialize>::deserialize(&g[..]).is_ok()
    })
}
/// Debug fingerprint of an in-memory PSET: a "built" case carries the fingerprint of the object it was serialized FROM, so that
/// deserialize(serialize(p)) = p is judged against the original and not only against what the encoder chose to write (seeded C07-r6-2)
fn fp(p: &Pset) -> String { hex(&sha256::Hash::hash(format!("{:?}", p).as_bytes()).to_byte_array()[..12]) }
pub fn mkb(p: &Pset, b: &[u8], tags: Vec<String>, nt: bool) -> Case {
    let mut c = mk("built", b, tags, nt);
    if c.text.starts_with("C07 built ") { c.text = format!("{} {}", c.text, fp(p)); }
    c
}
pub fn mk(mode: &str, b: &[u8], mut tags: Vec<String>, nt: bool) -> Case {
    tags.push(format!("mode:{}", mode));
    if short_commitment(b) && length_checked() { tags.push("short-commitment-value".into()); }
    if short_commitment(b) && !length_checked() {
        // replaced by a harmless fixed case so that the stream keeps its length
        return Case { text: format!("{} -", head("bin", &[])), tags: vec!["skipped:short-commitment-ub".into()], nontrivial: false };
    }
    Case { text: format!("{} {}", head(mode, b), hx(b)), tags, nontrivial: nt }
}

// ------------------------------------------------------------------------------------------------ eval
fn class(e: &EncErr) -> &'static str {
    match e {
        EncErr::PsetError(pe) => match pe {
            pset::Error::DuplicateKey(_) => "dup",
            pset::Error::IncorrectPsetVersion => "version",
            pset::Error::InvalidPreimageHashPair { .. } => "preimage",
            pset::Error::TooLargePset => "toolarge",
            pset::Error::MissingTxVersion | pset::Error::MissingInputCount | pset::Error::MissingOutputCount | pset::Error::MissingInputPrevTxId
            | pset::Error::MissingInputPrevVout | pset::Error::MissingOutputValue | pset::Error::MissingOutputAsset | pset::Error::MissingOutputSpk
            | pset::Error::MissingBlinderIndex | pset::Error::MissingBlindingInfo => "missing",
            _ => "invalid",
        },
        EncErr::ParseFailed(s) if *s == "Repeated global xpub key" => "dup",
        _ => "invalid",
    }
}
fn multi_leaf_taptree(p: &Pset) -> bool {
    p.outputs().iter().any(|o| o.tap_tree.as_ref().map(|t| elements::pset::serialize::Serialize::serialize(t).iter().count() > 0 && leaf_count(t) >= 2).unwrap_or(false))
}
fn leaf_count(t: &TapTree) -> usize {
    // the serialization is (depth, version, script)* — count the triples
    let b = elements::pset::serialize::Serialize::serialize(t);
    let mut p = 0; let mut n = 0;
    while p + 2 <= b.len() { p += 2; let l = match rd_varint(&b, &mut p) { Some(l) => l as usize, None => break }; p += l; n += 1; }
    n
}
fn dup_is_global_flag(b: &[u8]) -> bool {
    // the only duplicated key of the encoding is the global elements tx-modifiable flag (fc 04 "pset" 01)
    if let Some((maps, _)) = parse_maps(b) {
        let mut only_flag = false;
        for (mi, m) in maps.iter().enumerate() {
            for i in 0..m.len() { for j in i + 1..m.len() { if m[i].0 == m[j].0 && m[i].1 == m[j].1 {
                if mi == 0 && m[i].0 == 0xfc && m[i].1 == b"\x04pset\x01" { only_flag = true; } else { return false; }
            } } }
        }
        return only_flag;
    }
    false
}

/// the text entry point must agree with the byte entry point: from_str(base64(bs)) accepts iff deserialize(bs) does, with the same value
fn fromstr_disagrees(b: &[u8], by_bytes: &Result<Pset, EncErr>) -> Option<String> {
    use elements::bitcoin::base64::prelude::{Engine as _, BASE64_STANDARD};
    let by_text = Pset::from_str(&BASE64_STANDARD.encode(b));
    match (by_bytes, by_text) {
        (Ok(p), Ok(q)) => if *p != q { Some("fromstr-vs-deserialize|from_str(base64(bs)) and deserialize(bs) accept but return different PSETs".into()) } else { None },
        (Err(_), Err(_)) => None,
        (Err(_), Ok(_)) => Some("fromstr-vs-deserialize|from_str(base64(bs)) accepts a byte string that deserialize(bs) rejects (e.g. trailing data after the last map)".into()),
        (Ok(_), Err(_)) => Some("fromstr-vs-deserialize|from_str(base64(bs)) rejects a byte string that deserialize(bs) accepts".into()),
    }
}
fn eval_bin(mode: &str, b: &[u8]) -> Out {
    let mut o = eval_bin0(mode, b);
    if o.pred_fail.is_none() { o.pred_fail = fromstr_disagrees(b, &deserialize::<Pset>(b)); }
    o
}
fn eval_bin0(mode: &str, b: &[u8]) -> Out {
    let must_reject = mode.starts_with("rej");
    match deserialize::<Pset>(b) {
        Err(e) => {
            let fail = if mode == "built" { Some("rt-built-rejected|the serialization of a well-formed PSET is rejected by the decoder".to_string()) } else { None };
            Out { result: format!("err {}", class(&e)), pred_fail: fail }
        }
        Ok(p) => {
            let c = serialize(&p);
            let mut fail: Option<String> = None;
            let f9 = multi_leaf_taptree(&p);
            let (second, p2ok) = match deserialize::<Pset>(&c) {
                Err(e) => { fail = Some("fixpoint-decode|serialize(deserialize(bs)) is rejected by the decoder".into()); (format!("err {}", class(&e)), false) }
                Ok(p2) => {
                    let c2 = serialize(&p2);
                    if p2 != p { fail = Some("fixpoint-equal|serialize(deserialize(bs)) decodes to a different PSET".into()); }
                    else if c2 != c { fail = Some(if f9 { "F9-taptree-reversed|re-serialization is not a fixpoint: a tap tree with >= 2 leaves is written in reversed leaf order (repaired by aee9a45: returned)".into() } else { "fixpoint-bytes|serialize(deserialize(c)) != c".into() }); }
                    (if c2 == c { "=".to_string() } else { hx(&c2) }, true)
                }
            };
            let _ = p2ok;
            if fail.is_none() && mode == "built" && c[..] != b[..] {
                fail = Some(if f9 { "F9-taptree-reversed|a well-formed PSET with a multi-leaf tap tree does not re-serialize to the same bytes".into() } else { "rt-built|serialize(p) decodes to a PSET that serializes differently".into() });
            }
            if must_reject && fail.as_deref().map(|f| !f.starts_with("F9")).unwrap_or(true) {
                fail = Some(match mode {
                    "rejdup" => if dup_is_global_flag(b) { "F17-dup-elements-modifiable|a duplicated global PSBT_ELEMENTS_GLOBAL_TX_MODIFIABLE pair is accepted (assigned without an is_none() test); the last value wins".to_string() } else { "dup-accepted|an encoding with a duplicated key is accepted".to_string() },
                    "rejmissing" => "missing-accepted|an encoding without a mandatory field is accepted".to_string(),
                    "rejlen" => "F18-commitment-length-unchecked|a commitment / generator value whose length is not 33 bytes is accepted (repaired by 838e50c: returned)".to_string(),
                    "rejlimit" => "limit-accepted|a value beyond a length / count / depth limit of its type is accepted".to_string(),
                    "rejtrail" => "trailing-accepted|a valid encoding followed by extra bytes is accepted".to_string(),
                    "rejcount" => "count-accepted|an encoding whose declared counts differ from the number of maps is accepted".to_string(),
                    _ => "preimage-accepted|an encoding with an invalid hash preimage is accepted".to_string(),
                });
            }
            Out { result: format!("ok {} {}", hx(&c), second), pred_fail: fail }
        }
    }
}
fn eval_text(s: &str) -> Out {
    use elements::bitcoin::base64::prelude::{Engine as _, BASE64_STANDARD};
    let mut o = eval_text0(s);
    if o.pred_fail.is_none() {
        if let Ok(bytes) = BASE64_STANDARD.decode(s) {
            let by_bytes = deserialize::<Pset>(&bytes);
            match (Pset::from_str(s), by_bytes) {
                (Ok(p), Ok(q)) => if p != q { o.pred_fail = Some("fromstr-vs-deserialize|from_str(s) and deserialize(base64_decode(s)) return different PSETs".into()); },
                (Err(_), Err(_)) => {}
                (Ok(_), Err(_)) => o.pred_fail = Some("fromstr-vs-deserialize|from_str(s) accepts text whose bytes deserialize rejects (e.g. trailing data after the last map)".into()),
                (Err(_), Ok(_)) => o.pred_fail = Some("fromstr-vs-deserialize|from_str(s) rejects text whose bytes deserialize accepts".into()),
            }
        }
    }
    o
}
fn eval_text0(s: &str) -> Out {
    use elements::bitcoin::base64::prelude::{Engine as _, BASE64_STANDARD};
    match Pset::from_str(s) {
        Err(pset::ParseError::Base64(_)) => Out::ok("err b64".into()),
        Err(pset::ParseError::Deserialize(e)) => Out::ok(format!("err {}", class(&e))),
        Ok(p) => {
            let t = p.to_string();
            let mut fail = None;
            match Pset::from_str(&t) { Ok(p2) if p2 == p => {}, _ => fail = Some("rt-text|from_str(to_string(p)) != p".to_string()) }
            if BASE64_STANDARD.decode(&t).ok() != Some(serialize(&p)) { fail = Some("text-bytes|to_string is not the base64 of serialize".to_string()); }
            Out { result: format!("ok {}", if t.is_empty() { "-".to_string() } else { t }), pred_fail: fail }
        }
    }
}
fn eval_elip(b: &[u8], asset: &[u8], value: &[u8], sel: u32) -> Out {
    let mut p = match deserialize::<Pset>(b) { Ok(p) => p, Err(e) => return Out::ok(format!("err {}", class(&e))) };
    let mut fail = None;
    // set through the accessor, read back, serialize, decode, read back again
    let get = |p: &Pset| -> Option<Vec<u8>> {
        match sel {
            0 => p.get_asset_metadata(aid(asset)?).map(|r| r.map(|m| m.serialize()).unwrap_or_default()),
            1 => p.get_token_metadata(aid(asset)?).map(|r| r.map(|m| m.serialize()).unwrap_or_default()),
            2 => p.inputs().first()?.get_abf().map(|r| r.map(|m| elements::pset::serialize::Serialize::serialize(&m)).unwrap_or_default()),
            _ => p.outputs().first()?.get_abf().map(|r| r.map(|m| elements::pset::serialize::Serialize::serialize(&m)).unwrap_or_default()),
        }
    };
    match sel {
        0 => { let m = match AssetMetadata::deserialize(value) { Ok(m) => m, Err(_) => return Out::ok("harnesserr metadata".into()) }; p.add_asset_metadata(aid(asset).unwrap(), &m); }
        1 => { let m = match TokenMetadata::deserialize(value) { Ok(m) => m, Err(_) => return Out::ok("harnesserr metadata".into()) }; p.add_token_metadata(aid(asset).unwrap(), &m); }
        2 => { let a = match AssetBlindingFactor::from_slice(value) { Ok(a) => a, Err(_) => return Out::ok("harnesserr abf".into()) }; if p.inputs().is_empty() { return Out::ok("harnesserr noinput".into()); } p.inputs_mut()[0].set_abf(a); }
        _ => { let a = match AssetBlindingFactor::from_slice(value) { Ok(a) => a, Err(_) => return Out::ok("harnesserr abf".into()) }; if p.outputs().is_empty() { return Out::ok("harnesserr nooutput".into()); } p.outputs_mut()[0].set_abf(a); }
    }
    let got = get(&p);
    if got.as_deref() != Some(value) { fail = Some("elip-get|get after add does not return the metadata that was added".to_string()); }
    let c = serialize(&p);
    let third = match deserialize::<Pset>(&c) {
        Err(e) => { fail = Some("elip-rt|a PSET with ELIP metadata does not decode".to_string()); format!("err {}", class(&e)) }
        Ok(p2) => { let g2 = get(&p2); if g2.as_deref() != Some(value) || p2 != p { fail = Some("elip-rt|ELIP metadata does not survive serialization".to_string()); } g2.map(|v| hx(&v)).unwrap_or_else(|| "none".into()) }
    };
    Out { result: format!("ok {} {} {}", got.map(|v| hx(&v)).unwrap_or_else(|| "none".into()), hx(&c), third), pred_fail: fail }
}

/// F18: the PSET value decoders of Generator / PedersenCommitment do not look at the slice length.  Probed without undefined
/// behaviour: the 32-byte prefix of a 33-byte buffer (the byte past the slice is the buffer's own last byte), and a 34-byte value.
fn eval_shortcomm(b: &[u8]) -> Out {
    use elements::pset::serialize::{Deserialize, Serialize};
    if b.len() != 34 { return Out::ok("harnesserr len".into()); }
    let full = |x: &[u8]| -> Option<Vec<u8>> { if x[0] == 0x0a || x[0] == 0x0b { <zkp::Generator as Deserialize>::deserialize(x).ok().map(|g| Serialize::serialize(&g)) } else { <zkp::PedersenCommitment as Deserialize>::deserialize(x).ok().map(|g| Serialize::serialize(&g)) } };
    let long = full(&b[..34]);
    let short = full(&b[..32]);
    let fail = if short.is_some() { Some("F18-commitment-length-unchecked|the PSET value decoder accepts a 32-byte slice as a 33-byte commitment (libsecp reads past the end of the slice); longer values are silently truncated".to_string()) } else { None };
    Out { result: match long { Some(c) => format!("ok {}", hx(&c)), None => "err invalid".into() }, pred_fail: fail }
}

pub fn eval(case: &str) -> Out {
    let w: Vec<&str> = case.split(' ').collect();
    if w.len() < 9 { return Out::ok("harnesserr args".into()); }
    let mode = w[1];
    let arg = |i: usize| -> Option<Vec<u8>> { let s = *w.get(i)?; if s == "-" { Some(vec![]) } else { unhex(s) } };
    match mode {
        "text" => eval_text(if w[8] == "-" { "" } else { w[8] }),
        "elip" => {
            if w.len() != 12 { return Out::ok("harnesserr args".into()); }
            match (arg(8), arg(9), arg(10), w[11].parse::<u32>().ok()) { (Some(b), Some(a), Some(v), Some(s)) => eval_elip(&b, &a, &v, s), _ => Out::ok("harnesserr hex".into()) }
        }
        "vcanon" => Out::ok("harnesserr vcanon-is-model-only".into()),
        "shortcomm" => eval_shortcomm(&arg(8).unwrap_or_default()),
        _ => match arg(8) { Some(b) => if short_commitment(&b) && !length_checked() { Out::ok("harnesserr refused: a commitment value shorter than 33 bytes would be read out of bounds".into()) } else {
                let mut o = eval_bin(mode, &b);
                if let (true, Some(want), None) = (mode == "built", w.get(9), o.pred_fail.as_ref()) {
                    if let Ok(p) = deserialize::<Pset>(&b) { if fp(&p) != *want {
                        o.pred_fail = Some("rt-built-value|deserialize(serialize(p)) is not the PSET p that was serialized (Debug fingerprints of the in-memory value before and after differ): the encoder dropped or changed information".into()); } }
                }
                o }, None => Out::ok("harnesserr hex".into()) },
    }
}

// ------------------------------------------------------------------------------------------------ generators
fn rb(rng: &mut ChaCha20Rng, lo: usize, hi: usize) -> Vec<u8> { let n = rng.gen_range(lo..hi); rbytes(rng, n) }
fn aid(b: &[u8]) -> Option<AssetId> { Some(AssetId::from_byte_array(<[u8; 32]>::try_from(b).ok()?)) }
/// a byte string whose length is usually small and, one time in five, on either side of a compact-size boundary
fn rbl(rng: &mut ChaCha20Rng, small_hi: usize) -> Vec<u8> {
    let n = if rng.gen_range(0..5) == 0 { pk!(rng, [0xfbusize, 0xfc, 0xfd, 0xfe, 0x100]) } else { rng.gen_range(0..small_hi) };
    rbytes(rng, n)
}
fn rxonly(rng: &mut ChaCha20Rng) -> XOnlyPublicKey { rpubkey(rng).x_only_public_key().0 }
fn rbpk(rng: &mut ChaCha20Rng) -> bitcoin::PublicKey { let k = rpubkey(rng); if rng.gen_range(0..3) == 0 { bitcoin::PublicKey::new_uncompressed(k) } else { bitcoin::PublicKey::new(k) } }
fn rkeysource(rng: &mut ChaCha20Rng) -> KeySource {
    let n = rng.gen_range(0..5);
    let path: Vec<ChildNumber> = (0..n).map(|_| ChildNumber::from(rng.gen::<u32>())).collect();
    (Fingerprint::from(rng.gen::<[u8; 4]>()), DerivationPath::from(path))
}
fn rschnorr(rng: &mut ChaCha20Rng) -> SchnorrSig {
    let sig = zkp::schnorr::Signature::from_slice(&rbytes(rng, 64)).unwrap();
    let hash_ty = pk!(rng, [SchnorrSighashType::Default, SchnorrSighashType::All, SchnorrSighashType::None, SchnorrSighashType::Single,
        SchnorrSighashType::AllPlusAnyoneCanPay, SchnorrSighashType::NonePlusAnyoneCanPay, SchnorrSighashType::SinglePlusAnyoneCanPay]);
    SchnorrSig { sig, hash_ty }
}
fn rleafver(rng: &mut ChaCha20Rng) -> LeafVersion { LeafVersion::from_u8(pk!(rng, [0xc4u8, 0xc0, 0xc2, 0xfe, 0x66, 0x00, 0x52])).unwrap() }
fn rcontrolblock(rng: &mut ChaCha20Rng) -> ControlBlock {
    let k = rng.gen_range(0..4);
    let mut b = vec![rleafver(rng).as_u8() | rng.gen_range(0..2u8)];
    b.extend_from_slice(&rxonly(rng).serialize());
    b.extend(rbytes(rng, 32 * k));
    ControlBlock::from_slice(&b).unwrap()
}
/// all tree shapes with `n` leaves as depth sequences
pub fn shapes(n: usize) -> Vec<Vec<usize>> {
    if n == 1 { return vec![vec![0]]; }
    let mut out = Vec::new();
    for l in 1..n { for a in shapes(l) { for b in shapes(n - l) { let mut v: Vec<usize> = a.iter().map(|d| d + 1).collect(); v.extend(b.iter().map(|d| d + 1)); out.push(v); } } }
    out
}
pub fn taptree_of(rng: &mut ChaCha20Rng, depths: &[usize]) -> TapTree {
    let mut b = TaprootBuilder::new();
    for d in depths { let s = Script::from(rbl(rng, 6)); b = b.add_leaf_with_ver(*d, s, rleafver(rng)).unwrap(); }
    TapTree::from_inner(b).unwrap()
}
fn rtaptree(rng: &mut ChaCha20Rng, maxleaves: usize) -> TapTree {
    let n = rng.gen_range(1..=maxleaves); let sh = shapes(n); let d = sh[rng.gen_range(0..sh.len())].clone(); taptree_of(rng, &d)
}
fn rbtctx(rng: &mut ChaCha20Rng) -> bitcoin::Transaction {
    use bitcoin::{absolute, transaction, Amount, ScriptBuf, TxIn as BIn, TxOut as BOut, Witness};
    let nin = rng.gen_range(1..3); let nout = rng.gen_range(1..3);
    bitcoin::Transaction {
        version: transaction::Version(rng.gen_range(1..3)), lock_time: absolute::LockTime::from_consensus(rng.gen()),
        input: (0..nin).map(|_| BIn { previous_output: bitcoin::OutPoint { txid: bitcoin::Txid::from_byte_array(r32(rng)), vout: rng.gen_range(0..5) },
            script_sig: ScriptBuf::from_bytes(rb(rng, 0, 5)), sequence: bitcoin::Sequence(rng.gen()), witness: if rng.gen() { Witness::from_slice(&[rbytes(rng, 3)]) } else { Witness::new() } }).collect(),
        output: (0..nout).map(|_| BOut { value: Amount::from_sat(rng.gen::<u32>() as u64), script_pubkey: ScriptBuf::from_bytes(rb(rng, 0, 30)) }).collect(),
    }
}
fn rxpub(rng: &mut ChaCha20Rng) -> Xpub {
    Xpub { network: if rng.gen() { bitcoin::NetworkKind::Main } else { bitcoin::NetworkKind::Test }, depth: rng.gen_range(0..4), parent_fingerprint: Fingerprint::from(rng.gen::<[u8; 4]>()),
        child_number: ChildNumber::from(pk!(rng, [0u32, 1, 0x8000_0000, 0x8000_0001, rng.gen()])), public_key: rpubkey(rng), chain_code: bitcoin::bip32::ChainCode::from(r32(rng)) }
}
fn rasset_id(rng: &mut ChaCha20Rng) -> AssetId { AssetId::from_byte_array(r32(rng)) }
fn rpropkey(rng: &mut ChaCha20Rng) -> raw::ProprietaryKey {
    let prefix = pk!(rng, [b"pset".to_vec(), b"pset_hww".to_vec(), b"foo".to_vec(), vec![], rbytes(rng, 3), b"pse".to_vec(), b"psetx".to_vec()]);
    // prefix "pset" with a subtype no map knows (>= 0x40) is an ordinary proprietary key
    let subtype = if prefix == b"pset" { rng.gen_range(0x40..=0xff) } else { rng.gen() };
    raw::ProprietaryKey { prefix, subtype, key: if rng.gen_range(0..8) == 0 { rbl(rng, 4) } else { rb(rng, 0, 4) } }
}
fn runknownkey(rng: &mut ChaCha20Rng) -> raw::Key { raw::Key { type_value: rng.gen_range(0x40..0xfb), key: if rng.gen_range(0..8) == 0 { rbl(rng, 4) } else { rb(rng, 0, 4) } } }

pub const N_GLOBAL: usize = 7;
pub const N_INPUT: usize = 55;
pub const N_OUTPUT: usize = 17;
pub fn set_global(p: &mut Pset, f: usize, rng: &mut ChaCha20Rng, tags: &mut Vec<String>) {
    let g = &mut p.global;
    tags.push(format!("g:{}", f));
    match f {
        0 => g.tx_data.fallback_locktime = Some(LockTime::from_consensus(pk!(rng, [0u32, 499_999_999, 500_000_000, rng.gen()]))),
        1 => g.tx_data.tx_modifiable = Some(rng.gen()),
        2 => { for _ in 0..rng.gen_range(1..4) { g.xpub.insert(rxpub(rng), rkeysource(rng)); } }
        3 => { for _ in 0..rng.gen_range(1..4) { let t = rtweak(rng); if !g.scalars.contains(&t) { g.scalars.push(t); } } }
        4 => g.elements_tx_modifiable_flag = Some(rng.gen()),
        5 => { for _ in 0..rng.gen_range(1..4) { g.proprietary.insert(rpropkey(rng), rbl(rng, 5)); } }
        _ => { for _ in 0..rng.gen_range(1..4) { g.unknown.insert(runknownkey(rng), rbl(rng, 5)); } }
    }
    if f == 1 || f == 0 { g.tx_data.version = pk!(rng, [2u32, 1, 0, rng.gen()]); }
}
pub fn set_input(i: &mut Input, f: usize, rng: &mut ChaCha20Rng, tags: &mut Vec<String>) {
    tags.push(format!("i:{}", f));
    let k = rng.gen_range(1..4);
    match f {
        0 => i.non_witness_utxo = Some(rtx(rng, Feat { big: false, no_witness: false }, &mut vec![])),
        1 => i.witness_utxo = Some(rtxout(rng, Feat { big: false, no_witness: true }, &mut vec![])),
        2 => { for _ in 0..k { i.partial_sigs.insert(rbpk(rng), rbl(rng, 73)); } }
        3 => i.sighash_type = Some(PsbtSighashType::from_u32(pk!(rng, [1u32, 0x81, 0x41, 0, rng.gen()]))),
        4 => i.redeem_script = Some(rscript(rng, false)),
        5 => i.witness_script = Some(rscript(rng, false)),
        6 => { for _ in 0..k { i.bip32_derivation.insert(rbpk(rng), rkeysource(rng)); } }
        7 => i.final_script_sig = Some(rscript(rng, false)),
        8 => i.final_script_witness = Some(rstack(rng, false)),
        9 => { for _ in 0..k { let v = rbl(rng, 40); i.ripemd160_preimages.insert(ripemd160::Hash::hash(&v), v); } }
        10 => { for _ in 0..k { let v = rbl(rng, 40); i.sha256_preimages.insert(sha256::Hash::hash(&v), v); } }
        11 => { for _ in 0..k { let v = rbl(rng, 40); i.hash160_preimages.insert(hash160::Hash::hash(&v), v); } }
        12 => { for _ in 0..k { let v = rbl(rng, 40); i.hash256_preimages.insert(sha256d::Hash::hash(&v), v); } }
        13 => i.sequence = Some(Sequence(rng.gen())),
        14 => i.required_time_locktime = Some(elements::locktime::Time::from_consensus(pk!(rng, [500_000_000u32, 0xffff_ffff, rng.gen_range(500_000_000..=u32::MAX)])).unwrap()),
        15 => i.required_height_locktime = Some(elements::locktime::Height::from_consensus(pk!(rng, [0u32, 499_999_999, rng.gen_range(0..500_000_000)])).unwrap()),
        16 => i.tap_key_sig = Some(rschnorr(rng)),
        17 => { for _ in 0..k { i.tap_script_sigs.insert((rxonly(rng), TapLeafHash::from_byte_array(r32(rng))), rschnorr(rng)); } }
        18 => { for _ in 0..k { i.tap_scripts.insert(rcontrolblock(rng), (rscript(rng, false), rleafver(rng))); } }
        19 => { for _ in 0..k { let lh: Vec<TapLeafHash> = (0..rng.gen_range(0..3)).map(|_| TapLeafHash::from_byte_array(r32(rng))).collect(); i.tap_key_origins.insert(rxonly(rng), (lh, rkeysource(rng))); } }
        20 => i.tap_internal_key = Some(rxonly(rng)),
        21 => i.tap_merkle_root = Some(TapNodeHash::from_byte_array(r32(rng))),
        22 => i.issuance_value_amount = Some(rng.gen()),
        23 => i.issuance_value_comm = Some(rcommitment(rng)),
        24 => i.issuance_value_rangeproof = Some(rrangeproof(rng)),
        25 => i.issuance_keys_rangeproof = Some(rrangeproof(rng)),
        26 => i.pegin_tx = Some(rbtctx(rng)),
        27 => i.pegin_txout_proof = Some(rbl(rng, 80)),
        28 => i.pegin_genesis_hash = Some(BlockHash::from_byte_array(r32(rng))),
        29 => i.pegin_claim_script = Some(rscript(rng, false)),
        30 => i.pegin_value = Some(rng.gen()),
        31 => i.pegin_witness = Some(rstack(rng, false)),
        32 => i.issuance_inflation_keys = Some(rng.gen()),
        33 => i.issuance_inflation_keys_comm = Some(rcommitment(rng)),
        34 => i.issuance_blinding_nonce = Some(if rng.gen() { zkp::ZERO_TWEAK } else { rtweak(rng) }),
        35 => i.issuance_asset_entropy = Some(r32(rng)),
        36 => i.in_utxo_rangeproof = Some(rrangeproof(rng)),
        37 => i.in_issuance_blind_value_proof = Some(rrangeproof(rng)),
        38 => i.in_issuance_blind_inflation_keys_proof = Some(rrangeproof(rng)),
        39 => i.amount = Some(rng.gen()),
        40 => i.blind_value_proof = Some(rrangeproof(rng)),
        41 => i.asset = Some(rasset_id(rng)),
        42 => i.blind_asset_proof = Some(rsurjproof(rng)),
        43 => i.blinded_issuance = Some(rng.gen()),
        44 => { for _ in 0..k { i.proprietary.insert(rpropkey(rng), rbl(rng, 5)); } }
        45 => { for _ in 0..k { i.unknown.insert(runknownkey(rng), rbl(rng, 5)); } }
        46 => i.previous_output_index = pk!(rng, [0u32, 0xffff_ffff, 0x4000_0000, 0x8000_0001, rng.gen()]),
        47 => i.previous_txid = Txid::from_byte_array(r32(rng)),
        48 => { i.partial_sigs.insert(bitcoin::PublicKey::new_uncompressed(rpubkey(rng)), vec![1]); i.partial_sigs.insert(bitcoin::PublicKey::new(rpubkey(rng)), vec![2]); i.partial_sigs.insert(bitcoin::PublicKey::new_uncompressed(rpubkey(rng)), vec![3]); i.partial_sigs.insert(bitcoin::PublicKey::new(rpubkey(rng)), vec![]); }
        49 => { i.set_abf(AssetBlindingFactor::from_slice(&r32(rng).map(|x| x >> 1)).unwrap()); }
        50 => i.tap_key_sig = Some(SchnorrSig { sig: zkp::schnorr::Signature::from_slice(&rbytes(rng, 64)).unwrap(), hash_ty: SchnorrSighashType::Default }),
        51 => i.final_script_witness = Some(vec![]),
        52 => i.redeem_script = Some(Script::new()),
        53 => { i.tap_key_origins.insert(rxonly(rng), (vec![], (Fingerprint::from([0u8; 4]), DerivationPath::from(vec![])))); }
        _ => { i.pegin_txout_proof = Some(vec![]); }
    }
}
pub fn set_output(o: &mut Output, f: usize, rng: &mut ChaCha20Rng, tags: &mut Vec<String>) {
    tags.push(format!("o:{}", f));
    let k = rng.gen_range(1..4);
    match f {
        0 => o.redeem_script = Some(rscript(rng, false)),
        1 => o.witness_script = Some(rscript(rng, false)),
        2 => { for _ in 0..k { o.bip32_derivation.insert(rbpk(rng), rkeysource(rng)); } }
        3 => o.tap_internal_key = Some(rxonly(rng)),
        4 => o.tap_tree = Some(rtaptree(rng, 1)),
        5 => { for _ in 0..k { let lh: Vec<TapLeafHash> = (0..rng.gen_range(0..3)).map(|_| TapLeafHash::from_byte_array(r32(rng))).collect(); o.tap_key_origins.insert(rxonly(rng), (lh, rkeysource(rng))); } }
        6 => { o.amount = None; o.amount_comm = Some(rcommitment(rng)); }
        7 => o.amount_comm = Some(rcommitment(rng)),
        8 => { o.asset = None; o.asset_comm = Some(rgenerator(rng)); }
        9 => o.asset_comm = Some(rgenerator(rng)),
        10 => { o.blinding_key = Some(rbpk(rng)); o.blinder_index = Some(rng.gen()); }
        11 => o.blinder_index = Some(rng.gen()),
        12 => { // fully blinded
            o.blinding_key = Some(rbpk(rng)); o.blinder_index = Some(rng.gen_range(0..3)); o.amount_comm = Some(rcommitment(rng)); o.asset_comm = Some(rgenerator(rng));
            o.value_rangeproof = Some(rrangeproof(rng)); o.asset_surjection_proof = Some(rsurjproof(rng)); o.ecdh_pubkey = Some(rbpk(rng));
            if rng.gen() { o.amount = None; } if rng.gen() { o.asset = None; }
            if rng.gen() { o.blind_value_proof = Some(rrangeproof(rng)); } if rng.gen() { o.blind_asset_proof = Some(rsurjproof(rng)); }
        }
        13 => { o.value_rangeproof = Some(rrangeproof(rng)); o.asset_surjection_proof = Some(rsurjproof(rng)); o.ecdh_pubkey = Some(rbpk(rng)); }   // proofs without a blinding key: not "marked"
        14 => { for _ in 0..k { o.proprietary.insert(rpropkey(rng), rbl(rng, 5)); } }
        15 => { for _ in 0..k { o.unknown.insert(runknownkey(rng), rbl(rng, 5)); } }
        _ => { o.set_abf(AssetBlindingFactor::from_slice(&r32(rng).map(|x| x >> 1)).unwrap()); o.blind_value_proof = Some(rrangeproof(rng)); o.blind_asset_proof = Some(rsurjproof(rng)); }
    }
}
/// Every place where a variable-length byte string (or a counted list) is nested inside a PSET value or key: put exactly `n`
/// bytes (elements) there.  The sweep in `gen` runs every site over the lengths around each compact-size boundary.
pub const N_SITES: usize = 27;
fn set_site(p: &mut Pset, site: usize, n: usize, rng: &mut ChaCha20Rng) -> &'static str {
    let bytes = rbytes(rng, n);
    let script = Script::from(bytes.clone());
    let hashes = |rng: &mut ChaCha20Rng, k: usize| -> Vec<TapLeafHash> { (0..k).map(|_| TapLeafHash::from_byte_array(r32(rng))).collect() };
    let path = |rng: &mut ChaCha20Rng, k: usize| -> KeySource { (Fingerprint::from([1u8; 4]), DerivationPath::from((0..k).map(|_| ChildNumber::from(rng.gen::<u32>())).collect::<Vec<_>>())) };
    match site {
        0 => { let mut b = TaprootBuilder::new(); b = b.add_leaf_with_ver(0, script, rleafver(rng)).unwrap(); p.outputs_mut()[0].tap_tree = Some(TapTree::from_inner(b).unwrap()); "taptree-single-leaf-script" }
        1 => { let mut b = TaprootBuilder::new(); b = b.add_leaf_with_ver(1, script, rleafver(rng)).unwrap(); b = b.add_leaf_with_ver(1, Script::from(vec![0x51]), rleafver(rng)).unwrap(); p.outputs_mut()[0].tap_tree = Some(TapTree::from_inner(b).unwrap()); "taptree-first-leaf-script" }
        2 => { let mut b = TaprootBuilder::new(); b = b.add_leaf_with_ver(1, Script::from(vec![0x51]), rleafver(rng)).unwrap(); b = b.add_leaf_with_ver(2, script.clone(), rleafver(rng)).unwrap(); b = b.add_leaf_with_ver(2, script, rleafver(rng)).unwrap(); p.outputs_mut()[0].tap_tree = Some(TapTree::from_inner(b).unwrap()); "taptree-later-leaf-scripts" }
        3 => { p.inputs_mut()[0].tap_scripts.insert(rcontrolblock(rng), (script, rleafver(rng))); "tap-leaf-script-value" }
        4 => { p.inputs_mut()[0].redeem_script = Some(script); "in-redeem-script" }
        5 => { p.inputs_mut()[0].witness_script = Some(script); "in-witness-script" }
        6 => { p.inputs_mut()[0].final_script_sig = Some(script); "final-script-sig" }
        7 => { p.inputs_mut()[0].pegin_claim_script = Some(script); "pegin-claim-script" }
        8 => { p.outputs_mut()[0].script_pubkey = script; "out-script" }
        9 => { p.outputs_mut()[0].redeem_script = Some(script.clone()); p.outputs_mut()[0].witness_script = Some(script); "out-redeem-witness-script" }
        10 => { p.global.unknown.insert(raw::Key { type_value: 0x77, key: vec![1] }, bytes.clone()); p.inputs_mut()[0].unknown.insert(raw::Key { type_value: 0x77, key: vec![] }, bytes.clone()); p.outputs_mut()[0].unknown.insert(raw::Key { type_value: 0x77, key: vec![2, 3] }, bytes); "unknown-value" }
        11 => { p.global.unknown.insert(raw::Key { type_value: 0x78, key: bytes.clone() }, vec![9]); p.outputs_mut()[0].unknown.insert(raw::Key { type_value: 0x78, key: bytes }, vec![]); "unknown-key-data" }
        12 => { let k = raw::ProprietaryKey { prefix: b"foo".to_vec(), subtype: 3, key: vec![] }; p.global.proprietary.insert(k.clone(), bytes.clone()); p.inputs_mut()[0].proprietary.insert(k.clone(), bytes.clone()); p.outputs_mut()[0].proprietary.insert(k, bytes); "proprietary-value" }
        13 => { let k = raw::ProprietaryKey { prefix: b"pset".to_vec(), subtype: 0x70, key: bytes.clone() }; p.global.proprietary.insert(k.clone(), vec![1]); p.inputs_mut()[0].proprietary.insert(raw::ProprietaryKey { prefix: vec![], subtype: 0, key: bytes }, vec![]); p.outputs_mut()[0].proprietary.insert(k, vec![2]); "proprietary-key-data" }
        14 => { let k = raw::ProprietaryKey { prefix: bytes, subtype: 1, key: vec![5] }; p.global.proprietary.insert(k.clone(), vec![1]); p.outputs_mut()[0].proprietary.insert(k, vec![]); "proprietary-prefix" }
        15 => { p.inputs_mut()[0].ripemd160_preimages.insert(ripemd160::Hash::hash(&bytes), bytes.clone()); p.inputs_mut()[0].hash160_preimages.insert(hash160::Hash::hash(&bytes), bytes); "preimage-ripemd160-hash160" }
        16 => { p.inputs_mut()[0].sha256_preimages.insert(sha256::Hash::hash(&bytes), bytes.clone()); p.inputs_mut()[0].hash256_preimages.insert(sha256d::Hash::hash(&bytes), bytes); "preimage-sha256-hash256" }
        17 => { p.inputs_mut()[0].pegin_witness = Some(vec![vec![1], bytes.clone(), vec![]]); p.inputs_mut()[0].final_script_witness = Some(vec![bytes, vec![2, 3]]); "witness-element" }
        18 => { let k = n.min(0x101); p.inputs_mut()[0].pegin_witness = Some((0..k).map(|j| vec![j as u8; j % 3]).collect()); p.inputs_mut()[0].final_script_witness = Some((0..k).map(|_| vec![]).collect()); "witness-element-count" }
        19 => { p.inputs_mut()[0].partial_sigs.insert(rbpk(rng), bytes.clone()); p.inputs_mut()[0].pegin_txout_proof = Some(bytes); "partial-sig-and-txout-proof" }
        20 => { let k = n.min(0x101); let ks = path(rng, k / 4); p.inputs_mut()[0].bip32_derivation.insert(rbpk(rng), ks.clone()); p.outputs_mut()[0].bip32_derivation.insert(rbpk(rng), ks.clone()); p.global.xpub.insert(rxpub(rng), ks); "keysource-path" }
        21 => { let k = n.min(0x101); let h = hashes(rng, k); let ks = path(rng, 2); p.inputs_mut()[0].tap_key_origins.insert(rxonly(rng), (h.clone(), ks.clone())); p.outputs_mut()[0].tap_key_origins.insert(rxonly(rng), (h, ks)); "tap-key-origin-leaf-hash-count" }
        22 => { let mut t = rtx(rng, Feat { big: false, no_witness: false }, &mut vec![]); if t.output.is_empty() { t.output.push(rtxout(rng, Feat { big: false, no_witness: true }, &mut vec![])); } t.output[0].script_pubkey = script.clone(); p.inputs_mut()[0].non_witness_utxo = Some(t); let mut o = rtxout(rng, Feat { big: false, no_witness: true }, &mut vec![]); o.script_pubkey = script; p.inputs_mut()[0].witness_utxo = Some(o); "utxo-script" }
        23 => { let k = n.min(0x101); for _ in 0..k.min(0x101) / 0x40 { let t = rtweak(rng); if !p.global.scalars.contains(&t) { p.global.scalars.push(t); } } p.inputs_mut()[0].issuance_value_rangeproof = Some(rrangeproof(rng)); "scalars-and-proof" }
        24 => { let mut cb = vec![rleafver(rng).as_u8()]; cb.extend_from_slice(&rxonly(rng).serialize()); cb.extend(rbytes(rng, 32 * (n.min(0x101) / 40))); p.inputs_mut()[0].tap_scripts.insert(ControlBlock::from_slice(&cb).unwrap(), (Script::from(vec![0x51]), rleafver(rng))); "control-block-key-length" }
        25 => { use elements::bitcoin::{absolute, transaction, Amount, ScriptBuf, TxIn as BIn, TxOut as BOut, Witness};
                 p.inputs_mut()[0].pegin_tx = Some(bitcoin::Transaction { version: transaction::Version(2), lock_time: absolute::LockTime::ZERO,
                    input: vec![BIn { previous_output: bitcoin::OutPoint { txid: bitcoin::Txid::from_byte_array(r32(rng)), vout: 0 }, script_sig: ScriptBuf::from_bytes(bytes.clone()), sequence: bitcoin::Sequence(0), witness: Witness::new() }],
                    output: vec![BOut { value: Amount::from_sat(1), script_pubkey: ScriptBuf::from_bytes(bytes) }] }); "pegin-tx-script" }
        _ => { p.inputs_mut()[0].tap_key_sig = Some(rschnorr(rng)); p.inputs_mut()[0].tap_scripts.insert(rcontrolblock(rng), (script.clone(), rleafver(rng))); p.inputs_mut()[0].tap_scripts.insert(rcontrolblock(rng), (script, rleafver(rng))); "two-tap-leaf-scripts" }
    }
}
pub fn base(rng: &mut ChaCha20Rng, nin: usize, nout: usize) -> Pset {
    let mut p = Pset::new_v2();
    for _ in 0..nin { p.add_input(Input::from_prevout(OutPoint::new(Txid::from_byte_array(r32(rng)), rng.gen_range(0..4)))); }
    for _ in 0..nout { p.add_output(Output::new_explicit(rscript(rng, false), rng.gen(), rasset_id(rng), None)); }
    p
}

/// mutations at the level of the key-value pairs of a valid encoding
fn pair_mutation(rng: &mut ChaCha20Rng, b: &[u8], tags: &mut Vec<String>) -> Option<(String, Vec<u8>)> {
    let (mut maps, clean) = parse_maps(b)?;
    if !clean || maps.is_empty() { return None; }
    let mi = rng.gen_range(0..maps.len());
    match rng.gen_range(0..9) {
        0 | 1 => { tags.push("mut:reorder".into()); for m in maps.iter_mut() { m.shuffle(rng); } Some(("bin".into(), unparse(&maps))) }
        2 => { // duplicate one pair (same key, same or another value), anywhere in its map
            if maps[mi].is_empty() { return None; }
            let j = rng.gen_range(0..maps[mi].len()); let mut d = maps[mi][j].clone();
            if rng.gen() { d.2 = maps[mi][rng.gen_range(0..maps[mi].len())].2.clone(); }
            let pos = rng.gen_range(0..=maps[mi].len()); maps[mi].insert(pos, d);
            tags.push("mut:dup".into()); Some(("rejdup".into(), unparse(&maps)))
        }
        3 => { // drop a mandatory pair
            let (m, want): (usize, Vec<(u8, Vec<u8>)>) = if mi == 0 { (0, vec![(0x02, vec![]), (0x04, vec![]), (0x05, vec![]), (0xfb, vec![])]) }
                else { let nin = maps[0].iter().find(|p| p.0 == 4 && p.1.is_empty()).map(|p| p.2.first().copied().unwrap_or(0) as usize).unwrap_or(0);
                       if mi <= nin { (mi, vec![(0x0e, vec![]), (0x0f, vec![])]) } else { (mi, vec![(0x04, vec![])]) } };
            let (t, k) = want[rng.gen_range(0..want.len())].clone();
            let before = maps[m].len(); maps[m].retain(|p| !(p.0 == t && p.1 == k));
            if maps[m].len() == before { return None; }
            tags.push("mut:drop-mandatory".into()); Some(("rejmissing".into(), unparse(&maps)))
        }
        4 => { // declared counts differ from the number of maps
            let which = if rng.gen() { 4u8 } else { 5u8 };
            let p = maps[0].iter_mut().find(|p| p.0 == which && p.1.is_empty())?;
            let old = p.2.first().copied().unwrap_or(0);
            p.2 = vec![if rng.gen() || old == 0 { old + 1 } else { old - 1 }];
            tags.push("mut:count".into()); Some(("rejcount".into(), unparse(&maps)))
        }
        5 => { // remove or add a whole map without touching the counts
            if rng.gen() && maps.len() > 1 { let j = rng.gen_range(1..maps.len()); maps.remove(j); } else { let j = rng.gen_range(1..=maps.len()); let m = maps[rng.gen_range(0..maps.len())].clone(); maps.insert(j.min(maps.len()), m); }
            tags.push("mut:maps".into()); Some(("rejcount".into(), unparse(&maps)))
        }
        6 => { // corrupt a hash preimage
            for m in maps.iter_mut() { for p in m.iter_mut() { if (0x0a..=0x0d).contains(&p.0) && !p.1.is_empty() && (p.1.len() == 20 || p.1.len() == 32) {
                if rng.gen() { p.2.push(0); } else { p.1[0] ^= 1; }
                tags.push("mut:preimage".into()); return Some(("rejpreimage".into(), unparse(&maps)));
            } } }
            None
        }
        7 => { // non-canonical but accepted value forms: trailing bytes after a count VarInt, explicit Default sighash byte on a schnorr signature
            let mut done = false;
            for p in maps[0].iter_mut() { if (p.0 == 4 || p.0 == 5) && p.1.is_empty() && rng.gen() { p.2.extend_from_slice(&[0xff, 0x00]); done = true; } }
            for m in maps.iter_mut().skip(1) { for p in m.iter_mut() { if (p.0 == 0x13 || p.0 == 0x14) && p.2.len() == 64 { p.2.push(0); done = true; } } }
            if !done { return None; }
            tags.push("mut:noncanonical-value".into()); Some(("bin".into(), unparse(&maps)))
        }
        _ => { // change a key or value byte, or the key data of an unkeyed field
            if maps[mi].is_empty() { return None; }
            let j = rng.gen_range(0..maps[mi].len());
            match rng.gen_range(0..4) { 0 => maps[mi][j].0 = rng.gen(), 1 => maps[mi][j].1.push(rng.gen()), 2 => { let v = &mut maps[mi][j].2; if v.is_empty() { v.push(0) } else { let l = v.len(); v[rng.gen_range(0..l)] ^= 1 << rng.gen_range(0..8); } }, _ => { maps[mi][j].2.pop(); } }
            tags.push("mut:pair-edit".into()); Some(("bin".into(), unparse(&maps)))
        }
    }
}

pub fn gen(rng: &mut ChaCha20Rng, n: usize, thorough: bool) -> Vec<Case> {
    use elements::bitcoin::base64::prelude::{Engine as _, BASE64_STANDARD};
    let mut out = Vec::new();
    let mut valid: Vec<Vec<u8>> = Vec::new();
    // (ii) the repository's vectors: PSET literals of src/pset/mod.rs; transactions turned into PSETs
    for v in repo_hex_vectors() {
        if v.len() > 30_000 { continue; }
        if v.starts_with(b"pset\xff") { if deserialize::<Pset>(&v).is_ok() { valid.push(v.clone()); }   /* only decodable vectors seed the must-reject mutations */ out.push(mk("bin", &v, vec!["src:repo-vector".into()], true)); out.push(Case { text: format!("{} {}", head("text", &v), BASE64_STANDARD.encode(&v)), tags: vec!["src:repo-vector".into(), "mode:text".into()], nontrivial: true }); }
        else if let Ok(tx) = deserialize::<elements::Transaction>(&v) { let b = serialize(&Pset::from_tx(tx)); if b.len() < 30_000 { valid.push(b.clone()); out.push(mk("bin", &b, vec!["src:repo-tx-from_tx".into()], true)); } }
    }
    // (i-a) every optional field alone (exhaustive)
    for f in 0..N_GLOBAL { let mut tags = vec!["src:one-field".to_string()]; let mut p = base(rng, 1, 1); set_global(&mut p, f, rng, &mut tags); let b = serialize(&p); valid.push(b.clone()); out.push(mkb(&p, &b, tags, true)); }
    for f in 0..N_INPUT { let mut tags = vec!["src:one-field".to_string()]; let mut p = base(rng, 1, 1); set_input(&mut p.inputs_mut()[0], f, rng, &mut tags); let b = serialize(&p); valid.push(b.clone()); out.push(mkb(&p, &b, tags, true)); }
    for f in 0..N_OUTPUT { let mut tags = vec!["src:one-field".to_string()]; let mut p = base(rng, 1, 1); set_output(&mut p.outputs_mut()[0], f, rng, &mut tags); let b = serialize(&p); valid.push(b.clone()); out.push(mkb(&p, &b, tags, true)); }
    // (i-b) tap trees of every shape (F9 for >= 2 leaves)
    for nl in 1..=(if thorough { 5 } else { 4 }) { for sh in shapes(nl) {
        let mut p = base(rng, 0, 1); p.outputs_mut()[0].tap_tree = Some(taptree_of(rng, &sh));
        let b = serialize(&p); out.push(mkb(&p, &b, vec!["src:taptree".into(), format!("leaves:{}", nl)], true));
    } }
    // (i-b') every nested variable-length site x the lengths on both sides of every compact-size boundary
    //        (0xfc | 0xfd, 0xffff | 0x10000; the 64 KiB pair for the tap-tree sites and a rotating ninth of the others per run, for all of them in the thorough tier)
    for site in 0..N_SITES {
        let mut lens = vec![0usize, 0xfc, 0xfd, 0xfe, 0x100];
        if thorough || site < 2 || site % 9 == (n % 9) { lens.extend_from_slice(&[0xffff, 0x10000]); }
        for l in lens {
            let mut p = base(rng, 1, 1);
            let name = set_site(&mut p, site, l, rng);
            let b = serialize(&p);
            if l <= 0x100 { valid.push(b.clone()); }
            out.push(mkb(&p, &b, vec!["src:varint-boundary".into(), format!("site:{}", name), format!("len:{:#x}", l)], true));
        }
    }
    // ELIP-100 metadata whose contract length sits on a boundary (through the accessors)
    for l in [0xfcusize, 0xfd, 0x100, 0xffff, 0x10000] {
        let b = serialize(&base(rng, 1, 1));
        let value = AssetMetadata::new(String::from_utf8(rbytes(rng, l).iter().map(|x| 0x20 + x % 0x5f).collect()).unwrap(), OutPoint::new(Txid::from_byte_array(r32(rng)), rng.gen())).serialize();
        out.push(Case { text: format!("{} {} {} {} 0", head("elip", &b), hx(&b), hex(&r32(rng)), hx(&value)), tags: vec!["src:varint-boundary".into(), "site:elip100-contract".into(), format!("len:{:#x}", l), "mode:elip".into()], nontrivial: true });
    }
    // (i-c) empty and boundary shapes
    for (ni, no) in [(0usize, 0usize), (0, 1), (1, 0), (3, 2)] { let p = base(rng, ni, no); let b = serialize(&p); valid.push(b.clone()); out.push(mkb(&p, &b, vec!["src:shape".into(), format!("maps:{}x{}", ni, no)], true)); }
    // (i-d) random subsets
    for _ in 0..n {
        let mut tags = vec!["src:random-subset".to_string()];
        let (ni, no) = (rng.gen_range(0..3), rng.gen_range(0..3));
        let mut p = base(rng, ni, no);
        for _ in 0..rng.gen_range(0..4) { let f = rng.gen_range(0..N_GLOBAL); set_global(&mut p, f, rng, &mut tags); }
        for i in 0..ni { for _ in 0..rng.gen_range(0..8) { let f = rng.gen_range(0..N_INPUT); set_input(&mut p.inputs_mut()[i], f, rng, &mut tags); } }
        for i in 0..no { for _ in 0..rng.gen_range(0..4) { let f = rng.gen_range(0..N_OUTPUT); if f == 12 || f == 13 || f == 10 { continue; } set_output(&mut p.outputs_mut()[i], f, rng, &mut tags); } if rng.gen_range(0..4) == 0 { set_output(&mut p.outputs_mut()[i], 12, rng, &mut tags); } }
        tags.sort(); tags.dedup();
        let b = serialize(&p);
        if b.len() > 40_000 { continue; }
        valid.push(b.clone());
        let as_text = rng.gen_range(0..6) == 0;
        if as_text { out.push(Case { text: format!("{} {}", head("text", &b), BASE64_STANDARD.encode(&b)), tags: { let mut t = tags.clone(); t.push("mode:text".into()); t }, nontrivial: true }); }
        else { out.push(mkb(&p, &b, tags, true)); }
    }
    // (iii) accepted and rejected variants of valid encodings: pair reordering, duplicates, dropped mandatory fields, counts, preimages, edits
    for _ in 0..2 * n {
        let b = valid[rng.gen_range(0..valid.len())].clone();
        if b.len() > 12_000 { continue; }
        let mut tags = vec!["src:pair-mutation".to_string()];
        if let Some((mode, m)) = pair_mutation(rng, &b, &mut tags) { let acc = deserialize::<Pset>(&m).is_ok(); out.push(mk(&mode, &m, tags, acc)); }
    }
    // the duplicated global elements tx-modifiable flag (F17)
    { let mut p = base(rng, 1, 1); p.global.elements_tx_modifiable_flag = Some(1); let b = serialize(&p);
      if let Some((mut maps, _)) = parse_maps(&b) { if let Some(j) = maps[0].iter().position(|q| q.0 == 0xfc && q.1 == b"\x04pset\x01") { let mut d = maps[0][j].clone(); d.2 = vec![7]; maps[0].push(d); out.push(mk("rejdup", &unparse(&maps), vec!["src:targeted-dup-global-flag".into()], true)); } } }
    // F18: commitment / generator values of 32 and 34 bytes inside real PSETs (only when the safe probe says the length is checked)
    if length_checked() {
        for which in 0..4 {
            let mut p = base(rng, 1, 1);
            match which { 0 => { p.outputs_mut()[0].asset_comm = Some(rgenerator(rng)); } 1 => { p.outputs_mut()[0].amount_comm = Some(rcommitment(rng)); }
                          2 => { p.inputs_mut()[0].issuance_value_comm = Some(rcommitment(rng)); } _ => { p.inputs_mut()[0].issuance_inflation_keys_comm = Some(rcommitment(rng)); } }
            let b = serialize(&p);
            for longer in [false, true] {
                if let Some((mut maps, _)) = parse_maps(&b) {
                    for m in maps.iter_mut().skip(1) { for q in m.iter_mut() { if q.0 == 0xfc && q.1.len() == 6 && &q.1[..5] == b"\x04pset" && q.2.len() == 33 && [8u8, 9, 10, 11].contains(&q.2[0]) { if longer { q.2.push(0) } else { q.2.pop(); } } } }
                    out.push(mk("rejlen", &unparse(&maps), vec!["src:targeted-commitment-length".into(), format!("len:{}", if longer { 34 } else { 32 })], false));
                }
            }
        }
    }
    // F18 probes: a valid generator / commitment followed by one more byte
    for _ in 0..2 { let mut g = rgenerator(rng).serialize().to_vec(); g.push(rng.gen()); out.push(Case { text: format!("{} {}", head("shortcomm", &g), hex(&g)), tags: vec!["src:targeted-commitment-length".into(), "mode:shortcomm".into()], nontrivial: true });
                    let mut c = rcommitment(rng).serialize().to_vec(); c.push(rng.gen()); out.push(Case { text: format!("{} {}", head("shortcomm", &c), hex(&c)), tags: vec!["src:targeted-commitment-length".into(), "mode:shortcomm".into()], nontrivial: true }); }
    // limits of the foreign value types: each value AT its limit must round-trip (`built`: the bytes are the encoding of a well-formed
    // PSET, written by hand where a library constructor would go through the decoder under test) and one step beyond must be rejected
    {
        // the encoding of `p` with the first pair of map `mi` whose type is `ty` (and, for 0xfc, whose key data starts with `kpre`) rewritten by `f`
        let respell = |p: &Pset, mi: usize, ty: u8, kpre: &[u8], f: &dyn Fn(&mut RPair)| -> Option<Vec<u8>> {
            let (mut maps, clean) = parse_maps(&serialize(p))?; if !clean { return None; }
            let q = maps.get_mut(mi)?.iter_mut().find(|q| q.0 == ty && q.1.starts_with(kpre))?; f(q); Some(unparse(&maps))
        };
        // (1) ControlBlock (tap_scripts key): 33 + 32k bytes with k = 0, 1, 127, 128 merkle-branch nodes; 129 is beyond TAPROOT_CONTROL_MAX_NODE_COUNT
        for k in [0usize, 1, 127, 128, 129] {
            let mut p = base(rng, 1, 1);
            p.inputs_mut()[0].tap_scripts.insert(ControlBlock::from_slice(&{ let mut b = vec![0xc0u8]; b.extend_from_slice(&rxonly(rng).serialize()); b }).unwrap(), (Script::from(vec![0x51]), rleafver(rng)));
            let branch = rbytes(rng, 32 * k);
            if let Some(b) = respell(&p, 1, 0x15, &[], &|q: &mut RPair| { q.1.extend_from_slice(&branch); }) {
                out.push(mk(if k <= 128 { "built" } else { "rejlimit" }, &b, vec!["src:value-limit".into(), "limit:control-block-nodes".into(), format!("at:{}", k)], k <= 128));
            }
        }
        // (2) TapTree: a leaf at depth 127 / 128 (caterpillar trees through the builder); a depth byte of 129
        for d in [127usize, 128] {
            let mut b = TaprootBuilder::new();
            for j in 1..=d { b = b.add_leaf_with_ver(j, Script::from(vec![(j % 251) as u8]), LeafVersion::from_u8(0xc0).unwrap()).unwrap(); }
            b = b.add_leaf_with_ver(d, Script::new(), LeafVersion::from_u8(0xc0).unwrap()).unwrap();
            let mut p = base(rng, 0, 1); p.outputs_mut()[0].tap_tree = Some(TapTree::from_inner(b).unwrap());
            out.push(mkb(&p, &serialize(&p), vec!["src:value-limit".into(), "limit:taptree-depth".into(), format!("at:{}", d)], true));
        }
        { let mut p = base(rng, 0, 1); p.outputs_mut()[0].tap_tree = Some(taptree_of(rng, &[0]));
          if let Some(b) = respell(&p, 1, 0x06, &[], &|q: &mut RPair| { q.2 = vec![129, 0xc0, 1, 0x51]; }) { out.push(mk("rejlimit", &b, vec!["src:value-limit".into(), "limit:taptree-depth".into(), "at:129".into()], false)); } }
        // (3) SurjectionProof: 256 inputs is the maximum (rsurjproof draws it); 257 is beyond
        { let mut p = base(rng, 0, 1); set_output(&mut p.outputs_mut()[0], 12, rng, &mut vec![]);
          let mut v = vec![1u8, 1]; let mut bm = vec![0u8; 33]; bm[0] = 1; v.extend_from_slice(&bm); v.extend(rbytes(rng, 64));
          if let Some(b) = respell(&p, 1, 0xfc, b"\x04pset\x05", &|q: &mut RPair| { q.2 = v.clone(); }) { out.push(mk("rejlimit", &b, vec!["src:value-limit".into(), "limit:surjection-inputs".into(), "at:257".into()], false)); } }
        if thorough {
            // (4) Vec<Vec<u8>> (witnesses): MAX_VEC_SIZE / size_of::<Vec<u8>>() elements is the maximum (the model needs ~80 s per case: thorough tier only)
            let cap_vv = elements::encode::MAX_VEC_SIZE / std::mem::size_of::<Vec<u8>>();
            for (k, ok) in [(cap_vv, true), (cap_vv + 1, false)] {
                let mut p = base(rng, 1, 0); p.inputs_mut()[0].pegin_witness = Some(vec![vec![]; k]);
                out.push(mk(if ok { "built" } else { "rejlimit" }, &serialize(&p), vec!["src:value-limit".into(), "limit:witness-elements".into(), format!("at:{}", k)], ok));
            }
            // (5) Vec<TxOut> of a non_witness_utxo: MAX_VEC_SIZE / size_of::<TxOut>() outputs
            let cap_o = elements::encode::MAX_VEC_SIZE / std::mem::size_of::<elements::TxOut>();
            for (k, ok) in [(cap_o, true), (cap_o + 1, false)] {
                let mut t = rtx(rng, Feat { big: false, no_witness: true }, &mut vec![]); t.output = vec![elements::TxOut::default(); k];
                let mut p = base(rng, 1, 0); p.inputs_mut()[0].non_witness_utxo = Some(t);
                out.push(mk(if ok { "built" } else { "rejlimit" }, &serialize(&p), vec!["src:value-limit".into(), "limit:tx-outputs".into(), format!("at:{}", k)], ok));
            }
            // (6) the number of input maps: 10 000 is the maximum
            for (k, ok) in [(10_000usize, true), (10_001, false)] {
                let mut p = Pset::new_v2(); let op = OutPoint::new(Txid::from_byte_array(r32(rng)), 1);
                for _ in 0..k { p.add_input(Input::from_prevout(op)); }
                out.push(mk(if ok { "built" } else { "rejlimit" }, &serialize(&p), vec!["src:value-limit".into(), "limit:input-maps".into(), format!("at:{}", k)], ok));
            }
            // (7) a value of exactly MAX_VEC_SIZE bytes, and one more
            for (k, ok) in [(elements::encode::MAX_VEC_SIZE, true), (elements::encode::MAX_VEC_SIZE + 1, false)] {
                let mut p = base(rng, 0, 1); p.outputs_mut()[0].unknown.insert(raw::Key { type_value: 0x70, key: vec![] }, vec![0x5a; k]);
                out.push(mk(if ok { "built" } else { "rejlimit" }, &serialize(&p), vec!["src:value-limit".into(), "limit:value-bytes".into(), format!("at:{}", k)], ok));
            }
        }
    }
    // trailing data: a valid encoding followed by 1..4 bytes (zero, non-zero, a further 0x00 separator, the start of another map),
    // through deserialize and through from_str; must be rejected by both
    for k in 0..(n / 8).max(12) {
        let b = valid[rng.gen_range(0..valid.len())].clone(); if b.len() > 4_000 { continue; }
        let extra: Vec<u8> = match k % 6 { 0 => vec![0], 1 => vec![0, 0], 2 => vec![rng.gen_range(1..=255)], 3 => vec![1, 0x77, 0, 0], 4 => rbytes(rng, 3), _ => { let l = rng.gen_range(1..5); rbytes(rng, l) } };
        let mut m = b.clone(); m.extend_from_slice(&extra);
        let tags = vec!["src:targeted-trailing-data".to_string(), format!("extra:{}", extra.len())];
        out.push(mk("rejtrail", &m, tags.clone(), false));
        out.push(Case { text: format!("{} {}", head("text", &m), BASE64_STANDARD.encode(&m)), tags: { let mut t = tags; t.push("mode:text".into()); t }, nontrivial: false });
    }
    // byte-level mutations and truncations
    for _ in 0..n / 2 {
        let b = valid[rng.gen_range(0..valid.len())].clone();
        if b.len() > 6_000 { continue; }
        let mut tags = vec!["src:byte-mutation".to_string()];
        let m = if rng.gen_range(0..4) == 0 { tags.push("mut:truncate".into()); b[..rng.gen_range(0..b.len())].to_vec() } else { mutate(rng, &b, &mut tags) };
        let acc = deserialize::<Pset>(&m).is_ok(); out.push(mk("bin", &m, tags, acc));
    }
    // text form: malformed base64
    for _ in 0..(n / 20).max(3) {
        let b = valid[rng.gen_range(0..valid.len())].clone(); if b.len() > 3_000 { continue; }
        let mut t = BASE64_STANDARD.encode(&b);
        let tag = match rng.gen_range(0..4) { 0 => { t.pop(); "b64:truncated" } 1 => { t = t.replace('=', ""); "b64:nopad" } 2 => { let i = rng.gen_range(0..t.len()); t.replace_range(i..i + 1, "*"); "b64:badchar" } _ => { t.push_str("AA=="); "b64:extra-group" } };
        out.push(Case { text: format!("{} {}", head("text", &b), if t.is_empty() { "-".into() } else { t }), tags: vec!["src:text-mutation".into(), tag.into(), "mode:text".into()], nontrivial: false });
    }
    // ELIP-100 / ELIP-102 through the accessors
    for k in 0..(n / 10).max(8) {
        let b = valid[rng.gen_range(0..valid.len())].clone(); if b.len() > 6_000 { continue; }
        match deserialize::<Pset>(&b) { Ok(p) if !p.inputs().is_empty() && !p.outputs().is_empty() => {}, _ => continue }
        let sel = (k % 4) as u32;
        let asset = r32(rng).to_vec();
        let value: Vec<u8> = match sel {
            0 => AssetMetadata::new(String::from_utf8(rb(rng, 0, 60).iter().map(|x| 0x20 + x % 0x5f).collect()).unwrap(), OutPoint::new(Txid::from_byte_array(r32(rng)), rng.gen())).serialize(),
            1 => TokenMetadata::new(rasset_id(rng), rng.gen()).serialize(),
            _ => r32(rng).map(|x| x >> 1).to_vec(),
        };
        out.push(Case { text: format!("{} {} {} {} {}", head("elip", &b), hx(&b), if sel < 2 { hex(&asset) } else { "-".into() }, hx(&value), sel), tags: vec!["src:elip".into(), format!("elip:{}", sel), "mode:elip".into()], nontrivial: true });
        // the SECOND write for the same id / map: the PSET already carries a record written through the same accessor with other content, the case then
        // writes `value`; the record read back (and after a round trip) must be the new one (seeded C07-r6-3: a later write silently dropped)
        if let Ok(mut p) = deserialize::<Pset>(&b) {
            match sel {
                0 => { let _ = p.add_asset_metadata(aid(&asset).unwrap(), &AssetMetadata::new("an earlier contract".into(), OutPoint::new(Txid::from_byte_array(r32(rng)), 7))); }
                1 => { let _ = p.add_token_metadata(aid(&asset).unwrap(), &TokenMetadata::new(rasset_id(rng), false)); }
                2 => { let _ = p.inputs_mut()[0].set_abf(AssetBlindingFactor::from_slice(&[0x11; 32]).unwrap()); }
                _ => { let _ = p.outputs_mut()[0].set_abf(AssetBlindingFactor::from_slice(&[0x12; 32]).unwrap()); }
            }
            let b2 = serialize(&p);
            out.push(Case { text: format!("{} {} {} {} {}", head("elip", &b2), hx(&b2), if sel < 2 { hex(&asset) } else { "-".into() }, hx(&value), sel), tags: vec!["src:elip".into(), format!("elip:{}", sel), "elip:second-write".into(), "mode:elip".into()], nontrivial: true });
        }
    }
    out
}
