// C10 case generation (included by c10.rs). One ChaCha20 stream; every case is tagged with its entry point (`ep:`) and
// the source of its input (`src:`).

fn mk(text: String, tags: &[&str], nt: bool) -> Case {
    Case { text, tags: tags.iter().map(|s| s.to_string()).collect(), nontrivial: nt }
}
fn dec_case(ty: &str, b: &[u8], src: &str, nt: bool) -> Case {
    let pts = valid_points(b);
    mk(format!("C10 dec {} {} {} {}", ty, sizes(), hexlist(&pts), hexd(b)), &[&format!("ep:deserialize-{}", ty), src], nt)
}
/// decode probes made while generating run under the same guard as the cases (a mutated decoder must not take the generator down);
/// should the allocation limit fire, the verdict line names the decoder case this probe belongs to
fn probe<T: Decodable>(ty: &str, b: &[u8]) -> Option<T> {
    set_emergency(&dec_case(ty, b, "src:generator-probe", true).text);
    match guard(|| deserialize::<T>(b)).0 { Some(Ok(v)) => Some(v), _ => None }
}
fn strhex(s: &str) -> String { hexd(s.as_bytes()) }
fn varint(n: u64) -> Vec<u8> {
    match n { 0..=0xfc => vec![n as u8], 0xfd..=0xffff => { let mut v = vec![0xfd]; v.extend((n as u16).to_le_bytes()); v }
              0x10000..=0xffff_ffff => { let mut v = vec![0xfe]; v.extend((n as u32).to_le_bytes()); v } _ => { let mut v = vec![0xff]; v.extend(n.to_le_bytes()); v } }
}
/// replace some length-looking byte by a large (but syntactically minimal) varint: the allocation-before-read probe
fn mutate_length(rng: &mut ChaCha20Rng, b: &[u8]) -> Vec<u8> {
    let mut v = b.to_vec();
    if v.is_empty() { return varint(4_000_000); }
    let i = rng.gen_range(0..v.len());
    let m = elements::encode::MAX_VEC_SIZE as u64;
    let big = pk!(rng, [m, m + 1, m - 1, m / 24, m / 24 + 1, 0x7fff_ffff, 0xffff_ffff, 0x1_0000_0000, u64::MAX, 10_000, 10_001, 0xfd, 0xffff, 0x10000, m / 300, 200_000]);
    v.splice(i..i + 1, varint(big));
    v
}
const ALPHA: &[&str] = &["1", "q", "p", "a", "Q", "l", "x", "e", "t", "b", "c", "0", "z", "2", "é", "L", "A", "i", "o", "-", "~", "\u{7f}", "W"];
fn rstring(rng: &mut ChaCha20Rng, maxlen: usize) -> String {
    let n = rng.gen_range(0..=maxlen);
    (0..n).map(|_| *pick(rng, ALPHA)).collect()
}
fn mutate_string(rng: &mut ChaCha20Rng, s: &str) -> String {
    let mut c: Vec<char> = s.chars().collect();
    if c.is_empty() { return "1".into(); }
    match rng.gen_range(0..9) {
        0 => { let n = rng.gen_range(0..c.len()); c.truncate(n); }
        1 => { let i = rng.gen_range(0..c.len()); c[i] = pick(rng, ALPHA).chars().next().unwrap(); }
        2 => { let i = rng.gen_range(0..c.len()); c[i] = c[i].to_ascii_uppercase(); }
        3 => { let i = rng.gen_range(0..=c.len()); c.insert(i, '1'); }
        4 => { let i = rng.gen_range(0..c.len()); c.remove(i); }
        5 => { c = c.iter().map(|x| x.to_ascii_uppercase()).collect(); }
        6 => { if let Some(p) = c.iter().rposition(|x| *x == '1') { let keep = rng.gen_range(0..14usize); c.truncate(p + 1 + keep.min(c.len() - p - 1)); } }
        7 => { let i = rng.gen_range(0..=c.len()); c.insert(i, 'é'); }
        _ => { let n = rng.gen_range(1..40); for _ in 0..n { c.push('q'); } }
    }
    let s: String = c.into_iter().filter(|x| *x != ' ').collect();
    if s.is_empty() { "1".into() } else { s }
}
fn rpath(rng: &mut ChaCha20Rng, n: usize) -> Vec<u32> { (0..n).map(|_| pk!(rng, [0u32, 1, 2, 9, 0x8000_0000, rng.gen()])).collect() }
fn path_text(p: &[u32]) -> String { if p.is_empty() { "-".into() } else { p.iter().map(|x| x.to_string()).collect::<Vec<_>>().join("/") } }

fn pset_vectors() -> Vec<Vec<u8>> {
    let mut v: Vec<Vec<u8>> = repo_hex_vectors().into_iter().filter(|b| b.starts_with(b"pset\xff")).collect();
    // base64 literals in the sources
    let repo = std::env::var("ELEMENTS_REPO").unwrap_or_else(|_| "/repo".into());
    for f in ["src/pset/mod.rs", "src/pset/elip100.rs", "src/pset/elip102.rs", "src/pset/map/output.rs", "src/pset/map/input.rs", "src/pset/str.rs", "src/blind.rs"] {
        if let Ok(s) = std::fs::read_to_string(format!("{}/{}", repo, f)) {
            for lit in s.split('"') {
                if lit.len() > 40 && lit.starts_with("cHNldP") { if let Some(Ok(p)) = guard(|| Pset::from_str(lit)).0 { v.push(serialize(&p)); } }
            }
        }
    }
    v.sort(); v.dedup();
    v
}

pub fn gen(rng: &mut ChaCha20Rng, n: usize, thorough: bool) -> Vec<Case> {
    let mut out: Vec<Case> = Vec::new();
    let f = Feat { big: false, no_witness: false };
    let maxvec = elements::encode::MAX_VEC_SIZE as u64;
    let mv = format!("{},{}", maxvec, std::mem::size_of::<Vec<u8>>());
    let prof = own_mode();

    // ------------------------------------------------------------------ the refutations, re-derived on every run
    out.push(mk(format!("C10 hrp {}", strhex("a1")), &["ep:SegwitHrpstring::new_bech32", "src:fixed-F1"], true));
    out.push(mk(format!("C10 hrp {}", strhex("tex1")), &["ep:SegwitHrpstring::new_bech32", "src:fixed-F1"], true));
    out.push(mk("C10 xpub 00000000 1/2/3 00000000 9".into(), &["ep:Pset::merge-xpub", "src:fixed-F2"], true));
    out.push(mk("C10 blindsel f".into(), &["ep:Transaction::blind", "src:fixed-F12"], true));
    out.push(mk("C10 blindsel uf".into(), &["ep:Transaction::blind", "src:fixed-F12"], true));
    out.push(mk("C10 sbuilder n".into(), &["ep:TaprootBuilder::finalize-serde", "src:fixed-F16"], true));
    out.push(mk(format!("C10 fees {} 3:{},3:1", prof, u64::MAX), &["ep:Transaction::fee_in", "src:fixed-F17"], true));
    out.push(mk(format!("C10 fees {} 3:{},4:7,3:{}", prof, 1u64 << 63, 1u64 << 63), &["ep:Transaction::fee_in", "src:fixed-F17"], true));

    {   // F18: a valid commitment / generator, handed over as a shorter slice of the same buffer
        let c = rcommitment(rng).serialize(); let g = rgenerator(rng).serialize();
        for (k, buf, ok) in [("v", &c[..], true), ("pv", &c[..], true), ("a", &g[..], true), ("pa", &g[..], true), ("v", &g[..], false), ("a", &c[..], false)] {
            for len in [33usize, 32, 1, 0] { out.push(mk(format!("C10 commit {} {} {} {}", k, len, ok as u8, hex(buf)), &["ep:from_commitment", "src:fixed-F18"], true)); }
        }
        // and through the PSET decoder: an output whose value commitment field is empty
        let mut p = Pset::new_v2();
        p.add_input(pset::Input::from_prevout(OutPoint::new(txid(1), 0)));
        let mut o = pset::Output::new_explicit(Script::from(vec![0x51]), 5, asset(3), None);
        o.amount_comm = Some(rcommitment(rng));
        p.add_output(o);
        let ser = serialize(&p);
        let pat = { let mut k = vec![0x07u8, 0xfc, 4]; k.extend(b"pset"); k.push(0x01); k.push(33); k };
        if let Some(pos) = ser.windows(pat.len()).position(|w| w == &pat[..]) {
            for keep in [0usize, 1, 32] {
                let mut m = ser[..pos + pat.len() - 1].to_vec(); m.push(keep as u8); m.extend(&ser[pos + pat.len()..pos + pat.len() + keep]); m.extend(&ser[pos + pat.len() + 33..]);
                out.push(mk(format!("C10 x-pset {}", hex(&m)), &["ep:explore-pset-deserialize", "src:fixed-F18"], true));
            }
        }
    }
    for v in [0u64, 1, 7] { out.push(mk(format!("C10 x-blindzero {}", v), &["ep:explore-Transaction::blind", if v == 0 { "src:fixed-F20" } else { "src:fixed" }], true)); }
    for n in [0usize, 1, 255, 256, 257] { out.push(mk(format!("C10 x-surj {}", n), &["ep:explore-Asset::blind", if n > 256 { "src:fixed-F22" } else { "src:fixed" }], true)); }
    out.push(mk("C10 x-rp64".into(), &["ep:explore-TxOut::unblind", "src:finding-F23"], true));
    for r in [0, 1] { out.push(mk(format!("C10 x-remove {}", r), &["ep:explore-Pset::remove_input", if r == 1 { "src:fixed-F24" } else { "src:fixed" }], true)); }
    for pat in ["empty", "null"] { out.push(mk(format!("C10 x-serde-taptree {}", pat), &["ep:explore-serde-TapTree", "src:fixed-F25"], true)); }
    out.push(mk("C10 x-cbor-params a16c6665647065677363726970749bffffffffffffffff".into(), &["ep:explore-serde-dynafed", "src:fixed-F26"], true));
    out.push(mk("C10 x-cbor-params a16c66656470656773637269707483010203".into(), &["ep:explore-serde-dynafed", "src:fixed"], true));
    {   // F27: CBOR [2, h'<n bytes of a valid commitment>'] for n = 33 (fine) and shorter
        let c = rcommitment(rng).serialize();
        for n in [33usize, 32, 16, 1] { let mut b = vec![0x82, 0x02]; if n < 24 { b.push(0x40 + n as u8); } else { b.push(0x58); b.push(n as u8); } b.extend(&c[..n]);
            out.push(mk(format!("C10 x-cbor-commit {}", hex(&b)), &["ep:explore-serde-confidential", if n == 33 { "src:fixed" } else { "src:finding-F27" }], true)); }
    }
    // PSET count caps: 10 000 inputs / outputs promised, nothing behind (the reservation happens before the first map is read)
    for (cin, cout) in [(10_000u64, 0u64), (0, 10_000), (10_000, 10_000), (10_001, 0), (0, 10_001), (0xffff_ffff, 0)] {
        let mut b = b"pset\xff".to_vec();
        b.extend([1, 2, 4, 2, 0, 0, 0]); b.extend([1, 4]); b.push(varint(cin).len() as u8); b.extend(varint(cin)); b.extend([1, 5]); b.push(varint(cout).len() as u8); b.extend(varint(cout));
        b.extend([1, 0xfb, 4, 2, 0, 0, 0, 0]);
        out.push(mk(format!("C10 x-pset {}", hex(&b)), &["ep:explore-pset-deserialize", "src:alloc-probe"], true));
        let mut c = b.clone(); c.extend([0xfe, 0x01, 0x09, 0x3d, 0x00, 0x01]);
        out.push(mk(format!("C10 x-pset {}", hex(&c)), &["ep:explore-pset-deserialize", "src:alloc-probe"], true));
    }
    {   // F21: an issuance of explicit amount 0, through the wire
        let mut i = TxIn::default(); i.previous_output = OutPoint::new(txid(7), 1); i.asset_issuance.amount = confidential::Value::Explicit(0); i.asset_issuance.inflation_keys = confidential::Value::Explicit(1);
        let tx = Transaction { version: 2, lock_time: LockTime::ZERO, input: vec![i], output: vec![TxOut::new_fee(1, asset(3))] };
        out.push(mk(format!("C10 x-verify {}", hex(&serialize(&tx))), &["ep:explore-verify_tx_amt_proofs", "src:fixed-F21"], true));
    }
    // ------------------------------------------------------------------ consensus decoders
    let repo = repo_hex_vectors();
    let mut valid: Vec<(String, Vec<u8>)> = Vec::new();
    for v in &repo {
        for ty in ["tx", "block", "header"] {
            let ok = match ty { "tx" => probe::<Transaction>(ty, v).is_some(), "block" => probe::<Block>(ty, v).is_some(), _ => probe::<BlockHeader>(ty, v).is_some() };
            if ok && v.len() < 30000 { out.push(dec_case(ty, v, "src:repo-vector", false)); if v.len() < 6000 { valid.push((ty.to_string(), v.clone())); } }
        }
    }
    for k in 0..n {
        let mut tags = vec![];
        let (ty, b): (&str, Vec<u8>) = match k % 10 {
            0..=3 => ("tx", serialize(&rtx(rng, f, &mut tags))),
            4 => ("txin", serialize(&rtxin(rng, f, &mut tags))),
            5 => ("txout", serialize(&rtxout(rng, f, &mut tags))),
            6 => ("header", serialize(&crate::c01::rheader(rng, &mut tags))),
            7 => { let txs: Vec<Transaction> = (0..rng.gen_range(0..3)).map(|_| rtx(rng, f, &mut tags)).collect(); ("block", serialize(&Block { header: crate::c01::rheader(rng, &mut tags), txdata: txs })) }
            8 => ("params", serialize(&crate::c01::rparams(rng, &mut tags))),
            _ => match rng.gen_range(0..3) { 0 => ("value", serialize(&rvalue(rng, true))), 1 => ("asset", serialize(&rasset(rng, true))), _ => ("nonce", serialize(&rnonce(rng))) },
        };
        if b.len() < 6000 { valid.push((ty.to_string(), b.clone())); }
        if k % 3 == 0 { out.push(dec_case(ty, &b, "src:generated", true)); }
    }
    for _ in 0..3 * n {
        let (ty, b) = &valid[rng.gen_range(0..valid.len())];
        let mut tags = vec![];
        let (m, src) = match rng.gen_range(0..4) {
            0 => (mutate_length(rng, b), "src:mutated-length-field"),
            1 => { let m = mutate(rng, b, &mut tags); (mutate(rng, &m, &mut tags), "src:mutated-x2") }
            _ => (mutate(rng, b, &mut tags), "src:mutated"),
        };
        out.push(dec_case(ty, &m, src, true));
    }
    for _ in 0..n / 2 {
        let l = rng.gen_range(0..120);
        let ty = pk!(rng, ["tx", "txin", "txout", "header", "block", "params", "value", "asset", "nonce"]);
        out.push(dec_case(ty, &rbytes(rng, l), "src:random-bytes", true));
    }
    // allocation probes: a length prefix promising up to MAX_VEC_SIZE (and beyond) with nothing behind it
    for len in [0u64, 1, 0xfc, 0xfd, 0xffff, 0x10000, maxvec / 24 - 1, maxvec / 24, maxvec / 24 + 1, maxvec - 1, maxvec, maxvec + 1, 0x7fff_ffff, 0xffff_ffff, 0x1_0000_0000, 1 << 40, u64::MAX / 24, u64::MAX / 24 + 1, u64::MAX] {
        let p = varint(len);
        out.push(mk(format!("C10 vecu8 {} {}", mv, hex(&p)), &["ep:deserialize-Vec<u8>", "src:alloc-probe"], true));
        out.push(mk(format!("C10 vecvec {} {}", mv, hex(&p)), &["ep:deserialize-Vec<Vec<u8>>", "src:alloc-probe"], true));
        out.push(mk(format!("C10 key {} {}", mv, hex(&{ let mut q = p.clone(); q.push(0xfc); q })), &["ep:deserialize-raw::Key", "src:alloc-probe"], true));
        out.push(mk(format!("C10 key {} {}", mv, hex(&p)), &["ep:deserialize-raw::Key", "src:alloc-probe"], true));
        out.push(mk(format!("C10 varint {} {}", mv, hex(&p)), &["ep:read_varint", "src:alloc-probe"], true));
        // the same prefix where a script length / input count / witness stack count is expected
        let mut txo = vec![1u8]; txo.extend([0x33; 32]); txo.push(1); txo.extend(5u64.to_be_bytes()); txo.push(0); txo.extend(&p);
        out.push(dec_case("txout", &txo, "src:alloc-probe", true));
        let mut tx = vec![2, 0, 0, 0, 0]; tx.extend(&p);
        out.push(dec_case("tx", &tx, "src:alloc-probe", true));
        let mut tx2 = vec![2, 0, 0, 0, 1, 0]; tx2.extend(&p);
        out.push(dec_case("tx", &tx2, "src:alloc-probe", true));
        let mut blk = serialize(&crate::c01::rheader(rng, &mut vec![])); blk.extend(&p);
        if blk.len() < 3000 { out.push(dec_case("block", &blk, "src:alloc-probe", true)); }
        // nested: a stack of `k` elements each promising MAX_VEC_SIZE
        let mut st = varint(3); st.extend(varint(2)); st.extend([1, 2]); st.extend(&p);
        out.push(mk(format!("C10 vecvec {} {}", mv, hex(&st)), &["ep:deserialize-Vec<Vec<u8>>", "src:alloc-probe"], true));
    }
    for _ in 0..n / 4 {
        let l = rng.gen_range(0..40);
        let b = rbytes(rng, l);
        let kind = pk!(rng, ["vecu8", "vecvec", "key", "varint"]);
        out.push(mk(format!("C10 {} {} {}", kind, mv, hexd(&b)), &[&format!("ep:lowlevel-{}", kind), "src:random-bytes"], true));
        let mut st = varint(rng.gen_range(0..5)); for _ in 0..rng.gen_range(0..5) { let e = rng.gen_range(0..4); st.extend(varint(e)); st.extend(rbytes(rng, e as usize)); }
        out.push(mk(format!("C10 vecvec {} {}", mv, hexd(&st)), &["ep:deserialize-Vec<Vec<u8>>", "src:generated"], true));
        let kl = rng.gen_range(0..6u64); let mut k = varint(kl + 1); k.push(rng.gen()); k.extend(rbytes(rng, kl as usize)); if rng.gen_range(0..3) == 0 { k.truncate(rng.gen_range(0..=k.len())); }
        out.push(mk(format!("C10 key {} {}", mv, hexd(&k)), &["ep:deserialize-raw::Key", "src:generated"], true));
    }

    // ------------------------------------------------------------------ scripts
    let mut scripts: Vec<Vec<u8>> = vec![vec![], vec![0x6a], vec![0x4c], vec![0x4d, 1], vec![0x4e, 1, 0, 0], vec![0x4c, 5, 1], vec![0x4e, 0xff, 0xff, 0xff, 0xff], vec![0x4e, 0xff, 0xff, 0xff, 0xff, 1],
                                      vec![0x4d, 0xff, 0xff], vec![0x01], vec![0x4b], vec![0x51, 0x01, 0xaa], vec![0x51, 0x00], vec![0x60, 0x28], vec![0x00, 0x14], vec![0x76, 0xa9, 0x14]];
    if thorough { for a in 0..=255u8 { scripts.push(vec![a]); for b in 0..=255u8 { scripts.push(vec![a, b]); } } }
    else { for a in [0x00u8, 0x4b, 0x4c, 0x4d, 0x4e, 0x4f, 0x50, 0x60, 0x61, 0x6a, 0xba, 0xc0, 0xc4, 0xe4, 0xfe, 0xff] { scripts.push(vec![a]); scripts.push(vec![a, 1]); } }
    for _ in 0..n {
        let l = pk!(rng, [rng.gen_range(0..6usize), rng.gen_range(0..40), rng.gen_range(0..300)]);
        let mut s = rbytes(rng, l);
        match rng.gen_range(0..5) { 0 => { if !s.is_empty() { s[0] = 0x6a; } } 1 => { let i = rng.gen_range(0..=s.len()); s.insert(i, pk!(rng, [0x4cu8, 0x4d, 0x4e])); } _ => {} }
        scripts.push(s);
    }
    for s in &scripts { out.push(mk(format!("C10 script {}", hexd(s)), &["ep:Script-instructions-asm-templates", if s.len() <= 2 { "src:enumerated" } else { "src:random-bytes" }], true)); }
    // witness-program shapes: every version opcode (OP_0, OP_1..OP_16) and the neighbours 0x4f / 0x61, every program length 0..=42 (templates, asm,
    // Address::from_script must stay total on the non-standard ones: v0 with a length other than 20 / 32, programs shorter than 2 or longer than 40)
    for ver in [0x00u8, 0x4f, 0x51, 0x52, 0x53, 0x54, 0x55, 0x56, 0x57, 0x58, 0x59, 0x5a, 0x5b, 0x5c, 0x5d, 0x5e, 0x5f, 0x60, 0x61] {
        for l in 0..=42usize {
            let mut sc = vec![ver, l as u8]; sc.extend(rbytes(rng, l));
            out.push(mk(format!("C10 script {}", hexd(&sc)), &["ep:Script-instructions-asm-templates", "src:witness-program-shapes"], true));
        }
    }
    // truncated pushes: every push form x declared length (small and boundary) x every cut from "opcode only" to "complete + 1"
    // (all cuts for short pushes; for long ones the cuts inside / right after the length field and within 3 bytes of the end), alone and
    // after a valid prefix; the OP_RETURN prefixes also go through is_null_data / is_pegout / pegout_data
    for (script, tag) in truncated_pushes() {
        out.push(mk(format!("C10 script {}", hexd(&script)), &["ep:Script-instructions-asm-templates", tag], true));
        if script.first() == Some(&0x6a) { out.push(mk(format!("C10 pegout e {}", hexd(&script)), &["ep:TxOut::pegout_data", tag], true)); }
    }
    for _ in 0..n / 2 { let l = rng.gen_range(0..7); out.push(mk(format!("C10 rint {}", hexd(&rbytes(rng, l))), &["ep:read_scriptint", "src:random-bytes"], true)); }

    // read_uint with every size 0..=17 (F19 for sizes >= 9 when that many bytes are there)
    out.push(mk(format!("C10 ruint {} 9 {}", prof, hex(&[1u8; 9])), &["ep:script::read_uint", "src:fixed-F19"], true));
    for size in 0..=17usize { for extra in [0isize, -1, 3] { let l = (size as isize + extra).max(0) as usize; out.push(mk(format!("C10 ruint {} {} {}", prof, size, hexd(&rbytes(rng, l))), &["ep:script::read_uint", "src:sizes"], true)); } }
    // ------------------------------------------------------------------ the small fallible integer constructors, boundary integers
    {
        let mut b32: Vec<u64> = vec![0, 1, 2, 3, 511, 512, 513, 1023, 1024, 0x80, 0x81, 0x82, 0x83, 0x84, 0xff, 0x100, 0x101, 0xfffe, 0xffff, 0x10000, 0x10001,
            499_999_999, 500_000_000, 500_000_001, 65535 * 512 - 1, 65535 * 512, 65535 * 512 + 1, 65536 * 512 - 1, 65536 * 512, 65536 * 512 + 1, 65536 * 512 + 511, 65536 * 512 + 512];
        for k in 1..32u32 { for d in [-1i64, 0, 1] { b32.push(((1i64 << k) + d) as u64); } }
        for k in 0..=16u64 { b32.push(u32::MAX as u64 - k); }
        for k in [509u64, 510, 511, 512, 513, 600] { b32.push(u32::MAX as u64 - k); }
        b32.sort(); b32.dedup();
        // the two arithmetic ones get every MAX - k, k <= 600, and every multiple of 512 next to the limit
        let mut arith = b32.clone();
        for k in 0..=600u64 { arith.push(u32::MAX as u64 - k); }
        for m in 65530..=65540u64 { for d in [0u64, 1, 511] { arith.push(m * 512 + d); } }
        for _ in 0..n { arith.push(rng.gen::<u32>() as u64); }
        arith.sort(); arith.dedup();
        for f in ["seqfloor", "seqceil"] { for v in &arith { out.push(mk(format!("C10 ctor {} {} {}", prof, f, v), &["ep:Sequence::from_seconds", "src:boundary-integers"], true)); } }
        for f in ["ltconsensus", "ltheight", "lttime", "height", "time", "ecdsastd", "psbtecdsa", "psbtschnorr"] {
            for v in &b32 { out.push(mk(format!("C10 ctor {} {} {}", prof, f, v), &[&format!("ep:ctor-{}", f), "src:boundary-integers"], true)); } }
        for f in ["seqheight", "seq512"] { for v in b32.iter().filter(|v| **v < 65536) { out.push(mk(format!("C10 ctor {} {} {}", prof, f, v), &[&format!("ep:ctor-{}", f), "src:boundary-integers"], true)); } }
        for f in ["schnorr", "leafver", "ordinary"] { for v in 0..256u64 { out.push(mk(format!("C10 ctor {} {} {}", prof, f, v), &[&format!("ep:ctor-{}", f), "src:all-bytes"], true)); } }
        // slice / string constructors: boundary lengths and a few contents
        for l in [0usize, 1, 2, 4, 8, 19, 20, 21, 31, 32, 33, 34, 36, 40, 63, 64, 65, 66, 96, 97, 4096, 4128, 4160] {
            for fill in [0x00u8, 0x50, 0xff] { out.push(mk(format!("C10 x-ctor {}", hexd(&vec![fill; l])), &["ep:explore-slice-constructors", "src:boundary-lengths"], true)); }
            let r = rbytes(rng, l); out.push(mk(format!("C10 x-ctor {}", hexd(&r)), &["ep:explore-slice-constructors", "src:boundary-lengths"], true));
            let hx = hex(&r); out.push(mk(format!("C10 x-ctor {}", hexd(hx.as_bytes())), &["ep:explore-slice-constructors", "src:hex-text"], true));
        }
        for t in ["0", "499999999", "500000000", "4294967295", "4294967296", "-1", "0x10", "+5", ""] { out.push(mk(format!("C10 x-ctor {}", hexd(t.as_bytes())), &["ep:explore-slice-constructors", "src:number-text"], true)); }
    }
    // ------------------------------------------------------------------ addresses and blech32 strings
    let mut addrs: Vec<String> = Vec::new();
    for k in 0..(n / 6).max(12) {
        let net = k % 3;
        let a = if k % 2 == 0 { crate::addr::ctor_addr(rng, net, k as u32, k % 4 < 2).0 } else { { let (v, l) = (pk!(rng, [0u8, 1, 2, 16]), pk!(rng, [2usize, 20, 32, 40])); crate::addr::mk_addr(rng, net, 2, v, l, k % 4 == 1) } };
        addrs.push(a.to_string());
    }
    for s in ["1", "a1", "a1q", "11", "a", "", "1q", "A1Q", "a1Q", "é1q", "a1é", "tex1q", "el1qq", "lq1qq", "ert1q", "ex1", "tlq1", "a11", "ab1cd1"] { if !s.is_empty() { addrs.push(s.to_string()); } }
    // base58check strings of short payloads (the empty payload first), with each network's version bytes in front
    for l in 0..=3usize { for p0 in [0u8, 57, 39, 12, 235, 75, 4, 36, 19, 23] { let mut d = vec![p0; l.min(1)]; d.extend(vec![7u8; l.saturating_sub(1)]); addrs.push(elements::bitcoin::base58::encode_check(&d)); } }
    for l in [20usize, 21, 22, 53, 54, 55] { for p0 in [57u8, 39, 12, 4, 235, 75, 36, 19, 23] { let mut d = vec![p0]; d.extend(vec![9u8; l - 1]); addrs.push(elements::bitcoin::base58::encode_check(&d)); } }
    let mut strs: Vec<(String, &str)> = addrs.iter().map(|a| (a.clone(), "src:valid-or-fixed")).collect();
    // blech32 / blech32m strings with a CORRECT checksum (own encoder) over every short data part: no data at all, a witness version alone
    // (empty program), 1..8 further characters, and address-sized parts — the code behind the checksum test is unreachable for mutated strings
    for hrp in ["lq", "el", "tlq", "ex", "a", "LQ"] { for m in [false, true] {
        for ver in [None, Some(0u8), Some(1), Some(16), Some(17), Some(31)] {
            let lens: &[usize] = if ver.is_none() { &[0] } else { &[0, 1, 2, 3, 4, 5, 7, 8, 13, 16, 85, 86, 104, 105] };
            for &l in lens {
                if l > 16 && !(hrp == "lq" || hrp == "el") { continue; }
                let mut d: Vec<u8> = ver.into_iter().collect();
                d.extend((0..l).map(|_| rng.gen_range(0..32u8)));
                if l > 0 && rng.gen_range(0..2) == 0 { let n = d.len(); d[n - 1] = 0; }      // zero padding half of the time
                strs.push((blech32_string(hrp, &d, m), "src:own-checksum"));
            }
        }
    } }
    for _ in 0..2 * n { let a = addrs[rng.gen_range(0..addrs.len())].clone(); let mut m = mutate_string(rng, &a); if rng.gen_range(0..3) == 0 { m = mutate_string(rng, &m); } strs.push((m, "src:mutated")); }
    for _ in 0..n { let s = rstring(rng, 14); if !s.is_empty() { strs.push((s, "src:random-string")); } }
    for (s, src) in &strs {
        if s.contains(' ') || s.is_empty() { continue; }
        out.push(mk(format!("C10 hrp {}", strhex(s)), &["ep:blech32-decode", src], true));
        out.push(mk(format!("C10 addr {}", strhex(s)), &["ep:Address::from_str", src], true));
    }

    // ------------------------------------------------------------------ control blocks, merkle branches, schnorr signatures
    let gx = unhex("79be667ef9dcbbac55a06295ce870b07029bfcdb2dce28d959f2815b16f81798").unwrap();
    for _ in 0..n {
        let nodes = pk!(rng, [0usize, 1, 2, 127, 128, 129, rng.gen_range(0..130)]);
        let mut b = vec![pk!(rng, [0xc4u8, 0xc5, 0xc0, 0x50, 0x51, rng.gen()])];
        if rng.gen_range(0..3) == 0 { b.extend(rbytes(rng, 32)); } else { b.extend(&gx); }
        b.extend(rbytes(rng, 32 * nodes));
        match rng.gen_range(0..5) { 0 => { b.pop(); } 1 => { b.push(0); } 2 => { let n = rng.gen_range(0..b.len().min(40)); b.truncate(n); } _ => {} }
        let kv = b.len() >= 33 && xonly_valid(&b[1..33]);
        out.push(mk(format!("C10 cb {} {}", kv as u8, hexd(&b)), &["ep:ControlBlock::from_slice", "src:generated"], true));
    }
    for l in [0usize, 1, 31, 32, 33, 64, 4095, 4096, 4097, 4128] { let b = rbytes(rng, l); out.push(mk(format!("C10 branch {}", hexd(&b)), &["ep:TaprootMerkleBranch::from_slice", "src:boundary"], true));
        let kv = b.len() >= 33 && xonly_valid(&b[1..33]); out.push(mk(format!("C10 cb {} {}", kv as u8, hexd(&b)), &["ep:ControlBlock::from_slice", "src:boundary"], true)); }
    for _ in 0..n / 2 {
        let l = pk!(rng, [0usize, 1, 63, 64, 65, 66, rng.gen_range(0..70)]);
        let mut b = rbytes(rng, l);
        if rng.gen_range(0..2) == 0 && l >= 64 { b[..32].copy_from_slice(&gx); for x in &mut b[32..64] { *x &= 0x7f; } }
        if l == 65 { b[64] = pk!(rng, [0u8, 1, 2, 3, 0x81, 0x82, 0x83, 0x80, 4, rng.gen()]); }
        let sv = if b.len() == 64 { sig_valid(&b) } else if !b.is_empty() { sig_valid(&b[..b.len() - 1]) } else { false };
        out.push(mk(format!("C10 ssig {} {}", sv as u8, hexd(&b)), &["ep:SchnorrSig::from_slice", "src:generated"], true));
    }

    // ------------------------------------------------------------------ taproot builder: arbitrary depth sequences
    let mut seqs: Vec<Vec<(bool, usize)>> = vec![vec![], vec![(false, 0)], vec![(false, 1), (false, 1)], vec![(false, 0), (false, 0)], vec![(false, 129)], vec![(false, 128)], vec![(false, 255)], vec![(true, 0)], vec![(true, 1), (false, 1)],
                                                  vec![(false, 2), (false, 2), (false, 1)], vec![(false, 1), (false, 2), (false, 2)], vec![(false, 2), (false, 1)], vec![(false, 1), (false, 3)]];
    seqs.push((1..=128).map(|d| (false, d)).chain(std::iter::once((false, 128))).collect());
    for _ in 0..n / 2 {
        let l = rng.gen_range(0..9);
        seqs.push((0..l).map(|_| (rng.gen_range(0..8) == 0, pk!(rng, [0usize, 1, 1, 2, 2, 3, 3, 4, 127, 128, 129, 200]))).collect());
    }
    for s in &seqs {
        let t = if s.is_empty() { "-".to_string() } else { s.iter().map(|(h, d)| format!("{}{}", if *h { "h" } else { "" }, d)).collect::<Vec<_>>().join(",") };
        out.push(mk(format!("C10 builder {}", t), &["ep:TaprootBuilder", "src:depth-sequences"], s.len() >= 2));
    }
    for p in ["-", "s", "n,n", "s,n", "n,s", "s,s", "n,n,s", "s,n,n"] { out.push(mk(format!("C10 sbuilder {}", p), &["ep:TaprootBuilder::finalize-serde", "src:serde-patterns"], true)); }

    // ------------------------------------------------------------------ Global::merge xpub reconciliation
    for _ in 0..n / 2 {
        let (l2, l1) = (rng.gen_range(0..5), rng.gen_range(0..5));
        let p2 = rpath(rng, l2);
        let p1: Vec<u32> = match rng.gen_range(0..5) {
            0 => p2.clone(),
            1 => { let mut v = rpath(rng, l1); v.extend(&p2); v }            // other longer, self a suffix of it
            2 => { if p2.is_empty() { vec![] } else { p2[rng.gen_range(0..p2.len())..].to_vec() } }     // other a suffix of self
            _ => rpath(rng, l1),
        };
        let (f2, f1) = (pk!(rng, ["00000000", "01020304"]), pk!(rng, ["00000000", "01020304"]));
        let f2_class = p1.len() < p2.len() && p2[p2.len() - p1.len()..] != p1[..];
        out.push(mk(format!("C10 xpub {} {} {} {}", f2, path_text(&p2), f1, path_text(&p1)), &["ep:Pset::merge-xpub", if f2_class { "src:generated-former-F2-class" } else { "src:generated" }], true));
    }

    // ------------------------------------------------------------------ Transaction::blind output selection (slow: real range proofs)
    let nsel = if thorough { 40 } else { 6 };
    for p in ["m", "mm", "fm", "uf"] { out.push(mk(format!("C10 blindsel {}", p), &["ep:Transaction::blind", "src:marks"], true)); }
    for _ in 0..nsel { let l = rng.gen_range(1..5); let s: String = (0..l).map(|_| pk!(rng, ['f', 'm', 'u', 'm', 'x'])).collect(); out.push(mk(format!("C10 blindsel {}", s), &["ep:Transaction::blind", "src:marks"], true)); }

    // ------------------------------------------------------------------ Pset::locktime
    for _ in 0..n / 2 {
        let l = rng.gen_range(0..6);
        let items: Vec<String> = (0..l).map(|_| match rng.gen_range(0..4) { 0 => "n".to_string(), 1 => format!("t{}", rng.gen_range(500_000_000u32..=u32::MAX)), 2 => format!("h{}", rng.gen_range(0..500_000_000u32)), _ => format!("b{}.{}", rng.gen_range(500_000_000u32..=u32::MAX), rng.gen_range(0..500_000_000u32)) }).collect();
        let fb = pk!(rng, ["-".to_string(), "0".to_string(), rng.gen::<u32>().to_string()]);
        out.push(mk(format!("C10 locktime {} {}", fb, if items.is_empty() { "-".into() } else { items.join(",") }), &["ep:Pset::locktime", "src:generated"], l >= 1));
    }

    // ------------------------------------------------------------------ pegin witnesses, pegout scripts, minimum_value
    let mut pegins: Vec<Vec<Vec<u8>>> = Vec::new();
    for v in &repo { if let Some(tx) = probe::<Transaction>("tx", v) { for i in &tx.input { if i.is_pegin && !i.witness.pegin_witness.is_empty() { pegins.push(i.witness.pegin_witness.clone()); } } } }
    pegins.push(vec![5u64.to_le_bytes().to_vec(), vec![7; 32], vec![9; 32], vec![0x51], vec![1, 2, 3], vec![0; 80]]);
    for p in pegins.clone() { if p.iter().map(|x| x.len()).sum::<usize>() < 4000 { out.push(mk(format!("C10 pegin {}", peglist(&p)), &["ep:PeginData::from_pegin_witness", "src:valid"], true)); } }
    for _ in 0..n {
        let base = pegins[rng.gen_range(0..pegins.len())].clone();
        let mut p: Vec<Vec<u8>> = base.into_iter().map(|x| if x.len() > 300 { x[..300].to_vec() } else { x }).collect();
        match rng.gen_range(0..7) {
            0 => { let k = rng.gen_range(0..=p.len()); p.truncate(k); }
            1 => { p.push(rbytes(rng, 3)); }
            2 => { let i = rng.gen_range(0..p.len()); let l = pk!(rng, [0usize, 1, 7, 8, 9, 31, 32, 33, 79, 80, 81]); p[i] = rbytes(rng, l); }
            3 => { let i = rng.gen_range(0..p.len()); let k = rng.gen_range(0..=p[i].len()); p[i].truncate(k); }
            4 => { let l = rng.gen_range(0..9); p = (0..l).map(|_| { let k = pk!(rng, [0usize, 8, 32, 80, 81]); rbytes(rng, k) }).collect(); }
            5 => { let i = rng.gen_range(0..p.len()); p[i].push(0); }
            _ => { if p.len() >= 6 { let l = pk!(rng, [0usize, 79, 80, 81, 200]); p[5] = rbytes(rng, l); } }
        }
        out.push(mk(format!("C10 pegin {}", peglist(&p)), &["ep:PeginData::from_pegin_witness", "src:mutated"], true));
    }
    for _ in 0..n {
        let mut s = vec![0x6au8];
        let pushes = rng.gen_range(0..5);
        for k in 0..pushes {
            let l = if k == 0 { pk!(rng, [32usize, 32, 32, 31, 33, 0]) } else { pk!(rng, [0usize, 1, 20, 22, 75, 76, 80]) };
            let d = rbytes(rng, l);
            match rng.gen_range(0..6) { 0 => { s.push(0x4c); s.push(l as u8); } 1 => { s.push(0x4d); s.extend((l as u16).to_le_bytes()); } 2 if l == 1 => { s.push(0x51); continue; } _ => { if l <= 75 { s.push(l as u8); } else { s.push(0x4c); s.push(l as u8); } } }
            s.extend(d);
        }
        match rng.gen_range(0..6) { 0 => { s.push(pk!(rng, [0x51u8, 0x61, 0x00, 0x4f, 0x60, 0x50])); } 1 => { let k = rng.gen_range(0..=s.len()); s.truncate(k); } 2 => { s[0] = 0x51; } _ => {} }
        out.push(mk(format!("C10 pegout {} {}", pk!(rng, ["e", "e", "e", "n"]), hexd(&s)), &["ep:TxOut::pegout_data", "src:generated"], true));
    }
    for _ in 0..n / 2 {
        let p = rrangeproof(rng).serialize();
        let mut b = p.clone();
        match rng.gen_range(0..5) { 0 => { b[0] ^= 1 << rng.gen_range(0..8); } 1 => { b.truncate(pk!(rng, [0usize, 1, 9, 10, 11, 64, 65, 66])); } 2 => { b[1] = rng.gen(); } _ => {} }
        if b.len() > 400 { continue; }
        out.push(mk(format!("C10 minval {} {} {}", pk!(rng, ["c", "c", "c", "e", "n"]), rng.gen_range(0..2), hexd(&b)), &["ep:TxOut::minimum_value", "src:generated-and-mutated"], true));
    }
    out.push(mk("C10 minval c 1 -".into(), &["ep:TxOut::minimum_value", "src:fixed"], true));

    // ------------------------------------------------------------------ PSET value decoders that slice by offsets
    for _ in 0..n {
        let ty = pk!(rng, ["scriptver", "xonlyleaf", "keysource", "taptree", "leafks"]);
        let b: Vec<u8> = match ty {
            "scriptver" => { let l = rng.gen_range(0..6); let mut b = rbytes(rng, l); if rng.gen_range(0..2) == 0 { b.push(pk!(rng, [0xc4u8, 0xc0, 0x50, 0xc5])); } b }
            "xonlyleaf" => { let l = pk!(rng, [0usize, 31, 32, 33, 63, 64, 65]); let mut b = rbytes(rng, l); if l >= 32 && rng.gen_range(0..3) > 0 { b[..32].copy_from_slice(&gx); } b }
            "keysource" => { let l = pk!(rng, [0usize, 3, 4, 5, 7, 8, 12, 13]); rbytes(rng, l) }
            "leafks" => { let k = rng.gen_range(0..3u64); let mut b = varint(pk!(rng, [k, k, k, 125_000, 125_001, maxvec])); b.extend(rbytes(rng, 32 * k as usize)); let l = pk!(rng, [0usize, 3, 4, 8, 9]); b.extend(rbytes(rng, l)); b }
            _ => { let mut b = vec![]; for (d, _) in [(1u8, 0), (1u8, 0)].iter().take(rng.gen_range(0..3)) { b.push(if rng.gen_range(0..4) == 0 { rng.gen() } else { *d }); b.push(pk!(rng, [0xc4u8, 0xc4, 0xc0, 0x50])); let l = rng.gen_range(0..4u64); b.extend(varint(pk!(rng, [l, l, l, maxvec, maxvec + 1]))); b.extend(rbytes(rng, l as usize)); } if rng.gen_range(0..4) == 0 { b.truncate(rng.gen_range(0..=b.len())); } b }
        };
        let kv = ty == "xonlyleaf" && b.len() >= 32 && xonly_valid(&b[..32]);
        out.push(mk(format!("C10 psetval {} {},{} {}", ty, kv as u8, maxvec, hexd(&b)), &[&format!("ep:pset-value-{}", ty), "src:generated"], true));
    }

    // ------------------------------------------------------------------ taproot sighash index handling
    for _ in 0..n {
        let (nin, nout) = (rng.gen_range(0..4usize), rng.gen_range(0..4usize));
        let idx = pk!(rng, [0usize, 1, 2, 3, 4, 1000]);
        let prev = if rng.gen_range(0..2) == 0 { format!("one:{}", pk!(rng, [0usize, 1, 2, 3, 7])) } else { format!("all:{}", pk!(rng, [0usize, 1, 2, 3, 4])) };
        let ty = pk!(rng, [0u8, 1, 2, 3, 0x81, 0x82, 0x83]);
        out.push(mk(format!("C10 tapidx {} {} {} {} {}", nin, nout, idx, prev, ty), &["ep:SighashCache::taproot", "src:generated"], true));
    }
    for _ in 0..n / 4 {
        let k = rng.gen_range(0..5);
        let items: Vec<String> = (0..k).map(|_| format!("{}:{}", rng.gen_range(1..4u8), pk!(rng, [0u64, 1, 1000, u64::MAX / 2, u64::MAX / 2 + 1, u64::MAX, rng.gen()]))).collect();
        let over = { let mut m = std::collections::HashMap::new(); for it in &items { let (a, v) = it.split_once(':').unwrap(); *m.entry(a.to_string()).or_insert(0u128) += v.parse::<u64>().unwrap() as u128; } m.values().any(|v| *v > u64::MAX as u128) };
        out.push(mk(format!("C10 fees {} {}", prof, if items.is_empty() { "-".to_string() } else { items.join(",") }), &["ep:Transaction::fee_in", if over { "src:generated-former-F17-class" } else { "src:generated" }], true));
    }

    // ------------------------------------------------------------------ exploration in support (not proof): PSET, blind, sighash, text parsers
    let mut psets = pset_vectors();
    for _ in 0..(n / 20).max(3) { let mut t = vec![]; let nw: bool = rng.gen(); let tx = rtx(rng, Feat { big: false, no_witness: nw }, &mut t); if tx.input.len() < 20 && tx.output.len() < 20 { let p = Pset::from_tx(tx); psets.push(serialize(&p)); } }
    for p in &psets { if p.len() < 40000 { out.push(mk(format!("C10 x-pset {}", hexd(p)), &["ep:explore-pset-deserialize", "src:valid"], false)); } }
    let small: Vec<Vec<u8>> = psets.iter().filter(|p| p.len() < 5000).cloned().collect();
    if !small.is_empty() {
        for _ in 0..4 * n {
            let b = &small[rng.gen_range(0..small.len())];
            let mut tags = vec![];
            let m = match rng.gen_range(0..5) { 0 => mutate_length(rng, b), 1 => { let m = mutate(rng, b, &mut tags); mutate(rng, &m, &mut tags) } _ => mutate(rng, b, &mut tags) };
            out.push(mk(format!("C10 x-pset {}", hexd(&m)), &["ep:explore-pset-deserialize", "src:mutated"], true));
        }
        for _ in 0..n / 4 {
            let a = &small[rng.gen_range(0..small.len())];
            let mut tags = vec![];
            let b = if rng.gen_range(0..3) == 0 { small[rng.gen_range(0..small.len())].clone() } else { mutate(rng, a, &mut tags) };
            out.push(mk(format!("C10 x-merge {} {}", hexd(a), hexd(&b)), &["ep:explore-pset-merge", "src:pairs"], true));
        }
        // operands WITHOUT a unique id (an output that has neither amount nor asset: extract_tx fails alike on both sides, two equal Err values pass
        // the gate of merge) and of different map counts, in both directions (seeded C10-r6-4: positional loops indexed by the other operand's length)
        for (ia, oa, ib, ob) in [(1usize, 1usize, 1usize, 1usize), (1, 1, 2, 1), (1, 1, 1, 2), (2, 2, 1, 1), (1, 2, 3, 3), (0, 1, 2, 2)] {
            out.push(mk(format!("C10 x-mergeshape {} {} {} {} {}", ia, oa, ib, ob, rng.gen::<u32>()), &["ep:explore-pset-merge", "src:no-unique-id-different-shapes"], true));
        }
        use elements::bitcoin::base64::prelude::{Engine as _, BASE64_STANDARD};
        for _ in 0..n / 2 {
            let b = &small[rng.gen_range(0..small.len())];
            let s = BASE64_STANDARD.encode(b);
            let m = mutate_string(rng, &s);
            out.push(mk(format!("C10 x-psetstr {}", strhex(&m)), &["ep:explore-pset-from_str", "src:mutated"], true));
        }
    }
    for _ in 0..n / 4 { let l = rng.gen_range(0..60); let mut b = b"pset\xff".to_vec(); b.extend(rbytes(rng, l)); out.push(mk(format!("C10 x-pset {}", hexd(&b)), &["ep:explore-pset-deserialize", "src:random-bytes"], true)); }
    let nbl = if thorough { 60 } else { 8 };
    for k in 0..nbl {
        let mut t = vec![];
        let mut tx = rtx(rng, Feat { big: false, no_witness: true }, &mut t);
        if tx.output.len() > 4 { tx.output.truncate(4); }
        if k % 2 == 0 { for o in &mut tx.output { if !o.asset.is_explicit() { o.asset = confidential::Asset::Explicit(asset(3)); } if !o.value.is_explicit() { o.value = confidential::Value::Explicit(rng.gen_range(0..1000)); } } }
        out.push(mk(format!("C10 x-blind {} {} {}", hexd(&serialize(&tx)), rng.gen_range(0..4), rng.gen::<u32>()), &["ep:explore-Transaction::blind", "src:generated"], true));
    }
    for _ in 0..n / 2 {
        let (_, b) = &valid[rng.gen_range(0..valid.len())];
        if probe::<Transaction>("tx", b).is_none() { continue; }
        if rng.gen_range(0..3) == 0 { out.push(mk(format!("C10 x-verify {}", hexd(b)), &["ep:explore-verify_tx_amt_proofs", "src:generated"], true)); }
        out.push(mk(format!("C10 x-sighash {} {} {} {} {}", hexd(b), pk!(rng, [0usize, 1, 2, 5, 300]), pk!(rng, [0usize, 1, 2, 3, 6]), pk!(rng, [0u8, 1, 2, 3, 0x81, 0x82, 0x83]), rng.gen::<u8>()), &["ep:explore-taproot-sighash", "src:generated"], true));
    }
    for _ in 0..n / 2 {
        let s = match rng.gen_range(0..6) {
            0 => rstring(rng, 20),
            1 => hex(&{ let l = rng.gen_range(0..40); rbytes(rng, l) }),
            2 => { let t = format!("{}:{}", hex(&r32(rng)), rng.gen::<u32>()); mutate_string(rng, &t) }
            3 => { let t = hex(&r32(rng)); mutate_string(rng, &t) }
            4 => pk!(rng, ["{\"branch\":[null]}", "{\"branch\":[]}", "{\"branch\":[null,null]}", "ALL|ANYONECANPAY", "SIGHASH_ALL", "0x", "0X10", "{}", "[]", "{\"a\":1}", "4294967296", "-1"]).to_string(),
            _ => rng.gen::<u64>().to_string(),
        };
        if s.contains(' ') { continue; }
        out.push(mk(format!("C10 x-text {}", strhex(&s)), &["ep:explore-text-parsers", "src:generated"], true));
    }
    out
}
/// the truncation family of the four push forms (shared with C16's script stream)
pub fn truncated_pushes() -> Vec<(Vec<u8>, &'static str)> {
    let mut out: Vec<(Vec<u8>, &'static str)> = Vec::new();
    let forms: [(&'static str, usize, &[usize]); 4] = [
        ("src:truncated-direct-push", 0, &[1, 2, 3, 5, 32, 74, 75]),
        ("src:truncated-pushdata1", 1, &[0, 1, 2, 3, 5, 75, 76, 255]),
        ("src:truncated-pushdata2", 2, &[0, 1, 2, 3, 5, 255, 256, 260]),
        ("src:truncated-pushdata4", 4, &[0, 1, 2, 3, 5, 256, 65536 + 3]),
    ];
    let mut genesis_prefix = vec![0x6au8, 0x20]; genesis_prefix.extend([0x11u8; 32]);
    let prefixes: [Vec<u8>; 4] = [vec![], vec![0x51], vec![0x6a], genesis_prefix];
    for (tag, width, ns) in forms {
        for &n in ns {
            let mut full: Vec<u8> = match width {
                0 => vec![n as u8],
                1 => vec![0x4c, n as u8],
                2 => { let mut v = vec![0x4d]; v.extend((n as u16).to_le_bytes()); v }
                _ => { let mut v = vec![0x4e]; v.extend((n as u32).to_le_bytes()); v }
            };
            let header = full.len();
            full.extend((0..n).map(|i| (i as u8).wrapping_mul(7).wrapping_add(2)));
            let total = full.len();
            // cut lengths: 1..=header+1 (opcode only, length field truncated byte by byte, header only, header + 1), the last 3 before the
            // end, complete, complete + 1; every cut when the push is short
            let mut cuts: Vec<usize> = if total <= 12 { (1..=total + 1).collect() } else { let mut c: Vec<usize> = (1..=header + 1).collect(); c.extend([total - 3, total - 2, total - 1, total, total + 1]); c };
            cuts.sort(); cuts.dedup();
            for (pi, prefix) in prefixes.iter().enumerate() {
                if n > 300 && pi != 0 && pi != 2 { continue; }
                for &c in &cuts {
                    let mut s = prefix.clone();
                    if c <= total { s.extend(&full[..c]); } else { s.extend(&full); s.push(0x51); }
                    out.push((s, tag));
                }
            }
        }
    }
    out
}
/// pegin stacks may contain empty elements: written as `.` inside the comma separated list
fn peglist(p: &[Vec<u8>]) -> String {
    if p.is_empty() { "-".into() } else { p.iter().map(|x| if x.is_empty() { ".".to_string() } else { hex(x) }).collect::<Vec<_>>().join(",") }
}

/// blech32 (m = false) / blech32m (m = true) text of `hrp` and 5-bit data with the 12-character checksum computed HERE (BCH code of
/// ELIP / Elements Core blech32.cpp; constants written out, not read from the crate)
pub fn blech32_string(hrp: &str, data5: &[u8], m: bool) -> String {
    const CH: &[u8] = b"qpzry9x8gf2tvdw0s3jn54khce6mua7l";
    const G: [u64; 5] = [0x7d52fba40bd886, 0x5e8dbf1a03950c, 0x1c3a3c74072a18, 0x385d72fa0e5139, 0x7093e5a608865b];
    let lower = hrp.to_lowercase();
    let mut v: Vec<u8> = lower.bytes().map(|b| b >> 5).collect();
    v.push(0);
    v.extend(lower.bytes().map(|b| b & 31));
    v.extend_from_slice(data5);
    v.extend_from_slice(&[0u8; 12]);
    let mut c: u64 = 1;
    for &d in &v {
        let c0 = c >> 55;
        c = ((c & 0x7f_ffff_ffff_ffff) << 5) ^ d as u64;
        for (i, g) in G.iter().enumerate() { if (c0 >> i) & 1 == 1 { c ^= g; } }
    }
    let pm = c ^ if m { 0x455972a3350f7a1 } else { 1 };
    let mut s: Vec<u8> = lower.bytes().collect();
    s.push(b'1');
    s.extend(data5.iter().map(|d| CH[(*d & 31) as usize]));
    s.extend((0..12).map(|i| CH[((pm >> (5 * (11 - i))) & 31) as usize]));
    let s = String::from_utf8(s).unwrap();
    if hrp.chars().any(|c| c.is_ascii_uppercase()) { s.to_uppercase() } else { s }
}
