//! C10: fallible public APIs are total — errors, never panics, overflow, out-of-bounds indexing or allocation out of
//! proportion to the input.
//!
//! Every case is evaluated under (a) a panic hook that records the location and message of EVERY panic raised while the
//! case runs (also those an inner `catch_unwind` swallows), and (b) a counting global allocator that sums the bytes
//! requested while the case runs.  `pred_fail` is set whenever the implementation panics (key = panic site, or the stable
//! key of a known finding when site AND input class match) or requests more bytes than the bound stated in
//! coq/Props/C10.v allows.  The result text is what the Coq model (coq/Extract/RunC10.v) must reproduce.
//!
//! Case kinds — proof half (the model computes the same line from Model/Totality.v and the models it imports):
//!   C10 dec <ty> <maxvec,sz_txin,sz_txout,sz_vecu8,sz_tx> <valid points|-> <hex>   consensus decoder + accessors + allocation bound
//!   C10 varint|vecu8|vecvec|key <maxvec> <hex>          the instrumented decoders (exact own-code reservation `rsv`)
//!   C10 script <hex> / rint <hex>                       instructions(+minimal), templates, from_script / read_scriptint
//!   C10 addr <hex of utf8>                              Address::from_str / parse_with_params x3
//!   C10 hrp <hex of utf8>                               UncheckedHrpstring / CheckedHrpstring / SegwitHrpstring::{new,new_bech32}
//!   C10 cb <keyvalid> <hex> / branch <hex> / ssig <sigvalid> <hex>     taproot / schnorr slice parsers
//!   C10 builder <d,d,..> / sbuilder <n|s,..>            TaprootBuilder via the API / via serde, then finalize
//!   C10 xpub <fp_self> <path_self> <fp_other> <path_other>             Global::merge, same xpub
//!   C10 blindsel <f|m|u ...>                            Transaction::blind output selection
//!   C10 locktime <fallback|-> <n|t..|h..|b..,..>        Pset::locktime
//!   C10 pegin <hexlist> / pegout <e|n|c> <script> / minval <vk> <opret> <proof>
//!   C10 psetval <scriptver|xonlyleaf|keysource|taptree|leafks> <hex>
//!   C10 tapidx <nin> <nout> <idx> <one:i|all:n> <sighash byte>          taproot sighash index handling
//!   C10 fees <asset:value,..>                           fee_in / all_fees sums
//! exploration half (model line is the constant `total`): x-pset, x-psetstr, x-merge, x-blind, x-sighash, x-text.
use crate::{txgen::*, util::*, Case, Out};
use elements::encode::{deserialize, serialize, Decodable};
use elements::hashes::Hash as _;
use elements::pset::{self, PartiallySignedTransaction as Pset};
use elements::secp256k1_zkp as zkp;
use elements::{confidential, AssetId, Block, BlockHeader, LockTime, OutPoint, Script, Transaction, TxIn, TxOut, Txid};
use rand::Rng;
use rand_chacha::ChaCha20Rng;
use std::alloc::{GlobalAlloc, Layout, System};
use std::panic::{catch_unwind, AssertUnwindSafe};
use std::str::FromStr;
use std::sync::atomic::{AtomicBool, AtomicU64, Ordering::Relaxed};
use std::sync::Mutex;

// ================================================================================================ counting allocator
pub struct Counting;
static ON: AtomicBool = AtomicBool::new(false);
static TOTAL: AtomicU64 = AtomicU64::new(0);
static MAXREQ: AtomicU64 = AtomicU64::new(0);
/// a single request above this is never served: the verdict line is written directly and the process ends (an attempt to
/// serve it would abort the process through `handle_alloc_error` or touch gigabytes)
const HARD_LIMIT: usize = 1 << 30;
static mut EMERGENCY: [u8; 4096] = [0; 4096];
static EMERGENCY_LEN: AtomicU64 = AtomicU64::new(0);
extern "C" {
    fn write(fd: i32, buf: *const u8, n: usize) -> isize;
    fn read(fd: i32, buf: *mut u8, n: usize) -> isize;
    fn _exit(code: i32) -> !;
    fn fork() -> i32;
    fn pipe(fds: *mut i32) -> i32;
    fn close(fd: i32) -> i32;
    fn waitpid(pid: i32, status: *mut i32, opts: i32) -> i32;
}
/// >= 0 while running inside a forked child: the pipe the verdict goes to
static CHILD_FD: std::sync::atomic::AtomicI32 = std::sync::atomic::AtomicI32::new(-1);
#[inline]
fn count(size: usize) {
    if ON.load(Relaxed) {
        TOTAL.fetch_add(size as u64, Relaxed);
        MAXREQ.fetch_max(size as u64, Relaxed);
        if size > HARD_LIMIT {
            unsafe {
                let cfd = CHILD_FD.load(Relaxed);
                if cfd >= 0 { _exit(0); }
                let n = EMERGENCY_LEN.load(Relaxed) as usize;
                let p = std::ptr::addr_of!(EMERGENCY) as *const u8;
                write(1, p, n);
                let mut digits = [0u8; 40];
                let mut k = 40; let mut v = size as u64;
                loop { k -= 1; digits[k] = b'0' + (v % 10) as u8; v /= 10; if v == 0 { break; } }
                write(1, digits.as_ptr().add(k), 40 - k);
                let tail = b" bytes\temergency\n";
                write(1, tail.as_ptr(), tail.len());
                _exit(0);
            }
        }
    }
}
unsafe impl GlobalAlloc for Counting {
    unsafe fn alloc(&self, l: Layout) -> *mut u8 { count(l.size()); System.alloc(l) }
    unsafe fn alloc_zeroed(&self, l: Layout) -> *mut u8 { count(l.size()); System.alloc_zeroed(l) }
    unsafe fn dealloc(&self, p: *mut u8, l: Layout) { System.dealloc(p, l) }
    unsafe fn realloc(&self, p: *mut u8, l: Layout, new: usize) -> *mut u8 {
        if new > l.size() { count(new - l.size()); }
        System.realloc(p, l, new)
    }
}
#[global_allocator]
static GLOBAL: Counting = Counting;

// ================================================================================================ panic recording
static PANICS: Mutex<Vec<(String, String)>> = Mutex::new(Vec::new());
fn install_hook() {
    use std::sync::Once;
    static H: Once = Once::new();
    H.call_once(|| {
        std::panic::set_hook(Box::new(|info| {
            let was = ON.swap(false, Relaxed);
            let loc = info.location().map(|l| format!("{}:{}", short_path(l.file()), l.line())).unwrap_or_else(|| "?".into());
            let msg = if let Some(s) = info.payload().downcast_ref::<&str>() { s.to_string() }
                      else if let Some(s) = info.payload().downcast_ref::<String>() { s.clone() } else { "?".into() };
            if let Ok(mut g) = PANICS.lock() { g.push((loc, msg.replace(['\t', '\n'], " "))); }
            ON.store(was, Relaxed);
        }));
    });
}
fn short_path(f: &str) -> String {
    if let Some(i) = f.rfind("/src/") {
        // the crate under test: "src/..."; dependencies: "<crate dir>/src/..."
        let head = &f[..i];
        let krate = head.rsplit('/').next().unwrap_or("");
        let repo = std::env::var("ELEMENTS_REPO").unwrap_or_else(|_| "/repo".into());
        if head == repo || head.is_empty() { return f[i + 1..].to_string(); }
        return format!("{}{}", krate, &f[i..]);
    }
    f.to_string()
}

#[derive(Default, Clone)]
pub struct Obs { pub panics: Vec<(String, String)>, pub total: u64, pub maxreq: u64 }
impl Obs {
    fn absorb(&mut self, o: Obs) { self.panics.extend(o.panics); self.total += o.total; self.maxreq = self.maxreq.max(o.maxreq); }
}
/// run `f` observing panics and allocation requests
pub fn guard<T>(f: impl FnOnce() -> T) -> (Option<T>, Obs) {
    install_hook();
    PANICS.lock().unwrap().clear();
    TOTAL.store(0, Relaxed); MAXREQ.store(0, Relaxed);
    ON.store(true, Relaxed);
    let r = catch_unwind(AssertUnwindSafe(f));
    ON.store(false, Relaxed);
    let panics = std::mem::take(&mut *PANICS.lock().unwrap());
    (r.ok(), Obs { panics, total: TOTAL.load(Relaxed), maxreq: MAXREQ.load(Relaxed) })
}
/// Crash isolation: cases whose evaluation may kill the process (F18: reads through a dangling slice pointer) are evaluated by
/// a worker child forked from this process; when the worker dies the signal becomes the verdict and a new worker is forked.
struct Worker { pid: i32, to: i32, from: i32 }
static WORKER: Mutex<Option<Worker>> = Mutex::new(None);
unsafe fn write_all(fd: i32, b: &[u8]) -> bool {
    let mut off = 0;
    while off < b.len() { let k = write(fd, b.as_ptr().add(off), b.len() - off); if k <= 0 { return false; } off += k as usize; }
    true
}
unsafe fn read_exact(fd: i32, n: usize) -> Option<Vec<u8>> {
    let mut buf = vec![0u8; n];
    let mut off = 0;
    while off < n { let k = read(fd, buf.as_mut_ptr().add(off), n - off); if k <= 0 { return None; } off += k as usize; }
    Some(buf)
}
unsafe fn spawn_worker(run: fn(&str) -> Out) -> Option<Worker> {
    let (mut a, mut b) = ([0i32; 2], [0i32; 2]);
    if pipe(a.as_mut_ptr()) != 0 || pipe(b.as_mut_ptr()) != 0 { return None; }
    let pid = fork();
    if pid < 0 { return None; }
    if pid == 0 {
        close(a[1]); close(b[0]);
        close(2);            // abort messages of the implementation must not interleave with the result lines of the parent
        CHILD_FD.store(b[1], Relaxed);
        loop {
            let Some(h) = read_exact(a[0], 8) else { _exit(0) };
            let n = u64::from_le_bytes(h.try_into().unwrap()) as usize;
            let Some(c) = read_exact(a[0], n) else { _exit(0) };
            let case = String::from_utf8_lossy(&c).to_string();
            let o = run(&case);
            let msg = format!("{}\t{}", o.result, o.pred_fail.unwrap_or_else(|| "-".into()));
            if !write_all(b[1], &(msg.len() as u64).to_le_bytes()) || !write_all(b[1], msg.as_bytes()) { _exit(0); }
        }
    }
    close(a[0]); close(b[1]);
    Some(Worker { pid, to: a[1], from: b[0] })
}
pub fn isolated(case: &str, run: fn(&str) -> Out) -> Result<Out, i32> {
    unsafe {
        let mut g = WORKER.lock().unwrap();
        if g.is_none() { *g = spawn_worker(run); }
        let Some(w) = g.as_ref() else { return Ok(run(case)) };
        let ok = write_all(w.to, &(case.len() as u64).to_le_bytes()) && write_all(w.to, case.as_bytes());
        let reply = if ok { read_exact(w.from, 8).and_then(|h| read_exact(w.from, u64::from_le_bytes(h.try_into().unwrap()) as usize)) } else { None };
        match reply {
            Some(buf) => {
                let text = String::from_utf8_lossy(&buf).to_string();
                let (r, p) = text.split_once('\t').unwrap_or((&text, "-"));
                Ok(Out { result: r.to_string(), pred_fail: if p == "-" { None } else { Some(p.to_string()) } })
            }
            None => {
                // the worker died on this case (or wrote its emergency verdict and left)
                let mut status = 0i32;
                waitpid(w.pid, &mut status, 0);
                close(w.to); close(w.from);
                *g = None;
                let sig = status & 0x7f;
                if sig != 0 { Err(sig) } else { Ok(Out { result: "abort".into(), pred_fail: Some("alloc-limit|the evaluating process ended itself (a single allocation request above 1 GiB)".into()) }) }
            }
        }
    }
}
pub const F18: &str = "F18-commitment-slice-length";
pub const F23: &str = "F23-rangeproof-full-range";
pub const F27: &str = "F27-serde-commitment-length";
/// input class of F18 at the PSET level: some input/output map carries a commitment-typed proprietary field
/// (input: issuance value / inflation keys commitment; output: value / asset commitment) whose value is not 33 bytes long
fn pset_short_commitment(b: &[u8]) -> bool {
    fn vi(b: &[u8], i: &mut usize) -> Option<u64> { let (n, l) = rd_varint(b.get(*i..)?)?; *i += l; Some(n) }
    if b.len() < 5 || &b[..5] != b"pset\xff" { return false; }
    let mut i = 5; let mut map = 0u64; let (mut nin, mut nout) = (0u64, 0u64);
    while i < b.len() {
        let Some(kl) = vi(b, &mut i) else { return false };
        if kl == 0 { map += 1; continue; }
        let Some(kend) = (kl as usize).checked_add(i).filter(|_| kl < (1 << 32)) else { return false };
        let Some(key) = b.get(i..kend) else { return false }; i = kend;
        let Some(vl) = vi(b, &mut i) else { return false };
        if vl >= (1 << 32) { return false; }
        let val = b.get(i..(i + vl as usize).min(b.len())).unwrap_or(&[]);
        if map == 0 && key == [4u8] { nin = rd_varint(val).map(|x| x.0).unwrap_or(0); }
        if map == 0 && key == [5u8] { nout = rd_varint(val).map(|x| x.0).unwrap_or(0); }
        if map >= 1 && key.len() == 7 && key[..6] == [0xfc, 4, b'p', b's', b'e', b't'] && vl != 33 {
            let is_input = map <= nin; let is_output = map > nin && map <= nin + nout;
            if (is_input && (key[6] == 0x01 || key[6] == 0x0b)) || (is_output && (key[6] == 0x01 || key[6] == 0x03)) { return true; }
        }
        i += vl as usize;
    }
    false
}
fn crash_out(sig: i32, class: bool) -> Out {
    Out { result: "total".into(), pred_fail: Some(if class { format!("{}|the process was killed by signal {} while decoding a commitment field whose length is not 33 (PedersenCommitment/Generator::from_slice read through the slice pointer without a length check)", F18, sig) } else { format!("crash@signal{}|the process was killed by signal {}", sig, sig) }) }
}
fn set_emergency(case: &str) {
    let line = format!("\n{}\tabort\talloc-limit|a single allocation request above 1 GiB: ", case);
    let b = line.as_bytes();
    let n = b.len().min(4000);
    unsafe { std::ptr::copy_nonoverlapping(b.as_ptr(), std::ptr::addr_of_mut!(EMERGENCY) as *mut u8, n); }
    EMERGENCY_LEN.store(n as u64, Relaxed);
}

// ================================================================================================ verdicts

/// `class`: the input class a known finding is restricted to (None = no known finding applies to this input)
fn verdict(obs: &Obs, class: Option<(&str, &str, &str)>, bound: Option<u64>) -> Option<String> {
    for (loc, msg) in &obs.panics {
        if let Some((key, file, needle)) = class {
            if loc.starts_with(file) && msg.contains(needle) { return Some(format!("{}|panic at {}: {}", key, loc, msg)); }
        }
        return Some(format!("panic@{}|panic at {}: {}", loc, loc, msg));
    }
    if let Some(b) = bound {
        if obs.total > b { return Some(format!("alloc-bound|{} bytes requested (largest single request {}), bound {}", obs.total, obs.maxreq, b)); }
    }
    None
}
fn finish(result: String, obs: &Obs, class: Option<(&str, &str, &str)>, bound: Option<u64>) -> Out {
    let pred_fail = verdict(obs, class, bound);
    // a known-finding panic is part of the modelled outcome ("panic"); any other panic shows as "panic" too and fails the predicate
    Out { result, pred_fail }
}
/// allocation allowed for the text / slice entry points: nothing there reserves ahead of its input
fn small_bound(n: usize) -> u64 { 65536 + 256 * n as u64 }

// ================================================================================================ helpers
fn unhex_dash(s: &str) -> Option<Vec<u8>> { if s == "-" { Some(vec![]) } else { unhex(s) } }
fn hexd(b: &[u8]) -> String { if b.is_empty() { "-".into() } else { hex(b) } }
fn asset(b: u8) -> AssetId { AssetId::from_byte_array([b; 32]) }
fn txid(b: u8) -> Txid { Txid::from_byte_array([b; 32]) }
fn bh(h: &elements::bitcoin::BlockHash) -> [u8; 32] { elements::bitcoin::hashes::Hash::to_byte_array(*h) }

pub fn sizes() -> String {
    format!("{},{},{},{},{}", elements::encode::MAX_VEC_SIZE, std::mem::size_of::<TxIn>(), std::mem::size_of::<TxOut>(),
            std::mem::size_of::<Vec<u8>>(), std::mem::size_of::<Transaction>())
}
fn parse_sizes(s: &str) -> Option<[u64; 5]> {
    let v: Vec<u64> = s.split(',').map(|x| x.parse().ok()).collect::<Option<Vec<_>>>()?;
    if v.len() == 5 && v.iter().all(|x| *x > 0) { Some([v[0], v[1], v[2], v[3], v[4]]) } else { None }
}
fn cdiv(a: u64, b: u64) -> u64 { (a + b - 1) / b }
/// (K, c) of Props/C10.v `C10_alloc_bound`: reserved <= K + c * |input|  (Totality.alloc_K / alloc_c)
fn dec_kc(ty: &str, z: &[u64; 5]) -> Option<(u64, u64)> {
    let [maxvec, sz_in, sz_out, sz_v, sz_tx] = *z;
    let c_stack = 1 + sz_v;                                  // Vec<Vec<u8>>: every element consumes >= 1 byte
    let c_tx = (1 + cdiv(sz_in, 41)).max(1 + cdiv(sz_out, 4)).max(c_stack);
    Some(match ty {
        "value" | "asset" | "nonce" => (0, 0),
        "txin" | "txout" => (maxvec, 1),
        "tx" => (2 * maxvec, c_tx),
        "params" | "header" => (2 * maxvec, c_stack),
        "block" => (3 * maxvec, (c_tx + cdiv(sz_tx, 11)).max(c_stack)),
        _ => return None,
    })
}
/// what the dependencies and the error path may add on top of the modelled reservations (copies of proofs into
/// secp256k1-zkp objects, boxed io errors): linear in the input
fn dep_slack(n: usize) -> u64 { 8192 + 4 * n as u64 }

// ================================================================================================ accessors on decoded values
fn tx_accessors(tx: &Transaction) {
    let _ = (tx.txid(), tx.wtxid(), tx.size(), tx.weight(), tx.vsize(), tx.discount_weight(), tx.discount_vsize(), tx.is_coinbase(), tx.has_witness());
    #[allow(deprecated)]
    let _ = (tx.get_size(), tx.get_weight());
    for i in &tx.input {
        let _ = (i.pegin_data(), i.is_coinbase(), i.is_pegin(), i.has_issuance(), i.pegin_prevout(), i.outpoint_flag());
        if i.has_issuance() { let _ = i.issuance_ids(); }
        if let Some(p) = i.pegin_data() { let _ = (p.parse_tx().is_ok(), p.parse_merkle_proof().is_ok()); }
    }
    for o in &tx.output {
        let _ = (o.pegout_data(), o.is_pegout(), o.is_null_data(), o.is_fee(), o.minimum_value(), o.is_partially_blinded());
        script_accessors(&o.script_pubkey);
    }
    let _ = tx.all_fees();
    for o in &tx.output { if let confidential::Asset::Explicit(a) = o.asset { let _ = tx.fee_in(a); } }
    let _ = serialize(tx);
}
fn script_accessors(s: &Script) {
    let _ = (s.is_p2sh(), s.is_p2pkh(), s.is_p2pk(), s.is_witness_program(), s.is_v0_p2wsh(), s.is_v0_p2wpkh(), s.is_v1_p2tr(),
             s.is_v1plus_p2witprog(), s.is_op_return(), s.is_provably_unspendable());
    for i in s.instructions() { if i.is_err() { break; } }
    for i in s.instructions_minimal() { if i.is_err() { break; } }
    let _ = (s.asm(), format!("{:?}", s), format!("{}", s), format!("{:x}", s));
    let _ = elements::Address::from_script(s, None, &elements::AddressParams::ELEMENTS);
}
fn header_accessors(h: &BlockHeader) {
    let _ = (h.block_hash(), h.is_dynafed(), h.calculate_dynafed_params_root(), h.dynafed_current(), h.dynafed_proposed());
    let mut c = h.clone(); c.clear_witness();
    let _ = serialize(h);
}

// ================================================================================================ eval
fn eval_dec(w: &[&str]) -> Out {
    if w.len() != 6 { return Out::ok("harnesserr args".into()); }
    let (Some(z), Some(b)) = (parse_sizes(w[3]), unhex_dash(w[5])) else { return Out::ok("harnesserr fields".into()) };
    let Some((k, c)) = dec_kc(w[2], &z) else { return Out::ok("harnesserr type".into()) };
    let bound = k + c * b.len() as u64;
    fn go<T: Decodable>(b: &[u8], acc: impl Fn(&T)) -> (bool, Obs) {
        let (r, mut obs) = guard(|| deserialize::<T>(b));
        let ok = matches!(r, Some(Ok(_)));
        if let Some(Ok(v)) = r { let (_, o2) = guard(|| acc(&v)); obs.panics.extend(o2.panics); }
        (ok, obs)
    }
    let (ok, obs) = match w[2] {
        "tx" => go::<Transaction>(&b, tx_accessors),
        "txin" => go::<TxIn>(&b, |i| { let _ = (i.pegin_data(), i.is_coinbase(), i.has_issuance(), i.outpoint_flag()); if i.has_issuance() { let _ = i.issuance_ids(); } let _ = serialize(i); }),
        "txout" => go::<TxOut>(&b, |o| { let _ = (o.pegout_data(), o.is_null_data(), o.is_fee(), o.minimum_value()); script_accessors(&o.script_pubkey); let _ = serialize(o); }),
        "header" => go::<BlockHeader>(&b, header_accessors),
        "block" => go::<Block>(&b, |bl| { header_accessors(&bl.header); let _ = (bl.block_hash(), bl.size(), bl.weight()); for t in &bl.txdata { tx_accessors(t); } }),
        "params" => go::<elements::dynafed::Params>(&b, |p| { let _ = (p.calculate_root(), p.is_null(), p.is_full(), p.is_compact(), p.signblockscript().is_some(), p.signblock_witness_limit(), p.fedpeg_program().is_some(), p.fedpegscript().is_some(), p.extension_space().is_some(), p.elided_root().is_some(), p.full().is_some()); let _ = p.clone().into_compact(); let _ = p.clone().into_full(); let _ = serialize(p); }),
        "value" => go::<confidential::Value>(&b, |v| { let _ = (v.explicit(), v.commitment(), v.is_null()); let _ = serialize(v); }),
        "asset" => go::<confidential::Asset>(&b, |v| { let _ = (v.explicit(), v.commitment(), v.is_null()); let _ = serialize(v); }),
        "nonce" => go::<confidential::Nonce>(&b, |v| { let _ = (v.explicit(), v.commitment(), v.is_null()); let _ = serialize(v); }),
        _ => return Out::ok("harnesserr type".into()),
    };
    if std::env::var_os("C10_STATS").is_some() { eprintln!("STAT dec {} n={} total={} max={} bound={}", w[2], b.len(), obs.total, obs.maxreq, bound); }
    // the allocation bound is about decoding; accessors are covered by the panic predicate
    let dec_only = Obs { panics: obs.panics.clone(), ..obs.clone() };
    finish(format!("{} b={}", if ok { "ok" } else { "err" }, bound), &dec_only, None, Some(bound + dep_slack(b.len())))
}

/// own small reader used to state the expected reservation independently of the crate
fn rd_varint(b: &[u8]) -> Option<(u64, usize)> {
    let t = *b.first()?;
    let (n, l, min) = match t {
        0xff => (u64::from_le_bytes(b.get(1..9)?.try_into().ok()?), 9, 0x1_0000_0000u64),
        0xfe => (u32::from_le_bytes(b.get(1..5)?.try_into().ok()?) as u64, 5, 0x10000),
        0xfd => (u16::from_le_bytes(b.get(1..3)?.try_into().ok()?) as u64, 3, 0xfd),
        n => (n as u64, 1, 0),
    };
    if n < min { None } else { Some((n, l)) }
}
fn eval_lowlevel(kind: &str, w: &[&str]) -> Out {
    if w.len() != 4 { return Out::ok("harnesserr args".into()); }
    let (Some((Ok(maxvec), Ok(szv))), Some(b)) = (w[2].split_once(',').map(|(a, b)| (a.parse::<u64>(), b.parse::<u64>())), unhex_dash(w[3])) else { return Out::ok("harnesserr fields".into()) };
    if szv != std::mem::size_of::<Vec<u8>>() as u64 { return Out::ok("harnesserr size_of".into()); }
    let n = b.len();
    match kind {
        "varint" => {
            let (r, obs) = guard(|| elements::encode::deserialize_partial::<elements::encode::VarInt>(&b));
            let res = match &r { Some(Ok((v, c))) => format!("ok {} {}", v.0, c), Some(Err(_)) => "err".into(), None => "panic".into() };
            finish(res, &obs, None, Some(small_bound(n)))
        }
        "vecu8" => {
            // expected own-code reservation: s bytes once the length passed the MAX_VEC_SIZE test
            let rsv = match rd_varint(&b) { Some((s, _)) if s <= maxvec => s, _ => 0 };
            let (r, obs) = guard(|| elements::encode::deserialize_partial::<Vec<u8>>(&b));
            let res = match &r { Some(Ok((v, c))) => format!("ok n={} c={} rsv={}", v.len(), c, rsv), Some(Err(_)) => format!("err rsv={}", rsv), None => "panic".into() };
            let mut out = finish(res, &obs, None, Some(rsv + dep_slack(n)));
            if out.pred_fail.is_none() && obs.total < rsv { out.pred_fail = Some(format!("model-rsv|implementation requested {} bytes, the model says it reserves {}", obs.total, rsv)); }
            out
        }
        "vecvec" => {
            // reservation: len*size_of<Vec<u8>> for the outer vector, then each element in turn while the input lasts
            let mut rsv = 0u64;
            if let Some((len, mut pos)) = rd_varint(&b) {
                if len.checked_mul(szv).map(|x| x <= maxvec).unwrap_or(false) {
                    rsv += len * szv;
                    for _ in 0..len {
                        match rd_varint(&b[pos.min(n)..]) {
                            Some((s, l)) if s <= maxvec => { rsv += s; pos += l; if pos as u64 + s > n as u64 { break; } pos += s as usize; }
                            _ => break,
                        }
                    }
                }
            }
            let (r, obs) = guard(|| elements::encode::deserialize_partial::<Vec<Vec<u8>>>(&b));
            let res = match &r { Some(Ok((v, c))) => format!("ok n={} c={} rsv={}", v.len(), c, rsv), Some(Err(_)) => format!("err rsv={}", rsv), None => "panic".into() };
            let mut out = finish(res, &obs, None, Some(rsv + dep_slack(n)));
            if out.pred_fail.is_none() && obs.total < rsv { out.pred_fail = Some(format!("model-rsv|implementation requested {} bytes, the model says it reserves {}", obs.total, rsv)); }
            out
        }
        "key" => {
            let rsv = match rd_varint(&b) { Some((s, l)) if s >= 1 && s - 1 <= maxvec && n > l => s - 1, _ => 0 };
            let (r, obs) = guard(|| elements::encode::deserialize_partial::<pset::raw::Key>(&b));
            let res = match &r { Some(Ok((k, c))) => format!("ok t={} n={} c={} rsv={}", k.type_value, k.key.len(), c, rsv), Some(Err(_)) => format!("err rsv={}", rsv), None => "panic".into() };
            let mut out = finish(res, &obs, None, Some(rsv + dep_slack(n)));
            if out.pred_fail.is_none() && obs.total < rsv { out.pred_fail = Some(format!("model-rsv|implementation requested {} bytes, the model says it reserves {}", obs.total, rsv)); }
            out
        }
        _ => Out::ok("harnesserr kind".into()),
    }
}

fn eval_via(prop_case: String, extra: impl FnOnce(), n: usize, other: fn(&str) -> Out) -> Out {
    let (r, mut obs) = guard(|| other(&prop_case));
    let (_, o2) = guard(extra);
    obs.absorb(o2);
    match r {
        // the other property's own predicate is not C10's business; only panics and allocation are judged here
        Some(o) => finish(o.result, &obs, None, Some(66 * small_bound(n))),
        None => finish("panic".into(), &obs, None, None),
    }
}

// ---- blech32 entry points
fn hrp_err_name(e: &bech32::primitives::hrp::Error) -> &'static str {
    use bech32::primitives::hrp::Error as E;
    match e { E::TooLong(_) => "hrptoolong", E::Empty => "hrpempty", E::NonAsciiChar(_) => "hrpnonascii", E::InvalidAsciiByte(_) => "hrpinvalidbyte", E::MixedCase => "hrpmixedcase", _ => "hrp?" }
}
fn unchecked_err(e: &elements::blech32::decode::UncheckedHrpstringError) -> String {
    use elements::blech32::decode::{CharError as C, UncheckedHrpstringError as U};
    match e {
        U::Char(c) => match c { C::MissingSeparator => "missingsep", C::NothingAfterSeparator => "nothingaftersep", C::InvalidChar(_) => "invalidchar", C::MixedCase => "mixedcase", _ => "char?" }.into(),
        U::Hrp(h) => hrp_err_name(h).into(),
        _ => "other?".into(),
    }
}
fn cksum_err(e: &elements::blech32::decode::ChecksumError) -> &'static str {
    use elements::blech32::decode::ChecksumError as K;
    match e { K::InvalidChecksum => "residue", K::InvalidChecksumLength => "cklength", _ => "ck?" }
}
fn segwit_err(e: &elements::blech32::decode::SegwitHrpstringError) -> String {
    use bech32::primitives::segwit::WitnessLengthError as W;
    use elements::blech32::decode::{PaddingError as P, SegwitHrpstringError as E};
    match e {
        E::Unchecked(u) => unchecked_err(u),
        E::MissingWitnessVersion => "nodata".into(),
        E::InvalidWitnessVersion(_) => "witver".into(),
        E::Padding(P::TooMuch) => "padtoomuch".into(),
        E::Padding(P::NonZero) => "padnonzero".into(),
        E::WitnessLength(w) => match w { W::TooShort => "wlshort", W::TooLong => "wllong", W::InvalidSegwitV0 => "wlv0", _ => "wl?" }.into(),
        E::Checksum(k) => cksum_err(k).into(),
        _ => "other?".into(),
    }
}
fn eval_hrp(w: &[&str]) -> Out {
    use elements::blech32::decode::{CheckedHrpstring, CheckedHrpstringError, SegwitHrpstring, UncheckedHrpstring};
    use elements::blech32::{Blech32, Blech32m};
    if w.len() != 3 { return Out::ok("harnesserr args".into()); }
    let Some(s) = unhex_dash(w[2]).and_then(|b| String::from_utf8(b).ok()) else { return Out::ok("harnesserr utf8".into()) };
    let mut all = Obs::default();
    let mut part = |name: &str, f: &dyn Fn() -> String| -> String {
        let (r, o) = guard(f);
        all.absorb(o);
        format!("{}=[{}]", name, r.unwrap_or_else(|| "panic".into()))
    };
    let seg = |r: Result<SegwitHrpstring, elements::blech32::decode::SegwitHrpstringError>| match r {
        Ok(p) => format!("ok {} {} {}", p.hrp().to_lowercase(), p.witness_version().to_u8(), hexd(&p.byte_iter().collect::<Vec<u8>>())),
        Err(e) => format!("err {}", segwit_err(&e)),
    };
    let chk = |r: Result<CheckedHrpstring, CheckedHrpstringError>| match r {
        Ok(p) => format!("ok {} {}", p.hrp().to_lowercase(), hexd(&p.byte_iter().collect::<Vec<u8>>())),
        Err(CheckedHrpstringError::Parse(u)) => format!("err {}", unchecked_err(&u)),
        Err(CheckedHrpstringError::Checksum(k)) => format!("err {}", cksum_err(&k)),
        Err(_) => "err other?".into(),
    };
    let parts = [
        part("u", &|| match UncheckedHrpstring::new(&s) { Ok(u) => format!("ok {} b32={} b32m={}", u.hrp().to_lowercase(), u.has_valid_checksum::<Blech32>() as u8, u.has_valid_checksum::<Blech32m>() as u8), Err(e) => format!("err {}", unchecked_err(&e)) }),
        part("c", &|| chk(CheckedHrpstring::new::<Blech32>(&s))),
        part("cm", &|| chk(CheckedHrpstring::new::<Blech32m>(&s))),
        part("new", &|| seg(SegwitHrpstring::new(&s))),
        part("nb", &|| seg(SegwitHrpstring::new_bech32(&s))),
    ];
    // F1 (fixed by a4bc64e) is no known finding any more: a panic of new_bech32 on an empty data part fails the check
    finish(parts.join(" "), &all, None, Some(5 * small_bound(s.len())))
}

// ---- taproot / schnorr slice parsers
fn terr_name(e: &elements::taproot::TaprootError) -> String {
    use elements::taproot::TaprootError as T;
    match e {
        T::InvalidMerkleBranchSize(n) => format!("branchsize:{}", n), T::InvalidMerkleTreeDepth(n) => format!("depth:{}", n),
        T::InvalidTaprootLeafVersion(v) => format!("leafver:{}", v), T::InvalidControlBlockSize(n) => format!("cbsize:{}", n),
        T::InvalidInternalKey(_) => "key".into(), T::EmptyTree => "empty".into(),
    }
}
fn eval_slices(kind: &str, w: &[&str]) -> Out {
    match kind {
        "cb" => {
            if w.len() != 4 { return Out::ok("harnesserr args".into()); }
            let Some(b) = unhex_dash(w[3]) else { return Out::ok("harnesserr hex".into()) };
            let (r, obs) = guard(|| elements::taproot::ControlBlock::from_slice(&b).map(|c| { let s = c.serialize(); (c.leaf_version.as_u8(), c.merkle_branch.as_inner().len(), c.size(), s == b) }));
            let res = match r { Some(Ok((v, n, sz, rt))) => format!("ok ver={} n={} size={} rt={}", v, n, sz, rt as u8), Some(Err(e)) => format!("err {}", terr_name(&e)), None => "panic".into() };
            finish(res, &obs, None, Some(small_bound(b.len())))
        }
        "branch" => {
            if w.len() != 3 { return Out::ok("harnesserr args".into()); }
            let Some(b) = unhex_dash(w[2]) else { return Out::ok("harnesserr hex".into()) };
            let (r, obs) = guard(|| elements::taproot::TaprootMerkleBranch::from_slice(&b).map(|m| m.as_inner().len()));
            let res = match r { Some(Ok(n)) => format!("ok n={}", n), Some(Err(e)) => format!("err {}", terr_name(&e)), None => "panic".into() };
            finish(res, &obs, None, Some(small_bound(b.len())))
        }
        "ssig" => {
            if w.len() != 4 { return Out::ok("harnesserr args".into()); }
            let Some(b) = unhex_dash(w[3]) else { return Out::ok("harnesserr hex".into()) };
            let (r, obs) = guard(|| {
                let a = elements::SchnorrSig::from_slice(&b).map(|s| (s.hash_ty as u8, s.to_vec()));
                let p = <elements::SchnorrSig as pset::serialize::Deserialize>::deserialize(&b).is_ok();
                (a, p)
            });
            let res = match r {
                Some((Ok((t, v)), p)) => format!("ok ty={} rt={} pset={}", t, (v == b) as u8, p as u8),
                Some((Err(elements::SchnorrSigError::InvalidSighashType(t)), p)) => format!("err ty={} pset={}", t, p as u8),
                Some((Err(_), p)) => format!("err sig pset={}", p as u8),
                None => "panic".into() };
            finish(res, &obs, None, Some(small_bound(b.len())))
        }
        _ => Out::ok("harnesserr kind".into()),
    }
}
pub fn sig_valid(b: &[u8]) -> bool { zkp::schnorr::Signature::from_slice(b).is_ok() }
pub fn xonly_valid(b: &[u8]) -> bool { zkp::XOnlyPublicKey::from_slice(b).is_ok() }

// ---- taproot builder
fn berr_name(e: &elements::taproot::TaprootBuilderError) -> String {
    use elements::taproot::TaprootBuilderError as B;
    match e {
        B::InvalidMerkleTreeDepth(d) => format!("depth:{}", d), B::NodeNotInDfsOrder => "dfs".into(), B::OverCompleteTree => "overcomplete".into(),
        B::InvalidInternalKey(_) => "key".into(), B::IncompleteTree => "incomplete".into(), B::EmptyTree => "empty".into(),
    }
}
fn gkey() -> zkp::XOnlyPublicKey {
    zkp::XOnlyPublicKey::from_slice(&unhex("79be667ef9dcbbac55a06295ce870b07029bfcdb2dce28d959f2815b16f81798").unwrap()).unwrap()
}
fn eval_builder(w: &[&str]) -> Out {
    if w.len() != 3 { return Out::ok("harnesserr args".into()); }
    let items: Vec<(bool, usize)> = if w[2] == "-" { vec![] } else {
        match w[2].split(',').map(|x| { let (h, d) = if let Some(r) = x.strip_prefix('h') { (true, r) } else { (false, x) }; d.parse::<usize>().ok().map(|d| (h, d)) }).collect::<Option<Vec<_>>>() { Some(v) => v, None => return Out::ok("harnesserr depths".into()) } };
    let n = items.len();
    let (r, obs) = guard(|| {
        let mut b = elements::taproot::TaprootBuilder::new();
        for (k, (hidden, d)) in items.iter().enumerate() {
            let r = if *hidden { b.add_hidden(*d, elements::taproot::TapNodeHash::from_byte_array([k as u8; 32])) }
                    else { b.add_leaf(*d, Script::from(vec![0x51, (k & 0xff) as u8, (k >> 8) as u8])) };
            b = match r { Ok(b) => b, Err(e) => return format!("err {} at={}", berr_name(&e), k) };
        }
        let complete = b.is_complete();
        let tt = pset::TapTree::from_inner(b.clone()).is_ok();
        match b.finalize(zkp::SECP256K1, gkey()) {
            Ok(info) => format!("ok complete={} taptree={} root={}", complete as u8, tt as u8, info.merkle_root().is_some() as u8),
            Err(e) => format!("err {} complete={} taptree={}", berr_name(&e), complete as u8, tt as u8),
        }
    });
    finish(r.unwrap_or_else(|| "panic".into()), &obs, None, Some(65536 + 40000 * n as u64 + 200 * (n * n) as u64))
}
fn eval_sbuilder(w: &[&str]) -> Out {
    if w.len() != 3 { return Out::ok("harnesserr args".into()); }
    // a leaf node as serde sees it
    let node = { let b = elements::taproot::TaprootBuilder::new().add_leaf(0, Script::from(vec![0x51])).unwrap(); let v = serde_json::to_value(&b).unwrap(); v["branch"][0].clone() };
    let pat: Vec<&str> = if w[2] == "-" { vec![] } else { w[2].split(',').collect() };
    if pat.iter().any(|p| *p != "n" && *p != "s") { return Out::ok("harnesserr pattern".into()); }
    let branch: Vec<serde_json::Value> = pat.iter().map(|p| if *p == "n" { serde_json::Value::Null } else { node.clone() }).collect();
    let json = serde_json::json!({ "branch": branch }).to_string();
    let (r, obs) = guard(|| {
        let b: elements::taproot::TaprootBuilder = match serde_json::from_str(&json) { Ok(b) => b, Err(_) => return "err serde".to_string() };
        let complete = b.is_complete();
        match b.finalize(zkp::SECP256K1, gkey()) { Ok(_) => format!("ok complete={}", complete as u8), Err(e) => format!("err {} complete={}", berr_name(&e), complete as u8) }
    });
    // F16 (fixed by c723f02) is no known finding any more
    finish(r.unwrap_or_else(|| "panic".into()), &obs, None, Some(small_bound(json.len()) + 65536))
}

// ---- Global::merge, xpub branch
fn parse_path(s: &str) -> Option<Vec<u32>> { if s == "-" { Some(vec![]) } else { s.split('/').map(|x| x.parse().ok()).collect() } }
fn eval_xpub(w: &[&str]) -> Out {
    use elements::bitcoin::bip32::{ChildNumber, DerivationPath, Fingerprint, Xpub};
    if w.len() != 6 { return Out::ok("harnesserr args".into()); }
    let (Some(f2), Some(p2), Some(f1), Some(p1)) = (unhex(w[2]), parse_path(w[3]), unhex(w[4]), parse_path(w[5])) else { return Out::ok("harnesserr fields".into()) };
    if f1.len() != 4 || f2.len() != 4 { return Out::ok("harnesserr fp".into()); }
    let xpub = Xpub::from_str("xpub661MyMwAqRbcFtXgS5sYJABqqG9YLmC4Q1Rdap9gSE8NqtwybGhePY2gZ29ESFjqJoCu1Rupje8YtGqsefD265TMg7usUDFdp6W1EGMcet8").unwrap();
    let mk = |path: &[u32], fp: &[u8]| {
        let mut p = Pset::new_v2();
        p.add_input(pset::Input::from_prevout(OutPoint::new(txid(1), 0)));
        p.add_output(pset::Output::new_explicit(Script::new(), 5, asset(3), None));
        p.global.xpub.insert(xpub, (Fingerprint::from(<[u8; 4]>::try_from(fp).unwrap()), DerivationPath::from(path.iter().map(|x| ChildNumber::from(*x)).collect::<Vec<_>>())));
        p
    };
    let (a, b) = (mk(&p2, &f2), mk(&p1, &f1));
    let (r, obs) = guard(move || {
        let mut a = a;
        match a.merge(b) {
            Ok(()) => { let (fp, path) = a.global.xpub.values().next().unwrap().clone(); format!("ok {} {}", hex(fp.as_bytes()), { let v: Vec<String> = path.into_iter().map(|c| u32::from(*c).to_string()).collect(); if v.is_empty() { "-".to_string() } else { v.join("/") } }) }
            Err(_) => "err conflict".to_string(),
        }
    });
    // F2 (fixed by 4b01389) is no known finding any more
    finish(r.unwrap_or_else(|| "panic".into()), &obs, None, Some(1 << 20))
}

// ---- Transaction::blind output selection
fn eval_blindsel(w: &[&str]) -> Out {
    if w.len() != 3 { return Out::ok("harnesserr args".into()); }
    let marks: Vec<char> = if w[2] == "-" { vec![] } else { w[2].chars().collect() };
    if marks.iter().any(|c| !"fmux".contains(*c)) { return Out::ok("harnesserr marks".into()); }
    let secp = zkp::SECP256K1;
    let pk = zkp::PublicKey::from_secret_key(secp, &zkp::SecretKey::from_slice(&[7u8; 32]).unwrap());
    let mut outputs = Vec::new();
    let mut total = 0u64;
    for (k, m) in marks.iter().enumerate() {
        let v = 1000 + k as u64; total += v;
        let mut o = TxOut::new_fee(v, asset(3));
        match m {
            'f' => {}
            'm' => { o.script_pubkey = Script::from({ let mut s = vec![0x00, 0x14]; s.extend([k as u8; 20]); s }); o.nonce = confidential::Nonce::Confidential(pk); }
            'x' => { o.script_pubkey = Script::from(vec![0x51]); o.nonce = confidential::Nonce::Confidential(pk); }     // marked, but no address template
            _ => { o.script_pubkey = Script::from(vec![0x51]); }
        }
        outputs.push(o);
    }
    let mut tx = Transaction { version: 2, lock_time: LockTime::ZERO, input: vec![{ let mut i = TxIn::default(); i.previous_output = OutPoint::new(txid(9), 0); i }], output: outputs };
    let sec = elements::TxOutSecrets::new(asset(3), confidential::AssetBlindingFactor::zero(), total, confidential::ValueBlindingFactor::zero());
    let (r, obs) = guard(|| {
        let mut rng = <ChaCha20Rng as rand::SeedableRng>::from_seed([5u8; 32]);
        match tx.blind(&mut rng, secp, &[sec], false) {
            Ok(m) => { let idx: Vec<String> = tx.output.iter().enumerate().filter(|(_, o)| o.value.is_confidential()).map(|(i, _)| i.to_string()).collect(); format!("ok n={} blinded={}", m.len(), if idx.is_empty() { "-".into() } else { idx.join(",") }) }
            Err(e) => format!("err {}", match e { elements::BlindError::InvalidAddress => "address", elements::BlindError::TooFewBlindingOutputs => "toofew", elements::BlindError::MustHaveAllExplicitTxOuts => "explicit", _ => "other" }),
        }
    });
    // F12 (fixed by 8d5600e) is no known finding any more
    finish(r.unwrap_or_else(|| "panic".into()), &obs, None, None)
}

// ---- Pset::locktime
fn eval_locktime(w: &[&str]) -> Out {
    use elements::locktime::{Height, Time};
    if w.len() != 4 { return Out::ok("harnesserr args".into()); }
    let mut p = Pset::new_v2();
    if w[2] != "-" { match w[2].parse::<u32>() { Ok(n) => p.global.tx_data.fallback_locktime = Some(LockTime::from_consensus(n)), Err(_) => return Out::ok("harnesserr fallback".into()) } }
    if w[3] != "-" {
        for (k, it) in w[3].split(',').enumerate() {
            let mut i = pset::Input::from_prevout(OutPoint::new(txid(1), k as u32));
            let num = |s: &str| s.parse::<u32>().ok();
            let ok = match it.split_at(1) {
                ("n", "") => true,
                ("t", r) => num(r).and_then(|n| Time::from_consensus(n).ok()).map(|t| i.required_time_locktime = Some(t)).is_some(),
                ("h", r) => num(r).and_then(|n| Height::from_consensus(n).ok()).map(|h| i.required_height_locktime = Some(h)).is_some(),
                ("b", r) => match r.split_once('.') { Some((a, b)) => match (num(a).and_then(|n| Time::from_consensus(n).ok()), num(b).and_then(|n| Height::from_consensus(n).ok())) { (Some(t), Some(h)) => { i.required_time_locktime = Some(t); i.required_height_locktime = Some(h); true } _ => false }, None => false },
                _ => false };
            if !ok { return Out::ok("harnesserr input".into()); }
            p.add_input(i);
        }
    }
    let (r, obs) = guard(|| match p.locktime() { Ok(l) => format!("ok {}", l.to_consensus_u32()), Err(_) => "err conflict".into() });
    finish(r.unwrap_or_else(|| "panic".into()), &obs, None, Some(small_bound(w[3].len())))
}

// ---- pegin / pegout / minimum_value
fn eval_pegin(w: &[&str]) -> Out {
    if w.len() != 3 { return Out::ok("harnesserr args".into()); }
    let stack: Option<Vec<Vec<u8>>> = if w[2] == "-" { Some(vec![]) } else { w[2].split(',').map(|x| if x == "." { Some(vec![]) } else { unhex(x) }).collect() };
    let Some(stack) = stack else { return Out::ok("harnesserr hex".into()) };
    let prev = elements::bitcoin::OutPoint { txid: <elements::bitcoin::Txid as elements::bitcoin::hashes::Hash>::from_byte_array([2; 32]), vout: 1 };
    let n: usize = stack.iter().map(|x| x.len()).sum();
    let (r, obs) = guard(|| match elements::PeginData::from_pegin_witness(&stack, prev) {
        Ok(p) => format!("ok value={} asset={} genesis={} claim={} tx={} proof={}", p.value, hex(&p.asset.to_byte_array()), hex(&bh(&p.genesis_hash)), p.claim_script.len(), p.tx.len(), p.merkle_proof.len()),
        Err(m) => format!("err {}", m.replace(' ', "-")),
    });
    // the same through TxIn::pegin_data
    let (_, o2) = guard(|| { let mut i = TxIn::default(); i.is_pegin = true; i.witness.pegin_witness = stack.clone(); let _ = i.pegin_data(); i.is_pegin = false; let _ = i.pegin_data(); });
    let mut obs = obs; obs.panics.extend(o2.panics);
    finish(r.unwrap_or_else(|| "panic".into()), &obs, None, Some(small_bound(n)))
}
fn eval_pegout(w: &[&str]) -> Out {
    if w.len() != 4 { return Out::ok("harnesserr args".into()); }
    let Some(s) = unhex_dash(w[3]) else { return Out::ok("harnesserr hex".into()) };
    let mut o = TxOut::new_fee(77, asset(4));
    o.script_pubkey = Script::from(s.clone());
    match w[2] { "e" => {}, "n" => o.value = confidential::Value::Null, _ => return Out::ok("harnesserr value".into()) }
    let (r, obs) = guard(|| {
        let nd = o.is_null_data();
        match o.pegout_data() {
            Some(p) => format!("some nd={} value={} genesis={} spk={} extra={}", nd as u8, p.value, hex(&bh(&p.genesis_hash)), hexd(p.script_pubkey.as_bytes()), if p.extra_data.is_empty() { "-".into() } else { p.extra_data.iter().map(|x| hexd(x)).collect::<Vec<_>>().join(",") }),
            None => format!("none nd={}", nd as u8),
        }
    });
    finish(r.unwrap_or_else(|| "panic".into()), &obs, None, Some(small_bound(s.len())))
}
fn eval_minval(w: &[&str]) -> Out {
    if w.len() != 5 { return Out::ok("harnesserr args".into()); }
    let Some(pb) = unhex_dash(w[4]) else { return Out::ok("harnesserr hex".into()) };
    let mut o = TxOut::new_fee(12345, asset(4));
    if w[3] == "1" { o.script_pubkey = Script::from(vec![0x6a]); } else { o.script_pubkey = Script::from(vec![0x51]); }
    match w[2] {
        "e" => {}
        "n" => o.value = confidential::Value::Null,
        "c" => { let mut rng = <ChaCha20Rng as rand::SeedableRng>::from_seed([3u8; 32]); o.value = confidential::Value::Confidential(rcommitment(&mut rng)); }
        _ => return Out::ok("harnesserr value".into()),
    }
    let proof_ok = if pb.is_empty() { true } else { match zkp::RangeProof::from_slice(&pb) { Ok(p) => { o.witness.rangeproof = Some(Box::new(p)); true } Err(_) => false } };
    if !proof_ok { return Out::ok("badproof".into()); }
    let (r, obs) = guard(|| format!("ok {}", o.minimum_value()));
    finish(r.unwrap_or_else(|| "panic".into()), &obs, None, Some(small_bound(pb.len())))
}

// ---- PSET value decoders that slice by fixed offsets
fn eval_psetval(w: &[&str]) -> Out {
    use pset::serialize::Deserialize;
    if w.len() != 5 { return Out::ok("harnesserr args".into()); }
    let Some(b) = unhex_dash(w[4]) else { return Out::ok("harnesserr hex".into()) };
    let n = b.len();
    let (r, obs) = guard(|| match w[2] {
        "scriptver" => match <(Script, elements::taproot::LeafVersion)>::deserialize(&b) { Ok((s, v)) => format!("ok {} {}", hexd(s.as_bytes()), v.as_u8()), Err(_) => "err".into() },
        "xonlyleaf" => match <(zkp::XOnlyPublicKey, elements::taproot::TapLeafHash)>::deserialize(&b) { Ok((k, h)) => format!("ok {} {}", hex(&k.serialize()), hex(&h.to_byte_array())), Err(_) => "err".into() },
        "keysource" => match <elements::bitcoin::bip32::KeySource>::deserialize(&b) { Ok((f, p)) => format!("ok {} {}", hex(f.as_bytes()), { let v: Vec<String> = p.into_iter().map(|c| u32::from(*c).to_string()).collect(); if v.is_empty() { "-".to_string() } else { v.join("/") } }), Err(_) => "err".into() },
        "leafks" => match <(Vec<elements::taproot::TapLeafHash>, elements::bitcoin::bip32::KeySource)>::deserialize(&b) { Ok((l, (f, p))) => format!("ok {} {} {}", l.len(), hex(f.as_bytes()), p.len()), Err(_) => "err".into() },
        "taptree" => match pset::TapTree::deserialize(&b) { Ok(t) => { use pset::serialize::Serialize; let s = t.serialize(); format!("ok {}", s.len()) } Err(_) => "err".into() },
        _ => "harnesserr type".into(),
    });
    let bound = if w[2] == "leafks" || w[2] == "taptree" { elements::encode::MAX_VEC_SIZE as u64 + 4096 * n as u64 + 65536 } else { small_bound(n) };
    finish(r.unwrap_or_else(|| "panic".into()), &obs, None, Some(bound))
}

// ---- taproot sighash index handling
fn sighash_err(e: &elements::sighash::Error) -> &'static str {
    use elements::sighash::Error as E;
    match e {
        E::Encode(_) => "encode", E::IndexOutOfInputsBounds { .. } => "index", E::SingleWithoutCorrespondingOutput { .. } => "single",
        E::PrevoutsSize => "prevoutssize", E::PrevoutIndex => "prevoutindex", E::PrevoutKind => "prevoutkind", E::WrongAnnex => "annex", E::InvalidSighashType(_) => "type",
    }
}
fn eval_tapidx(w: &[&str]) -> Out {
    use elements::sighash::{Prevouts, SighashCache};
    if w.len() != 7 { return Out::ok("harnesserr args".into()); }
    let (Ok(nin), Ok(nout), Ok(idx), Ok(tyb)) = (w[2].parse::<usize>(), w[3].parse::<usize>(), w[4].parse::<usize>(), w[6].parse::<u8>()) else { return Out::ok("harnesserr nums".into()) };
    if nin > 64 || nout > 64 { return Out::ok("harnesserr size".into()); }
    let Some(ty) = elements::SchnorrSighashType::from_u8(tyb) else { return Out::ok("badtype".into()) };
    let tx = Transaction { version: 2, lock_time: LockTime::ZERO,
        input: (0..nin).map(|k| { let mut i = TxIn::default(); i.previous_output = OutPoint::new(txid(k as u8), k as u32); i }).collect(),
        output: (0..nout).map(|k| TxOut::new_fee(k as u64, asset(3))).collect() };
    let prev = TxOut::new_fee(5, asset(3));
    let (r, obs) = guard(|| {
        let mut c = SighashCache::new(&tx);
        let g = elements::BlockHash::from_byte_array([0; 32]);
        let r = match w[5].split_once(':') {
            Some(("one", i)) => { let Ok(i) = i.parse::<usize>() else { return "harnesserr prevouts".to_string() }; c.taproot_key_spend_signature_hash(idx, &Prevouts::One(i, &prev), ty, g) }
            Some(("all", n)) => { let Ok(n) = n.parse::<usize>() else { return "harnesserr prevouts".to_string() }; if n > 256 { return "harnesserr prevouts".to_string(); } let v: Vec<&TxOut> = (0..n).map(|_| &prev).collect(); c.taproot_key_spend_signature_hash(idx, &Prevouts::All(&v), ty, g) }
            _ => return "harnesserr prevouts".to_string(),
        };
        match r { Ok(_) => "ok".into(), Err(e) => format!("err {}", sighash_err(&e)) }
    });
    finish(r.unwrap_or_else(|| "panic".into()), &obs, None, Some(1 << 20))
}

pub fn own_mode() -> &'static str {
    use std::sync::OnceLock;
    static ON: OnceLock<bool> = OnceLock::new();
    if *ON.get_or_init(|| catch_unwind(|| { let x = std::hint::black_box(i64::MIN); std::hint::black_box(-x); }).is_err()) { "dbg" } else { "rel" }
}
// ---- script::read_uint with an arbitrary size (F19, fixed by 6050d64: an oversized size is Err(NumericOverflow))
fn eval_ruint(w: &[&str]) -> Out {
    if w.len() != 5 { return Out::ok("harnesserr args".into()); }
    if w[2] != own_mode() { return Out::ok("harnesserr profile: replay this case with the other harness binary".into()); }
    let (Ok(size), Some(data)) = (w[3].parse::<usize>(), unhex_dash(w[4])) else { return Out::ok("harnesserr fields".into()) };
    let (r, obs) = guard(|| elements::script::read_uint(&data, size));
    let res = match &r {
        Some(Ok(n)) => format!("ok {}", n),
        Some(Err(elements::script::Error::EarlyEndOfScript)) => "err early".into(),
        Some(Err(elements::script::Error::NumericOverflow)) => "err overflow".into(),
        Some(Err(_)) => "err other".into(),
        None => "panic".into() };
    let mut out = finish(res, &obs, None, Some(small_bound(data.len())));
    // a value returned for more bytes than a usize holds cannot be their little-endian number
    if out.pred_fail.is_none() && size > std::mem::size_of::<usize>() && matches!(r, Some(Ok(_))) {
        out.pred_fail = Some(format!("read-uint-oversize|read_uint returned a value for {} bytes", size));
    }
    out
}

// ---- the small fallible integer constructors; `want` is an independent computation in u128 arithmetic
fn eval_ctor(w: &[&str]) -> Out {
    use elements::locktime::{Height, Time};
    if w.len() != 5 { return Out::ok("harnesserr args".into()); }
    if w[2] != own_mode() { return Out::ok("harnesserr profile: replay this case with the other harness binary".into()); }
    let Ok(n) = w[4].parse::<u64>() else { return Out::ok("harnesserr int".into()) };
    let f = w[3];
    let fits = |bits: u32| n < (1u64 << bits);
    let need = match f { "seqheight" | "seq512" => 16, "schnorr" | "leafver" | "ordinary" => 8, _ => 32 };
    if !fits(need) { return Out::ok("harnesserr range".into()); }
    let n32 = n as u32; let x = n as u128;
    const MASK: u128 = 0x0040_0000; const TH: u128 = 500_000_000;
    let std_ecdsa = [1u128, 2, 3, 0x81, 0x82, 0x83]; let std_schnorr = [0u128, 1, 2, 3, 0x81, 0x82, 0x83];
    let okv = |v: u128| format!("ok {}", v);
    let want: String = match f {
        "seqfloor" => if x / 512 <= 0xffff { okv(x / 512 | MASK) } else { "err".into() },
        "seqceil" => if (x + 511) / 512 <= 0xffff { okv((x + 511) / 512 | MASK) } else { "err".into() },
        "seqheight" => okv(x), "seq512" => okv(x | MASK),
        "ltconsensus" => format!("ok {}{}", if x < TH { "b" } else { "s" }, x),
        "ltheight" | "height" => if x < TH { okv(x) } else { "err".into() },
        "lttime" | "time" => if x >= TH { okv(x) } else { "err".into() },
        "ecdsastd" => if std_ecdsa.contains(&x) { okv(x) } else { "err".into() },
        "psbtecdsa" => if std_ecdsa.contains(&x) { okv(x) } else { "none".into() },
        "schnorr" | "psbtschnorr" => if std_schnorr.contains(&x) { okv(x) } else { "none".into() },
        "leafver" => if x % 2 == 0 && x != 0x50 { okv(x) } else { "err".into() },
        "ordinary" => "?".into(),
        _ => return Out::ok("harnesserr fn".into()),
    };
    let (r, obs) = guard(|| -> String { match f {
        "seqfloor" => elements::Sequence::from_seconds_floor(n32).map(|s| okv(s.0 as u128)).unwrap_or("err".into()),
        "seqceil" => elements::Sequence::from_seconds_ceil(n32).map(|s| okv(s.0 as u128)).unwrap_or("err".into()),
        "seqheight" => okv(elements::Sequence::from_height(n as u16).0 as u128),
        "seq512" => okv(elements::Sequence::from_512_second_intervals(n as u16).0 as u128),
        "ltconsensus" => { let l = LockTime::from_consensus(n32); format!("ok {}{}", if l.is_block_height() { "b" } else { "s" }, l.to_consensus_u32()) }
        "ltheight" => LockTime::from_height(n32).map(|l| okv(l.to_consensus_u32() as u128)).unwrap_or("err".into()),
        "lttime" => LockTime::from_time(n32).map(|l| okv(l.to_consensus_u32() as u128)).unwrap_or("err".into()),
        "height" => Height::from_consensus(n32).map(|l| okv(l.to_consensus_u32() as u128)).unwrap_or("err".into()),
        "time" => Time::from_consensus(n32).map(|l| okv(l.to_consensus_u32() as u128)).unwrap_or("err".into()),
        "ecdsastd" => elements::EcdsaSighashType::from_standard(n32).map(|t| okv(t.as_u32() as u128)).unwrap_or("err".into()),
        "psbtecdsa" => pset::PsbtSighashType::from_u32(n32).ecdsa_hash_ty().map(|t| okv(t.as_u32() as u128)).unwrap_or("none".into()),
        "schnorr" => elements::SchnorrSighashType::from_u8(n as u8).map(|t| okv(t as u8 as u128)).unwrap_or("none".into()),
        "psbtschnorr" => pset::PsbtSighashType::from_u32(n32).schnorr_hash_ty().map(|t| okv(t as u8 as u128)).unwrap_or("none".into()),
        "leafver" => elements::taproot::LeafVersion::from_u8(n as u8).map(|v| okv(v.as_u8() as u128)).unwrap_or("err".into()),
        _ => elements::opcodes::Ordinary::try_from_all(elements::opcodes::All::from(n as u8)).map(|o| okv(o.into_u8() as u128)).unwrap_or("none".into()),
    } });
    let res = r.clone().unwrap_or_else(|| "panic".into());
    let mut out = finish(res.clone(), &obs, None, Some(small_bound(16)));
    if out.pred_fail.is_none() && want != "?" && res != want {
        out.pred_fail = Some(format!("ctor-value|{}({}) gives `{}`, the exact computation gives `{}`", f, n, res, want));
    }
    out
}

// ---- fee sums
fn eval_fees(w: &[&str]) -> Out {
    if w.len() != 4 { return Out::ok("harnesserr args".into()); }
    if w[2] != own_mode() { return Out::ok("harnesserr profile: replay this case with the other harness binary".into()); }
    let w = [w[0], w[1], w[3]];
    let mut outs = Vec::new();
    if w[2] != "-" { for it in w[2].split(',') { match it.split_once(':').and_then(|(a, v)| Some((a.parse::<u8>().ok()?, v.parse::<u64>().ok()?))) { Some((a, v)) => outs.push((a, v)), None => return Out::ok("harnesserr item".into()) } } }
    let tx = Transaction { version: 2, lock_time: LockTime::ZERO, input: vec![], output: outs.iter().map(|(a, v)| TxOut::new_fee(*v, asset(*a))).collect() };
    let mut assets: Vec<u8> = outs.iter().map(|x| x.0).collect(); assets.sort(); assets.dedup();
    let exact: Vec<(u8, u128)> = assets.iter().map(|a| (*a, outs.iter().filter(|x| x.0 == *a).map(|x| x.1 as u128).sum())).collect();
    let overflow = exact.iter().any(|x| x.1 > u64::MAX as u128);
    let (r, obs) = guard(|| {
        let per: Vec<String> = assets.iter().map(|a| format!("{}:{}", a, tx.fee_in(asset(*a)))).collect();
        let all = tx.all_fees();
        let mut allv: Vec<String> = assets.iter().map(|a| format!("{}:{}", a, all.get(&asset(*a)).copied().unwrap_or(0))).collect();
        allv.sort();
        (per, allv)
    });
    let res = match &r { Some((per, all)) => format!("ok in={} all={}", if per.is_empty() { "-".into() } else { per.join(",") }, if all.is_empty() { "-".into() } else { all.join(",") }), None => "panic".into() };
    // F17 (fixed by 7b7cbe8): no known finding any more; the sums must be the exact sums capped at u64::MAX
    let _ = overflow;
    let mut out = finish(res, &obs, None, Some(1 << 20));
    if out.pred_fail.is_none() {
        if let Some((per, all)) = &r {
            let want: Vec<String> = exact.iter().map(|(a, v)| format!("{}:{}", a, (*v).min(u64::MAX as u128))).collect();
            if *per != want || *all != want { out.pred_fail = Some(format!("fee-sum|fee_in / all_fees return {} / {} instead of the (saturated) sums {}", per.join(","), all.join(","), want.join(","))); }
        }
    }
    out
}

// ---- F18: commitments parsed from slices of the wrong length. The slice handed over always lies inside a 33-byte buffer, so the
// out-of-bounds read of the implementation stays inside memory this harness owns.
fn eval_commit(w: &[&str]) -> Out {
    use pset::serialize::Deserialize;
    if w.len() != 6 { return Out::ok("harnesserr args".into()); }
    let (Ok(len), Some(buf)) = (w[3].parse::<usize>(), unhex(w[5])) else { return Out::ok("harnesserr fields".into()) };
    if buf.len() != 33 || len > 33 { return Out::ok("harnesserr len".into()); }
    let sl = &buf[..len];
    let (r, obs) = guard(|| match w[2] {
        "v" => confidential::Value::from_commitment(sl).is_ok(),
        "a" => confidential::Asset::from_commitment(sl).is_ok(),
        "pv" => <zkp::PedersenCommitment as Deserialize>::deserialize(sl).is_ok(),
        "pa" => <zkp::Generator as Deserialize>::deserialize(sl).is_ok(),
        _ => false,
    });
    let mut out = finish(match r { Some(true) => "ok".into(), Some(false) => "err".into(), None => "panic".into() }, &obs, None, Some(small_bound(33)));
    if out.pred_fail.is_none() && r == Some(true) && len != 33 {
        out.pred_fail = Some(format!("{}|a {}-byte slice was accepted as a 33-byte commitment: the parser read {} bytes behind the end of the slice", F18, len, 33 - len));
    }
    out
}

// ================================================================================================ exploration kinds
fn explore_pset(p: &Pset) {
    let _ = (p.locktime().is_ok(), p.unique_id().is_ok(), p.extract_tx().map(|t| tx_accessors(&t)).is_ok(), p.sanity_check().is_ok(), p.n_inputs(), p.n_outputs());
    let ser = serialize(p);
    let _ = p.to_string();
    let _ = deserialize::<Pset>(&ser);
    for i in p.inputs() { let _ = (i.has_issuance(), i.is_pegin(), i.asset_issuance(), i.ecdsa_hash_ty(), i.schnorr_hash_ty(), i.get_abf().map(|r| r.is_ok())); if i.has_issuance() { let _ = i.issuance_ids(); } }
    for o in p.outputs() { let _ = (o.to_txout(), o.is_marked_for_blinding(), o.is_partially_blinded(), o.is_fully_blinded(), o.get_abf().map(|r| r.is_ok())); }
    for a in [asset(3), asset(0)] { let _ = (p.get_asset_metadata(a).map(|r| r.is_ok()), p.get_token_metadata(a).map(|r| r.is_ok())); }
    let mut a = p.clone();
    let _ = a.merge(p.clone());
}

/// PSET decoding: Vec::with_capacity(count) for inputs and outputs behind the 10 000 caps (10 000 * size_of::<Input>() is 13.8 MB, reserved
/// before the first input is read), one pending key and one pending value of at most MAX_VEC_SIZE each, one nested consensus object
fn pset_bound(n: usize) -> u64 {
    10_000 * (std::mem::size_of::<pset::Input>() + std::mem::size_of::<pset::Output>()) as u64 + 4 * elements::encode::MAX_VEC_SIZE as u64 + 4096 * n as u64 + 65536
}
/// proprietary subtype under which ELIP102 stores the asset blinding factor (looked up from a value set through the API)
fn pset_abf_subtype() -> u8 {
    let mut i = pset::Input::default();
    i.set_abf(confidential::AssetBlindingFactor::zero());
    i.proprietary.keys().next().map(|k| k.subtype).unwrap_or(0)
}
fn eval_explore_case(case: &str) -> Out {
    let w: Vec<&str> = case.split(' ').collect();
    eval_explore(w.get(1).copied().unwrap_or(""), &w)
}
fn eval_explore(kind: &str, w: &[&str]) -> Out {
    match kind {
        "x-pset" => {
            if w.len() != 3 { return Out::ok("harnesserr args".into()); }
            let Some(b) = unhex_dash(w[2]) else { return Out::ok("harnesserr hex".into()) };
            let (r, obs) = guard(|| deserialize::<Pset>(&b));
            let mut obs2 = Obs::default();
            if let Some(Ok(p)) = &r { let (_, o) = guard(|| explore_pset(p)); obs2 = o; }
            let bound = pset_bound(b.len());
            let mut all = obs.clone(); all.panics.extend(obs2.panics);
            finish(if matches!(r, Some(Ok(_))) { "total+".into() } else { "total".into() }, &all, None, Some(bound))
        }
        "x-psetstr" => {
            if w.len() != 3 { return Out::ok("harnesserr args".into()); }
            let Some(s) = unhex_dash(w[2]).and_then(|b| String::from_utf8(b).ok()) else { return Out::ok("harnesserr utf8".into()) };
            let (r, obs) = guard(|| Pset::from_str(&s));
            let mut all = obs.clone();
            if let Some(Ok(p)) = &r { let (_, o) = guard(|| explore_pset(p)); all.panics.extend(o.panics); }
            finish("total".into(), &all, None, Some(pset_bound(s.len())))
        }
        "x-merge" => {
            if w.len() != 4 { return Out::ok("harnesserr args".into()); }
            let (Some(a), Some(b)) = (unhex_dash(w[2]), unhex_dash(w[3])) else { return Out::ok("harnesserr hex".into()) };
            let (Ok(pa), Ok(pb)) = (deserialize::<Pset>(&a), deserialize::<Pset>(&b)) else { return Out::ok("total".into()) };
            let (_, obs) = guard(|| { let mut x = pa.clone(); let r1 = x.merge(pb.clone()).is_ok(); if r1 { explore_pset(&x); } let mut y = pb.clone(); let _ = y.merge(pa.clone()); });
            finish("total".into(), &obs, None, None)
        }
        "x-mergeshape" => {
            // two PSETs built in memory (the decoder would refuse an output without amount and asset), neither with a unique id, of the given map counts
            if w.len() != 7 { return Out::ok("harnesserr args".into()); }
            let n: Vec<usize> = w[2..6].iter().filter_map(|x| x.parse().ok()).collect();
            let Ok(seed) = w[6].parse::<u64>() else { return Out::ok("harnesserr seed".into()) };
            if n.len() != 4 || n.iter().any(|x| *x > 8) { return Out::ok("harnesserr shape".into()); }
            let mut rng = <ChaCha20Rng as rand::SeedableRng>::seed_from_u64(seed);
            let mut build = |ni: usize, no: usize| -> Pset {
                let mut p = Pset::new_v2();
                for k in 0..ni { p.add_input(elements::pset::Input::from_prevout(elements::OutPoint::new(elements::Txid::from_byte_array(r32(&mut rng)), k as u32))); }
                for _ in 0..no { p.add_output(elements::pset::Output { script_pubkey: elements::Script::from(vec![0x51]), ..Default::default() }); }
                p
            };
            let (pa, pb) = (build(n[0], n[1]), build(n[2], n[3]));
            let (_, obs) = guard(|| { let mut x = pa.clone(); let _ = x.merge(pb.clone()); let mut y = pb.clone(); let _ = y.merge(pa.clone()); });
            finish("total".into(), &obs, None, None)
        }
        "x-blind" => {
            // Transaction::blind with arbitrary (unbalanced, mismatched) secrets
            if w.len() != 5 { return Out::ok("harnesserr args".into()); }
            let (Some(tb), Ok(nsec), Ok(seed)) = (unhex_dash(w[2]), w[3].parse::<usize>(), w[4].parse::<u64>()) else { return Out::ok("harnesserr fields".into()) };
            let Ok(mut tx) = deserialize::<Transaction>(&tb) else { return Out::ok("total".into()) };
            let mut rng = <ChaCha20Rng as rand::SeedableRng>::seed_from_u64(seed);
            let secs: Vec<elements::TxOutSecrets> = (0..nsec.min(8)).map(|_| elements::TxOutSecrets::new(asset(rng.gen_range(1..4)), confidential::AssetBlindingFactor::from_slice(&r32(&mut rng)).unwrap_or(confidential::AssetBlindingFactor::zero()), pk!(&mut rng, [0u64, 1, 1000, u64::MAX, rng.gen()]), confidential::ValueBlindingFactor::from_slice(&r32(&mut rng)).unwrap_or(confidential::ValueBlindingFactor::zero()))).collect();
            let marked = tx.output.iter().any(|o| !o.is_fee() && o.nonce.is_confidential());
            let all_explicit = tx.output.iter().all(|o| o.asset.is_explicit() && o.value.is_explicit());
            let (_, obs) = guard(|| { let _ = tx.blind(&mut rng, zkp::SECP256K1, &secs, seed % 2 == 0); });
            let _ = (marked, all_explicit);
            finish("total".into(), &obs, None, None)
        }
        "x-sighash" => {
            use elements::sighash::{Prevouts, SighashCache};
            if w.len() != 7 { return Out::ok("harnesserr args".into()); }
            let (Some(tb), Ok(idx), Ok(np), Ok(tyb), Ok(leaf)) = (unhex_dash(w[2]), w[3].parse::<usize>(), w[4].parse::<usize>(), w[5].parse::<u8>(), w[6].parse::<u8>()) else { return Out::ok("harnesserr fields".into()) };
            let Ok(tx) = deserialize::<Transaction>(&tb) else { return Out::ok("total".into()) };
            let Some(ty) = elements::SchnorrSighashType::from_u8(tyb) else { return Out::ok("total".into()) };
            let prevs: Vec<TxOut> = (0..np.min(300)).map(|k| tx.output.get(k).cloned().unwrap_or_else(|| TxOut::new_fee(k as u64, asset(3)))).collect();
            let (_, obs) = guard(|| {
                let g = elements::BlockHash::from_byte_array([1; 32]);
                let mut c = SighashCache::new(&tx);
                let lh = elements::taproot::TapLeafHash::from_byte_array([leaf; 32]);
                let _ = c.taproot_key_spend_signature_hash(idx, &Prevouts::All(&prevs), ty, g);
                let _ = c.taproot_script_spend_signature_hash(idx, &Prevouts::All(&prevs), lh, ty, g);
                if let Some(p) = prevs.first() { let _ = c.taproot_key_spend_signature_hash(idx, &Prevouts::One(np, p), ty, g); let _ = c.taproot_sighash(idx, &Prevouts::One(idx, p), elements::sighash::Annex::new(&[0x50, leaf]).ok(), Some((lh, leaf as u32)), ty, g); }
                let _ = elements::sighash::Annex::new(&[leaf]);
                let _ = elements::sighash::Annex::new(&[]);
            });
            finish("total".into(), &obs, None, None)
        }
        "x-blindzero" => {
            // N1/F20: a marked output of value 0 whose value blinding factor comes out as 0 (single zero-valued, unblinded input)
            if w.len() != 3 { return Out::ok("harnesserr args".into()); }
            let Ok(v) = w[2].parse::<u64>() else { return Out::ok("harnesserr value".into()) };
            let secp = zkp::SECP256K1;
            let pk = zkp::PublicKey::from_secret_key(secp, &zkp::SecretKey::from_slice(&[7u8; 32]).unwrap());
            let mut o = TxOut::new_fee(v, asset(3));
            o.script_pubkey = Script::from({ let mut s = vec![0x00, 0x14]; s.extend([9u8; 20]); s });
            o.nonce = confidential::Nonce::Confidential(pk);
            let mut tx = Transaction { version: 2, lock_time: LockTime::ZERO, input: vec![{ let mut i = TxIn::default(); i.previous_output = OutPoint::new(txid(9), 0); i }], output: vec![o] };
            let sec = elements::TxOutSecrets::new(asset(3), confidential::AssetBlindingFactor::zero(), v, confidential::ValueBlindingFactor::zero());
            let (_, obs) = guard(|| { let mut rng = <ChaCha20Rng as rand::SeedableRng>::from_seed([5u8; 32]); let _ = tx.blind(&mut rng, secp, &[sec], false); });
            { let _ = v; finish("total".into(), &obs, None, None) }      // F20 fixed: no known finding any more
        }
        "x-verify" => {
            // N2/F21: verify_tx_amt_proofs on a decoded transaction with explicit utxos
            if w.len() != 3 { return Out::ok("harnesserr args".into()); }
            let Some(tb) = unhex_dash(w[2]) else { return Out::ok("harnesserr hex".into()) };
            let Ok(tx) = deserialize::<Transaction>(&tb) else { return Out::ok("total".into()) };
            let utxos: Vec<TxOut> = tx.input.iter().enumerate().map(|(k, _)| { let mut o = TxOut::new_fee(1000 + k as u64, asset(3)); o.script_pubkey = Script::from(vec![0x51]); o }).collect();
            let zero_iss = tx.input.iter().any(|i| i.has_issuance() && (i.asset_issuance.amount == confidential::Value::Explicit(0) || i.asset_issuance.inflation_keys == confidential::Value::Explicit(0)));
            let (_, obs) = guard(|| { let _ = tx.verify_tx_amt_proofs(zkp::SECP256K1, &utxos); });
            { let _ = zero_iss; finish("total".into(), &obs, None, None) }      // F21 fixed: no known finding any more
        }
        "x-surj" => {
            // N3/F22: more than 256 surjection inputs make libsecp256k1-zkp's illegal-argument callback abort the process
            if w.len() != 3 { return Out::ok("harnesserr args".into()); }
            let Ok(n) = w[2].parse::<usize>() else { return Out::ok("harnesserr count".into()) };
            if n > 400 { return Out::ok("harnesserr count".into()); }
            let utxo = elements::TxOutSecrets::new(asset(3), confidential::AssetBlindingFactor::zero(), 10, confidential::ValueBlindingFactor::zero());
            let (_, obs) = guard(|| {
                let mut rng = <ChaCha20Rng as rand::SeedableRng>::from_seed([5u8; 32]);
                let _ = confidential::Asset::Explicit(asset(3)).blind(&mut rng, zkp::SECP256K1, confidential::AssetBlindingFactor::from_slice(&[2u8; 32]).unwrap(), &vec![utxo; n]);
            });
            finish("total".into(), &obs, None, None)
        }
        "x-rp64" => {
            // N4/F23: a range proof covering [0, 2^64-1]; secp256k1-zkp computes `max_value + 1` (overflow checks on: panic)
            if w.len() != 2 { return Out::ok("harnesserr args".into()); }
            let secp = zkp::SECP256K1;
            let abf = confidential::AssetBlindingFactor::from_slice(&[2u8; 32]).unwrap(); let vbf = confidential::ValueBlindingFactor::from_slice(&[3u8; 32]).unwrap();
            let gen = zkp::Generator::new_blinded(secp, asset(3).into_tag(), abf.into_inner());
            let commit = zkp::PedersenCommitment::new(secp, 5, vbf.into_inner(), gen);
            let recv_sk = zkp::SecretKey::from_slice(&[4u8; 32]).unwrap();
            let (nonce, shared) = confidential::Nonce::with_ephemeral_sk(secp, zkp::SecretKey::from_slice(&[5u8; 32]).unwrap(), &zkp::PublicKey::from_secret_key(secp, &recv_sk));
            let spk = Script::from({ let mut s = vec![0x00, 0x14]; s.extend([9u8; 20]); s });
            let msg = elements::RangeProofMessage::new(asset(3), abf).to_byte_array();
            let Ok(rp) = zkp::RangeProof::new(secp, 0, commit, 5, vbf.into_inner(), &msg, spk.as_bytes(), shared, 0, 64, gen) else { return Out::ok("harnesserr proof".into()) };
            let out = TxOut { asset: confidential::Asset::Confidential(gen), value: confidential::Value::Confidential(commit), nonce, script_pubkey: spk, witness: elements::TxOutWitness { surjection_proof: None, rangeproof: Some(Box::new(rp)) } };
            // the proof survives the wire
            let Ok(out) = deserialize::<TxOut>(&serialize(&out)).map(|mut o: TxOut| { o.witness = out.witness.clone(); o }) else { return Out::ok("harnesserr wire".into()) };
            let (_, obs) = guard(|| { let _ = out.unblind(secp, recv_sk); });
            finish("total".into(), &obs, Some((F23, "secp256k1-zkp", "attempt to add with overflow")), None)
        }
        "x-remove" => {
            // F24: remove_input / remove_output decrement the global counters unchecked; the counters are public fields
            if w.len() != 3 { return Out::ok("harnesserr args".into()); }
            let reset = w[2] == "1";
            let mut p = Pset::new_v2();
            p.add_input(pset::Input::from_prevout(OutPoint::new(txid(1), 0)));
            p.add_output(pset::Output::new_explicit(Script::new(), 5, asset(3), None));
            if reset { p.global.tx_data = Default::default(); }       // the counters (private) fall back to 0 while the vectors hold one element each
            let (_, obs) = guard(|| { let mut q = p.clone(); let _ = q.remove_input(0); let mut q = p.clone(); let _ = q.remove_output(0); let mut q = p.clone(); let _ = q.remove_input(7); let _ = q.remove_output(7); });
            // F24 (fixed by 22d9646): no known finding any more; the count must be the number of remaining elements
            let _ = reset;
            let mut out = finish("total".into(), &obs, None, Some(1 << 20));
            if out.pred_fail.is_none() {
                let consistent = guard(|| { let mut q = p.clone(); let a = q.remove_input(0).is_some(); let b = q.remove_output(0).is_some(); a && b && q.n_inputs() == q.inputs().len() && q.n_outputs() == q.outputs().len() }).0;
                if consistent != Some(true) { out.pred_fail = Some("remove-count|after remove_input / remove_output the global counts differ from the number of remaining inputs / outputs".into()); }
            }
            out
        }
        "x-serde-taptree" => {
            // F25: TapTree derives Deserialize without the is_complete test of from_inner; serialising such a tree hits unreachable!()
            if w.len() != 3 { return Out::ok("harnesserr args".into()); }
            let json = match w[2] { "empty" => r#"{"branch":[]}"#, "null" => r#"{"branch":[null]}"#, _ => return Out::ok("harnesserr pattern".into()) };
            let (_, obs) = guard(|| {
                if let Ok(t) = serde_json::from_str::<pset::TapTree>(json) {
                    let mut p = Pset::new_v2();
                    p.add_output(pset::Output::new_explicit(Script::new(), 5, asset(3), None));
                    p.outputs_mut()[0].tap_tree = Some(t);
                    let _ = serialize(&p);
                }
            });
            // F25 (fixed by 5c23a02): no known finding any more
            finish("total".into(), &obs, None, Some(1 << 20))
        }
        "x-cbor-params" => {
            // F26: dynafed's hex-bytes visitor reserves Vec::with_capacity(size_hint) — the CBOR array header is believed
            if w.len() != 3 { return Out::ok("harnesserr args".into()); }
            let Some(b) = unhex_dash(w[2]) else { return Out::ok("harnesserr hex".into()) };
            let huge = b.windows(9).any(|x| x[0] == 0x9b && u64::from_be_bytes(x[1..9].try_into().unwrap()) > (1 << 62));
            let (_, obs) = guard(|| { let _ = serde_cbor::from_slice::<elements::dynafed::Params>(&b); let _ = serde_cbor::from_slice::<BlockHeader>(&b); });
            // F26 (fixed by b1b3ac3): no known finding any more; the allocation predicate applies
            let _ = huge;
            finish("total".into(), &obs, None, Some(small_bound(b.len()) + (1 << 20)))
        }
        "x-cbor-commit" => {
            // F27: Value / Asset Deserialize (non-human-readable formats) reach secp256k1-zkp's own Deserialize for PedersenCommitment /
            // Generator, which calls from_slice on a byte string of any length
            if w.len() != 3 { return Out::ok("harnesserr args".into()); }
            let Some(b) = unhex_dash(w[2]) else { return Out::ok("harnesserr hex".into()) };
            // the commitment byte string inside the CBOR array [2, h'..']
            let blen = if b.len() >= 3 && b[0] == 0x82 && b[1] == 0x02 && (0x40..=0x57).contains(&b[2]) { Some((b[2] - 0x40) as usize) } else if b.len() >= 4 && b[0] == 0x82 && b[1] == 0x02 && b[2] == 0x58 { Some(b[3] as usize) } else { None };
            let (r, obs) = guard(|| (serde_cbor::from_slice::<confidential::Value>(&b).is_ok(), serde_cbor::from_slice::<confidential::Asset>(&b).is_ok()));
            let mut out = finish("total".into(), &obs, None, Some(small_bound(b.len()) + (1 << 20)));
            if out.pred_fail.is_none() { if let (Some((v, a)), Some(l)) = (r, blen) { if (v || a) && l != 33 {
                out.pred_fail = Some(format!("{}|a {}-byte string was deserialized as a 33-byte commitment (secp256k1-zkp's Deserialize calls from_slice without a length test; bytes behind the string were read)", F27, l)); } } }
            out
        }
        "x-ctor" => {
            // every remaining `-> Result/Option` constructor that takes a slice or a string, on one byte string
            use elements::hashes::Hash as _;
            if w.len() != 3 { return Out::ok("harnesserr args".into()); }
            let Some(b) = unhex_dash(w[2]) else { return Out::ok("harnesserr hex".into()) };
            let txt = String::from_utf8_lossy(&b).to_string();
            let (_, obs) = guard(|| {
                // (the hash newtypes of hash_types.rs / taproot.rs / issuance.rs have no fallible slice constructor in this version of `hashes`)
                let _ = (confidential::AssetBlindingFactor::from_slice(&b).is_ok(), confidential::ValueBlindingFactor::from_slice(&b).is_ok(),
                         confidential::AssetBlindingFactor::from_hex(&txt).is_ok(), confidential::ValueBlindingFactor::from_hex(&txt).is_ok());
                let _ = (confidential::Nonce::from_commitment(&b).is_ok(), confidential::Value::from_commitment(&b).is_ok(), confidential::Asset::from_commitment(&b).is_ok());
                let _ = (elements::sighash::Annex::new(&b).is_ok(), elements::SchnorrSig::from_slice(&b).is_ok(), elements::taproot::ControlBlock::from_slice(&b).is_ok(), elements::taproot::TaprootMerkleBranch::from_slice(&b).is_ok());
                let _ = elements::taproot::TaprootMerkleBranch::from_inner(b.chunks(32).filter(|c| c.len() == 32).map(|c| elements::taproot::TapNodeHash::from_byte_array(<[u8; 32]>::try_from(c).unwrap())).collect()).is_ok();
                let _ = (pset::elip100::AssetMetadata::deserialize(&b).is_ok(), pset::elip100::TokenMetadata::deserialize(&b).is_ok());
                let _ = pset::raw::ProprietaryKey::<u8>::from_key(&pset::raw::Key { type_value: b.first().copied().unwrap_or(0xfc), key: b.clone() }).is_ok();
                let _ = pset::raw::ProprietaryKey::<u8>::from_key(&pset::raw::Key { type_value: 0xfc, key: b.clone() }).map(|k| k.to_key());
                let _ = (elements::encode::deserialize_partial::<pset::raw::Pair>(&b).is_ok(), elements::encode::deserialize_partial::<pset::raw::Key>(&b).is_ok(), elements::encode::deserialize_partial::<elements::encode::VarInt>(&b).is_ok(),
                         elements::encode::deserialize_partial::<LockTime>(&b).is_ok(), elements::encode::deserialize_partial::<elements::Sequence>(&b).is_ok(), elements::encode::deserialize_partial::<OutPoint>(&b).is_ok(),
                         elements::encode::deserialize::<elements::locktime::Height>(&b).is_ok(), elements::encode::deserialize::<elements::locktime::Time>(&b).is_ok(),
                         elements::encode::deserialize::<elements::AssetIssuance>(&b).is_ok(), elements::encode::deserialize::<elements::TxInWitness>(&b).is_ok(), elements::encode::deserialize::<elements::TxOutWitness>(&b).is_ok());
                let _ = (Script::from_hex_no_prefix(&txt).is_ok(), elements::locktime::Height::from_str(&txt).is_ok(), elements::locktime::Time::from_str(&txt).is_ok(),
                         elements::issuance::AssetEntropy::from_str(&txt).is_ok(), elements::taproot::TapLeafHash::from_str(&txt).is_ok());
                let s = Script::from(b.clone());
                let _ = (elements::script::read_scriptint(&b).is_ok(), elements::script::read_scriptbool(&b));
                for i in s.instructions() { match i { Ok(ins) => { let _ = (ins.op(), ins.push_bytes()); } Err(_) => break } }
                let mut p = Pset::new_v2();
                p.add_input(pset::Input::from_prevout(OutPoint::new(txid(1), 0)));
                p.add_output(pset::Output::new_explicit(Script::new(), 5, asset(3), None));
                p.global.proprietary.insert(pset::raw::ProprietaryKey::from_pset_pair(0x00, b.clone()), b.clone());
                p.inputs_mut()[0].proprietary.insert(pset::raw::ProprietaryKey::from_pset_pair(pset_abf_subtype(), vec![]), b.clone());
                p.outputs_mut()[0].proprietary.insert(pset::raw::ProprietaryKey::from_pset_pair(pset_abf_subtype(), vec![]), b.clone());
                let _ = (p.inputs()[0].get_abf().map(|r| r.is_ok()), p.outputs()[0].get_abf().map(|r| r.is_ok()), p.get_asset_metadata(asset(3)).map(|r| r.is_ok()), p.get_token_metadata(asset(3)).map(|r| r.is_ok()));
                let _ = (p.remove_input(b.len()), p.remove_output(b.len()), p.remove_input(0), p.remove_output(0));
            });
            finish("total".into(), &obs, None, Some(elements::encode::MAX_VEC_SIZE as u64 * 2 + 4096 * b.len() as u64 + (1 << 20)))
        }
        "x-text" => {
            if w.len() != 3 { return Out::ok("harnesserr args".into()); }
            let Some(s) = unhex_dash(w[2]).and_then(|b| String::from_utf8(b).ok()) else { return Out::ok("harnesserr utf8".into()) };
            let (_, obs) = guard(|| {
                if let Ok(sc) = Script::from_hex(&s) { script_accessors(&sc); }
                let _ = elements::OutPoint::from_str(&s);
                let _ = elements::AssetId::from_str(&s);
                let _ = elements::Txid::from_str(&s);
                let _ = elements::LockTime::from_str(&s);
                let _ = elements::Sequence::from_str(&s);
                let _ = elements::SchnorrSighashType::from_str(&s);
                let _ = elements::EcdsaSighashType::from_str(&s);
                let _ = elements::confidential::AssetBlindingFactor::from_str(&s);
                let _ = elements::confidential::ValueBlindingFactor::from_str(&s);
                let _ = elements::issuance::ContractHash::from_str(&s);
                let _ = elements::Address::from_str(&s);
                let _ = Pset::from_str(&s);
                let _ = serde_json::from_str::<Transaction>(&s);
                let _ = serde_json::from_str::<elements::taproot::TaprootBuilder>(&s).map(|b| { let _ = b.is_complete(); });
                let _ = elements::issuance::ContractHash::from_json_contract(&s);
            });
            finish("total".into(), &obs, None, Some(3 * elements::encode::MAX_VEC_SIZE as u64 + 4_000_000 + 4096 * s.len() as u64))
        }
        _ => Out::ok("harnesserr kind".into()),
    }
}

pub fn eval(case: &str) -> Out {
    set_emergency(case);
    if std::env::var_os("C10_TRACE").is_some() { eprintln!("{}", &case[..case.len().min(3000)]); }
    let w: Vec<&str> = case.split(' ').collect();
    let kind = w.get(1).copied().unwrap_or("");
    match kind {
        "dec" => eval_dec(&w),
        "varint" | "vecu8" | "vecvec" | "key" => eval_lowlevel(kind, &w),
        "script" if w.len() == 3 => {
            let b = unhex_dash(w[2]).unwrap_or_default();
            eval_via(format!("C16 script {}", w[2]), || script_accessors(&Script::from(b.clone())), b.len(), crate::c16::eval)
        }
        "rint" if w.len() == 3 => eval_via(format!("C16 rint {}", w[2]), || {}, w[2].len(), crate::c16::eval),
        "addr" if w.len() == 3 => {
            let Some(s) = unhex_dash(w[2]).and_then(|b| String::from_utf8(b).ok()) else { return Out::ok("harnesserr utf8".into()) };
            if s.contains(' ') || s.is_empty() { return Out::ok("harnesserr space".into()); }
            let (r, obs) = guard(|| crate::addr::show_four(&crate::addr::four(&s)));
            finish(r.unwrap_or_else(|| "panic".into()), &obs, None, Some(4 * small_bound(s.len())))
        }
        "hrp" => eval_hrp(&w),
        "cb" | "branch" | "ssig" => eval_slices(kind, &w),
        "builder" => eval_builder(&w),
        "sbuilder" => eval_sbuilder(&w),
        "xpub" => eval_xpub(&w),
        "blindsel" => eval_blindsel(&w),
        "locktime" => eval_locktime(&w),
        "pegin" => eval_pegin(&w),
        "pegout" => eval_pegout(&w),
        "minval" => eval_minval(&w),
        "psetval" => eval_psetval(&w),
        "tapidx" => eval_tapidx(&w),
        "fees" => eval_fees(&w),
        "ruint" => eval_ruint(&w),
        "ctor" => eval_ctor(&w),
        "commit" => eval_commit(&w),
        k if k.starts_with("x-") => {
            // PSET decoding can crash the process (F18): evaluate in a child
            let class = w[2..].iter().any(|h| { let raw = unhex_dash(h).unwrap_or_default(); pset_short_commitment(&raw) || {
                use elements::bitcoin::base64::prelude::{Engine as _, BASE64_STANDARD};
                std::str::from_utf8(&raw).ok().and_then(|t| BASE64_STANDARD.decode(t).ok()).map(|d| pset_short_commitment(&d)).unwrap_or(false) } });
            match isolated(case, eval_explore_case) {
                Ok(mut o) => { if class && o.pred_fail.is_none() && o.result == "total+" { o.pred_fail = Some(format!("{}|a PSET whose commitment field is not 33 bytes long was accepted (the bytes behind the slice were read)", F18)); } if o.result == "total+" { o.result = "total".into(); } o }
                Err(sig) => crash_out(sig, class),
            }
        }
        _ => Out::ok("harnesserr kind".into()),
    }
}

include!("c10_gen.rs");
