//! C13: one live `SighashCache` driven by an operation sequence, compared with the model and — on the implementation
//! itself — with a fresh cache per operation; `Prevouts::One` versus `Prevouts::All`.
use crate::{c01::caps, txgen::*, util::*, Case, Out};
use elements::confidential::Value;
use elements::encode::{deserialize, serialize};
use elements::hashes::Hash;
use elements::sighash::{Annex, Error, Prevouts, SighashCache};
use elements::taproot::TapLeafHash;
use elements::{BlockHash, EcdsaSighashType, SchnorrSighashType, Script, Transaction, TxOut};
use rand::Rng;
use rand_chacha::ChaCha20Rng;
use std::panic::{catch_unwind, AssertUnwindSafe};

#[derive(Clone, Debug)]
/// AllN(n): `Prevouts::All` of the first n entries of spent ++ spent, i.e. a prevout list of the WRONG length (rejected with PrevoutsSize)
pub enum Pv { All, One(usize), OneX(usize, TxOut), AllN(usize) }
#[derive(Clone, Debug)]
pub enum Op {
    Legacy(usize, u32, Vec<u8>),
    Segwit(usize, u32, Vec<u8>, Value),
    Taproot(usize, u8, Pv, Option<Vec<u8>>, Option<([u8; 32], u32)>),
    Key(usize, u8, Pv),
    ScriptSpend(usize, u8, Pv, [u8; 32]),
    /// taproot_script_spend_signature_hash with a `ScriptPath::with_defaults(script)`: the library computes the leaf hash (TapLeafHash::from_script)
    /// … or with `ScriptPath::new(script, code_separator_pos, LeafVersion::from_u8(ver))` (last two fields; defaults 0xc4 / 0xffffffff)
    ScriptPathSpend(usize, u8, Pv, Vec<u8>, u8, u32),
    Wit(usize, Vec<Vec<u8>>),
}

pub fn ecdsa(n: u32) -> Option<EcdsaSighashType> { EcdsaSighashType::from_standard(n).ok() }
pub fn schnorr(n: u8) -> Option<SchnorrSighashType> { if n == 0xff { Some(SchnorrSighashType::Reserved) } else { SchnorrSighashType::from_u8(n) } }
pub fn schnorr_acp(t: SchnorrSighashType) -> bool { t.split_anyonecanpay_flag().1 }

pub fn show_err(e: &Error) -> String {
    match e {
        Error::IndexOutOfInputsBounds { index, inputs_size } => format!("err:index/{}/{}", index, inputs_size),
        Error::SingleWithoutCorrespondingOutput { index, outputs_size } => format!("err:single/{}/{}", index, outputs_size),
        Error::PrevoutsSize => "err:prevouts_size".into(),
        Error::PrevoutIndex => "err:prevout_index".into(),
        Error::PrevoutKind => "err:prevout_kind".into(),
        Error::WrongAnnex => "err:wrong_annex".into(),
        Error::Encode(_) => "err:encode".into(),
        Error::InvalidSighashType(_) => "err:invalid_sighash_type".into(),
    }
}
fn hx(b: &[u8]) -> String { if b.is_empty() { "-".into() } else { hex(b) } }

pub fn show_pv(p: &Pv) -> String {
    match p { Pv::All => "all:-".into(), Pv::AllN(n) => format!("all:{}", n), Pv::One(j) => format!("one:{}", j), Pv::OneX(j, o) => format!("onex:{}={}", j, hex(&serialize(o))) }
}
pub fn show_op(o: &Op) -> String {
    match o {
        Op::Legacy(i, t, s) => format!("L:{}:{}:{}", i, t, hx(s)),
        Op::Segwit(i, t, s, v) => format!("S:{}:{}:{}:{}", i, t, hx(s), hex(&serialize(v))),
        Op::Taproot(i, t, p, a, l) => format!("T:{}:{}:{}:{}:{}", i, t, show_pv(p),
            match a { None => "-".to_string(), Some(b) => format!("x{}", hex(b)) },
            match l { None => "-:0".to_string(), Some((h, pos)) => format!("{}:{}", hex(h), pos) }),
        Op::Key(i, t, p) => format!("K:{}:{}:{}", i, t, show_pv(p)),
        Op::ScriptSpend(i, t, p, h) => format!("P:{}:{}:{}:{}", i, t, show_pv(p), hex(h)),
        Op::ScriptPathSpend(i, t, p, sc, 0xc4, 0xffff_ffff) => format!("Q:{}:{}:{}:{}", i, t, show_pv(p), hx(sc)),
        Op::ScriptPathSpend(i, t, p, sc, v, pos) => format!("Q:{}:{}:{}:{}:{}:{}", i, t, show_pv(p), hx(sc), v, pos),
        Op::Wit(i, st) => format!("W:{}:{}", i, hex(&serialize(st))),
    }
}
pub fn parse_pv(k: &str, a: &str, spent: &[TxOut]) -> Option<Pv> {
    match k {
        "all" => if a == "-" { Some(Pv::All) } else { let n: usize = a.parse().ok()?; if n <= 2 * spent.len() { Some(Pv::AllN(n)) } else { None } },
        "one" => { let j: usize = a.parse().ok()?; if j < spent.len() { Some(Pv::One(j)) } else { None } }
        "onex" => { let (j, h) = a.split_once('=')?; Some(Pv::OneX(j.parse().ok()?, deserialize(&unhex(h)?).ok()?)) }
        _ => None,
    }
}
fn ux(s: &str) -> Option<Vec<u8>> { if s == "-" { Some(vec![]) } else { unhex(s) } }
pub fn parse_op(s: &str, spent: &[TxOut]) -> Option<Op> {
    let f: Vec<&str> = s.split(':').collect();
    match (f[0], f.len()) {
        ("L", 4) => Some(Op::Legacy(f[1].parse().ok()?, f[2].parse().ok()?, ux(f[3])?)),
        ("S", 5) => Some(Op::Segwit(f[1].parse().ok()?, f[2].parse().ok()?, ux(f[3])?, deserialize(&unhex(f[4])?).ok()?)),
        ("K", 5) => Some(Op::Key(f[1].parse().ok()?, f[2].parse().ok()?, parse_pv(f[3], f[4], spent)?)),
        ("Q", 6) => Some(Op::ScriptPathSpend(f[1].parse().ok()?, f[2].parse().ok()?, parse_pv(f[3], f[4], spent)?, ux(f[5])?, 0xc4, 0xffff_ffff)),
        ("Q", 8) => Some(Op::ScriptPathSpend(f[1].parse().ok()?, f[2].parse().ok()?, parse_pv(f[3], f[4], spent)?, ux(f[5])?, f[6].parse().ok()?, f[7].parse().ok()?)),
        ("P", 6) => Some(Op::ScriptSpend(f[1].parse().ok()?, f[2].parse().ok()?, parse_pv(f[3], f[4], spent)?, <[u8; 32]>::try_from(&unhex(f[5])?[..]).ok()?)),
        ("T", 8) => {
            let annex = if f[5] == "-" { None } else { Some(unhex(f[5].strip_prefix('x')?)?) };
            let leaf = if f[6] == "-" { None } else { Some((<[u8; 32]>::try_from(&unhex(f[6])?[..]).ok()?, f[7].parse().ok()?)) };
            Some(Op::Taproot(f[1].parse().ok()?, f[2].parse().ok()?, parse_pv(f[3], f[4], spent)?, annex, leaf))
        }
        ("W", 3) => Some(Op::Wit(f[1].parse().ok()?, deserialize(&unhex(f[2])?).ok()?)),
        _ => None,
    }
}

fn with_pv<R>(p: &Pv, spent: &[TxOut], f: impl FnOnce(&Prevouts<TxOut>) -> R) -> R {
    match p {
        Pv::All => f(&Prevouts::All(spent)),
        Pv::AllN(n) => { let v: Vec<TxOut> = spent.iter().chain(spent.iter()).take(*n).cloned().collect(); f(&Prevouts::All(&v)) }
        Pv::One(j) => f(&Prevouts::One(*j, spent[*j].clone())),
        Pv::OneX(j, o) => f(&Prevouts::One(*j, o.clone())),
    }
}
fn tap_res(r: Result<elements::taproot::TapSighashHash, Error>) -> String {
    match r { Ok(h) => format!("ok:{}", hex(&h.to_byte_array())), Err(e) => show_err(&e) }
}
/// one query against a cache (any `Deref<Target = Transaction>`); the string is the canonical answer
pub fn query<R: std::ops::Deref<Target = Transaction>>(c: &mut SighashCache<R>, op: &Op, spent: &[TxOut], genesis: BlockHash) -> String {
    let r = catch_unwind(AssertUnwindSafe(|| match op {
        Op::Legacy(i, t, s) => match ecdsa(*t) { Some(t) => format!("ok:{}", hex(&c.legacy_sighash(*i, &Script::from(s.clone()), t).to_byte_array())), None => "harnesserr ty".into() },
        Op::Segwit(i, t, s, v) => match ecdsa(*t) { Some(t) => format!("ok:{}", hex(&c.segwitv0_sighash(*i, &Script::from(s.clone()), *v, t).to_byte_array())), None => "harnesserr ty".into() },
        Op::Taproot(i, t, p, a, l) => match schnorr(*t) {
            Some(t) => {
                let annex = match a { None => None, Some(b) => match Annex::new(b) { Ok(x) => Some(x), Err(e) => return show_err(&e) } };
                let leaf = l.map(|(h, pos)| (TapLeafHash::from_byte_array(h), pos));
                with_pv(p, spent, |pv| tap_res(c.taproot_sighash(*i, pv, annex, leaf, t, genesis)))
            }
            None => "harnesserr ty".into() },
        Op::Key(i, t, p) => match schnorr(*t) { Some(t) => with_pv(p, spent, |pv| tap_res(c.taproot_key_spend_signature_hash(*i, pv, t, genesis))), None => "harnesserr ty".into() },
        Op::ScriptPathSpend(i, t, p, sc, v, pos) => match (schnorr(*t), elements::taproot::LeafVersion::from_u8(*v)) { (Some(t), Ok(lv)) => { let script = Script::from(sc.clone());
            let sp = if *v == 0xc4 && *pos == 0xffff_ffff { elements::sighash::ScriptPath::with_defaults(&script) } else { elements::sighash::ScriptPath::new(&script, *pos, lv) };
            with_pv(p, spent, |pv| tap_res(c.taproot_script_spend_signature_hash(*i, pv, sp, t, genesis))) } _ => "harnesserr ty".into() },
        Op::ScriptSpend(i, t, p, h) => match schnorr(*t) { Some(t) => with_pv(p, spent, |pv| tap_res(c.taproot_script_spend_signature_hash(*i, pv, TapLeafHash::from_byte_array(*h), t, genesis))), None => "harnesserr ty".into() },
        Op::Wit(..) => "harnesserr wit".into(),
    }));
    r.unwrap_or_else(|_| "panic".into())
}
fn op_pv(op: &Op) -> Option<(usize, u8, &Pv)> {
    match op { Op::Taproot(i, t, p, _, _) => Some((*i, *t, p)), Op::Key(i, t, p) => Some((*i, *t, p)), Op::ScriptPathSpend(i, t, p, _, _, _) => Some((*i, *t, p)), Op::ScriptSpend(i, t, p, _) => Some((*i, *t, p)), _ => None }
}
fn with_one(op: &Op, j: usize) -> Op {
    match op.clone() { Op::Taproot(i, t, _, a, l) => Op::Taproot(i, t, Pv::One(j), a, l), Op::Key(i, t, _) => Op::Key(i, t, Pv::One(j)), Op::ScriptPathSpend(i, t, _, sc, v, pos) => Op::ScriptPathSpend(i, t, Pv::One(j), sc, v, pos), Op::ScriptSpend(i, t, _, h) => Op::ScriptSpend(i, t, Pv::One(j), h), o => o }
}


pub fn eval(case: &str) -> Out {
    let w: Vec<&str> = case.split(' ').collect();
    if w.len() != 7 { return Out::ok("harnesserr args".into()); }
    let mut tx: Transaction = match unhex(w[3]).and_then(|b| deserialize(&b).ok()) { Some(t) => t, None => return Out::ok("harnesserr tx".into()) };
    let spent: Vec<TxOut> = match unhexlist(w[4]).and_then(|l| l.iter().map(|b| deserialize::<TxOut>(b).ok()).collect::<Option<Vec<_>>>()) { Some(s) => s, None => return Out::ok("harnesserr spent".into()) };
    let genesis = match unhex(w[5]).and_then(|b| <[u8; 32]>::try_from(&b[..]).ok()) { Some(g) => BlockHash::from_byte_array(g), None => return Out::ok("harnesserr genesis".into()) };
    let ops: Vec<Op> = match w[6].split(';').map(|s| parse_op(s, &spent)).collect::<Option<Vec<_>>>() { Some(o) => o, None => return Out::ok("harnesserr ops".into()) };
    let orig = tx.clone();                  // the transaction before any witness_mut
    let mut shadow = tx.clone();            // the transaction as the caller has left it (the live cache holds `&mut tx`)
    let mut cache = SighashCache::new(&mut tx);
    let mut answers = Vec::new();
    let mut fails: Vec<String> = Vec::new();
    for (k, op) in ops.iter().enumerate() {
        if let Op::Wit(i, st) = op {
            let live = match cache.witness_mut(*i) { Some(w) => { *w = st.clone(); true } None => false };
            if let Some(inp) = shadow.input.get_mut(*i) { inp.witness.script_witness = st.clone(); }
            answers.push(if live { "w1".to_string() } else { "w0".to_string() });
            continue;
        }
        let live = query(&mut cache, op, &spent, genesis);
        // (1) the property: the same answer as a cache created for this operation alone
        let fresh = query(&mut SighashCache::new(&shadow), op, &spent, genesis);
        if live != fresh { fails.push(format!("stale-cache|op {} ({}) answered {} by the live cache, {} by a fresh cache", k, show_op(op), live, fresh)); }
        // (1b) filling in script witnesses through the cache never changes an answer: the same as a fresh cache over the ORIGINAL transaction
        let fresh0 = query(&mut SighashCache::new(&orig), op, &spent, genesis);
        if live != fresh0 { fails.push(format!("witness-dependent|op {} ({}) answered {} after the witness updates so far, {} by a fresh cache over the transaction before any witness_mut", k, show_op(op), live, fresh0)); }
        if let Some((i, t, pv)) = op_pv(op) {
            if let Some(t) = schnorr(t) {
                match pv {
                    // (2) ANYONECANPAY: One(i, spent[i]) must give what All gives
                    Pv::All if schnorr_acp(t) && i < spent.len() && spent.len() == shadow.input.len() => {
                        let one = query(&mut SighashCache::new(&shadow), &with_one(op, i), &spent, genesis);
                        // (this is where finding F11, repaired by 539d5ee, would return: ALL|ANYONECANPAY + One -> PrevoutKind)
                        if one != fresh {
                            fails.push(format!("acp-one-differs|op {} ({}): Prevouts::One gives {}, Prevouts::All gives {}", k, show_op(op), one, fresh));
                        }
                    }
                    // (3) not ANYONECANPAY: One must be reported as PrevoutKind
                    Pv::One(_) | Pv::OneX(..) if !schnorr_acp(t) => {
                        let annex_bad = matches!(op, Op::Taproot(_, _, _, Some(a), _) if a.first() != Some(&0x50));
                        if live != "err:prevout_kind" && !annex_bad { fails.push(format!("one-accepted-without-acp|op {} ({}) answered {}", k, show_op(op), live)); }
                    }
                    _ => {}
                }
            }
        }
        answers.push(live);
    }
    let pred_fail = fails.first().cloned();
    Out { result: answers.join(";"), pred_fail }
}

pub const ECDSA_TYPES: [u32; 6] = [1, 2, 3, 0x81, 0x82, 0x83];
pub const SCHNORR_TYPES: [u8; 7] = [0, 1, 2, 3, 0x81, 0x82, 0x83];

pub fn rannex(rng: &mut ChaCha20Rng, tags: &mut Vec<String>) -> Option<Vec<u8>> {
    match rng.gen_range(0..20) {
        0..=10 => None,
        11..=17 => { tags.push("annex".into()); let n = pk!(rng, [0usize, 1, 31, 252, 253, 300]); let mut a = vec![0x50u8]; a.extend(rbytes(rng, n)); Some(a) }
        18 => { tags.push("annex:empty".into()); Some(vec![]) }
        _ => { tags.push("annex:wrong-prefix".into()); Some(vec![0x51, 1, 2]) }
    }
}
pub fn ridx(rng: &mut ChaCha20Rng, nin: usize, nout: usize, tags: &mut Vec<String>) -> usize {
    match rng.gen_range(0..12) {
        0 => { tags.push("idx:>=inputs".into()); nin + rng.gen_range(0..3) }
        1 if nout < nin => { tags.push("idx:>=outputs".into()); rng.gen_range(nout..nin) }
        _ => if nin == 0 { 0 } else { rng.gen_range(0..nin) },
    }
}
fn rpv(rng: &mut ChaCha20Rng, idx: usize, spent: &[TxOut], tags: &mut Vec<String>) -> Pv {
    match rng.gen_range(0..20) {
        0..=10 => { tags.push("pv:all".into()); Pv::All }
        11..=15 if idx < spent.len() => { tags.push("pv:one".into()); Pv::One(idx) }
        16 if !spent.is_empty() => { tags.push("pv:one-other-index".into()); Pv::One(rng.gen_range(0..spent.len())) }
        17 | 18 => { tags.push("pv:one-foreign-output".into()); Pv::OneX(idx, rtxout(rng, Feat { big: false, no_witness: true }, &mut vec![])) }
        19 if !spent.is_empty() => { tags.push("pv:all-wrong-length".into()); Pv::AllN(pk!(rng, [spent.len() - 1, spent.len() + 1, 0, 2 * spent.len()])) }
        _ => { tags.push("pv:all".into()); Pv::All }
    }
}
pub fn rop(rng: &mut ChaCha20Rng, nin: usize, nout: usize, spent: &[TxOut], tags: &mut Vec<String>) -> Op {
    let idx = ridx(rng, nin, nout, tags);
    match rng.gen_range(0..20) {
        0..=2 => { let t = *pick(rng, &ECDSA_TYPES); tags.push(format!("L:{:02x}", t)); Op::Legacy(idx, t, rscript(rng, false).into_bytes()) }
        3..=7 => { let t = *pick(rng, &ECDSA_TYPES); tags.push(format!("S:{:02x}", t)); Op::Segwit(idx, t, rscript(rng, false).into_bytes(), rvalue(rng, true)) }
        8..=12 => { let t = *pick(rng, &SCHNORR_TYPES); tags.push(format!("T:{:02x}", t)); let pv = rpv(rng, idx, spent, tags);
                    let leaf = if rng.gen_range(0..2) == 0 { tags.push("scriptpath".into()); Some((r32(rng), pk!(rng, [0xffff_ffffu32, 0, 7, rng.gen()]))) } else { None };
                    Op::Taproot(idx, t, pv, rannex(rng, tags), leaf) }
        13 | 14 => { let t = *pick(rng, &SCHNORR_TYPES); tags.push(format!("K:{:02x}", t)); Op::Key(idx, t, rpv(rng, idx, spent, tags)) }
        15 => { let t = *pick(rng, &SCHNORR_TYPES); tags.push(format!("Q:{:02x}", t)); let sc = rleafscript(rng, false, tags); let (v, pos) = rleafver(rng, tags); Op::ScriptPathSpend(idx, t, rpv(rng, idx, spent, tags), sc, v, pos) }
        16 => { let t = *pick(rng, &SCHNORR_TYPES); tags.push(format!("P:{:02x}", t)); Op::ScriptSpend(idx, t, rpv(rng, idx, spent, tags), r32(rng)) }
        _ => { tags.push("W".into()); Op::Wit(if rng.gen_range(0..8) == 0 { nin + 1 } else if nin == 0 { 0 } else { rng.gen_range(0..nin) }, rstack(rng, false)) }
    }
}
/// a leaf script whose length sits on a compact-size boundary (the library computes the leaf hash from it)
/// leaf version and code-separator position of a `ScriptPath`: the defaults half of the time, else `ScriptPath::new` with another even version
pub fn rleafver(rng: &mut ChaCha20Rng, tags: &mut Vec<String>) -> (u8, u32) {
    if rng.gen_range(0..2) == 0 { tags.push("leafver:default".into()); (0xc4, 0xffff_ffff) }
    else { let v = pk!(rng, [0xc0u8, 0xc2, 0xc4, 0xc6, 0xfe, 0x66, 0x00, 0x02, 0x7e]); tags.push(format!("leafver:{:02x}", v)); (v, pk!(rng, [0xffff_ffffu32, 0, 1, 7])) }
}
/// TapLeafHash computed from the definition (tagged hash "TapLeaf/elements" of version || compact size || script), not through the library's helper
pub fn leaf_hash_def(ver: u8, script: &[u8]) -> [u8; 32] {
    use elements::hashes::{sha256, Hash, HashEngine};
    let t = sha256::Hash::hash(b"TapLeaf/elements").to_byte_array();
    let mut e = sha256::Hash::engine();
    e.input(&t); e.input(&t); e.input(&[ver]);
    let n = script.len() as u64;
    if n < 253 { e.input(&[n as u8]); } else if n <= 0xffff { e.input(&[0xfd]); e.input(&(n as u16).to_le_bytes()); } else if n <= 0xffff_ffff { e.input(&[0xfe]); e.input(&(n as u32).to_le_bytes()); } else { e.input(&[0xff]); e.input(&n.to_le_bytes()); }
    e.input(script);
    sha256::Hash::from_engine(e).to_byte_array()
}
pub fn rleafscript(rng: &mut ChaCha20Rng, big: bool, tags: &mut Vec<String>) -> Vec<u8> {
    let n = if big && rng.gen_range(0..4) == 0 { pk!(rng, [65535usize, 65536]) } else { pk!(rng, [0usize, 1, 34, 252, 253, 254, 255, 256, 300]) };
    tags.push(format!("leafscript:{}", match n { 0..=252 => "<253", 253..=65535 => "253..65535", _ => ">=65536" }));
    rbytes(rng, n)
}
/// issuance range proofs on inputs that carry NO issuance (the witness fields exist independently of the issuance)
pub fn stray_rangeproofs(rng: &mut ChaCha20Rng, tx: &mut Transaction, tags: &mut Vec<String>) {
    let plain: Vec<usize> = (0..tx.input.len()).filter(|&i| !tx.input[i].has_issuance()).collect();
    if plain.is_empty() { return; }
    for _ in 0..rng.gen_range(1..=2) {
        let i = plain[rng.gen_range(0..plain.len())];
        match rng.gen_range(0..3) {
            0 => { tx.input[i].witness.amount_rangeproof = Some(rrangeproof(rng)); tags.push("stray:amount_rp".into()); }
            1 => { tx.input[i].witness.inflation_keys_rangeproof = Some(rrangeproof(rng)); tags.push("stray:keys_rp".into()); }
            _ => { tx.input[i].witness.amount_rangeproof = Some(rrangeproof(rng)); tx.input[i].witness.inflation_keys_rangeproof = Some(rrangeproof(rng)); tags.push("stray:both_rp".into()); }
        }
    }
}
/// a transaction for the sighash properties: 1..5 inputs (rarely 0), 0..5 outputs, all input/output kinds of txgen
pub fn rsigtx(rng: &mut ChaCha20Rng, tags: &mut Vec<String>) -> Transaction {
    let mut tx = rtx(rng, Feat { big: false, no_witness: false }, tags);
    let nin = pk!(rng, [1usize, 1, 2, 2, 3, 4, 5]);
    while tx.input.len() < nin { tx.input.push(rtxin(rng, Feat::default(), tags)); }
    tx.input.truncate(nin);
    if tx.output.len() > 5 { tx.output.truncate(5); }
    if rng.gen_range(0..3) == 0 { stray_rangeproofs(rng, &mut tx, tags); }
    tx
}
pub fn interesting(tx: &Transaction) -> bool {
    tx.input.len() >= 2 || tx.input.iter().any(|i| i.is_pegin || i.has_issuance()) || tx.output.iter().any(|o| o.value.is_confidential() || o.asset.is_confidential())
}
pub fn mk_case(tx: &Transaction, spent: &[TxOut], genesis: [u8; 32], ops: &[Op], tags: Vec<String>, nontrivial: bool) -> Case {
    let txb = serialize(tx);
    let mut all = txb.clone();
    for o in spent { all.extend(serialize(o)); }
    for op in ops {
        all.push(0);
        match op { Op::Segwit(_, _, _, v) => all.extend(serialize(v)), _ => {} }
        if let Some((_, _, Pv::OneX(_, o))) = op_pv(op) { all.extend(serialize(o)); }
    }
    let pts = valid_points(&all);
    Case { text: format!("C13 {} {} {} {} {} {}", caps(), hexlist(&pts), hex(&txb), hexlist(&spent.iter().map(serialize).collect::<Vec<_>>()), hex(&genesis),
                         ops.iter().map(show_op).collect::<Vec<_>>().join(";")), tags, nontrivial }
}

pub fn gen(rng: &mut ChaCha20Rng, n: usize, thorough: bool) -> Vec<Case> {
    let mut out = Vec::new();
    let maxops = if thorough { 40 } else { 16 };
    for k in 0..n {
        let mut tags = vec![];
        let tx = rsigtx(rng, &mut tags);
        let (nin, nout) = (tx.input.len(), tx.output.len());
        let ns = match rng.gen_range(0..12) { 0 => { tags.push("spent:wrong-length".into()); nin + 1 } 1 if nin > 0 => { tags.push("spent:wrong-length".into()); nin - 1 } _ => nin };
        let spent: Vec<TxOut> = (0..ns).map(|_| rtxout(rng, Feat { big: false, no_witness: true }, &mut vec![])).collect();
        let nops = if k % 5 == 0 { rng.gen_range(maxops / 2..=maxops) } else { rng.gen_range(1..=8) };
        let mut ops: Vec<Op> = Vec::new();
        for _ in 0..nops {
            if !ops.is_empty() && rng.gen_range(0..5) == 0 { let j = rng.gen_range(0..ops.len()); let o = ops[j].clone(); tags.push("repeat".into()); ops.push(o); }
            else { ops.push(rop(rng, nin, nout, &spent, &mut tags)); }
        }
        // interleave: an ANYONECANPAY taproot query on an issuance (else pegin, else any) input, witness_mut on that same input, the query again
        if k % 3 == 1 && nin > 0 {
            let pick = |f: &dyn Fn(&elements::TxIn) -> bool| tx.input.iter().position(|i| f(i));
            let (i, kind) = match pick(&|i| i.has_issuance()) { Some(i) => (i, "issuance"), None => match pick(&|i| i.is_pegin) { Some(i) => (i, "pegin"), None => (rng.gen_range(0..nin), "plain") } };
            tags.push(format!("targeted:acp-witness-mut-{}", kind));
            let t = pk!(rng, [0x81u8, 0x82, 0x83]);
            let pv = if i < spent.len() && rng.gen_range(0..2) == 0 { Pv::One(i) } else { Pv::All };
            let q = if rng.gen_range(0..2) == 0 { Op::Key(i, t, pv) } else { Op::Taproot(i, t, pv, rannex(rng, &mut tags), None) };
            let at = rng.gen_range(0..=ops.len());
            let mut stack = rstack(rng, false); stack.push(vec![0xab, 0xcd]);
            ops.splice(at..at, [q.clone(), Op::Wit(i, stack), q.clone(), Op::Segwit(i, 0x81, vec![0x51], Value::Explicit(1)), Op::Wit(i, vec![]), q]);
        }
        let nops = ops.len();
        tags.push(format!("ops:{}", match nops { 1 => "1", 2..=4 => "2-4", 5..=8 => "5-8", 9..=20 => "9-20", _ => "21+" }));
        tags.push(format!("inputs:{}", nin));
        tags.sort(); tags.dedup();
        let nt = interesting(&tx) && ops.len() >= 2;
        out.push(mk_case(&tx, &spent, r32(rng), &ops, tags, nt));
    }
    // targeted: every taproot type x {All, One} on one two-input transaction, after a segwit query filled the common cache
    let mut tags = vec!["targeted:one-vs-all".to_string()];
    let tx = loop { let t = rsigtx(rng, &mut tags); if t.input.len() >= 2 { break t; } };
    let spent: Vec<TxOut> = (0..tx.input.len()).map(|_| rtxout(rng, Feat { big: false, no_witness: true }, &mut vec![])).collect();
    let mut ops = vec![Op::Segwit(0, 1, vec![0x51], Value::Explicit(5))];
    for t in SCHNORR_TYPES { for pv in [Pv::One(1), Pv::All, Pv::One(1)] { ops.push(Op::Key(1, t, pv)); } }
    out.push(mk_case(&tx, &spent, r32(rng), &ops, tags, true));
    // targeted: a REJECTED query as the very first use of the cache (each kind of rejection), then every taproot type with Prevouts::All
    // and the other entry points: a failed call must not leave anything behind that a later answer depends on
    let nin = tx.input.len();
    let rejected: Vec<(&str, Op)> = vec![
        ("all-too-short", Op::Key(0, 0, Pv::AllN(nin - 1))), ("all-too-long", Op::Key(0, 1, Pv::AllN(nin + 1))), ("all-empty", Op::Key(1, 2, Pv::AllN(0))),
        ("all-too-short-acp", Op::Key(0, 0x81, Pv::AllN(nin - 1))), ("all-too-short-scriptpath", Op::ScriptSpend(1, 0, Pv::AllN(nin - 1), r32(rng))),
        ("index-out-of-range", Op::Key(nin, 0, Pv::All)), ("index-out-of-range-acp", Op::Key(nin + 1, 0x83, Pv::All)),
        ("single-without-output", Op::Key(nin - 1, 3, Pv::All)), ("one-without-acp", Op::Key(1, 0, Pv::One(1))), ("one-other-index-acp", Op::Key(1, 0x81, Pv::One(0))),
        ("wrong-annex", Op::Taproot(0, 0, Pv::All, Some(vec![0x51, 1]), None)), ("reserved-type", Op::Taproot(0, 0xff, Pv::All, None, None)),
        ("legacy-out-of-range", Op::Legacy(nin, 1, vec![0x51])), ("segwit-out-of-range", Op::Segwit(nin, 1, vec![0x51], Value::Explicit(1))),
    ];
    for (name, first) in rejected {
        let tags = vec![format!("targeted:rejected-first:{}", name)];
        let mut ops = vec![first.clone()];
        for t in SCHNORR_TYPES { ops.push(Op::Key(0, t, Pv::All)); ops.push(Op::Key(1, t, if t >= 0x81 { Pv::One(1) } else { Pv::All })); }
        ops.push(first);
        ops.push(Op::Segwit(0, 1, vec![0x51], Value::Explicit(5))); ops.push(Op::Segwit(1, 0x83, vec![0x52], Value::Explicit(6))); ops.push(Op::Legacy(1, 1, vec![0x51]));
        ops.push(Op::ScriptSpend(1, 1, Pv::All, r32(rng)));
        out.push(mk_case(&tx, &spent, r32(rng), &ops, tags, true));
    }
    out
}
