//! C06: addresses round-trip through text, are canonical, and name exactly one network.
//! Case kinds:  `C06 a <net> <pkh|sh|wp<ver>> <payload hex> <blinder hex|->`   Display, then every parser on the text
//!              `C06 s <string>`                                               every parser on a (near-miss) string
use crate::addr::*;
use crate::{util::*, Case, Out};
use bech32::primitives::iter::{ByteIterExt, Fe32IterExt};
use bech32::{Bech32, Bech32m, Fe32, Hrp};
use elements::address::{AddressError, Payload};
use elements::bitcoin::base58;
use elements::blech32::{Blech32, Blech32m};
use elements::hashes::Hash as _;
use elements::bitcoin::hashes::Hash as _;
use elements::secp256k1_zkp as secp;
use elements::{Address, PubkeyHash, ScriptHash};
use rand::Rng;
use rand_chacha::ChaCha20Rng;
use std::str::FromStr;

#[derive(Clone, Copy, PartialEq, Debug)]
enum Ck { B32, B32m, Bl32, Bl32m }

/// independent encoder built directly on the bech32 crate's iterator API: hrp, optional witness version, raw symbols
fn encode_fes(hrp: &str, ver: Option<u8>, fes: &[u8], ck: Ck) -> String {
    let hrp = Hrp::parse_unchecked(hrp);
    let it = fes.iter().map(|&v| fe(v));
    macro_rules! go { ($c:ty) => {{ let e = it.with_checksum::<$c>(&hrp); match ver { Some(v) => e.with_witness_version(fe(v)).chars().collect(), None => e.chars().collect() } }} }
    match ck { Ck::B32 => go!(Bech32), Ck::B32m => go!(Bech32m), Ck::Bl32 => go!(Blech32), Ck::Bl32m => go!(Blech32m) }
}
fn encode_bytes(hrp: &str, ver: u8, data: &[u8], ck: Ck) -> String {
    let fes: Vec<u8> = data.iter().copied().bytes_to_fes().map(|f| f.to_u8()).collect();
    encode_fes(hrp, Some(ver), &fes, ck)
}
fn required_ck(ver: u8, blinded: bool) -> Ck {
    match (ver == 0, blinded) { (true, false) => Ck::B32, (false, false) => Ck::B32m, (true, true) => Ck::Bl32, (false, true) => Ck::Bl32m }
}
fn hrp_of(a: &Address) -> String { if a.blinding_pubkey.is_some() { a.params.blech_hrp.to_string() } else { a.params.bech_hrp.to_string() } }

/// the clauses of the property that speak about one successfully parsed address `a` obtained from the text `s`
fn parsed_clauses(s: &str, a: &Address, how: &str) -> Option<String> {
    match &a.payload {
        Payload::WitnessProgram { version, program } => {
            let v = version.to_u8();
            let n = program.len();
            // the mixed-case rule: a segwit string with letters of both cases (human-readable part included) never parses
            if s.bytes().any(|c| c.is_ascii_uppercase()) && s.bytes().any(|c| c.is_ascii_lowercase()) {
                return Some(format!("mixed-case-accepted|{} accepts {} which has letters of both cases", how, s));
            }
            // finding F5 (repaired in 86be616: from_bech32 tests the program length after splitting off the blinding key) — a violation if it returns
            if a.blinding_pubkey.is_some() && v >= 1 && n < 2 {
                return Some(format!("parsed-shape|{} accepts {} as a blinded version-{} address with a {}-byte witness program (finding F5 is back)", how, s, v, n));
            }
            if v > 16 || n < 2 || n > 40 || (v == 0 && n != 20 && n != 32) {
                return Some(format!("parsed-shape|{} accepts {} with witness version {} and a {}-byte program", how, s, v, n));
            }
            // canonical lower-case form with the checksum variant its version requires, by the independent encoder
            let mut data = Vec::new();
            if let Some(pk) = &a.blinding_pubkey { data.extend_from_slice(&pk.serialize()); }
            data.extend_from_slice(program);
            let want = encode_bytes(&hrp_of(a), v, &data, required_ck(v, a.blinding_pubkey.is_some()));
            if want != s.to_lowercase() { return Some(format!("not-canonical|{} accepts {} but the canonical text of the result is {}", how, s, want)); }
            if a.to_string() != want { return Some(format!("display-differs|Display gives {} but the independent encoder gives {}", a, want)); }
        }
        Payload::PubkeyHash(_) | Payload::ScriptHash(_) => {
            let (pfx, h): (u8, Vec<u8>) = match &a.payload {
                Payload::PubkeyHash(h) => (a.params.p2pkh_prefix, h.as_byte_array().to_vec()),
                Payload::ScriptHash(h) => (a.params.p2sh_prefix, h.as_byte_array().to_vec()),
                _ => unreachable!() };
            let mut raw = Vec::new();
            if let Some(pk) = &a.blinding_pubkey { raw.push(a.params.blinded_prefix); raw.push(pfx); raw.extend_from_slice(&pk.serialize()); } else { raw.push(pfx); }
            raw.extend_from_slice(&h);
            let want = base58::encode_check(&raw);
            if want != s { return Some(format!("not-canonical|{} accepts {} but the canonical text of the result is {}", how, s, want)); }
            if a.to_string() != want { return Some(format!("display-differs|Display gives {} but base58::encode_check gives {}", a, want)); }
        }
    }
    None
}
/// clauses over the four observation points of one string
fn string_clauses(s: &str, rs: &[Result<Address, AddressError>]) -> Option<String> {
    let names = ["from_str", "parse_with_params(LIQUID)", "parse_with_params(ELEMENTS)", "parse_with_params(LIQUID_TESTNET)"];
    for (k, r) in rs.iter().enumerate() { if let Ok(a) = r { if let Some(f) = parsed_clauses(s, a, names[k]) { return Some(f); } } }
    let oks: Vec<usize> = (1..4).filter(|&k| rs[k].is_ok()).collect();
    if oks.len() > 1 { return Some(format!("two-networks|{} parses under {} and {}", s, names[oks[0]], names[oks[1]])); }
    match (&rs[0], oks.first()) {
        (Ok(a), Some(&k)) => if rs[k].as_ref().ok() != Some(a) || a.params != NETS[k - 1].1 { return Some(format!("fromstr-differs|from_str and {} disagree on {}", names[k], s)); },
        (Ok(_), None) => return Some(format!("fromstr-differs|from_str accepts {} which no built-in network's parse_with_params accepts", s)),
        (Err(_), Some(&k)) => return Some(format!("fromstr-differs|{} accepts {} which from_str rejects", names[k], s)),
        (Err(_), None) => {}
    }
    None
}

fn parse_case_addr(w: &[&str]) -> Option<Address> {
    let net = NETS.iter().position(|(n, _)| *n == w[2])?;
    let data = if w[4] == "-" { vec![] } else { unhex(w[4])? };
    let blinding_pubkey = if w[5] == "-" { None } else { Some(secp::PublicKey::from_slice(&unhex(w[5])?).ok()?) };
    let payload = match w[3] {
        "pkh" => Payload::PubkeyHash(PubkeyHash::from_byte_array(<[u8; 20]>::try_from(&data[..]).ok()?)),
        "sh" => Payload::ScriptHash(ScriptHash::from_byte_array(<[u8; 20]>::try_from(&data[..]).ok()?)),
        k if k.starts_with("wp") => Payload::WitnessProgram { version: Fe32::try_from(k[2..].parse::<u8>().ok()?).ok()?, program: data },
        _ => return None };
    Some(Address { params: NETS[net].1, payload, blinding_pubkey })
}
fn wf(a: &Address) -> bool {
    match &a.payload { Payload::WitnessProgram { version, program } => { let (v, n) = (version.to_u8(), program.len()); v <= 16 && n >= 2 && n <= 40 && (v != 0 || n == 20 || n == 32) } _ => true }
}

pub fn eval(case: &str) -> Out {
    let w: Vec<&str> = case.split(' ').collect();
    match (w.get(1).copied(), w.len()) {
        (Some("a"), 6) => {
            let Some(a) = parse_case_addr(&w) else { return Out::ok("harnesserr address".into()) };
            let s = a.to_string();
            let rs = four(&s);
            let up = Address::from_str(&s.to_uppercase());
            let mut pred_fail = string_clauses(&s, &rs);
            if pred_fail.is_none() && wf(&a) {
                let own = 1 + NETS.iter().position(|(_, p)| *p == a.params).unwrap();
                let segwit = matches!(a.payload, Payload::WitnessProgram { .. });
                if rs[0].as_ref().ok() != Some(&a) { pred_fail = Some(format!("roundtrip|from_str({}) is {} instead of the address displayed", s, show_res(&rs[0]))); }
                else if rs[own].as_ref().ok() != Some(&a) { pred_fail = Some(format!("roundtrip|parse_with_params under its own network does not return the address displayed as {}", s)); }
                else if segwit && up.as_ref().ok() != Some(&a) { pred_fail = Some(format!("roundtrip-uppercase|from_str({}) is {}", s.to_uppercase(), show_res(&up))); }
                else if s != s.to_lowercase() && segwit { pred_fail = Some(format!("not-canonical|Display produced {}", s)); }
            }
            Out { result: format!("{} {} up=[{}]", s, show_four(&rs), show_res(&up)), pred_fail }
        }
        (Some("s"), 3) => {
            let s = w[2];
            let rs = four(s);
            let disp = match &rs[0] { Ok(a) => a.to_string(), Err(_) => "-".into() };
            Out { result: format!("{} disp={}", show_four(&rs), disp), pred_fail: string_clauses(s, &rs) }
        }
        _ => Out::ok("harnesserr args".into()),
    }
}

fn show_case_addr(a: &Address) -> String {
    let net = NETS.iter().position(|(_, p)| *p == a.params).unwrap();
    let (kind, data) = match &a.payload {
        Payload::PubkeyHash(h) => ("pkh".to_string(), h.as_byte_array().to_vec()),
        Payload::ScriptHash(h) => ("sh".to_string(), h.as_byte_array().to_vec()),
        Payload::WitnessProgram { version, program } => (format!("wp{}", version.to_u8()), program.clone()) };
    format!("C06 a {} {} {} {}", NETS[net].0, kind, if data.is_empty() { "-".into() } else { hex(&data) }, match &a.blinding_pubkey { Some(pk) => hex(&pk.serialize()), None => "-".into() })
}

pub fn gen(rng: &mut ChaCha20Rng, n: usize, thorough: bool) -> Vec<Case> {
    let mut out: Vec<Case> = Vec::new();
    let mut push = |out: &mut Vec<Case>, text: String, tags: &[&str], nt: bool| out.push(Case { text, tags: tags.iter().map(|s| s.to_string()).collect(), nontrivial: nt });
    // the repository's own vectors
    for s in ["2dxmEBXc2qMYcLSKiDBxdEePY3Ytixmnh4E", "CTEo6VKG8xbe7HnfVW9mQoWTgtgeRSPktwTLbELzGw5tV8Ngzu53EBiasFMQKVbWmKWWTAdN5AUf4M6Y",
              "ert1qwhh2n5qypypm0eufahm2pvj8raj9zq5c27cysu", "el1qq0umk3pez693jrrlxz9ndlkuwne93gdu9g83mhhzuyf46e3mdzfpva0w48gqgzgrklncnm0k5zeyw8my2ypfsmxh4xcjh2rse",
              "GqiQRsPEyJLAsEBFB5R34KHuqxDNkG3zur", "VJLDwMVWXg8RKq4mRe3YFNTAEykVN6V8x5MRUKKoC3nfRnbpnZeiG3jygMC6A4Gw967GY5EotJ4Rau2F",
              "ex1q7gkeyjut0mrxc3j0kjlt7rmcnvsh0gt45d3fud", "lq1qqf8er278e6nyvuwtgf39e6ewvdcnjupn9a86rzpx655y5lhkt0walu3djf9cklkxd3ryld97hu8h3xepw7sh2rlu7q45dcew5",
              "tlq1qq2xvpcvfup5j8zscjq05u2wxxjcyewk7979f3mmz5l7uw5pqmx6xf5xy50hsn6vhkm5euwt72x878eq6zxx2z58hd7zrsg9qn",
              "el1pq0umk3pez693jrrlxz9ndlkuwne93gdu9g83mhhzuyf46e3mdzfpva0w48gqgzgrklncnm0k5zeyw8my2ypfsxguu9nrdg2pc",
              "el1qq0umk3pez693jrrlxz9ndlkuwne93gdu9g83mhhzuyf46e3mdzfpva0w48gqgzgrklncnm0k5zeyw8my2ypfsnnmzrstzt7de",
              "ert130xlxvlhemja6c4dqv22uapctqupfhlxm9h8z3k2e72q4k9hcz7vqqu2tys",
              "el1pq0umk3pez693jrrlxz9ndlkuwne93gdu9g83mhhzuyf46e3mdzfpva0w48gqgzgrklncnm0k5zeyw8my2ypfsqqqqqqqqqqqqqqqqqqqqqqqqqqqqqqqqqqpe9jfn0gypaj",
              "rrr1qq0umk3pez693jrrlxz9ndlkuwne93gdu9g83mhhzuyf46e3mdzfpva0w48gqgzgrklncnm0k5zeyw8my2ypfs2d9rp7meq4kg",
              "ert1p8qs0qcn25l2y6yvtc5t95rr8w9pndcj64c8rkutnvkcvdp6gh02q2cqvj9", "tex1pxrrurkg8j8pve97lffvv2y67cf7ux478h077c87qacqzhue7390skzlycz",
              "AzpjUhKMLJi9y2oLt3ZdM3BP9nHdLPJfGMVxRBaRc2gDpeNqPMVpShTszJW7bX42vT2KoejYy8GtbcxH", "vtS71VhcpFt978sha5d1L2gCzp3UL5kXacRpb3N4GTW5MwvBzz5HwxYyB8Pns4yM2dd2osmQkHSkp88u", "", "1", "1111", "11111", "ex1qqq", "lq1qqqqqqqq", "ex1", "lq1", "EX1", "ex1b", "lq1qb", "tlq1qqqqqqqqqqqqq", "ex1Qqqqqqq", "ex11qqqqqqq", "\u{e9}x1qqqqqq", "ex1\u{e9}qqqqqq"] {
        push(&mut out, format!("C06 s {}", s), &["repo-vector"], !s.is_empty());
    }
    // structured addresses: the whole lattice network x blinded x payload kind x version x program length
    let vers: Vec<u8> = (0..=16).collect();
    let mut lattice: Vec<(usize, bool, u32, u8, usize)> = Vec::new();
    for net in 0..3 { for &bl in &[false, true] {
        lattice.push((net, bl, 0, 0, 20)); lattice.push((net, bl, 1, 0, 20));
        for &v in &vers { for l in 0..=42usize { lattice.push((net, bl, 2, v, l)); } }
        for v in [17u8, 24, 31] { lattice.push((net, bl, 2, v, 32)); }
    } }
    // quick: every (version, length) cell once per run with network/blinded drawn at random; thorough: the full lattice
    if thorough {
        for &(net, bl, kind, v, l) in &lattice {
            let a = mk_addr(rng, net, kind, v, l, bl);
            let ok = wf(&a);
            push(&mut out, show_case_addr(&a), &[NETS[net].0, if bl { "blinded" } else { "unblinded" }, match kind { 0 => "pkh", 1 => "sh", _ => if v == 0 { "v0" } else { "v1plus" } }, if ok { "wf" } else { "outside-wf" }], true);
        }
    } else {
        for &v in &vers { for l in 0..=42usize {
            if !(l <= 3 || l >= 39 || l == 20 || l == 32 || l == 19 || l == 21 || l == 31 || l == 33 || rng.gen_range(0..4) == 0) { continue; }
            let (net, bl) = (rng.gen_range(0..3), rng.gen_bool(0.5));
            let a = mk_addr(rng, net, 2, v, l, bl);
            let ok = wf(&a);
            push(&mut out, show_case_addr(&a), &[NETS[net].0, if bl { "blinded" } else { "unblinded" }, if v == 0 { "v0" } else { "v1plus" }, if ok { "wf" } else { "outside-wf" }], true);
        } }
    }
    for i in 0..n {
        let net = rng.gen_range(0..3usize);
        let bl = rng.gen_bool(0.5);
        let (r7, r2) = (rng.gen_range(0..7u32), rng.gen_range(0..2u32));
        let (a, tag) = if i % 3 == 0 { ctor_addr(rng, net, r7, bl) } else if i % 3 == 1 { (mk_addr(rng, net, r2, 0, 20, bl), "hash") }
                       else { let v = rng.gen_range(0..=16u8); let l = if v == 0 { if rng.gen_bool(0.5) { 20 } else { 32 } } else { rng.gen_range(2..=40) }; (mk_addr(rng, net, 2, v, l, bl), "wp-wf") };
        push(&mut out, show_case_addr(&a), &[NETS[net].0, if bl { "blinded" } else { "unblinded" }, tag, "wf"], true);
        // near-miss strings derived from the same address
        let s = a.to_string();
        let segwit = matches!(a.payload, Payload::WitnessProgram { .. });
        if segwit {
            // every mixed case pattern: each of the 2^len case patterns of the human-readable part with a lower- and an upper-case data part,
            // except the two single-case forms (covered by the `a` case above)
            let sep = s.rfind('1').unwrap();
            let (hrp, data) = (&s.as_bytes()[..sep], &s[sep + 1..]);
            for mask in 0u32..(1 << sep) { for (du, d) in [(false, data.to_lowercase()), (true, data.to_uppercase())] {
                if (mask == 0 && !du) || (mask == (1 << sep) - 1 && du) { continue; }
                let mut t: Vec<u8> = hrp.iter().enumerate().map(|(i, &c)| if (mask >> i) & 1 == 1 { c.to_ascii_uppercase() } else { c.to_ascii_lowercase() }).collect();
                t.push(b'1'); t.extend(d.bytes());
                push(&mut out, format!("C06 s {}", String::from_utf8(t).unwrap()), &["near-hrp-case-pattern", if bl { "blinded" } else { "unblinded" }], true);
            } }
        }
        match rng.gen_range(0..12u32) {
            0 => push(&mut out, format!("C06 s {}", s.to_uppercase()), &["near-uppercase"], true),
            1 => { // one letter in the other case
                let mut b = s.clone().into_bytes(); let p = rng.gen_range(0..b.len());
                if b[p].is_ascii_lowercase() { b[p] = b[p].to_ascii_uppercase(); } else { b[p] = b[p].to_ascii_lowercase(); }
                push(&mut out, format!("C06 s {}", String::from_utf8(b).unwrap()), &["near-mixed-case"], true) }
            2 => { // one character replaced
                let mut b = s.clone().into_bytes(); let p = rng.gen_range(0..b.len());
                let alpha = b"023456789acdefghjklmnpqrstuvwxyzACDEFGHJKLMNPQRSTUVWXYZ1bioBIO";
                b[p] = alpha[rng.gen_range(0..alpha.len())];
                push(&mut out, format!("C06 s {}", String::from_utf8(b).unwrap()), &["near-one-char"], true) }
            3 => { let mut t = s.clone(); t.pop(); push(&mut out, format!("C06 s {}", t), &["near-truncated"], true) }
            4 => { let mut t = s.clone(); t.push(if segwit { 'q' } else { '2' }); push(&mut out, format!("C06 s {}", t), &["near-extended"], true) }
            _ => {}
        }
    }
    // longer than upstream's 90 characters / than any accepted blinded address
    for (hrp, l) in [("ex", 60usize), ("tex", 50), ("lq", 75), ("el", 120)] {
        let d = rbytes(rng, l);
        let bl = hrp == "lq" || hrp == "el";
        push(&mut out, format!("C06 s {}", encode_bytes(hrp, 1, &d, required_ck(1, bl))), &["enc-over-long"], true);
    }
    // segwit near misses built with the independent encoder
    let hrps = ["ex", "lq", "ert", "el", "tex", "tlq"];
    let m = if thorough { n } else { n / 2 + 40 };
    for i in 0..m {
        let hrp = hrps[rng.gen_range(0..6)];
        let blinded_hrp = matches!(hrp, "lq" | "el" | "tlq");
        let ver = if rng.gen_range(0..3) == 0 { 0 } else { rng.gen_range(1..=16u8) };
        let plen = match rng.gen_range(0..4) { 0 => 20, 1 => 32, 2 => rng.gen_range(0..=3), _ => rng.gen_range(0..=42) };
        let mut data = Vec::new();
        let style = i % 10;
        if blinded_hrp && style != 5 { data.extend_from_slice(&rand_blinder(rng).serialize()); }
        data.extend_from_slice(&rbytes(rng, plen));
        let good = required_ck(ver, blinded_hrp);
        let (s, tag): (String, &str) = match style {
            0 => (encode_bytes(hrp, ver, &data, good), "enc-required-variant"),
            1 => (encode_bytes(hrp, ver, &data, match good { Ck::B32 => Ck::B32m, Ck::B32m => Ck::B32, Ck::Bl32 => Ck::Bl32m, Ck::Bl32m => Ck::Bl32 }), "enc-wrong-variant"),
            2 => (encode_bytes(hrp, ver, &data, match good { Ck::B32 => Ck::Bl32, Ck::B32m => Ck::Bl32m, Ck::Bl32 => Ck::B32, Ck::Bl32m => Ck::B32m }), "enc-other-family"),
            3 => (encode_bytes(hrp, rng.gen_range(17..32u8), &data, good), "enc-version-17-31"),
            4 => { // blinded layout with an invalid key
                let mut d = data.clone(); if blinded_hrp { d[0] = [0u8, 4, 5, 2][rng.gen_range(0..4)]; if d[0] == 2 { for x in d[1..33].iter_mut() { *x = 0xff; } } }
                (encode_bytes(hrp, ver, &d, good), "enc-bad-blinder") }
            5 => (encode_bytes(hrp, ver, &data, good), "enc-blinded-hrp-without-key"),
            6 => { // padding: one more symbol than the byte string needs, or non-zero padding bits
                let mut fes: Vec<u8> = data.iter().copied().bytes_to_fes().map(|f| f.to_u8()).collect();
                if rng.gen_bool(0.5) { fes.push(rng.gen_range(0..32)); } else if let Some(l) = fes.last_mut() { *l |= 1; }
                (encode_fes(hrp, Some(ver), &fes, good), "enc-padding") }
            7 => if i % 20 < 10 { (encode_bytes(["bc", "tb", "rrr", "e", "lqq", "EX"][rng.gen_range(0..6)], ver, &data, good), "enc-foreign-hrp") } else {
                // a foreign prefix that CONTAINS the separator: a network's prefix, '1', more characters ("ex1x1q..."): the human-readable part ends at the
                // LAST '1' (BIP173), so this names no network although it starts like one (seeded C06-r6-1: prefix cut at the first '1')
                let (v, d): (u8, Vec<u8>) = if i % 40 < 30 { let mut d = Vec::new(); if blinded_hrp { d.extend_from_slice(&rand_blinder(rng).serialize()); } d.extend_from_slice(&rbytes(rng, [20usize, 32][i % 2])); (if i % 2 == 0 { 0 } else { 1 }, d) } else { (ver, data.clone()) };
                (encode_bytes(&format!("{}1{}", hrp, ["x", "q", "1", "lq", "ex1"][rng.gen_range(0..5)]), v, &d, required_ck(v, blinded_hrp)), "enc-foreign-hrp-with-separator") },
            8 => (encode_fes(hrp, None, &[], good), "enc-empty-data"),
            _ => (encode_bytes(hrp, ver, &data, good).to_uppercase(), "enc-uppercase"),
        };
        push(&mut out, format!("C06 s {}", s), &[tag, if blinded_hrp { "blech-hrp" } else { "bech-hrp" }], true);
    }
    // padding, systematically: for every number k of padding bits (0..4; k is determined by the byte count mod 5), unblinded and blinded,
    // EVERY non-zero pattern of the k padding bits in the last symbol, with the required checksum recomputed over the altered symbols (so only
    // validate_padding can reject), and the all-zero pattern as the accepted control; program lengths cover every residue mod 5 twice for
    // versions >= 1, plus the version-0 lengths
    for blinded in [false, true] {
        let key_len = if blinded { 33usize } else { 0 };
        let mut shapes: Vec<(u8, usize)> = Vec::new();
        for r in 0..5usize {
            let ls: Vec<usize> = (2..=40usize).filter(|l| (key_len + l) % 5 == r).collect();
            let a = ls[rng.gen_range(0..ls.len())];
            let mut b = ls[rng.gen_range(0..ls.len())]; if b == a { b = ls[(ls.iter().position(|&x| x == a).unwrap() + 1) % ls.len()]; }
            shapes.push((rng.gen_range(1..=16u8), a)); shapes.push((rng.gen_range(1..=16u8), b));
        }
        shapes.push((0, 20)); shapes.push((0, 32));
        for (ver, plen) in shapes {
            let net = rng.gen_range(0..3usize);
            let hrp = if blinded { NETS[net].1.blech_hrp.to_string() } else { NETS[net].1.bech_hrp.to_string() };
            let mut data = Vec::new();
            if blinded { data.extend_from_slice(&rand_blinder(rng).serialize()); }
            data.extend_from_slice(&rbytes(rng, plen));
            let fes: Vec<u8> = data.iter().copied().bytes_to_fes().map(|f| f.to_u8()).collect();
            let k = fes.len() * 5 - data.len() * 8;     // padding bits in the last symbol
            let good = required_ck(ver, blinded);
            for pat in 0u8..(1 << k) {
                let mut f = fes.clone();
                *f.last_mut().unwrap() |= pat;
                let t = encode_fes(&hrp, Some(ver), &f, good);
                let ptag = format!("pad{}", k);
                push(&mut out, format!("C06 s {}", t), &[if pat == 0 { "enc-padding-zero" } else { "enc-padding-pattern" }, &ptag, if blinded { "blinded" } else { "unblinded" }], true);
            }
        }
    }
    // base58 near misses
    for i in 0..m {
        let net = rng.gen_range(0..3usize);
        let p = NETS[net].1;
        let other = NETS[(net + 1 + rng.gen_range(0..2usize)) % 3].1;
        let pk = rand_blinder(rng).serialize();
        let h = rbytes(rng, 20);
        let mut raw: Vec<u8> = Vec::new();
        let tag = match i % 12 {
            0 => { raw.push(p.p2pkh_prefix); raw.extend(&h); "b58-valid" }
            1 => { raw.push(p.blinded_prefix); raw.push(p.p2sh_prefix); raw.extend(&pk); raw.extend(&h); "b58-valid-blinded" }
            2 => { raw.push(p.p2sh_prefix); let l = [19usize, 21, 0, 1, 53, 54][rng.gen_range(0..6)]; raw.extend(&rbytes(rng, l)); "b58-wrong-length" }
            3 => { raw.push(p.blinded_prefix); raw.push(p.p2pkh_prefix); let l = [52usize, 54, 20, 0][rng.gen_range(0..4)]; raw.extend(&rbytes(rng, l)); "b58-wrong-length-blinded" }
            4 => { raw.push(rng.gen()); raw.extend(&h); "b58-random-prefix" }
            5 => { raw.push(p.blinded_prefix); raw.push(other.p2pkh_prefix); raw.extend(&pk); raw.extend(&h); "b58-blinded-foreign-inner" }
            6 => { raw.push(p.blinded_prefix); raw.push(rng.gen()); raw.extend(&pk); raw.extend(&h); "b58-blinded-random-inner" }
            7 => { raw.push(p.blinded_prefix); raw.push(p.p2sh_prefix); let mut bad = pk; bad[0] = 4; raw.extend(&bad); raw.extend(&h); "b58-bad-blinder" }
            8 => { raw.push(p.blinded_prefix); "b58-only-blinded-prefix" }
            9 => { let l = rng.gen_range(0..4); raw.extend(&rbytes(rng, l)); "b58-short" }
            10 => { raw.push(p.p2pkh_prefix); let l = rng.gen_range(100..130); raw.extend(&rbytes(rng, l)); "b58-long" }
            _ => { raw.push(0); raw.push(0); raw.extend(&h); "b58-leading-zero-bytes" }
        };
        let mut s = base58::encode_check(&raw);
        if i % 12 == 10 && s.len() <= 150 { while s.len() <= 150 { s.push('2'); } }
        if i % 24 == 12 { let mut b = s.into_bytes(); let k = b.len() - 1; b[k] = if b[k] == b'2' { b'3' } else { b'2' }; s = String::from_utf8(b).unwrap(); }
        push(&mut out, format!("C06 s {}", s), &[tag, NETS[net].0], true);
    }
    out
}
