//! C20: serde and textual forms round-trip.
//! Text cases:  `C20 tp <Type> <hex of string>` (FromStr on a string), `C20 tr <Type> <value>` (to_string then from_str).
use crate::{txgen::*, util::*, Case, Out};
use elements::confidential::{AssetBlindingFactor, ValueBlindingFactor};
use elements::locktime::{Height, Time};
use elements::pset::PsbtSighashType;
use elements::{EcdsaSighashType, LockTime, OutPoint, SchnorrSighashType, Sequence};
use rand::Rng;
use rand_chacha::ChaCha20Rng;
use std::fmt::Display;
use std::str::FromStr;
#[path = "c20_pset.rs"]
mod pset_serde;

// ------------------------------------------------------------------------------------------------ error classes
fn int_kind(e: &std::num::ParseIntError) -> &'static str {
    use std::num::IntErrorKind::*;
    match e.kind() { Empty => "empty", InvalidDigit => "digit", PosOverflow => "overflow", NegOverflow => "underflow", _ => "int-other" }
}
/// walks the `source()` chain for the error kinds the model distinguishes
fn chain_class(e: &(dyn std::error::Error + 'static)) -> Option<String> {
    let mut cur: Option<&(dyn std::error::Error + 'static)> = Some(e);
    while let Some(x) = cur {
        if let Some(p) = x.downcast_ref::<std::num::ParseIntError>() { return Some(int_kind(p).to_string()); }
        if let Some(h) = x.downcast_ref::<elements::hex::DecodeFixedLengthBytesError>() {
            return Some(match h { elements::hex::DecodeFixedLengthBytesError::InvalidLength(_) => "hexlen".into(), _ => "hexchar".into() });
        }
        cur = x.source();
    }
    None
}
fn hex_class(e: &elements::hex::DecodeFixedLengthBytesError) -> String { chain_class(e).unwrap_or_else(|| "hex-other".into()) }
fn bf_class(e: &elements::encode::Error) -> String {
    match e {
        elements::encode::Error::HexFixedError(h) => hex_class(h),
        elements::encode::Error::Secp256k1zkp(_) => "tweak".into(),
        _ => "bf-other".into(),
    }
}
fn outpoint_class(e: &elements::bitcoin::blockdata::transaction::ParseOutPointError) -> String {
    use elements::bitcoin::blockdata::transaction::ParseOutPointError as E;
    match e {
        E::TooLong => "toolong".into(),
        E::Format => "format".into(),
        E::Txid(_) => "txid".into(),
        E::VoutNotCanonical => "vout-noncanonical".into(),
        E::Vout(v) => chain_class(v).unwrap_or_else(|| "vout-other".into()),
        _ => "outpoint-other".into(),
    }
}
fn locktime_class(e: &elements::locktime::Error, conv: &str) -> String {
    match e {
        elements::locktime::Error::Conversion(_) => conv.into(),
        elements::locktime::Error::Parse(p) => chain_class(p).unwrap_or_else(|| "int-other".into()),
        _ => "locktime-other".into(),
    }
}

// ------------------------------------------------------------------------------------------------ generic text evaluation
fn parse_line<T: FromStr + Display + PartialEq>(s: &str, show: &dyn Fn(&T) -> String, class: &dyn Fn(&T::Err) -> String) -> (String, Option<T>) {
    match T::from_str(s) {
        Ok(v) => (format!("ok {}", show(&v)), Some(v)),
        Err(e) => (format!("err {}", class(&e)), None),
    }
}
fn text<T: FromStr + Display + PartialEq>(kind: &str, arg: &str, read: &dyn Fn(&str) -> Option<T>, show: &dyn Fn(&T) -> String, class: &dyn Fn(&T::Err) -> String) -> Out {
    match kind {
        "tp" => {
            let bytes = match if arg == "-" { Some(vec![]) } else { unhex(arg) } { Some(b) => b, None => return Out::ok("harnesserr hex".into()) };
            let s = match String::from_utf8(bytes) { Ok(s) => s, Err(_) => return Out::ok("harnesserr utf8".into()) };
            let (line, v) = parse_line::<T>(&s, show, class);
            // whatever FromStr accepts must itself survive Display -> FromStr
            let pred_fail = match v {
                Some(v) => match T::from_str(&v.to_string()) { Ok(v2) if v2 == v => None, _ => Some(format!("text-roundtrip|FromStr accepted {:?} but the value's own Display form {:?} does not parse back to it", s, v.to_string())) },
                None => None,
            };
            Out { result: line, pred_fail }
        }
        "tr" => {
            let v = match read(arg) { Some(v) => v, None => return Out::ok("harnesserr value".into()) };
            let s = v.to_string();
            let (line, back) = parse_line::<T>(&s, show, class);
            let pred_fail = match back { Some(b) if b == v => None, _ => Some(format!("text-roundtrip|Display form {:?} does not parse back to the value it was printed from", s)) };
            Out { result: format!("{} {}", if s.is_empty() { "-".to_string() } else { hex(s.as_bytes()) }, line), pred_fail }
        }
        _ => Out::ok("harnesserr kind".into()),
    }
}
fn arr<const N: usize>(s: &str) -> Option<[u8; N]> { let b = if s == "-" { vec![] } else { unhex(s)? }; <[u8; N]>::try_from(&b[..]).ok() }

macro_rules! hash_text {
    ($kind:expr, $arg:expr, $t:ty, $n:expr) => {
        text::<$t>($kind, $arg, &|s| arr::<$n>(s).map(<$t>::from_byte_array), &|v| hex(&v.to_byte_array()), &|e| hex_class(e))
    };
}
fn u32_of(s: &str) -> Option<u32> { s.parse::<u32>().ok() }

pub const HASH_TYPES: [&str; 15] = ["Txid", "Wtxid", "BlockHash", "TxMerkleNode", "ScriptHash", "WScriptHash", "ContractHash", "AssetEntropy", "AssetId",
    "TapLeafHash", "TapNodeHash", "TapTweakHash", "ParamsRoot", "ElidedRoot", "DynafedRoot"];

fn eval_text(kind: &str, ty: &str, arg: &str) -> Out {
    use elements::dynafed::{ElidedRoot, ParamsRoot};
    use elements::taproot::{TapLeafHash, TapNodeHash, TapTweakHash};
    match ty {
        "Txid" => hash_text!(kind, arg, elements::Txid, 32),
        "Wtxid" => hash_text!(kind, arg, elements::Wtxid, 32),
        "BlockHash" => hash_text!(kind, arg, elements::BlockHash, 32),
        "TxMerkleNode" => hash_text!(kind, arg, elements::TxMerkleNode, 32),
        "ScriptHash" => hash_text!(kind, arg, elements::ScriptHash, 20),
        "WScriptHash" => hash_text!(kind, arg, elements::WScriptHash, 32),
        "ContractHash" => hash_text!(kind, arg, elements::ContractHash, 32),
        "AssetEntropy" => hash_text!(kind, arg, elements::AssetEntropy, 32),
        "AssetId" => hash_text!(kind, arg, elements::AssetId, 32),
        "TapLeafHash" => hash_text!(kind, arg, TapLeafHash, 32),
        "TapNodeHash" => hash_text!(kind, arg, TapNodeHash, 32),
        "TapTweakHash" => hash_text!(kind, arg, TapTweakHash, 32),
        "ParamsRoot" => hash_text!(kind, arg, ParamsRoot, 32),
        "ElidedRoot" => hash_text!(kind, arg, ElidedRoot, 32),
        "DynafedRoot" => hash_text!(kind, arg, elements::DynafedRoot, 32),
        "AssetBlindingFactor" => text::<AssetBlindingFactor>(kind, arg, &|s| arr::<32>(s).and_then(|a| AssetBlindingFactor::from_byte_array(a).ok()),
            &|v| hex(v.into_inner().as_ref()), &|e| bf_class(e)),
        "ValueBlindingFactor" => text::<ValueBlindingFactor>(kind, arg, &|s| arr::<32>(s).and_then(|a| ValueBlindingFactor::from_slice(&a).ok()),
            &|v| hex(v.into_inner().as_ref()), &|e| bf_class(e)),
        "Sequence" => text::<Sequence>(kind, arg, &|s| u32_of(s).map(Sequence), &|v| v.0.to_string(), &|e| chain_class(e).unwrap_or_else(|| "int-other".into())),
        "LockTime" => text::<LockTime>(kind, arg, &|s| u32_of(s).map(LockTime::from_consensus),
            &|v| match v { LockTime::Blocks(h) => format!("B{}", h.to_consensus_u32()), LockTime::Seconds(t) => format!("S{}", t.to_consensus_u32()) },
            &|e| chain_class(e).unwrap_or_else(|| "int-other".into())),
        "Height" => text::<Height>(kind, arg, &|s| u32_of(s).and_then(|n| Height::from_consensus(n).ok()), &|v| v.to_consensus_u32().to_string(), &|e| locktime_class(e, "notheight")),
        "Time" => text::<Time>(kind, arg, &|s| u32_of(s).and_then(|n| Time::from_consensus(n).ok()), &|v| v.to_consensus_u32().to_string(), &|e| locktime_class(e, "nottime")),
        "OutPoint" => text::<OutPoint>(kind, arg, &|s| { let (t, n) = s.split_once(':')?; Some(OutPoint::new(elements::Txid::from_byte_array(arr::<32>(t)?), u32_of(n)?)) },
            &|v| format!("{}:{}", hex(&v.txid.to_byte_array()), v.vout), &|e| outpoint_class(e)),
        "EcdsaSighashType" => text::<EcdsaSighashType>(kind, arg, &|s| u32_of(s).and_then(|n| EcdsaSighashType::from_standard(n).ok()), &|v| v.as_u32().to_string(), &|_| "unrecognized".into()),
        "SchnorrSighashType" => text::<SchnorrSighashType>(kind, arg, &|s| u32_of(s).and_then(|n| if n == 0xff { Some(SchnorrSighashType::Reserved) } else if n < 0xff { SchnorrSighashType::from_u8(n as u8) } else { None }),
            &|v| (*v as u32).to_string(), &|_| "unrecognized".into()),
        "PsbtSighashType" => text::<PsbtSighashType>(kind, arg, &|s| u32_of(s).map(PsbtSighashType::from_u32), &|v| v.to_u32().to_string(), &|_| "unrecognized".into()),
        _ => Out::ok("harnesserr type".into()),
    }
}

pub fn eval(case: &str) -> Out {
    let w: Vec<&str> = case.split(' ').collect();
    if w.len() < 3 { return Out::ok("harnesserr args".into()); }
    match w[1] {
        "tp" | "tr" if w.len() == 4 => eval_text(w[1], w[2], w[3]),
        "sd" if w.len() == 6 => eval_serde(w[2], w[5]),
        "lj" if w.len() == 4 => eval_locktime_json(w[2], w[3]),
        "lc" if w.len() == 4 => eval_locktime_ctor(w[2], w[3]),
        "ad" if w.len() == 6 => eval_address(w[2], w[3], w[4], w[5]),
        "pt" if w.len() == 3 => eval_pset_text(w[2]),
        "dm" if w.len() == 3 => eval_probe(w[2]),
        "ps" if w.len() == 7 => eval_pset_serde(w[6]),
        _ => Out::ok("harnesserr kind".into()),
    }
}

// ------------------------------------------------------------------------------------------------ serde
fn serde_line<T: serde::Serialize + serde::de::DeserializeOwned + PartialEq>(v: &T) -> Out {
    let mut fail: Option<String> = None;
    let j = match serde_json::to_string(v) { Ok(j) => j, Err(e) => return Out { result: format!("J serr {}", e), pred_fail: Some("serde-json-serialize|serializing to JSON failed".into()) } };
    let jv = match serde_json::from_str::<T>(&j) {
        Ok(v2) => {
            if v2 != *v { fail = Some(format!("serde-json-roundtrip|JSON {} deserializes to a different value", if j.len() < 300 { j.as_str() } else { "(long)" })); }
            if serde_json::to_string(&v2).ok().as_deref() == Some(j.as_str()) { "ok same" } else { "ok diff" }
        }
        Err(e) => { fail = Some(format!("serde-json-roundtrip|own JSON does not deserialize: {}", e)); "err" }
    };
    let c = match serde_cbor::to_vec(v) { Ok(c) => c, Err(e) => return Out { result: format!("C serr {}", e), pred_fail: Some("serde-cbor-serialize|serializing to CBOR failed".into()) } };
    let cv = match serde_cbor::from_slice::<T>(&c) {
        Ok(v2) => {
            if v2 != *v && fail.is_none() { fail = Some("serde-cbor-roundtrip|own CBOR deserializes to a different value".to_string()); }
            if serde_json::to_string(&v2).ok().as_deref() == Some(j.as_str()) { "ok same" } else { "ok diff" }
        }
        Err(e) => { if fail.is_none() { fail = Some(format!("serde-cbor-roundtrip|own CBOR does not deserialize: {}", e)); } "err" }
    };
    Out { result: format!("J {} {} C {} {}", j, jv, if c.is_empty() { "-".to_string() } else { hex(&c) }, cv), pred_fail: fail }
}
fn from_cons<T: elements::encode::Decodable>(arg: &str) -> Option<T> { elements::encode::deserialize::<T>(&unhex(arg)?).ok() }
macro_rules! hash_serde { ($arg:expr, $t:ty, $n:expr) => { match arr::<$n>($arg) { Some(a) => serde_line(&<$t>::from_byte_array(a)), None => Out::ok("harnesserr value".into()) } }; }

fn eval_serde(ty: &str, arg: &str) -> Out {
    use elements::confidential::{Asset, Nonce, Value};
    use elements::dynafed::{ElidedRoot, ParamsRoot};
    use elements::taproot::{TapLeafHash, TapNodeHash, TapTweakHash};
    let bad = || Out::ok("harnesserr value".into());
    match ty {
        "tx" => from_cons::<elements::Transaction>(arg).map(|t| serde_line(&t)).unwrap_or_else(bad),
        "txin1" => from_cons::<elements::Transaction>(arg).filter(|t| t.input.len() == 1).map(|t| serde_line(&t.input[0])).unwrap_or_else(bad),
        "txout1" => from_cons::<elements::Transaction>(arg).filter(|t| t.output.len() == 1).map(|t| serde_line(&t.output[0])).unwrap_or_else(bad),
        "header" => from_cons::<elements::BlockHeader>(arg).map(|t| serde_line(&t)).unwrap_or_else(bad),
        "block" => from_cons::<elements::Block>(arg).map(|t| serde_line(&t)).unwrap_or_else(bad),
        "params" => from_cons::<elements::dynafed::Params>(arg).map(|t| serde_line(&t)).unwrap_or_else(bad),
        "value" => from_cons::<Value>(arg).map(|t| serde_line(&t)).unwrap_or_else(bad),
        "asset" => from_cons::<Asset>(arg).map(|t| serde_line(&t)).unwrap_or_else(bad),
        "nonce" => from_cons::<Nonce>(arg).map(|t| serde_line(&t)).unwrap_or_else(bad),
        "outpoint" => (|| { let (t, n) = arg.split_once(':')?; Some(serde_line(&OutPoint::new(elements::Txid::from_byte_array(arr::<32>(t)?), u32_of(n)?))) })().unwrap_or_else(bad),
        "locktime" => u32_of(arg).map(|n| serde_line(&LockTime::from_consensus(n))).unwrap_or_else(bad),
        "secrets" => (|| {
            let p: Vec<&str> = arg.split(',').collect();
            if p.len() != 4 { return None; }
            Some(serde_line(&elements::TxOutSecrets::new(elements::AssetId::from_byte_array(arr::<32>(p[0])?), AssetBlindingFactor::from_byte_array(arr::<32>(p[1])?).ok()?,
                p[2].parse::<u64>().ok()?, ValueBlindingFactor::from_slice(&arr::<32>(p[3])?).ok()?)))
        })().unwrap_or_else(bad),
        "abf" => arr::<32>(arg).and_then(|a| AssetBlindingFactor::from_byte_array(a).ok()).map(|t| serde_line(&t)).unwrap_or_else(bad),
        "vbf" => arr::<32>(arg).and_then(|a| ValueBlindingFactor::from_slice(&a).ok()).map(|t| serde_line(&t)).unwrap_or_else(bad),
        "script" => (if arg == "-" { Some(vec![]) } else { unhex(arg) }).map(|b| serde_line(&elements::Script::from(b))).unwrap_or_else(bad),
        "str" => {
            // a type whose serde form is its Display string: the string is given, the type is found by parsing it
            let s = match unhex(arg).and_then(|b| String::from_utf8(b).ok()) { Some(s) => s, None => return bad() };
            if let Ok(a) = elements::Address::from_str(&s) { return serde_line(&a); }
            if let Ok(a) = EcdsaSighashType::from_str(&s) { return serde_line(&a); }
            if let Ok(a) = SchnorrSighashType::from_str(&s) { return serde_line(&a); }
            if let Ok(a) = PsbtSighashType::from_str(&s) { return serde_line(&a); }
            bad()
        }
        "hash:Txid" => hash_serde!(arg, elements::Txid, 32),
        "hash:Wtxid" => hash_serde!(arg, elements::Wtxid, 32),
        "hash:BlockHash" => hash_serde!(arg, elements::BlockHash, 32),
        "hash:TxMerkleNode" => hash_serde!(arg, elements::TxMerkleNode, 32),
        "hash:ScriptHash" => hash_serde!(arg, elements::ScriptHash, 20),
        "hash:WScriptHash" => hash_serde!(arg, elements::WScriptHash, 32),
        "hash:ContractHash" => hash_serde!(arg, elements::ContractHash, 32),
        "hash:AssetEntropy" => hash_serde!(arg, elements::AssetEntropy, 32),
        "hash:AssetId" => hash_serde!(arg, elements::AssetId, 32),
        "hash:TapLeafHash" => hash_serde!(arg, TapLeafHash, 32),
        "hash:TapNodeHash" => hash_serde!(arg, TapNodeHash, 32),
        "hash:TapTweakHash" => hash_serde!(arg, TapTweakHash, 32),
        "hash:ParamsRoot" => hash_serde!(arg, ParamsRoot, 32),
        "hash:ElidedRoot" => hash_serde!(arg, ElidedRoot, 32),
        "hash:DynafedRoot" => hash_serde!(arg, elements::DynafedRoot, 32),
        _ => Out::ok("harnesserr type".into()),
    }
}
/// hand-made JSON trees no Serialize impl produces (the same trees are defined as `sval`s in coq/Extract/RunC20.v, which renders them to
/// exactly these texts; both sides print the text, so a drift between the two tables is a correspondence failure)
pub const PROBES: [(&str, &str, &str); 37] = [
    ("params-partial", "params", r#"{"signblockscript":"51"}"#),
    ("params-full-and-elided", "params", r#"{"elided_root":"0000000000000000000000000000000000000000000000000000000000000001","signblockscript":"51","signblock_witness_limit":7,"fedpeg_program":"0014","fedpegscript":[1,255],"extension_space":["AbCd",[]]}"#),
    ("params-compact-unknown-key", "params", r#"{"foo":[null,{}],"signblockscript":"","signblock_witness_limit":4294967295,"elided_root":"ff00000000000000000000000000000000000000000000000000000000000000"}"#),
    ("params-bad-limit", "params", r#"{"signblockscript":"51","signblock_witness_limit":"7"}"#),
    ("params-limit-overflow", "params", r#"{"signblock_witness_limit":4294967296}"#),
    ("params-fedpegscript-bad-byte", "params", r#"{"fedpegscript":[256]}"#),
    ("params-array", "params", r#"[]"#),
    ("value-trailing", "value", r#"[0,0]"#),
    ("value-explicit-missing", "value", r#"[1]"#),
    ("value-explicit-trailing", "value", r#"[1,5,6]"#),
    ("value-bad-tag", "value", r#"[3]"#),
    ("value-tag-256", "value", r#"[256]"#),
    ("value-tag-string", "value", r#"["0"]"#),
    ("value-empty", "value", r#"[]"#),
    ("value-u64-max", "value", r#"[1,18446744073709551615]"#),
    ("value-u64-overflow", "value", r#"[1,18446744073709551616]"#),
    ("value-conf-badhex", "value", r#"[2,"zz"]"#),
    ("value-map", "value", r#"{}"#),
    ("txout-dup-first-invalid", "txout", r#"{"asset":[0],"value":[7],"value":[0],"nonce":[0],"script_pubkey":"","witness":{"surjection_proof":null,"rangeproof":null}}"#),
    ("txout-dup-last-wins", "txout", r#"{"asset":[0],"value":[1,0],"value":[0],"nonce":[0],"script_pubkey":"AB","witness":{"surjection_proof":null,"rangeproof":null},"extra":null}"#),
    ("txout-missing-nonce", "txout", r#"{"asset":[0],"value":[0],"script_pubkey":"","witness":{"surjection_proof":null,"rangeproof":null}}"#),
    ("txout-as-array", "txout", r#"[[0],[0],[0],"",{"surjection_proof":null,"rangeproof":null}]"#),
    ("txout-odd-hex-script", "txout", r#"{"asset":[0],"value":[0],"nonce":[0],"script_pubkey":"5","witness":{"surjection_proof":null,"rangeproof":null}}"#),
    ("txout-nonce-31", "txout", r#"{"asset":[0],"value":[0],"nonce":[1,[9,9,9,9,9,9,9,9,9,9,9,9,9,9,9,9,9,9,9,9,9,9,9,9,9,9,9,9,9,9,9]],"script_pubkey":"","witness":{"surjection_proof":null,"rangeproof":null}}"#),
    ("txout-nonce-33", "txout", r#"{"asset":[0],"value":[0],"nonce":[1,[9,9,9,9,9,9,9,9,9,9,9,9,9,9,9,9,9,9,9,9,9,9,9,9,9,9,9,9,9,9,9,9,9]],"script_pubkey":"","witness":{"surjection_proof":null,"rangeproof":null}}"#),
    ("txout-nonce-32", "txout", r#"{"asset":[0],"value":[0],"nonce":[1,[9,9,9,9,9,9,9,9,9,9,9,9,9,9,9,9,9,9,9,9,9,9,9,9,9,9,9,9,9,9,9,9]],"script_pubkey":"","witness":{"surjection_proof":null,"rangeproof":null}}"#),
    ("extdata-challenge-only", "extdata", r#"{"challenge":"51"}"#),
    ("extdata-solution-only", "extdata", r#"{"solution":"51"}"#),
    ("extdata-both-kinds", "extdata", r#"{"current":{},"proposed":{},"signblock_witness":[],"challenge":"51","solution":""}"#),
    ("extdata-dynafed-partial-params", "extdata", r#"{"current":{"signblockscript":"51"},"proposed":{},"signblock_witness":[[1],[]]}"#),
    ("extdata-empty", "extdata", r#"{}"#),
    ("secrets-dup", "secrets", r#"{"value":1,"value":1}"#),
    ("locktime-two-entries", "locktime", r#"{"Blocks":1,"Seconds":2}"#),
    ("locktime-lowercase", "locktime", r#"{"blocks":1}"#),
    ("locktime-number", "locktime", r#"1"#),
    ("outpoint-no-prefix", "outpoint", r#""0100000000000000000000000000000000000000000000000000000000000000:7""#),
    ("outpoint-as-map", "outpoint", r#"{"txid":"0100000000000000000000000000000000000000000000000000000000000000","vout":7}"#),
];
fn probe<T: serde::Serialize + serde::de::DeserializeOwned>(json: &str) -> Out {
    match serde_json::from_str::<T>(json) {
        Ok(v) => Out::ok(format!("{} ok {}", json, serde_json::to_string(&v).unwrap_or_else(|_| "serr".into()))),
        Err(_) => Out::ok(format!("{} err", json)),
    }
}
fn eval_probe(name: &str) -> Out {
    let (_, ty, json) = match PROBES.iter().find(|p| p.0 == name) { Some(p) => *p, None => return Out::ok("harnesserr probe".into()) };
    match ty {
        "params" => probe::<elements::dynafed::Params>(json),
        "value" => probe::<elements::confidential::Value>(json),
        "txout" => probe::<elements::TxOut>(json),
        "extdata" => probe::<elements::BlockExtData>(json),
        "secrets" => probe::<elements::TxOutSecrets>(json),
        "locktime" => probe::<LockTime>(json),
        "outpoint" => probe::<OutPoint>(json),
        _ => Out::ok("harnesserr probe type".into()),
    }
}
/// round trip of one value through JSON text, serde_json::Value and CBOR bytes: (format, what failed) for every format that fails
fn rt3<T: serde::Serialize + serde::de::DeserializeOwned + PartialEq>(v: &T) -> Vec<(&'static str, String)> {
    let mut f = Vec::new();
    match serde_json::to_string(v) {
        Err(e) => f.push(("json", format!("does not serialize: {}", e))),
        Ok(j) => match serde_json::from_str::<T>(&j) { Ok(q) if q == *v => {}, Ok(_) => f.push(("json", "own JSON text deserializes to a different value".into())), Err(e) => f.push(("json", format!("own JSON text does not deserialize: {}", e))) },
    }
    match serde_json::to_value(v) {
        Err(e) => f.push(("json-value", format!("does not serialize: {}", e))),
        Ok(j) => match serde_json::from_value::<T>(j) { Ok(q) if q == *v => {}, Ok(_) => f.push(("json-value", "own serde_json::Value deserializes to a different value".into())), Err(e) => f.push(("json-value", format!("own serde_json::Value does not deserialize: {}", e))) },
    }
    match serde_cbor::to_vec(v) {
        Err(e) => f.push(("cbor", format!("does not serialize: {}", e))),
        Ok(c) => match serde_cbor::from_slice::<T>(&c) { Ok(q) if q == *v => {}, Ok(_) => f.push(("cbor", "own CBOR deserializes to a different value".into())), Err(e) => f.push(("cbor", format!("own CBOR does not deserialize: {}", e))) },
    }
    f
}
/// `C20 ps <caps> <points> <leaf oracle> <value notation> <hex of the PSET>`: the derived PartiallySignedTransaction serde.  Result (compared with the
/// model's): "J <json text> <verdict from text> <verdict from serde_json::Value> C <hex of cbor> <verdict>", verdicts "ok same" | "ok diff" | "err".
/// Predicate: the PSET, its Global and every Input / Output deserialize back to an equal value in all three formats.
fn eval_pset_serde(arg: &str) -> Out {
    use elements::pset::PartiallySignedTransaction as Pset;
    let p: Pset = match unhex(arg).and_then(|b| elements::encode::deserialize::<Pset>(&b).ok()) { Some(p) => p, None => return Out::ok("harnesserr pset".into()) };
    let r = std::panic::catch_unwind(std::panic::AssertUnwindSafe(|| -> (String, Option<String>) {
        let j = match serde_json::to_string(&p) { Ok(j) => j, Err(e) => return (format!("J serr {}", e), Some("pset-serde-json|serializing a PSET to JSON failed".into())) };
        let same = |q: &Pset| if serde_json::to_string(q).ok().as_deref() == Some(j.as_str()) { "ok same" } else { "ok diff" };
        let jv = match serde_json::from_str::<Pset>(&j) { Ok(q) => same(&q), Err(_) => "err" };
        let vv = match serde_json::to_value(&p).ok().and_then(|v| serde_json::from_value::<Pset>(v).ok()) { Some(q) => same(&q), None => "err" };
        let c = match serde_cbor::to_vec(&p) { Ok(c) => c, Err(e) => return (format!("C serr {}", e), Some("pset-serde-cbor|serializing a PSET to CBOR failed".into())) };
        let cv = match serde_cbor::from_slice::<Pset>(&c) { Ok(q) => same(&q), Err(_) => "err" };
        let mut fails: Vec<(String, &'static str, String)> = Vec::new();
        for (fmt, what) in rt3(&p) { fails.push(("PartiallySignedTransaction".to_string(), fmt, what)); }
        for (fmt, what) in rt3(&p.global) { fails.push(("pset::Global".to_string(), fmt, what)); }
        for (k, i) in p.inputs().iter().enumerate() { for (fmt, what) in rt3(i) { fails.push((format!("pset::Input #{}", k), fmt, what)); } }
        for (k, o) in p.outputs().iter().enumerate() { for (fmt, what) in rt3(o) { fails.push((format!("pset::Output #{}", k), fmt, what)); } }
        // the classes repaired by the fix: commits for F28 / F29 / F30 keep their keys so that a tree without the repairs is recognised
        let class = |what: &str| -> &'static str {
            if what.contains("duplicate field `version`") || what.contains("missing field `version`") { "F28-pset-serde-duplicate-version" }
            else if what.contains("8-bit integer (byte) with value 0 or 1") { "F29-pset-serde-parity-visit-u8" }
            else if what.contains("expected a borrowed string") { "F30-pset-serde-borrowed-str" }
            else { "pset-serde-roundtrip" }
        };
        let fail = fails.iter().find(|(_, _, w)| class(w) == "pset-serde-roundtrip").or(fails.first()).map(|(who, fmt, what)| format!("{}|{} ({}): {}", class(what), who, fmt, what));
        (format!("J {} {} {} C {} {}", j, jv, vv, hex(&c), cv), fail)
    }));
    match r {
        Ok((result, pred_fail)) => Out { result, pred_fail },
        Err(_) => Out { result: "panic".into(), pred_fail: Some("pset-serde-panic|serde (de)serialization of a PSET panicked".into()) },
    }
}
fn ps(p: &elements::pset::PartiallySignedTransaction, mut tags: Vec<String>, out: &mut Vec<Case>) {
    use pset_serde::ToF;
    let b = elements::encode::serialize(p);
    // the value is re-read from its consensus bytes by eval, so emit what that gives (C07's business whether it equals p)
    let q = match elements::encode::deserialize::<elements::pset::PartiallySignedTransaction>(&b) { Ok(q) => q, Err(_) => return };
    if b.len() > 40_000 { return; }
    let mut oracle = pset_serde::Oracle::default();
    let value = q.tof(&mut oracle);
    if let Some(ref e) = oracle.failed { tags.push(format!("oracle-failed:{}", e.split(':').next().unwrap_or(""))); }
    let mut pts = valid_points(&b);
    for x in pset_serde::extra_points(&q) { if !pts.contains(&x) { pts.push(x); } }
    tags.push("serde:pset-derived".into());
    out.push(Case { text: format!("C20 ps {} {} {} {} {}", crate::c01::caps(), hexlist(&pts), oracle.text(), value, hex(&b)), tags, nontrivial: true });
}
fn gen_pset_serde(rng: &mut ChaCha20Rng, n: usize, thorough: bool, out: &mut Vec<Case>) {
    use crate::c07::{base, set_global, set_input, set_output, shapes, taptree_of, N_GLOBAL, N_INPUT, N_OUTPUT};
    use elements::pset::PartiallySignedTransaction as Pset;
    // the repository's PSET literals and transactions turned into PSETs
    for v in repo_hex_vectors() {
        if v.len() > 30_000 { continue; }
        if v.starts_with(b"pset\xff") { if let Ok(p) = elements::encode::deserialize::<Pset>(&v) { ps(&p, vec!["src:repo-vector".into()], out); } }
        else if let Ok(tx) = elements::encode::deserialize::<elements::Transaction>(&v) { ps(&Pset::from_tx(tx), vec!["src:repo-tx-from_tx".into()], out); }
    }
    // every optional field alone
    for f in 0..N_GLOBAL { let mut tags = vec!["src:one-field".to_string()]; let mut p = base(rng, 1, 1); set_global(&mut p, f, rng, &mut tags); ps(&p, tags, out); }
    for f in 0..N_INPUT { let mut tags = vec!["src:one-field".to_string()]; let mut p = base(rng, 1, 1); set_input(&mut p.inputs_mut()[0], f, rng, &mut tags); ps(&p, tags, out); }
    for f in 0..N_OUTPUT { let mut tags = vec!["src:one-field".to_string()]; let mut p = base(rng, 1, 1); set_output(&mut p.outputs_mut()[0], f, rng, &mut tags); ps(&p, tags, out); }
    // tap trees of every shape
    for nl in 1..=(if thorough { 5 } else { 3 }) { for sh in shapes(nl) { let mut p = base(rng, 0, 1); p.outputs_mut()[0].tap_tree = Some(taptree_of(rng, &sh)); ps(&p, vec!["src:taptree".into(), format!("leaves:{}", nl)], out); } }
    // shapes and random subsets of the fields
    for (ni, no) in [(0usize, 0usize), (0, 1), (1, 0), (3, 2)] { let p = base(rng, ni, no); ps(&p, vec!["src:shape".into()], out); }
    for _ in 0..n / 2 {
        let mut tags = vec!["src:random-subset".to_string()];
        let (ni, no) = (rng.gen_range(0..3), rng.gen_range(0..3));
        let mut p = base(rng, ni, no);
        for _ in 0..rng.gen_range(0..4) { let f = rng.gen_range(0..N_GLOBAL); set_global(&mut p, f, rng, &mut tags); }
        for i in 0..ni { for _ in 0..rng.gen_range(0..8) { let f = rng.gen_range(0..N_INPUT); set_input(&mut p.inputs_mut()[i], f, rng, &mut tags); } }
        for i in 0..no { for _ in 0..rng.gen_range(0..4) { let f = rng.gen_range(0..N_OUTPUT); if f == 12 || f == 13 || f == 10 { continue; } set_output(&mut p.outputs_mut()[i], f, rng, &mut tags); } if rng.gen_range(0..4) == 0 { set_output(&mut p.outputs_mut()[i], 12, rng, &mut tags); } }
        tags.sort(); tags.dedup();
        ps(&p, tags, out);
    }
}
/// `C20 ad <net> <pkh|sh|wp<ver>> <payload hex> <blinder hex|->`: an Address built field by field (not through FromStr), then Display -> FromStr and the
/// serde JSON / CBOR round trips (its serde form is its Display string).  Result "<hex of the text> <verdict> J <json> <verdict> C <cbor hex> <verdict>".
fn eval_address(net: &str, kind: &str, pl: &str, bl: &str) -> Out {
    use elements::address::Payload;
    use elements::bitcoin::hashes::Hash as _;
    let bad = || Out::ok("harnesserr value".into());
    let params = match crate::addr::NETS.iter().find(|n| n.0 == net) { Some(n) => n.1, None => return bad() };
    let data = match if pl == "-" { Some(vec![]) } else { unhex(pl) } { Some(d) => d, None => return bad() };
    let payload = match kind {
        "pkh" => match <[u8; 20]>::try_from(&data[..]) { Ok(a) => Payload::PubkeyHash(elements::PubkeyHash::from_byte_array(a)), Err(_) => return bad() },
        "sh" => match <[u8; 20]>::try_from(&data[..]) { Ok(a) => Payload::ScriptHash(elements::ScriptHash::from_byte_array(a)), Err(_) => return bad() },
        k if k.starts_with("wp") => match k[2..].parse::<u8>() { Ok(v) if v <= 16 => Payload::WitnessProgram { version: crate::addr::fe(v), program: data }, _ => return bad() },
        _ => return bad(),
    };
    let blinding_pubkey = if bl == "-" { None } else { match unhex(bl).and_then(|b| elements::secp256k1_zkp::PublicKey::from_slice(&b).ok()) { Some(k) => Some(k), None => return bad() } };
    let a = elements::Address { params, payload, blinding_pubkey };
    let s = a.to_string();
    let mut fail: Option<String> = None;
    let v = |r: Option<elements::Address>| match r { Some(b) if b == a => "ok same", Some(_) => "ok diff", None => "err" };
    let tv = v(elements::Address::from_str(&s).ok());
    if tv != "ok same" { fail = Some(format!("address-text-roundtrip|Address {} {} (blinded: {}) prints as {:?}, which does not parse back to it ({})", net, kind, bl != "-", s, tv)); }
    let j = serde_json::to_string(&a).unwrap_or_else(|e| format!("serr {}", e));
    let jv = v(serde_json::from_str::<elements::Address>(&j).ok());
    let c = serde_cbor::to_vec(&a).unwrap_or_default();
    let cv = v(serde_cbor::from_slice::<elements::Address>(&c).ok());
    if fail.is_none() && (jv != "ok same" || cv != "ok same") { fail = Some(format!("address-serde-roundtrip|Address {} {} (blinded: {}): JSON {} CBOR {}", net, kind, bl != "-", jv, cv)); }
    Out { result: format!("{} {} J {} {} C {} {}", hex(s.as_bytes()), tv, j, jv, hex(&c), cv), pred_fail: fail }
}
/// `C20 pt <hex of a PSET>`: PartiallySignedTransaction Display (padded standard base64) -> FromStr.  Result "len%3=<r> <base64 text> <verdict>".
fn eval_pset_text(arg: &str) -> Out {
    use elements::pset::PartiallySignedTransaction as Pset;
    let bytes = match unhex(arg) { Some(b) => b, None => return Out::ok("harnesserr hex".into()) };
    let p: Pset = match elements::encode::deserialize::<Pset>(&bytes) { Ok(p) => p, Err(_) => return Out::ok("harnesserr pset".into()) };
    let s = p.to_string();
    let (verdict, fail) = match Pset::from_str(&s) {
        Ok(q) if q == p => ("ok same", None),
        Ok(_) => ("ok diff", Some(format!("pset-text-roundtrip|a PSET of {} bytes (len%3={}) prints as base64 that parses to a different PSET", bytes.len(), bytes.len() % 3))),
        Err(e) => ("err", Some(format!("pset-text-roundtrip|a PSET of {} bytes (len%3={}) does not parse its own printed base64 form: {}", bytes.len(), bytes.len() % 3, e))),
    };
    Out { result: format!("len%3={} {} {}", bytes.len() % 3, s, verdict), pred_fail: fail }
}
/// `C20 lc <constructor> <n>`: a LockTime built through one of its constructors, then Display -> FromStr.  FromStr goes through from_consensus only, so the
/// other constructors (from_height / from_time / the enum variants over Height::from_consensus and Time::from_consensus) must agree with it on which side of
/// the threshold a value lies.
fn eval_locktime_ctor(ctor: &str, n: &str) -> Out {
    let show = |v: &LockTime| match v { LockTime::Blocks(h) => format!("B{}", h.to_consensus_u32()), LockTime::Seconds(t) => format!("S{}", t.to_consensus_u32()) };
    let n: u32 = match n.parse() { Ok(n) => n, Err(_) => return Out::ok("harnesserr value".into()) };
    let l: Option<LockTime> = match ctor {
        "from_consensus" => Some(LockTime::from_consensus(n)),
        "from_height" => LockTime::from_height(n).ok(),
        "from_time" => LockTime::from_time(n).ok(),
        "Blocks" => Height::from_consensus(n).ok().map(LockTime::Blocks),
        "Seconds" => Time::from_consensus(n).ok().map(LockTime::Seconds),
        "From<Height>" => Height::from_consensus(n).ok().map(LockTime::from),
        "From<Time>" => Time::from_consensus(n).ok().map(LockTime::from),
        _ => return Out::ok("harnesserr ctor".into()),
    };
    match l {
        None => Out::ok("none".into()),
        Some(l) => {
            let s = l.to_string();
            let (line, back) = parse_line::<LockTime>(&s, &show, &|e| chain_class(e).unwrap_or_else(|| "int-other".into()));
            let pred_fail = match back { Some(b) if b == l => None,
                _ => Some(format!("text-roundtrip|LockTime built by {}({}) = {} prints as {:?}, which does not parse back to it", ctor, n, show(&l), s)) };
            Out { result: format!("ok {} {} {}", show(&l), hex(s.as_bytes()), line), pred_fail }
        }
    }
}
/// `C20 lj <Variant> <n>`: a LockTime obtained from the JSON {"<Variant>": n} (the derived Deserialize), then Display -> FromStr
fn eval_locktime_json(variant: &str, n: &str) -> Out {
    let show = |v: &LockTime| match v { LockTime::Blocks(h) => format!("B{}", h.to_consensus_u32()), LockTime::Seconds(t) => format!("S{}", t.to_consensus_u32()) };
    match serde_json::from_str::<LockTime>(&format!("{{\"{}\":{}}}", variant, n)) {
        Err(_) => Out::ok("err".into()),
        Ok(l) => {
            let s = l.to_string();
            let (line, back) = parse_line::<LockTime>(&s, &show, &|e| chain_class(e).unwrap_or_else(|| "int-other".into()));
            let pred_fail = match back { Some(b) if b == l => None,
                _ => Some(format!("F17-locktime-deserialize-unvalidated|{} obtained through Deserialize prints as {:?}, which parses to a different value", show(&l), s)) };
            Out { result: format!("ok {} {} {}", show(&l), hex(s.as_bytes()), line), pred_fail }
        }
    }
}
fn sd(ty: &str, cons: Option<&[u8]>, arg: String, mut tags: Vec<String>, nontrivial: bool, out: &mut Vec<Case>) {
    let pts = match cons { Some(b) => valid_points(b), None => vec![] };
    tags.push(format!("serde:{}", ty.split(':').next().unwrap()));
    out.push(Case { text: format!("C20 sd {} {} {} {}", ty, crate::c01::caps(), hexlist(&pts), arg), tags, nontrivial });
}
fn sd_cons<T: elements::encode::Encodable>(ty: &str, v: &T, tags: Vec<String>, out: &mut Vec<Case>) {
    let b = elements::encode::serialize(v);
    sd(ty, Some(&b), hex(&b), tags, true, out);
}

// ------------------------------------------------------------------------------------------------ generators
fn shex(s: &str) -> String { if s.is_empty() { "-".into() } else { hex(s.as_bytes()) } }
fn tp(ty: &str, s: &str, tag: &str, out: &mut Vec<Case>) {
    out.push(Case { text: format!("C20 tp {} {}", ty, shex(s)), tags: vec![format!("text:{}", ty), format!("str:{}", tag)], nontrivial: true });
}
fn tr(ty: &str, v: String, nontrivial: bool, out: &mut Vec<Case>) {
    out.push(Case { text: format!("C20 tr {} {}", ty, v), tags: vec![format!("text:{}", ty), "str:printed".into()], nontrivial });
}
/// near-miss variants of a printed form
fn near_misses(rng: &mut ChaCha20Rng, s: &str) -> Vec<(String, &'static str)> {
    let mut v: Vec<(String, &'static str)> = vec![
        (format!("+{}", s), "plus"), (format!("-{}", s), "minus"), (format!("0{}", s), "lead0"), (format!("00{}", s), "lead00"), (format!("{}0", s), "trail0"),
        (s.to_uppercase(), "upper"), (s.to_lowercase(), "lower"), (format!(" {}", s), "ws-lead"), (format!("{} ", s), "ws-trail"), (format!("{}\n", s), "nl-trail"),
        (format!("\t{}", s), "tab-lead"), (format!("0x{}", s), "0x"), (format!("0X{}", s), "0X"), (format!("{}{}", s, s), "doubled"), (String::new(), "empty"),
        (format!("{}é", s), "non-ascii"), (format!("{}_", s), "underscore"),
    ];
    if !s.is_empty() {
        let mut c: Vec<char> = s.chars().collect();
        v.push((c[1..].iter().collect(), "drop-first"));
        v.push((c[..c.len() - 1].iter().collect(), "drop-last"));
        let i = rng.gen_range(0..c.len());
        let mut d = c.clone(); d[i] = pk!(rng, ['g', 'x', ' ', ':', '+', '-', 'G', '/', '٣']); v.push((d.iter().collect(), "bad-char"));
        let j = rng.gen_range(0..c.len());
        c.insert(j, pk!(rng, ['0', 'a', ' ', ':']));
        v.push((c.iter().collect(), "insert"));
    }
    v
}

fn gen_serde(rng: &mut ChaCha20Rng, n: usize, thorough: bool, out: &mut Vec<Case>) {
    use elements::{Transaction, Block};
    let f = Feat { big: false, no_witness: false };
    for k in 0..n {
        let mut tags = vec![];
        match k % 12 {
            0 | 1 | 2 => { let t = rtx(rng, f, &mut tags); if elements::encode::serialize(&t).len() < (if thorough { 40000 } else { 9000 }) { sd_cons("tx", &t, tags, out); } }
            3 | 4 => { let t = Transaction { version: 2, lock_time: LockTime::ZERO, input: vec![rtxin(rng, f, &mut tags)], output: vec![] }; sd_cons("txin1", &t, tags, out); }
            5 | 6 => { let t = Transaction { version: 2, lock_time: LockTime::ZERO, input: vec![], output: vec![rtxout(rng, f, &mut tags)] }; sd_cons("txout1", &t, tags, out); }
            7 | 8 => { let h = crate::c01::rheader(rng, &mut tags); sd_cons("header", &h, tags, out); }
            9 => { let txs: Vec<Transaction> = (0..rng.gen_range(0..3)).map(|_| { let nw: bool = rng.gen(); rtx(rng, Feat { big: false, no_witness: nw }, &mut tags) }).collect();
                   let b = Block { header: crate::c01::rheader(rng, &mut tags), txdata: txs };
                   if elements::encode::serialize(&b).len() < 9000 { sd_cons("block", &b, tags, out); } }
            10 => { let p = crate::c01::rparams(rng, &mut tags); sd_cons("params", &p, tags, out); }
            _ => match rng.gen_range(0..3) { 0 => sd_cons("value", &rvalue(rng, true), tags, out), 1 => sd_cons("asset", &rasset(rng, true), tags, out), _ => sd_cons("nonce", &rnonce(rng), tags, out) },
        }
    }
    // explicit values at the byte-swap boundaries
    for v in [0u64, 1, 0xff, 0x100, 0x0102030405060708, 0xff00000000000000, u64::MAX, 1 << 63, 21_000_000_0000_0000] {
        sd_cons("value", &elements::confidential::Value::Explicit(v), vec!["value:explicit-boundary".into()], out);
    }
    let m = (n / 10).max(3);
    for k in 0..m {
        let txid = if k == 0 { [0u8; 32] } else { r32(rng) };
        let vout: u32 = pk!(rng, [0u32, 1, 0x3fff_ffff, 0x7fff_ffff, 0x8000_0000, 0xc000_0001, 0xffff_ffff, rng.gen()]);
        sd("outpoint", None, format!("{}:{}", hex(&txid), vout), vec![], !(k == 0 && vout == u32::MAX), out);
        let lt: u32 = pk!(rng, [0u32, 1, 499_999_999, 500_000_000, 0xffff_ffff, rng.gen()]);
        sd("locktime", None, lt.to_string(), vec![], lt != 0, out);
        let val: u64 = pk!(rng, [0u64, 1, u64::MAX, 1 << 53, (1 << 53) + 1, rng.gen()]);
        sd("secrets", None, format!("{},{},{},{}", hex(&r32(rng)), hex(rtweak(rng).as_ref()), val, hex(rtweak(rng).as_ref())), vec![], true, out);
        sd("abf", None, hex(rtweak(rng).as_ref()), vec![], true, out);
        sd("vbf", None, if k == 0 { hex(&[0u8; 32]) } else { hex(rtweak(rng).as_ref()) }, vec![], k != 0, out);
        let sl = boundary_len(rng, false);
        sd("script", None, if sl == 0 { "-".into() } else { hex(&rbytes(rng, sl)) }, vec![], sl != 0, out);
        for ty in HASH_TYPES { if k < 2 || rng.gen_range(0..4) == 0 { let len = if ty == "ScriptHash" { 20 } else { 32 }; sd(&format!("hash:{}", ty), None, hex(&rbytes(rng, len)), vec![], true, out); } }
    }
    // LockTime through every constructor at the boundary values
    for ctor in ["from_consensus", "from_height", "from_time", "Blocks", "Seconds", "From<Height>", "From<Time>"] {
        for n in [0u32, 1, 499_999_999, 500_000_000, 500_000_001, u32::MAX] {
            out.push(Case { text: format!("C20 lc {} {}", ctor, n), tags: vec!["text:LockTime".into(), format!("ctor:{}", ctor)], nontrivial: n != 0 });
        }
    }
    // LockTime values reachable through the derived Deserialize (which does not look at the threshold)
    for (variant, n) in [("Blocks", 0u64), ("Blocks", 499_999_999), ("Blocks", 500_000_000), ("Blocks", 4294967295), ("Blocks", 4294967296), ("Seconds", 0), ("Seconds", 499_999_999),
                         ("Seconds", 500_000_000), ("Seconds", 4294967295), ("Height", 5)] {
        out.push(Case { text: format!("C20 lj {} {}", variant, n), tags: vec!["serde:locktime-json".into()], nontrivial: n != 0 });
    }
    for p in PROBES.iter() { out.push(Case { text: format!("C20 dm {}", p.0), tags: vec!["serde:malformed-tree".into(), format!("probe:{}", p.1)], nontrivial: true }); }
    // types whose serde form is their Display string
    for s in ["SIGHASH_ALL", "SIGHASH_NONE|SIGHASH_ANYONECANPAY", "SIGHASH_DEFAULT", "SIGHASH_RESERVED", "0xff", "0x4"] { sd("str", None, shex(s), vec!["serde:string-form".into()], true, out); }
    for _ in 0..m {
        let pkh = elements::bitcoin::PublicKey::new(rpubkey(rng));
        let blinder = if rng.gen() { Some(rpubkey(rng)) } else { None };
        let params: &'static elements::AddressParams = match rng.gen_range(0..3) { 0 => &elements::AddressParams::LIQUID, 1 => &elements::AddressParams::ELEMENTS, _ => &elements::AddressParams::LIQUID_TESTNET };
        let a = match rng.gen_range(0..3) {
            0 => elements::Address::p2pkh(&pkh, blinder, params),
            1 => elements::Address::p2wpkh(&pkh, blinder, params),
            _ => elements::Address::p2wsh(&rscript(rng, false), blinder, params),
        };
        sd("str", None, shex(&a.to_string()), vec!["serde:address".into()], true, out);
    }
}

/// addresses built field by field: every network x blinded or not x (p2pkh, p2sh, v0 with 20/32 bytes, v1..v16 with 2/20/32/40 bytes)
fn gen_addresses(rng: &mut ChaCha20Rng, out: &mut Vec<Case>) {
    for (net, _) in crate::addr::NETS.iter() {
        for blinded in [false, true] {
            let mut shapes: Vec<(String, usize)> = vec![("pkh".into(), 20), ("sh".into(), 20), ("wp0".into(), 20), ("wp0".into(), 32)];
            for v in 1..=16 { for l in [2usize, 20, 32, 40] { shapes.push((format!("wp{}", v), l)); } }
            for (kind, len) in shapes {
                let bl = if blinded { hex(&rpubkey(rng).serialize()) } else { "-".to_string() };
                out.push(Case { text: format!("C20 ad {} {} {} {}", net, kind, hex(&rbytes(rng, len)), bl),
                                tags: vec!["text:Address".into(), "serde:address".into(), format!("addr:{}{}", if blinded { "blinded-" } else { "" }, if kind.starts_with("wp") { if kind == "wp0" { "v0" } else if kind == "wp1" { "v1" } else { "v2-16" } } else { kind.as_str() })], nontrivial: true });
            }
        }
    }
}
/// PSET text form: serialized lengths in all three residues mod 3 (an unknown global pair of 0 / 1 / 2 value bytes steers the residue)
fn gen_pset_text(rng: &mut ChaCha20Rng, n: usize, out: &mut Vec<Case>) {
    use crate::c07::{base, set_global, set_input, set_output, N_GLOBAL, N_INPUT, N_OUTPUT};
    use elements::pset::{raw, PartiallySignedTransaction as Pset};
    let mut bases: Vec<Pset> = Vec::new();
    for v in repo_hex_vectors() { if v.len() < 30_000 && v.starts_with(b"pset\xff") { if let Ok(p) = elements::encode::deserialize::<Pset>(&v) { bases.push(p); } } }
    for (ni, no) in [(0usize, 0usize), (1, 1), (2, 1)] { bases.push(base(rng, ni, no)); }
    for _ in 0..(n / 20).max(4) {
        let mut tags = vec![];
        let (ni, no) = (rng.gen_range(0..3), rng.gen_range(0..3));
        let mut p = base(rng, ni, no);
        for _ in 0..rng.gen_range(0..3) { let f = rng.gen_range(0..N_GLOBAL); set_global(&mut p, f, rng, &mut tags); }
        for i in 0..ni { for _ in 0..rng.gen_range(0..5) { let f = rng.gen_range(0..N_INPUT); set_input(&mut p.inputs_mut()[i], f, rng, &mut tags); } }
        for i in 0..no { for _ in 0..rng.gen_range(0..3) { let f = rng.gen_range(0..N_OUTPUT); if f == 12 || f == 13 || f == 10 { continue; } set_output(&mut p.outputs_mut()[i], f, rng, &mut tags); } }
        bases.push(p);
    }
    for p in bases {
        for pad in 0..3usize {
            let mut q = p.clone();
            q.global.unknown.insert(raw::Key { type_value: 0xf0, key: vec![0x20] }, vec![0x5a; pad]);
            let b = elements::encode::serialize(&q);
            if b.len() > 30_000 || elements::encode::deserialize::<Pset>(&b).is_err() { continue; }
            out.push(Case { text: format!("C20 pt {}", hex(&b)), tags: vec!["text:PartiallySignedTransaction".into(), format!("len%3={}", b.len() % 3)], nontrivial: true });
        }
    }
}

pub fn gen(rng: &mut ChaCha20Rng, n: usize, thorough: bool) -> Vec<Case> {
    let mut out = Vec::new();
    gen_addresses(rng, &mut out);
    gen_pset_text(rng, n, &mut out);
    gen_serde(rng, n, thorough, &mut out);
    gen_pset_serde(rng, n, thorough, &mut out);
    // ---- hash newtypes and blinding factors
    let per = (n / 40).max(2);
    for ty in HASH_TYPES.iter().chain(["AssetBlindingFactor", "ValueBlindingFactor"].iter()) {
        let len = if *ty == "ScriptHash" { 20 } else { 32 };
        let bf = ty.ends_with("BlindingFactor");
        let mut vals: Vec<Vec<u8>> = vec![vec![0u8; len], { let mut v = vec![0u8; len]; v[0] = 1; v }, { let mut v = vec![0u8; len]; v[len - 1] = 1; v }, (0..len as u8).collect()];
        if bf {
            // the group order, one below it, one above it (in memory order = big endian)
            let order = unhex("fffffffffffffffffffffffffffffffebaaedce6af48a03bbfd25e8cd0364141").unwrap();
            let mut below = order.clone(); below[31] -= 1;
            let mut above = order.clone(); above[31] += 1;
            vals.push(below);
            for bad in [order, above, vec![0xffu8; 32]] {
                // not constructible as a value: feed the printed form of the bytes (reversed hex) to the parser instead
                let s: String = bad.iter().rev().map(|b| format!("{:02x}", b)).collect();
                tp(ty, &s, "out-of-range", &mut out);
                let f: String = bad.iter().map(|b| format!("{:02x}", b)).collect();
                tp(ty, &f, "out-of-range-forward", &mut out);
            }
        } else { vals.push(vec![0xffu8; len]); }
        for _ in 0..per { vals.push(if bf { rtweak(rng).as_ref().to_vec() } else { rbytes(rng, len) }); }
        for (k, v) in vals.iter().enumerate() {
            tr(ty, hex(v), v.iter().any(|b| *b != 0), &mut out);
            if k < 3 || k == vals.len() - 1 {
                let printed: String = if *ty == "ScriptHash" || *ty == "WScriptHash" || ty.starts_with("Tap") { hex(v) } else { v.iter().rev().map(|b| format!("{:02x}", b)).collect() };
                for (m, tag) in near_misses(rng, &printed) { tp(ty, &m, tag, &mut out); }
                // the other byte order parses too (to a different value): the model must agree on which
                let other: String = v.iter().map(|b| format!("{:02X}", b)).collect();
                tp(ty, &other, "forward-upper", &mut out);
            }
        }
    }
    // ---- u32 decimals
    let boundary: [u32; 14] = [0, 1, 9, 10, 99, 100, 499_999_999, 500_000_000, 500_000_001, 0x7fff_ffff, 0x8000_0000, 0xffff_fffe, 0xffff_ffff, 1_000_000_000];
    for ty in ["Sequence", "LockTime", "Height", "Time"] {
        let mut vals: Vec<u32> = boundary.to_vec();
        for _ in 0..per * 2 { vals.push(match rng.gen_range(0..3) { 0 => rng.gen(), 1 => rng.gen_range(0..1000), _ => rng.gen_range(499_000_000..501_000_000) }); }
        for (k, v) in vals.iter().enumerate() {
            let constructible = match ty { "Height" => *v < 500_000_000, "Time" => *v >= 500_000_000, _ => true };
            if constructible { tr(ty, v.to_string(), *v != 0, &mut out); } else { tp(ty, &v.to_string(), "wrong-side", &mut out); }
            if k < boundary.len() || k % 4 == 0 { for (m, tag) in near_misses(rng, &v.to_string()) { tp(ty, &m, tag, &mut out); } }
        }
        for s in ["4294967296", "4294967295", "04294967295", "+4294967295", "42949672950", "99999999999999999999", "18446744073709551616", "+", "-", "++1", "+-1", "-0", "+0", "0", "00", "1e3", "1.0", "１２", "0x10", " ", "٣"] {
            tp(ty, s, "int-edge", &mut out);
        }
    }
    // ---- OutPoint
    for k in 0..(per * 3 + 8) {
        let txid = match k % 4 { 0 => [0u8; 32], 1 => { let mut t = [0u8; 32]; t[0] = 1; t } _ => r32(rng) };
        let vout: u32 = pk!(rng, [0u32, 1, 7, 9, 10, 0x3fff_ffff, 0x4000_0000, 0x8000_0000, 0xffff_ffff, rng.gen()]);
        tr("OutPoint", format!("{}:{}", hex(&txid), vout), !(txid == [0u8; 32] && vout == u32::MAX), &mut out);
        if k < 6 {
            let t: String = txid.iter().rev().map(|b| format!("{:02x}", b)).collect();
            let forms: Vec<(String, &str)> = vec![
                (format!("{}:{}", t, vout), "no-prefix"), (format!("[elements][elements]{}:{}", t, vout), "double-prefix"), (format!("[Elements]{}:{}", t, vout), "prefix-case"),
                (format!("[elements] {}:{}", t, vout), "prefix-space"), (format!("[elements]{}:+{}", t, vout), "vout-plus"), (format!("[elements]{}:0{}", t, vout), "vout-lead0"),
                (format!("[elements]{}:{} ", t, vout), "vout-space"), (format!("[elements]{}:", t), "no-vout"), (format!("[elements]:{}", vout), "no-txid"),
                (format!("[elements]{}{}", t, vout), "no-colon"), (format!("[elements]{}::{}", t, vout), "two-colons"), (format!("[elements]{}:{}:", t, vout), "colon-end"),
                (format!("[elements]{}:4294967296", t), "vout-overflow"), (format!("[elements]{}:4294967295", t), "vout-max"), (format!("[elements]{}:00000000001", t), "toolong"),
                (format!("[elements]{}:12345678901", t), "toolong-11"), (format!("[elements]{}:0", t), "vout-0"), (format!("[elements]{}:00", t), "vout-00"), (format!("[elements]{}:+", t), "vout-sign"),
                (format!("[elements]{}:-1", t), "vout-neg"), (format!("[elements]{}:{}", t.to_uppercase(), vout), "txid-upper"), (format!("[elements]{}:{}", &t[1..], vout), "txid-short"),
                (format!("[elements]0{}:{}", t, vout), "txid-long"), (format!("[elements]{}g:{}", &t[..63], vout), "txid-badchar"), (format!("[elements]{}:1x", t), "vout-badchar"),
                ("[elements]".to_string(), "prefix-only"), (String::new(), "empty"), (":".to_string(), "colon-only"), (format!("{}:{}é", t, vout), "non-ascii"),
                (format!("[elements{}:{}", t, vout), "prefix-broken"),
            ];
            for (m, tag) in forms { tp("OutPoint", &m, tag, &mut out); }
            for (m, tag) in near_misses(rng, &format!("[elements]{}:{}", t, vout)) { tp("OutPoint", &m, tag, &mut out); }
        }
    }
    // ---- sighash types: every variant, every named string and near misses, PsbtSighashType over boundary and random u32
    let names = ["SIGHASH_DEFAULT", "SIGHASH_ALL", "SIGHASH_NONE", "SIGHASH_SINGLE", "SIGHASH_ALL|SIGHASH_ANYONECANPAY", "SIGHASH_NONE|SIGHASH_ANYONECANPAY",
        "SIGHASH_SINGLE|SIGHASH_ANYONECANPAY", "SIGHASH_RESERVED", "SIGHASH_ANYONECANPAY", "SIGHASH_ALL|SIGHASH_NONE", "ALL", "All"];
    for v in [1u32, 2, 3, 0x81, 0x82, 0x83] { tr("EcdsaSighashType", v.to_string(), true, &mut out); }
    for v in [0u32, 1, 2, 3, 0x81, 0x82, 0x83, 0xff] { tr("SchnorrSighashType", v.to_string(), v != 0, &mut out); }
    let mut pv: Vec<u32> = (0..=0x105).collect();
    pv.extend([0x1ff, 0xffff, 0x10000, 0x7fff_ffff, 0x8000_0000, 0xffff_fffe, 0xffff_ffff, 0xabcdef, 0xABCDEF01]);
    for _ in 0..per * 2 { pv.push(rng.gen()); }
    for v in pv { tr("PsbtSighashType", v.to_string(), v != 0, &mut out); }
    for ty in ["EcdsaSighashType", "SchnorrSighashType", "PsbtSighashType"] {
        for nm in names { tp(ty, nm, "named", &mut out); for (m, tag) in near_misses(rng, nm) { tp(ty, &m, tag, &mut out); } }
        for s in ["0xff", "0xFF", "0XFF", "ff", "FF", "0x", "0x0", "0x00", "0x0x", "0x0xff", "0x0x0xff", "0x+ff", "+ff", "+0xff", "0x-1", "0xffffffff", "0x100000000", "0x0100000000",
                  "0x000000000001", "x0ff", "00xff", "0x 1", " 0x1", "0x1 ", "1", "01", "81", "0x81", "0x1", "0x01", "255", "4294967295", "0xg", "x", "0", "", "0x٣", "0xx1", "0x0X1"] {
            tp(ty, s, "hexform", &mut out);
        }
    }
    out
}
