//! C08: PSET <-> transaction views, BIP370 lock time, unique id.
//!   lt  <pset>              locktime() of a PSET; predicate: equals BIP370 (written here from the BIP text), never panics
//!   rt  <tx>                from_tx then extract_tx; prints the PSET listing and the extracted transaction; predicate: identical tx
//!   ex  <pset>              extract_tx of an arbitrary PSET; predicate: deterministic
//!   uid <pset> <update>     unique_id before/after a field addition; predicate: unchanged for every uid-neutral update
//! Transactions are written field by field (the same text the model prints):
//!   v<dec>,lt<dec>,I(txid:vout:pegin:script_sig:sequence:nonce:entropy:amount:keys:amount_rp:keys_rp:script_witness:pegin_witness),...,O(asset:value:nonce:spk:surj:range),...
use crate::c14::err_class;
use crate::psetl::*;
use crate::{util::*, Case, Out};
use elements::confidential::{Asset, Nonce, Value};
use elements::encode::{deserialize, serialize};
use elements::hashes::Hash;
use elements::pset::serialize::{Deserialize, Serialize};
use elements::pset::PartiallySignedTransaction as Pset;
use elements::secp256k1_zkp::{RangeProof, SurjectionProof, Tweak};
use elements::{AssetId, AssetIssuance, LockTime, OutPoint, Script, Sequence, Transaction, TxIn, TxInWitness, TxOut, TxOutWitness, Txid};
use rand::Rng;
use rand_chacha::ChaCha20Rng;
use std::panic::{catch_unwind, AssertUnwindSafe};

fn hx(b: &[u8]) -> String { if b.is_empty() { "-".into() } else { hex(b) } }
fn unhx(s: &str) -> Option<Vec<u8>> { if s == "-" { Some(vec![]) } else { unhex(s) } }
fn opt(o: Option<Vec<u8>>) -> String { match o { None => "~".into(), Some(v) => hx(&v) } }
fn unopt(s: &str) -> Option<Option<Vec<u8>>> { if s == "~" { Some(None) } else { unhx(s).map(Some) } }

fn show_value(v: &Value) -> String { match v { Value::Null => "n".into(), Value::Explicit(x) => format!("e{}", hex(&x.to_le_bytes())), Value::Confidential(c) => format!("c{}", hex(&c.serialize())) } }
fn show_asset(v: &Asset) -> String { match v { Asset::Null => "n".into(), Asset::Explicit(x) => format!("e{}", hex(&Serialize::serialize(x))), Asset::Confidential(c) => format!("c{}", hex(&c.serialize())) } }
fn show_nonce(v: &Nonce) -> String { match v { Nonce::Null => "n".into(), Nonce::Explicit(x) => format!("e{}", hex(x)), Nonce::Confidential(c) => format!("c{}", hex(&c.serialize())) } }
fn parse_value(s: &str) -> Option<Value> {
    match s.as_bytes().first()? { b'n' => Some(Value::Null), b'e' => Some(Value::Explicit(u64::from_le_bytes(unhex(&s[1..])?.try_into().ok()?))),
        b'c' => Some(Value::Confidential(Deserialize::deserialize(&unhex(&s[1..])?).ok()?)), _ => None }
}
fn parse_asset(s: &str) -> Option<Asset> {
    match s.as_bytes().first()? { b'n' => Some(Asset::Null), b'e' => Some(Asset::Explicit(AssetId::deserialize(&unhex(&s[1..])?).ok()?)),
        b'c' => Some(Asset::Confidential(Deserialize::deserialize(&unhex(&s[1..])?).ok()?)), _ => None }
}
fn parse_nonce(s: &str) -> Option<Nonce> {
    match s.as_bytes().first()? { b'n' => Some(Nonce::Null), b'e' => Some(Nonce::Explicit(unhex(&s[1..])?.try_into().ok()?)),
        b'c' => Some(Nonce::Confidential(elements::secp256k1_zkp::PublicKey::from_slice(&unhex(&s[1..])?).ok()?)), _ => None }
}
pub fn show_tx(t: &Transaction) -> String {
    let mut parts = vec![format!("v{}", t.version), format!("lt{}", t.lock_time.to_consensus_u32())];
    for i in &t.input {
        parts.push(format!("I({})", [hx(&i.previous_output.txid.to_byte_array()), i.previous_output.vout.to_string(), (i.is_pegin as u8).to_string(), hx(i.script_sig.as_bytes()),
            i.sequence.0.to_string(), hx(i.asset_issuance.asset_blinding_nonce.as_ref()), hx(&i.asset_issuance.asset_entropy), show_value(&i.asset_issuance.amount),
            show_value(&i.asset_issuance.inflation_keys), opt(i.witness.amount_rangeproof.as_ref().map(|p| p.serialize())), opt(i.witness.inflation_keys_rangeproof.as_ref().map(|p| p.serialize())),
            hx(&serialize(&i.witness.script_witness)), hx(&serialize(&i.witness.pegin_witness))].join(":")));
    }
    for o in &t.output {
        parts.push(format!("O({})", [show_asset(&o.asset), show_value(&o.value), show_nonce(&o.nonce), hx(o.script_pubkey.as_bytes()),
            opt(o.witness.surjection_proof.as_ref().map(|p| p.serialize())), opt(o.witness.rangeproof.as_ref().map(|p| p.serialize()))].join(":")));
    }
    parts.join(",")
}
pub fn parse_tx(s: &str) -> Option<Transaction> {
    let mut t = Transaction { version: 0, lock_time: LockTime::ZERO, input: vec![], output: vec![] };
    for (ix, part) in s.split(',').enumerate() {
        if ix == 0 { t.version = part.strip_prefix('v')?.parse().ok()?; continue; }
        if ix == 1 { t.lock_time = LockTime::from_consensus(part.strip_prefix("lt")?.parse().ok()?); continue; }
        if let Some(body) = part.strip_prefix("I(").and_then(|b| b.strip_suffix(')')) {
            let f: Vec<&str> = body.split(':').collect();
            if f.len() != 13 { return None; }
            let rp = |s: &str| -> Option<Option<Box<RangeProof>>> { match unopt(s)? { None => Some(None), Some(b) => Some(Some(Box::new(RangeProof::from_slice(&b).ok()?))) } };
            t.input.push(TxIn {
                previous_output: OutPoint::new(Txid::from_byte_array(unhx(f[0])?.try_into().ok()?), f[1].parse().ok()?),
                is_pegin: f[2] == "1", script_sig: Script::from(unhx(f[3])?), sequence: Sequence(f[4].parse().ok()?),
                asset_issuance: AssetIssuance { asset_blinding_nonce: Tweak::from_slice(&unhx(f[5])?).ok()?, asset_entropy: unhx(f[6])?.try_into().ok()?, amount: parse_value(f[7])?, inflation_keys: parse_value(f[8])? },
                witness: TxInWitness { amount_rangeproof: rp(f[9])?, inflation_keys_rangeproof: rp(f[10])?, script_witness: deserialize(&unhx(f[11])?).ok()?, pegin_witness: deserialize(&unhx(f[12])?).ok()? },
            });
        } else if let Some(body) = part.strip_prefix("O(").and_then(|b| b.strip_suffix(')')) {
            let f: Vec<&str> = body.split(':').collect();
            if f.len() != 6 { return None; }
            t.output.push(TxOut { asset: parse_asset(f[0])?, value: parse_value(f[1])?, nonce: parse_nonce(f[2])?, script_pubkey: Script::from(unhx(f[3])?),
                witness: TxOutWitness { surjection_proof: match unopt(f[4])? { None => None, Some(b) => Some(Box::new(SurjectionProof::from_slice(&b).ok()?)) },
                                        rangeproof: match unopt(f[5])? { None => None, Some(b) => Some(Box::new(RangeProof::from_slice(&b).ok()?)) } } });
        } else { return None; }
    }
    Some(t)
}

// ---------------------------------------------------------------------------------------------- BIP370, from the BIP text, on a listing
fn u32_of(e: Option<&Entry>) -> Option<u32> { e.map(|e| u32::from_le_bytes(e.val.clone().try_into().unwrap_or([0; 4]))) }
/// Ok(locktime) | Err(()) for "no lock time type is supported by all inputs"
fn bip370(l: &PsetL) -> Result<u32, ()> {
    let reqs: Vec<(Option<u32>, Option<u32>)> = l.ins.iter().map(|i| (u32_of(get(i, "required_time_locktime")), u32_of(get(i, "required_height_locktime")))).collect();
    let cs: Vec<_> = reqs.iter().filter(|(t, h)| t.is_some() || h.is_some()).collect();
    if cs.is_empty() { return Ok(u32_of(get(&l.g, "tx_data.fallback_locktime")).unwrap_or(0)); }
    if cs.iter().all(|(_, h)| h.is_some()) { return Ok(cs.iter().map(|(_, h)| h.unwrap()).max().unwrap()); }     // height preferred when both are possible
    if cs.iter().all(|(t, _)| t.is_some()) { return Ok(cs.iter().map(|(t, _)| t.unwrap()).max().unwrap()); }
    Err(())
}
fn all_both(l: &PsetL) -> bool {
    let cs: Vec<_> = l.ins.iter().filter(|i| get(i, "required_time_locktime").is_some() || get(i, "required_height_locktime").is_some()).collect();
    !cs.is_empty() && cs.iter().all(|i| get(i, "required_time_locktime").is_some() && get(i, "required_height_locktime").is_some())
}

fn eval_lt(l: &PsetL) -> Out {
    let p = match from_model(l) { Ok(p) => p, Err(e) => return Out::ok(format!("harnesserr {}", e)) };
    let l = to_model(&p);
    let r = catch_unwind(AssertUnwindSafe(|| p.locktime()));
    let spec = bip370(&l);
    let (res, got) = match &r { Ok(Ok(t)) => (format!("ok {}", t.to_consensus_u32()), Some(Ok(t.to_consensus_u32()))), Ok(Err(e)) => (format!("err {}", err_class(e)), Some(Err(()))), Err(_) => ("panic".to_string(), None) };
    let pred_fail = match got {
        None => Some("locktime-panics|locktime() panicked".to_string()),
        Some(g) if g != spec => Some(if all_both(&l) && spec.is_ok() && g.is_ok() { "F6-locktime-both-gives-time|every constraining input allows both kinds: BIP370 chooses the height, locktime() returns the time".to_string() }
                                     else { format!("locktime-not-bip370|locktime() = {:?}, BIP370 = {:?}", g, spec) }),
        _ => None,
    };
    Out { result: res, pred_fail }
}

fn eval_rt(t: &Transaction) -> Out {
    let p = Pset::from_tx(t.clone());
    let listing = show(&to_model(&p));
    let r = catch_unwind(AssertUnwindSafe(|| p.extract_tx()));
    let (res, pred_fail) = match r {
        Err(_) => ("panic".to_string(), Some("extract-panics|extract_tx panicked".to_string())),
        Ok(Err(e)) => (format!("err {}", err_class(&e)), if t.output.iter().any(|o| o.asset.is_null() || o.value.is_null()) { None } else { Some(format!("rt-error|extract_tx(from_tx(tx)) = {}", err_class(&e))) }),
        Ok(Ok(x)) => {
            let pf = if x == *t { None } else {
                let coinbase_flip = t.input.iter().zip(x.input.iter()).any(|(a, b)| a.previous_output.vout == 0xffff_ffff && a.is_pegin != b.is_pegin);
                // the recorded class F8b is exactly: a nonce on an output that is NOT partially blinded (from_txout files it as the receiver's blinding
                // key), or an explicit (32-byte) nonce; the ECDH nonce of a partially blinded output must survive
                let f8b = |o: &TxOut| !o.is_partially_blinded() || matches!(o.nonce, Nonce::Explicit(_));
                let nonce_drop = t.output.iter().zip(x.output.iter()).any(|(a, b)| a.nonce != b.nonce && f8b(a));
                let nonce_lost = t.output.iter().zip(x.output.iter()).any(|(a, b)| a.nonce != b.nonce && !f8b(a));
                let mut y = x.clone();
                for (a, b) in t.input.iter().zip(y.input.iter_mut()) { if a.previous_output.vout == 0xffff_ffff { b.is_pegin = a.is_pegin; b.witness.pegin_witness = a.witness.pegin_witness.clone(); } }
                for (a, b) in t.output.iter().zip(y.output.iter_mut()) { b.nonce = a.nonce; }
                if y != *t { Some("rt-differs|extract_tx(from_tx(tx)) differs from tx".to_string()) }
                else if nonce_lost { Some("rt-ecdh-nonce-lost|the ECDH nonce of a partially blinded output does not survive from_tx/extract_tx".to_string()) }
                else if coinbase_flip { Some("F8a-coinbase-pegin-flip|input with vout 0xffffffff comes back with is_pegin flipped".to_string()) }
                else if nonce_drop { Some("F8b-explicit-output-nonce-dropped|the nonce of an output does not survive from_tx/extract_tx".to_string()) }
                else { Some("rt-differs|extract_tx(from_tx(tx)) differs from tx".to_string()) }
            };
            (format!("ok {}", show_tx(&x)), pf)
        }
    };
    Out { result: format!("{} => {}", listing, res), pred_fail }
}

fn eval_ex(l: &PsetL) -> Out {
    let p = match from_model(l) { Ok(p) => p, Err(e) => return Out::ok(format!("harnesserr {}", e)) };
    let run = |p: &Pset| match catch_unwind(AssertUnwindSafe(|| p.extract_tx())) { Ok(Ok(t)) => format!("ok {}", show_tx(&t)), Ok(Err(e)) => format!("err {}", err_class(&e)), Err(_) => "panic".to_string() };
    let (a, b) = (run(&p), run(&p.clone()));
    let pred_fail = if a != b { Some("extract-nondeterministic|two extractions of the same PSET differ".to_string()) } else if a == "panic" { Some("extract-panics|extract_tx panicked".into()) } else { None };
    Out { result: a, pred_fail }
}

/// the property's list: sequences, partial/final signatures, final script sigs and witnesses, scripts, key derivations, explicit-value proofs
/// (and, the id being the id of the unsigned transaction, everything else that is not part of it)
pub fn uid_neutral(map: &str, f: &str) -> bool {
    !matches!((map, f), ("G", "tx_data.fallback_locktime") | ("G", "tx_data.version") | ("I", "required_time_locktime") | ("I", "required_height_locktime")
        | ("I", "previous_txid") | ("I", "previous_output_index")
        | ("I", "issuance_value_amount") | ("I", "issuance_value_comm") | ("I", "issuance_inflation_keys") | ("I", "issuance_inflation_keys_comm")
        | ("I", "issuance_blinding_nonce") | ("I", "issuance_asset_entropy") | ("O", "amount") | ("O", "amount_comm") | ("O", "asset") | ("O", "asset_comm")
        | ("O", "ecdh_pubkey") | ("O", "script_pubkey"))
}
fn eval_uid(l: &PsetL, upd: &str) -> Out {
    let (tgt, ent) = match upd.split_once(':') { Some(x) => x, None => return Out::ok("harnesserr update".into()) };
    let e = match parse_map(ent) { Some(m) if m.len() == 1 => m[0].clone(), _ => return Out::ok("harnesserr update entry".into()) };
    let mut l2 = l.clone();
    let (map, pos): (&str, usize) = match tgt.as_bytes()[0] { b'G' => ("G", 0), b'I' => ("I", tgt[1..].parse().unwrap_or(0)), _ => ("O", tgt[1..].parse().unwrap_or(0)) };
    let m = match map { "G" => &mut l2.g, "I" => match l2.ins.get_mut(pos) { Some(m) => m, None => return Out::ok("harnesserr pos".into()) }, _ => match l2.outs.get_mut(pos) { Some(m) => m, None => return Out::ok("harnesserr pos".into()) } };
    put(m, e.clone());
    let (p, q) = match (from_model(l), from_model(&l2)) { (Ok(p), Ok(q)) => (p, q), (Err(e), _) | (_, Err(e)) => return Out::ok(format!("harnesserr {}", e)) };
    let id = |p: &Pset| match catch_unwind(AssertUnwindSafe(|| p.unique_id())) { Ok(Ok(t)) => Ok(t.to_string()), Ok(Err(e)) => Err(err_class(&e)), Err(_) => Err("panic".into()) };
    let (a, b) = (id(&p), id(&q));
    let res = match (&a, &b) { (Ok(x), Ok(y)) => if x == y { "same".to_string() } else { "changed".to_string() }, (Err(x), Err(y)) if x == y => format!("same-err {}", x), (x, y) => format!("differ {} {}", x.as_ref().map(|_| "ok").unwrap_or_else(|e| e), y.as_ref().map(|_| "ok").unwrap_or_else(|e| e)) };
    let pred_fail = if uid_neutral(map, &e.name) && a != b {
        Some(if e.name == "final_script_sig" { "F7-uid-final-script-sig|adding final_script_sig changes the unique id".to_string() } else { format!("uid-changed-by-neutral-update|adding {} {} changes the unique id", map, e.name) })
    } else { None };
    Out { result: res, pred_fail }
}

/// `upd <pset> <target>:<entry>;<entry>...` — several fields added at one position; reports whether the unique id and the extracted
/// transaction changed.  Predicate: revealing an explicit value (plus its blind proof) next to an EXISTING commitment — issuance amount,
/// inflation keys, output amount, output asset — must change neither (the commitment stays what is extracted).
fn eval_upd(l: &PsetL, upd: &str) -> Out {
    let (tgt, ent) = match upd.split_once(':') { Some(x) => x, None => return Out::ok("harnesserr update".into()) };
    let es = match parse_map(ent) { Some(m) if !m.is_empty() => m, _ => return Out::ok("harnesserr update entries".into()) };
    let mut l2 = l.clone();
    let (map, pos): (&str, usize) = match tgt.as_bytes()[0] { b'G' => ("G", 0), b'I' => ("I", tgt[1..].parse().unwrap_or(0)), _ => ("O", tgt[1..].parse().unwrap_or(0)) };
    let before: MapL;
    {
        let m = match map { "G" => &mut l2.g, "I" => match l2.ins.get_mut(pos) { Some(m) => m, None => return Out::ok("harnesserr pos".into()) }, _ => match l2.outs.get_mut(pos) { Some(m) => m, None => return Out::ok("harnesserr pos".into()) } };
        before = m.clone();
        for e in &es { put(m, e.clone()); }
    }
    let (p, q) = match (from_model(l), from_model(&l2)) { (Ok(p), Ok(q)) => (p, q), (Err(e), _) | (_, Err(e)) => return Out::ok(format!("harnesserr {}", e)) };
    let id = |p: &Pset| match catch_unwind(AssertUnwindSafe(|| p.unique_id())) { Ok(Ok(t)) => Ok(t.to_string()), Ok(Err(e)) => Err(err_class(&e)), Err(_) => Err("panic".into()) };
    let ex = |p: &Pset| match catch_unwind(AssertUnwindSafe(|| p.extract_tx())) { Ok(Ok(t)) => format!("ok {}", show_tx(&t)), Ok(Err(e)) => format!("err {}", err_class(&e)), Err(_) => "panic".to_string() };
    let (a, b) = (id(&p), id(&q));
    let uid_res = match (&a, &b) { (Ok(x), Ok(y)) => if x == y { "same".to_string() } else { "changed".to_string() }, (Err(x), Err(y)) if x == y => format!("same-err {}", x), (x, y) => format!("differ {} {}", x.as_ref().map(|_| "ok").unwrap_or_else(|e| e), y.as_ref().map(|_| "ok").unwrap_or_else(|e| e)) };
    let tx_same = ex(&p) == ex(&q);
    // is this update a reveal of explicit values next to commitments that were already there?
    let has = |n: &str| before.iter().any(|e| e.name == n);
    let reveal = es.iter().all(|e| match (map, e.name.as_str()) {
        ("I", "issuance_value_amount") => has("issuance_value_comm"), ("I", "issuance_inflation_keys") => has("issuance_inflation_keys_comm"),
        ("O", "amount") => has("amount_comm"), ("O", "asset") => has("asset_comm"),
        ("I", "in_issuance_blind_value_proof") | ("I", "in_issuance_blind_inflation_keys_proof") | (_, "blind_value_proof") | (_, "blind_asset_proof") => true,
        _ => false }) && es.iter().all(|e| !has(&e.name));
    let pred_fail = if reveal && !tx_same { Some(format!("explicit-value-changes-extraction|adding the explicit {} (and its proof) next to an existing commitment changes the extracted transaction", es[0].name)) }
        else if reveal && a != b { Some(format!("explicit-value-changes-unique-id|adding the explicit {} next to an existing commitment changes the unique id", es[0].name)) } else { None };
    Out { result: format!("uid={} tx={}", uid_res, if tx_same { "same" } else { "changed" }), pred_fail }
}

pub fn eval(case: &str) -> Out {
    let w: Vec<&str> = case.split(' ').collect();
    match (w.get(1).copied(), w.len()) {
        (Some("lt"), 3) => match parse(w[2]) { Some(l) => eval_lt(&l), None => Out::ok("harnesserr parse".into()) },
        (Some("ex"), 3) => match parse(w[2]) { Some(l) => eval_ex(&l), None => Out::ok("harnesserr parse".into()) },
        (Some("rt"), 3) => match parse_tx(w[2]) { Some(t) => eval_rt(&t), None => Out::ok("harnesserr parse tx".into()) },
        (Some("uid"), 4) => match parse(w[2]) { Some(l) => eval_uid(&l, w[3]), None => Out::ok("harnesserr parse".into()) },
        (Some("upd"), 4) => match parse(w[2]) { Some(l) => eval_upd(&l, w[3]), None => Out::ok("harnesserr parse".into()) },
        _ => Out::ok("harnesserr kind".into()),
    }
}

// ---------------------------------------------------------------------------------------------- generators
fn time_val(rng: &mut ChaCha20Rng) -> u32 { match rng.gen_range(0..4) { 0 => 500_000_000, 1 => u32::MAX, _ => rng.gen_range(500_000_000..=u32::MAX) } }
fn height_val(rng: &mut ChaCha20Rng) -> u32 { match rng.gen_range(0..4) { 0 => 0, 1 => 499_999_999, _ => rng.gen_range(0..500_000_000) } }
fn lt_case(rng: &mut ChaCha20Rng, kinds: &[u8], fallback: bool) -> Case {
    let mut l = to_model(&base_pset(rng, kinds.len(), 1));
    for (i, k) in kinds.iter().enumerate() {
        if k & 1 != 0 { put(&mut l.ins[i], Entry { name: "required_time_locktime".into(), key: None, val: time_val(rng).to_le_bytes().to_vec() }); }
        if k & 2 != 0 { put(&mut l.ins[i], Entry { name: "required_height_locktime".into(), key: None, val: height_val(rng).to_le_bytes().to_vec() }); }
    }
    if fallback { let v: u32 = if rng.gen() { time_val(rng) } else { height_val(rng) }; put(&mut l.g, Entry { name: "tx_data.fallback_locktime".into(), key: None, val: v.to_le_bytes().to_vec() }); }
    let l = normalise(&l).expect("listing");
    let names = ["none", "time", "height", "both"];
    let mut tags: Vec<String> = kinds.iter().map(|k| format!("kind:{}", names[*k as usize])).collect();
    tags.sort(); tags.dedup();
    tags.push(format!("inputs:{}", kinds.len())); tags.push(format!("fallback:{}", fallback as u8));
    Case { text: format!("C08 lt {}", show(&l)), tags, nontrivial: kinds.iter().any(|k| *k != 0) }
}

fn rand_tx(rng: &mut ChaCha20Rng, pool: &Pool, feats: u32) -> (Transaction, Vec<String>) {
    // feature bits: 0 pegin input, 1 issuance input (explicit), 2 issuance input (confidential amounts + proofs), 3 coinbase-style input,
    // 4 confidential output, 5 explicit output with nonce, 6 script_sig/witness data, 7 partially blinded output (explicit + proofs), 8 explicit nonce
    let mut tags = vec![];
    let rp = |rng: &mut ChaCha20Rng| Box::new(RangeProof::from_slice(&pool.rangeproofs[rng.gen_range(0..pool.rangeproofs.len())]).unwrap());
    let sp = |rng: &mut ChaCha20Rng| Box::new(SurjectionProof::from_slice(&pool.surjproofs[rng.gen_range(0..pool.surjproofs.len())]).unwrap());
    let comm = |rng: &mut ChaCha20Rng| Value::Confidential(Deserialize::deserialize(&pool.pedersen[rng.gen_range(0..pool.pedersen.len())]).unwrap());
    let gen = |rng: &mut ChaCha20Rng| Asset::Confidential(Deserialize::deserialize(&pool.generators[rng.gen_range(0..pool.generators.len())]).unwrap());
    let pk = |rng: &mut ChaCha20Rng| elements::secp256k1_zkp::PublicKey::from_slice(&pool.pubkeys[rng.gen_range(0..pool.pubkeys.len())]).unwrap();
    let wit = |rng: &mut ChaCha20Rng| -> Vec<Vec<u8>> { (0..rng.gen_range(0..3)).map(|_| { let n = rng.gen_range(0..12); rbytes(rng, n) }).collect() };
    let mut inputs = vec![];
    let mut plain = TxIn::default();
    plain.previous_output = OutPoint::new(Txid::from_byte_array(r32(rng)), rng.gen_range(0..(1 << 30)));
    plain.sequence = Sequence(rng.gen());
    if feats & 64 != 0 { let n = rng.gen_range(1..20); plain.script_sig = Script::from(rbytes(rng, n)); plain.witness.script_witness = wit(rng); tags.push("in:sig+witness".into()); }
    inputs.push(plain.clone());
    if feats & 1 != 0 { let mut i = plain.clone(); i.previous_output.vout = rng.gen_range(0..8); i.is_pegin = true; i.witness.pegin_witness = wit(rng); inputs.push(i); tags.push("in:pegin".into()); }
    if feats & 2 != 0 {
        let mut i = plain.clone(); i.previous_output.vout = [0u32, 1, (1 << 30) - 1][rng.gen_range(0..3)];
        i.asset_issuance = AssetIssuance { asset_blinding_nonce: Tweak::from_slice(&[0u8; 32]).unwrap(), asset_entropy: r32(rng), amount: Value::Explicit(rng.gen_range(1..1000)), inflation_keys: if rng.gen() { Value::Explicit(1) } else { Value::Null } };
        inputs.push(i); tags.push("in:issuance-explicit".into());
    }
    if feats & 4 != 0 {
        let mut i = plain.clone(); i.previous_output.vout = rng.gen_range(0..8);
        i.asset_issuance = AssetIssuance { asset_blinding_nonce: Tweak::from_slice(&pool.tweaks[0]).unwrap(), asset_entropy: r32(rng), amount: comm(rng), inflation_keys: if rng.gen() { comm(rng) } else { Value::Null } };
        i.witness.amount_rangeproof = Some(rp(rng)); if !i.asset_issuance.inflation_keys.is_null() { i.witness.inflation_keys_rangeproof = Some(rp(rng)); }
        if rng.gen() { i.is_pegin = true; i.witness.pegin_witness = wit(rng); }
        inputs.push(i); tags.push("in:issuance-confidential".into());
    }
    if feats & 8 != 0 { let mut i = TxIn::default(); i.sequence = Sequence(rng.gen()); let n = rng.gen_range(2..20); i.script_sig = Script::from(rbytes(rng, n)); inputs.push(i); tags.push("in:coinbase".into());
        // the all-ones index on a REAL txid: not the null outpoint, yet the index alone decides that no flag bit is read (seeded C08-r6-2)
        if rng.gen_range(0..3) > 0 { let mut j = plain.clone(); j.previous_output.vout = 0xffff_ffff; inputs.push(j); tags.push("in:allones-index-real-txid".into()); } }
    let mut outputs = vec![];
    let mut ex = TxOut::new_fee(rng.gen_range(1..100000), AssetId::from_byte_array(r32(rng)));
    { let n = rng.gen_range(0..24); ex.script_pubkey = Script::from(rbytes(rng, n)); }
    outputs.push(ex.clone());
    if feats & 16 != 0 { let mut o = ex.clone(); o.asset = gen(rng); o.value = comm(rng); o.nonce = Nonce::Confidential(pk(rng)); o.witness = TxOutWitness { surjection_proof: Some(sp(rng)), rangeproof: Some(rp(rng)) }; outputs.push(o); tags.push("out:confidential".into()); }
    if feats & 32 != 0 { let mut o = ex.clone(); o.nonce = Nonce::Confidential(pk(rng)); outputs.push(o); tags.push("out:explicit+nonce".into()); }
    if feats & 128 != 0 { let mut o = ex.clone(); o.nonce = Nonce::Confidential(pk(rng)); o.witness.rangeproof = Some(rp(rng)); outputs.push(o); let mut o2 = ex.clone(); o2.value = comm(rng); outputs.push(o2); tags.push("out:partially-blinded".into()); }
    if feats & 256 != 0 { let mut o = ex.clone(); o.value = comm(rng); o.nonce = Nonce::Explicit(r32(rng)); outputs.push(o); tags.push("out:explicit-nonce".into()); }
    let lt = if rng.gen() { 0 } else { rng.gen() };
    (Transaction { version: if rng.gen_bool(0.8) { 2 } else { rng.gen() }, lock_time: LockTime::from_consensus(lt), input: inputs, output: outputs }, tags)
}

pub fn gen(rng: &mut ChaCha20Rng, n: usize, thorough: bool) -> Vec<Case> {
    let pool = Pool::new(rng);
    let mut out = vec![];
    // (1) lock time: every assignment of {none,time,height,both} to 0..k inputs x fallback present/absent
    let kmax = if thorough { 4 } else { 3 };
    for k in 0..=kmax {
        for code in 0..4usize.pow(k as u32) {
            let kinds: Vec<u8> = (0..k).map(|i| ((code >> (2 * i)) & 3) as u8).collect();
            for fb in [false, true] { out.push(lt_case(rng, &kinds, fb)); }
        }
    }
    if !thorough { for _ in 0..n { let kinds: Vec<u8> = (0..4).map(|_| rng.gen_range(0..4)).collect(); let fb = rng.gen(); out.push(lt_case(rng, &kinds, fb)); } }
    // (2) from_tx -> extract_tx over the transaction feature lattice
    let nfeat = if thorough { 512 } else { 64 + n };
    for k in 0..nfeat {
        let feats: u32 = if k < 16 { [0, 1, 2, 4, 8, 16, 32, 64, 128, 256, 3, 24, 48, 80, 5, 511][k] } else if thorough { k as u32 } else { rng.gen_range(0..512) };
        let (t, mut tags) = rand_tx(rng, &pool, feats);
        tags.push("rt".into());
        out.push(Case { text: format!("C08 rt {}", show_tx(&t)), tags, nontrivial: t.input.len() + t.output.len() > 2 });
    }
    // null outputs (not well-formed for the property: extract_tx must refuse)
    { let (mut t, _) = rand_tx(rng, &pool, 0); t.output[0].value = Value::Null; out.push(Case { text: format!("C08 rt {}", show_tx(&t)), tags: vec!["rt".into(), "out:null-value".into()], nontrivial: false });
      let (mut t, _) = rand_tx(rng, &pool, 0); t.output[0].asset = Asset::Null; out.push(Case { text: format!("C08 rt {}", show_tx(&t)), tags: vec!["rt".into(), "out:null-asset".into()], nontrivial: false }); }
    // (3) extract_tx of arbitrary PSETs: ancestors with random field additions
    for _ in 0..n {
        let (ni, no) = (rng.gen_range(0..3), rng.gen_range(0..3));
        let mut l = to_model(&base_pset(rng, ni, no));
        for _ in 0..rng.gen_range(0..10) {
            let (map, f, _) = FIELDS[rng.gen_range(0..FIELDS.len())];
            let np = match map { "G" => 1, "I" => l.ins.len(), _ => l.outs.len() };
            if np == 0 { continue; }
            let pos = rng.gen_range(0..np);
            let e = sample(rng, &pool, map, f);
            put(match map { "G" => &mut l.g, "I" => &mut l.ins[pos], _ => &mut l.outs[pos] }, e);
        }
        if rng.gen_bool(0.15) && !l.outs.is_empty() { let f = ["amount", "asset"][rng.gen_range(0..2)]; l.outs[0].retain(|e| e.name != f); }
        let l = normalise(&l).expect("listing");
        out.push(Case { text: format!("C08 ex {}", show(&l)), tags: vec!["ex".into(), format!("ins:{}", l.ins.len()), format!("outs:{}", l.outs.len())], nontrivial: true });
    }
    // (3b) extract_tx where the explicit field and the commitment are BOTH present (or one, or none): issuance amount x inflation keys on an
    //      input, and amount x asset on an output — every presence combination of {none, explicit, commitment, both} x {the same}
    let states = ["none", "explicit", "comm", "both"];
    for (sa, a_state) in states.iter().enumerate() {
        for (sk, k_state) in states.iter().enumerate() {
            let mut l = to_model(&base_pset(rng, 2, 1));
            let pos = rng.gen_range(0..2);
            if sa & 1 != 0 { put(&mut l.ins[pos], sample(rng, &pool, "I", "issuance_value_amount")); }
            if sa & 2 != 0 { put(&mut l.ins[pos], sample(rng, &pool, "I", "issuance_value_comm")); }
            if sk & 1 != 0 { put(&mut l.ins[pos], sample(rng, &pool, "I", "issuance_inflation_keys")); }
            if sk & 2 != 0 { put(&mut l.ins[pos], sample(rng, &pool, "I", "issuance_inflation_keys_comm")); }
            if rng.gen() { put(&mut l.ins[pos], sample(rng, &pool, "I", "issuance_asset_entropy")); }
            if rng.gen_bool(0.3) { put(&mut l.ins[pos], sample(rng, &pool, "I", "issuance_blinding_nonce")); }
            let l = normalise(&l).expect("listing");
            out.push(Case { text: format!("C08 ex {}", show(&l)), tags: vec!["ex".into(), format!("iss-amount:{}", a_state), format!("iss-keys:{}", k_state)], nontrivial: true });
            let mut l = to_model(&base_pset(rng, 1, 2));
            let pos = rng.gen_range(0..2);
            l.outs[pos].retain(|e| e.name != "amount" && e.name != "asset");
            if sa & 1 != 0 { put(&mut l.outs[pos], sample(rng, &pool, "O", "amount")); }
            if sa & 2 != 0 { put(&mut l.outs[pos], sample(rng, &pool, "O", "amount_comm")); }
            if sk & 1 != 0 { put(&mut l.outs[pos], sample(rng, &pool, "O", "asset")); }
            if sk & 2 != 0 { put(&mut l.outs[pos], sample(rng, &pool, "O", "asset_comm")); }
            let l = normalise(&l).expect("listing");
            out.push(Case { text: format!("C08 ex {}", show(&l)), tags: vec!["ex".into(), format!("out-amount:{}", a_state), format!("out-asset:{}", k_state)], nontrivial: true });
        }
    }
    // (3c) a later role reveals the explicit value (and its blind proof) next to an existing commitment: issuance amount, inflation keys,
    //      output amount, output asset — unique id and extracted transaction must not change
    for rep in 0..(if thorough { 6 } else { 2 }) {
        let mut l = to_model(&base_pset(rng, 2, 2));
        let (ip, op) = (rep % 2, (rep / 2) % 2);
        for f in ["issuance_value_comm", "issuance_inflation_keys_comm", "issuance_asset_entropy", "issuance_value_rangeproof", "issuance_keys_rangeproof"] { put(&mut l.ins[ip], sample(rng, &pool, "I", f)); }
        for f in ["amount_comm", "asset_comm", "ecdh_pubkey", "value_rangeproof", "asset_surjection_proof"] { put(&mut l.outs[op], sample(rng, &pool, "O", f)); }
        l.outs[op].retain(|e| e.name != "amount" && e.name != "asset");
        let l = normalise(&l).expect("listing");
        let ups: Vec<(String, &str, Vec<&str>)> = vec![
            (format!("I{}", ip), "I", vec!["issuance_value_amount", "in_issuance_blind_value_proof"]),
            (format!("I{}", ip), "I", vec!["issuance_inflation_keys", "in_issuance_blind_inflation_keys_proof"]),
            (format!("I{}", ip), "I", vec!["issuance_inflation_keys"]),
            (format!("I{}", ip), "I", vec!["issuance_value_amount", "issuance_inflation_keys", "in_issuance_blind_value_proof", "in_issuance_blind_inflation_keys_proof"]),
            (format!("O{}", op), "O", vec!["amount", "blind_value_proof"]),
            (format!("O{}", op), "O", vec!["asset", "blind_asset_proof"]),
            (format!("O{}", op), "O", vec!["amount", "asset", "blind_value_proof", "blind_asset_proof"]),
        ];
        for (tgt, map, fs) in ups {
            let es: MapL = fs.iter().map(|f| sample(rng, &pool, map, f)).collect();
            out.push(Case { text: format!("C08 upd {} {}:{}", show(&l), tgt, show_map(&es)), tags: vec!["upd".into(), format!("reveal:{}.{}", map, fs[0])], nontrivial: true });
        }
        // control: the same explicit values WITHOUT a commitment being there do change the transaction (no predicate; model must agree)
        let l0 = to_model(&base_pset(rng, 1, 1));
        let es: MapL = vec![sample(rng, &pool, "I", "issuance_inflation_keys")];
        out.push(Case { text: format!("C08 upd {} I0:{}", show(&l0), show_map(&es)), tags: vec!["upd".into(), "control:no-commitment".into()], nontrivial: true });
    }
    // (4) unique id before/after every field addition (all fields, neutral or not; on plain and on from_tx-style PSETs)
    let rounds = if thorough { 6 } else { 1 };
    for r in 0..rounds {
        for &(map, f, _) in FIELDS {
            let l = if r % 2 == 0 { to_model(&base_pset(rng, 2, 2)) } else { let fe = rng.gen_range(0..32u32) & !8; let (t, _) = rand_tx(rng, &pool, fe); to_model(&Pset::from_tx(t)) };
            let np = match map { "G" => 1, "I" => l.ins.len(), _ => l.outs.len() };
            let pos = rng.gen_range(0..np);
            let e = sample(rng, &pool, map, f);
            let tgt = match map { "G" => "G".to_string(), m => format!("{}{}", m, pos) };
            out.push(Case { text: format!("C08 uid {} {}:{}", show(&l), tgt, show_map(&vec![e])), tags: vec![format!("uid:{}.{}", map, f), format!("neutral:{}", uid_neutral(map, f) as u8)], nontrivial: true });
        }
    }
    out
}
