//! Correspondence harness: generates cases, runs the real `elements` crate on them, and prints
//! `<case>\t<impl result>\t<predicate verdict>\t<tags>` lines. The same case text is fed to the extracted Coq model.
use rand::SeedableRng;
use rand_chacha::ChaCha20Rng;
use std::io::{BufRead, Write};

#[macro_use]
mod util;
mod txgen;
mod addr;
mod psetl;
include!("registry.rs");

pub struct Out {
    pub result: String,
    /// `None` if the property's own predicate held on the implementation for this case, else the clause that failed
    pub pred_fail: Option<String>,
}
impl Out {
    pub fn ok(result: String) -> Out { Out { result, pred_fail: None } }
}
pub struct Case {
    pub text: String,
    pub tags: Vec<String>,
    pub nontrivial: bool,
}

fn eval(case: &str) -> Out {
    let kind = case.split(' ').next().unwrap_or("");
    let r = std::panic::catch_unwind(|| eval_dispatch(kind, case));
    match r {
        Ok(o) => o,
        Err(_) => Out { result: "panic".into(), pred_fail: None },
    }
}

fn gen(prop: &str, rng: &mut ChaCha20Rng, n: usize, thorough: bool) -> Vec<Case> { gen_dispatch(prop, rng, n, thorough) }

fn emit(w: &mut dyn Write, case: &Case) {
    let o = eval(&case.text);
    let mut tags = case.tags.join(",");
    if case.nontrivial { if !tags.is_empty() { tags.push(','); } tags.push_str("nt"); }
    writeln!(w, "{}\t{}\t{}\t{}", case.text, o.result, o.pred_fail.unwrap_or_else(|| "-".into()), tags).unwrap();
}

fn main() {
    if std::env::var("HARNESS_DEBUG").is_err() { std::panic::set_hook(Box::new(|_| {})); }
    let args: Vec<String> = std::env::args().collect();
    let stdout = std::io::stdout();
    let mut w = std::io::BufWriter::new(stdout.lock());
    match args.get(1).map(|s| s.as_str()) {
        Some("gen") => {
            let prop = &args[2];
            let seed: u64 = args[3].parse().expect("seed");
            let n: usize = args[4].parse().expect("n");
            let thorough = args.get(5).map(|s| s == "thorough").unwrap_or(false);
            // the seed is mixed with the property id so different properties do not share a stream
            let mut s = [0u8; 32];
            s[..8].copy_from_slice(&seed.to_le_bytes());
            for (i, b) in prop.bytes().enumerate() { s[8 + (i % 24)] ^= b; }
            let mut rng = ChaCha20Rng::from_seed(s);
            for c in gen(prop, &mut rng, n, thorough) { emit(&mut w, &c); }
        }
        Some("replay") => {
            // case lines on stdin (anything after a tab is ignored)
            let stdin = std::io::stdin();
            for line in stdin.lock().lines() {
                let line = line.unwrap();
                let case = line.split('\t').next().unwrap().to_string();
                if case.is_empty() { continue; }
                emit(&mut w, &Case { text: case, tags: vec![], nontrivial: false });
            }
        }
        _ => { eprintln!("usage: harness gen <prop> <seed> <n> [thorough] | replay < cases"); std::process::exit(2); }
    }
}
