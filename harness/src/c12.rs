//! C12: size / weight / vsize / discount weight equal the real serialized sizes.
use crate::{c01, txgen::*, util::*, Case, Out};
use elements::encode::{deserialize, serialize, VarInt};
use elements::{Block, Transaction, TxInWitness, TxOutWitness};
use rand::Rng;
use rand_chacha::ChaCha20Rng;

pub fn eval(case: &str) -> Out {
    let w: Vec<&str> = case.split(' ').collect();
    if w.len() != 5 { return Out::ok("harnesserr args".into()); }
    if w[1] == "blockrep" {
        // a block built in memory from `count` copies of one transaction (counts the decoder's allocation cap does not admit)
        let f: Vec<&str> = w[4].split(',').collect();
        if f.len() != 3 { return Out::ok("harnesserr blockrep".into()); }
        let (h, n, t) = match (unhex(f[0]).and_then(|b| deserialize::<elements::BlockHeader>(&b).ok()), f[1].parse::<usize>().ok(), unhex(f[2]).and_then(|b| deserialize::<Transaction>(&b).ok())) {
            (Some(h), Some(n), Some(t)) => (h, n, t), _ => return Out::ok("err".into()) };
        let bl = Block { header: h, txdata: vec![t; n] };
        let (size, weight) = (bl.size(), bl.weight());
        let full = ref_block(&bl).len();
        let hdr = { let mut o = Vec::new(); ref_header(&mut o, &bl.header, true); o.len() } + { let mut o = Vec::new(); ref_varint(&mut o, bl.txdata.len() as u64); o.len() };
        let mut fail = None;
        if size != full { fail = Some("block-size-vs-consensus|Block::size() of a block built in memory differs from the length of its consensus serialization (reference encoder)".to_string()); }
        else if weight != 4 * hdr + bl.txdata.iter().map(|t| { let mut s = t.clone(); for i in &mut s.input { i.witness = TxInWitness::default(); } for o in &mut s.output { o.witness = TxOutWitness::default(); } 3 * ref_tx(&s).len() + ref_tx(t).len() }).sum::<usize>() { fail = Some("block-weight|Block::weight() is not 4 x (header + count) + the transaction weights".to_string()); }
        return Out { result: format!("ok {} {}", size, weight), pred_fail: fail };
    }
    let b = match unhex(w[4]) { Some(b) => b, None => return Out::ok("harnesserr hex".into()) };
    match w[1] {
        "tx" => match deserialize::<Transaction>(&b) {
            Err(_) => Out::ok("err".into()),
            Ok(tx) => {
                let (size, weight, vsize, dw, dv) = (tx.size(), tx.weight(), tx.vsize(), tx.discount_weight(), tx.discount_vsize());
                let full = serialize(&tx).len();
                let mut stripped = tx.clone();
                for i in &mut stripped.input { i.witness = TxInWitness::default(); }
                for o in &mut stripped.output { o.witness = TxOutWitness::default(); }
                let base = serialize(&stripped).len();
                let mut fail = None;
                // lengths of the reference encoding (txgen::ref_tx: own compact-size writer), independent of the crate's encoder
                let mut refstripped = stripped.clone(); refstripped.version = tx.version;
                if tx_is_canonical(&tx) && (size != ref_tx(&tx).len() || weight != 3 * ref_tx(&refstripped).len() + ref_tx(&tx).len()) { fail = Some("size-vs-consensus|size()/weight() differ from the lengths of the consensus serialization (reference encoder)".to_string()); }
                else if size != full { fail = Some("size|size() differs from the serialized length".to_string()); }
                else if weight != 3 * base + full { fail = Some("weight|weight() differs from 3*stripped + full".to_string()); }
                else if vsize != (weight + 3) / 4 { fail = Some("vsize|vsize() is not ceil(weight/4)".to_string()); }
                else {
                    // independent recomputation of the discount from the serialized witness of each output
                    let mut d = 0usize;
                    for o in &tx.output {
                        let wit = serialize(&o.witness).len();
                        d += wit.saturating_sub(2);
                        if o.value.is_confidential() { d += 4 * (33 - 9); }
                        if o.nonce.is_confidential() { d += 4 * (33 - 1); }
                    }
                    if dw + d != weight { fail = Some("discount|discount_weight() differs from weight minus per-output discounts".to_string()); }
                    else if dv != (dw + 3) / 4 { fail = Some("discount-vsize|discount_vsize() is not ceil(discount_weight/4)".to_string()); }
                }
                Out { result: format!("ok {} {} {} {} {}", size, weight, vsize, dw, dv), pred_fail: fail }
            }
        },
        "block" => match deserialize::<Block>(&b) {
            Err(_) => Out::ok("err".into()),
            Ok(bl) => {
                let (size, weight) = (bl.size(), bl.weight());
                let full = serialize(&bl).len();
                let hdr = serialize(&bl.header).len() + VarInt(bl.txdata.len() as u64).size();
                let mut fail = None;
                if bl.txdata.iter().all(tx_is_canonical) && bl.header.version < 0x8000_0000 && size != ref_block(&bl).len() { fail = Some("block-size-vs-consensus|Block::size() differs from the length of the consensus serialization (reference encoder)".to_string()); }
                else if size != full { fail = Some("block-size|Block::size() differs from the serialized length".to_string()); }
                else if weight != 4 * hdr + bl.txdata.iter().map(|t| t.weight()).sum::<usize>() { fail = Some("block-weight|Block::weight() formula".to_string()); }
                Out { result: format!("ok {} {}", size, weight), pred_fail: fail }
            }
        },
        _ => Out::ok("harnesserr type".into()),
    }
}

pub fn gen(rng: &mut ChaCha20Rng, n: usize, thorough: bool) -> Vec<Case> {
    let mut out = Vec::new();
    let f = Feat { big: true, no_witness: false };
    let rename = |c: Case| Case { text: c.text.replacen("C01 ", "C12 ", 1), ..c };
    for v in repo_hex_vectors() {
        if v.len() < 20000 && deserialize::<Transaction>(&v).is_ok() { out.push(rename(c01::mk("tx", &v, vec!["src:repo-vector".into()], true))); }
        if v.len() < 20000 && deserialize::<Block>(&v).is_ok() { out.push(rename(c01::mk("block", &v, vec!["src:repo-vector".into()], true))); }
    }
    // targeted: script / witness element lengths and element counts exactly at every varint threshold
    for l in [0xfcusize, 0xfd, 0xffff, 0x10000] {
        for place in 0..4 {
            let mut tags = vec![format!("src:targeted-len{:x}-place{}", l, place)];
            let mut tx = rtx(rng, Feat { big: false, no_witness: false }, &mut tags);
            if tx.input.is_empty() { tx.input.push(rtxin(rng, Feat::default(), &mut tags)); }
            if tx.output.is_empty() { tx.output.push(rtxout(rng, Feat::default(), &mut tags)); }
            match place {
                0 => tx.input[0].script_sig = elements::Script::from(vec![0x51; l]),
                1 => tx.output[0].script_pubkey = elements::Script::from(vec![0x52; l]),
                2 => tx.input[0].witness.script_witness = vec![vec![7u8; l]],
                _ => if l <= 0xffff { tx.input[0].witness.script_witness = vec![vec![]; l]; } else { tx.input[0].witness.script_witness = vec![vec![1]; 0x100]; },
            }
            out.push(rename(c01::mk("tx", &ref_tx(&tx), tags, true)));
        }
    }
    // targeted: blocks whose transaction count sits at a varint threshold (the big ones only in the thorough tier: ~1.4 MB of hex each)
    let counts: &[usize] = if thorough { &[0xfc, 0xfd, 0xfffe, 0xffff, 0x10000] } else { &[0xfc, 0xfd, 0xffff] };
    for &c in counts {
        let mut tags = vec![format!("src:targeted-block-txcount{:x}", c)];
        let empty = Transaction { version: 2, lock_time: elements::LockTime::ZERO, input: vec![], output: vec![] };
        let b = ref_block(&Block { header: c01::rheader(rng, &mut tags), txdata: vec![empty; c] });
        let mut case = rename(c01::mk("block", &b, tags, true));
        if b.len() > 100_000 { // skip the curve-point window scan for the huge all-trivial blocks
            case.text = format!("C12 block {} - {}", c01::caps(), hex(&b));
        }
        out.push(case);
    }
    // targeted: blocks built in memory whose transaction count sits on the upper compact-size thresholds (not decodable: allocation cap)
    for &c in &[0xfffeusize, 0xffff, 0x10000] {
        let mut tags = vec![format!("src:targeted-inmemory-block-txcount{:x}", c), "ty:blockrep".to_string()];
        let h = c01::rheader(rng, &mut tags);
        let t = Transaction { version: 2, lock_time: elements::LockTime::ZERO, input: vec![], output: vec![elements::TxOut { asset: elements::confidential::Asset::Explicit(elements::AssetId::from_byte_array(r32(rng))), value: elements::confidential::Value::Explicit(c as u64), nonce: elements::confidential::Nonce::Null, script_pubkey: elements::Script::from(vec![0x51]), witness: TxOutWitness::default() }] };
        out.push(Case { text: format!("C12 blockrep {} - {},{},{}", c01::caps(), hex(&ref_header_vec(&h)), c, hex(&ref_tx(&t))), tags, nontrivial: true });
    }
    for k in 0..n {
        let mut tags = vec!["src:structured".to_string()];
        if k % 8 == 7 {
            let txs: Vec<Transaction> = (0..rng.gen_range(0..4)).map(|_| rtx_stray(rng, Feat { big: false, no_witness: false }, &mut tags)).collect();
            let b = ref_block(&Block { header: c01::rheader(rng, &mut tags), txdata: txs });
            out.push(rename(c01::mk("block", &b, tags, true)));
        } else {
            let tx = rtx_stray(rng, Feat { big: thorough || k % 5 == 0, ..f }, &mut tags);
            let nt = !tx.input.is_empty() || !tx.output.is_empty();
            out.push(rename(c01::mk("tx", &ref_tx(&tx), tags, nt)));
        }
    }
    out
}
