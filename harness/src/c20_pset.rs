//! C20, derived PSET serde: turns a real `PartiallySignedTransaction` into the neutral value notation the Coq model reads
//! (`coq/Extract/RunC20.v`, `parse_fval`), records the serialized forms of the dependency leaves as an oracle table, and evaluates the
//! round trips on the implementation.
//!
//! value notation:  n<dec>;  b<hex>;  t | f  z (None)  s<value> (Some)  [<value>*] (list / map as list of pairs)  (<value>*) (tuple / struct)
//! wire-tree notation (oracle):  0 (null)  t | f  n<dec>;  s<hex>; (text)  y<hex>; (bytes)  [<tree>*]  {<key tree><value tree>*}
use crate::util::*;
use elements::bitcoin;
use elements::bitcoin::bip32::{KeySource, Xpub};
use elements::bitcoin::key::XOnlyPublicKey;
use elements::encode::serialize;
use elements::pset::{raw, Input, Output, PartiallySignedTransaction as Pset, TapTree};
use elements::schnorr::SchnorrSig;
use elements::secp256k1_zkp::{self as zkp, RangeProof, SurjectionProof, Tweak};
use elements::taproot::{ControlBlock, LeafVersion, TapLeafHash, TapNodeHash};
use elements::{AssetId, BlockHash, LockTime, Script, Sequence, Transaction, TxOut, Txid};
use std::collections::BTreeMap;
use std::fmt::Write as _;

/// a serialized value as an ordered tree (serde_json::Value would sort object keys)
pub enum WTree { Null, Bool(bool), U(u64), Str(String), Bytes(Vec<u8>), Seq(Vec<WTree>), Map(Vec<(WTree, WTree)>) }
impl<'de> serde::Deserialize<'de> for WTree {
    fn deserialize<D: serde::Deserializer<'de>>(d: D) -> Result<WTree, D::Error> {
        struct V;
        impl<'de> serde::de::Visitor<'de> for V {
            type Value = WTree;
            fn expecting(&self, f: &mut std::fmt::Formatter) -> std::fmt::Result { f.write_str("a JSON or CBOR value without floats or negative numbers") }
            fn visit_unit<E>(self) -> Result<WTree, E> { Ok(WTree::Null) }
            fn visit_none<E>(self) -> Result<WTree, E> { Ok(WTree::Null) }
            fn visit_some<D: serde::Deserializer<'de>>(self, d: D) -> Result<WTree, D::Error> { serde::Deserialize::deserialize(d) }
            fn visit_bool<E>(self, b: bool) -> Result<WTree, E> { Ok(WTree::Bool(b)) }
            fn visit_u64<E>(self, n: u64) -> Result<WTree, E> { Ok(WTree::U(n)) }
            fn visit_str<E>(self, s: &str) -> Result<WTree, E> { Ok(WTree::Str(s.to_string())) }
            fn visit_bytes<E>(self, b: &[u8]) -> Result<WTree, E> { Ok(WTree::Bytes(b.to_vec())) }
            fn visit_seq<A: serde::de::SeqAccess<'de>>(self, mut a: A) -> Result<WTree, A::Error> { let mut v = Vec::new(); while let Some(x) = a.next_element()? { v.push(x); } Ok(WTree::Seq(v)) }
            fn visit_map<A: serde::de::MapAccess<'de>>(self, mut a: A) -> Result<WTree, A::Error> { let mut v = Vec::new(); while let Some((k, x)) = a.next_entry()? { v.push((k, x)); } Ok(WTree::Map(v)) }
        }
        d.deserialize_any(V)
    }
}
impl WTree {
    pub fn notation(&self, o: &mut String) {
        match self {
            WTree::Null => o.push('0'),
            WTree::Bool(b) => o.push(if *b { 't' } else { 'f' }),
            WTree::U(n) => { let _ = write!(o, "n{};", n); }
            WTree::Str(s) => { let _ = write!(o, "s{};", hex(s.as_bytes())); }
            WTree::Bytes(b) => { let _ = write!(o, "y{};", hex(b)); }
            WTree::Seq(v) => { o.push('['); for x in v { x.notation(o); } o.push(']'); }
            WTree::Map(v) => { o.push('{'); for (k, x) in v { k.notation(o); x.notation(o); } o.push('}'); }
        }
    }
}

/// the dependency leaves met while walking a PSET: (kind, canonical bytes, JSON tree, CBOR tree)
#[derive(Default)]
pub struct Oracle { pub rows: Vec<(String, Vec<u8>, String, String)>, pub failed: Option<String> }
impl Oracle {
    fn leaf<T: serde::Serialize>(&mut self, kind: &str, canon: Vec<u8>, v: &T) -> String {
        if !self.rows.iter().any(|r| r.0 == kind && r.1 == canon) {
            let trees = (|| -> Result<(String, String), String> {
                let j: WTree = serde_json::from_str(&serde_json::to_string(v).map_err(|e| e.to_string())?).map_err(|e| e.to_string())?;
                let c: WTree = serde_cbor::from_slice(&serde_cbor::to_vec(v).map_err(|e| e.to_string())?).map_err(|e| e.to_string())?;
                let (mut a, mut b) = (String::new(), String::new());
                j.notation(&mut a); c.notation(&mut b);
                Ok((a, b))
            })();
            match trees { Ok((a, b)) => self.rows.push((kind.to_string(), canon.clone(), a, b)), Err(e) => { self.failed = Some(format!("{}: {}", kind, e)); } }
        }
        format!("b{};", hex(&canon))
    }
    pub fn text(&self) -> String {
        if self.rows.is_empty() { "-".into() } else { self.rows.iter().map(|r| format!("{}:{}:{}:{}", r.0, if r.1.is_empty() { "-".to_string() } else { hex(&r.1) }, r.2, r.3)).collect::<Vec<_>>().join(",") }
    }
}

pub trait ToF { fn tof(&self, o: &mut Oracle) -> String; }
fn b(x: &[u8]) -> String { format!("b{};", hex(x)) }
impl ToF for u8 { fn tof(&self, _: &mut Oracle) -> String { format!("n{};", self) } }
impl ToF for u32 { fn tof(&self, _: &mut Oracle) -> String { format!("n{};", self) } }
impl ToF for u64 { fn tof(&self, _: &mut Oracle) -> String { format!("n{};", self) } }
impl ToF for usize { fn tof(&self, _: &mut Oracle) -> String { format!("n{};", self) } }
impl ToF for Vec<u8> { fn tof(&self, _: &mut Oracle) -> String { b(self) } }
impl ToF for [u8; 32] { fn tof(&self, _: &mut Oracle) -> String { b(self) } }
impl ToF for Script { fn tof(&self, _: &mut Oracle) -> String { b(self.as_bytes()) } }
impl ToF for Txid { fn tof(&self, _: &mut Oracle) -> String { b(&self.to_byte_array()) } }
impl ToF for BlockHash { fn tof(&self, _: &mut Oracle) -> String { b(&self.to_byte_array()) } }
impl ToF for TapLeafHash { fn tof(&self, _: &mut Oracle) -> String { b(&self.to_byte_array()) } }
impl ToF for TapNodeHash { fn tof(&self, _: &mut Oracle) -> String { b(&self.to_byte_array()) } }
impl ToF for AssetId { fn tof(&self, _: &mut Oracle) -> String { b(&self.to_byte_array()) } }
impl ToF for elements::hashes::ripemd160::Hash { fn tof(&self, _: &mut Oracle) -> String { b(&self.to_byte_array()) } }
impl ToF for elements::hashes::sha256::Hash { fn tof(&self, _: &mut Oracle) -> String { b(&self.to_byte_array()) } }
impl ToF for elements::hashes::hash160::Hash { fn tof(&self, _: &mut Oracle) -> String { b(&self.to_byte_array()) } }
impl ToF for elements::hashes::sha256d::Hash { fn tof(&self, _: &mut Oracle) -> String { b(&self.to_byte_array()) } }
impl ToF for Tweak { fn tof(&self, _: &mut Oracle) -> String { b(self.as_ref()) } }
impl ToF for zkp::PedersenCommitment { fn tof(&self, _: &mut Oracle) -> String { b(&self.serialize()) } }
impl ToF for zkp::Generator { fn tof(&self, _: &mut Oracle) -> String { b(&self.serialize()) } }
impl ToF for Box<RangeProof> { fn tof(&self, _: &mut Oracle) -> String { b(&self.serialize()) } }
impl ToF for Box<SurjectionProof> { fn tof(&self, _: &mut Oracle) -> String { b(&self.serialize()) } }
impl ToF for Sequence { fn tof(&self, _: &mut Oracle) -> String { format!("n{};", self.0) } }
impl ToF for LockTime { fn tof(&self, _: &mut Oracle) -> String { format!("n{};", self.to_consensus_u32()) } }
impl ToF for elements::locktime::Height { fn tof(&self, _: &mut Oracle) -> String { format!("n{};", self.to_consensus_u32()) } }
impl ToF for elements::locktime::Time { fn tof(&self, _: &mut Oracle) -> String { format!("n{};", self.to_consensus_u32()) } }
impl ToF for elements::pset::PsbtSighashType { fn tof(&self, _: &mut Oracle) -> String { format!("n{};", self.to_u32()) } }
impl ToF for elements::SchnorrSighashType { fn tof(&self, _: &mut Oracle) -> String { format!("n{};", *self as u32) } }
impl ToF for LeafVersion { fn tof(&self, _: &mut Oracle) -> String { format!("n{};", self.as_u8()) } }
impl ToF for zkp::Parity { fn tof(&self, _: &mut Oracle) -> String { format!("n{};", self.to_u8()) } }
impl ToF for TxOut { fn tof(&self, _: &mut Oracle) -> String { b(&serialize(self)) } }
impl ToF for Transaction { fn tof(&self, _: &mut Oracle) -> String { b(&serialize(self)) } }
// dependency leaves
impl ToF for bitcoin::PublicKey { fn tof(&self, o: &mut Oracle) -> String { o.leaf("PublicKey", self.to_bytes(), self) } }
impl ToF for XOnlyPublicKey { fn tof(&self, o: &mut Oracle) -> String { o.leaf("XOnlyPublicKey", self.serialize().to_vec(), self) } }
impl ToF for KeySource { fn tof(&self, o: &mut Oracle) -> String {
    let mut c = self.0.to_bytes().to_vec(); for ch in self.1.into_iter() { c.extend_from_slice(&u32::from(*ch).to_le_bytes()); }
    o.leaf("KeySource", c, self) } }
impl ToF for Xpub { fn tof(&self, o: &mut Oracle) -> String { o.leaf("Xpub", self.encode().to_vec(), self) } }
impl ToF for bitcoin::Transaction { fn tof(&self, o: &mut Oracle) -> String { o.leaf("BtcTransaction", bitcoin::consensus::serialize(self), self) } }
impl ToF for zkp::schnorr::Signature { fn tof(&self, o: &mut Oracle) -> String { o.leaf("SchnorrSignature", self.as_ref().to_vec(), self) } }
impl ToF for TapTree { fn tof(&self, o: &mut Oracle) -> String { let id = serde_json::to_string(self).unwrap_or_default().into_bytes(); o.leaf("TapTree", id, self) } }
// shapes
impl<T: ToF> ToF for Option<T> { fn tof(&self, o: &mut Oracle) -> String { match self { None => "z".into(), Some(x) => format!("s{}", x.tof(o)) } } }
// (no blanket impl for Vec<T>: Vec<u8> is a byte string)
macro_rules! vec_tof { ($($t:ty),*) => { $( impl ToF for Vec<$t> { fn tof(&self, o: &mut Oracle) -> String { let mut s = String::from("["); for x in self { s.push_str(&x.tof(o)); } s.push(']'); s } } )* } }
vec_tof!(Vec<u8>, Tweak, TapLeafHash, TapNodeHash, Input, Output);
impl<A: ToF, B: ToF> ToF for (A, B) { fn tof(&self, o: &mut Oracle) -> String { format!("({}{})", self.0.tof(o), self.1.tof(o)) } }
impl<K: ToF, V: ToF> ToF for BTreeMap<K, V> { fn tof(&self, o: &mut Oracle) -> String { let mut s = String::from("["); for (k, v) in self { s.push_str(&format!("({}{})", k.tof(o), v.tof(o))); } s.push(']'); s } }
// derived structs: the fields in declaration order
macro_rules! tup { ($o:expr, $($x:expr),* $(,)?) => {{ let mut s = String::from("("); $( s.push_str(&$x.tof($o)); )* s.push(')'); s }} }
impl ToF for raw::Key { fn tof(&self, o: &mut Oracle) -> String { tup!(o, self.type_value, self.key) } }
impl ToF for raw::ProprietaryKey { fn tof(&self, o: &mut Oracle) -> String { tup!(o, self.prefix, self.subtype, self.key) } }
impl ToF for SchnorrSig { fn tof(&self, o: &mut Oracle) -> String { tup!(o, self.sig, self.hash_ty) } }
impl ToF for ControlBlock { fn tof(&self, o: &mut Oracle) -> String { tup!(o, self.leaf_version, self.output_key_parity, self.internal_key, self.merkle_branch.as_inner().to_vec()) } }
impl ToF for Input { fn tof(&self, o: &mut Oracle) -> String { let i = self; tup!(o,
    i.non_witness_utxo, i.witness_utxo, i.partial_sigs, i.sighash_type, i.redeem_script, i.witness_script, i.bip32_derivation, i.final_script_sig, i.final_script_witness,
    i.ripemd160_preimages, i.sha256_preimages, i.hash160_preimages, i.hash256_preimages, i.previous_txid, i.previous_output_index, i.sequence, i.required_time_locktime,
    i.required_height_locktime, i.tap_key_sig, i.tap_script_sigs, i.tap_scripts, i.tap_key_origins, i.tap_internal_key, i.tap_merkle_root, i.issuance_value_amount,
    i.issuance_value_comm, i.issuance_value_rangeproof, i.issuance_keys_rangeproof, i.pegin_tx, i.pegin_txout_proof, i.pegin_genesis_hash, i.pegin_claim_script, i.pegin_value,
    i.pegin_witness, i.issuance_inflation_keys, i.issuance_inflation_keys_comm, i.issuance_blinding_nonce, i.issuance_asset_entropy, i.in_utxo_rangeproof,
    i.in_issuance_blind_value_proof, i.in_issuance_blind_inflation_keys_proof, i.amount, i.blind_value_proof, i.asset, i.blind_asset_proof, i.blinded_issuance,
    i.proprietary, i.unknown) } }
impl ToF for Output { fn tof(&self, o: &mut Oracle) -> String { let x = self; tup!(o,
    x.redeem_script, x.witness_script, x.bip32_derivation, x.tap_internal_key, x.tap_tree, x.tap_key_origins, x.amount, x.amount_comm, x.script_pubkey, x.asset, x.asset_comm,
    x.value_rangeproof, x.asset_surjection_proof, x.blinding_key, x.ecdh_pubkey, x.blinder_index, x.blind_value_proof, x.blind_asset_proof, x.proprietary, x.unknown) } }
impl ToF for Pset { fn tof(&self, o: &mut Oracle) -> String {
    let g = &self.global;
    let txdata = tup!(o, g.tx_data.version, g.tx_data.fallback_locktime, g.n_inputs(), g.n_outputs(), g.tx_data.tx_modifiable);
    let global = format!("({}{}{}{}{}{}{})", txdata, g.version.tof(o), g.xpub.tof(o), g.scalars.tof(o), g.elements_tx_modifiable_flag.tof(o), g.proprietary.tof(o), g.unknown.tof(o));
    format!("({}{}{})", global, self.inputs().to_vec().tof(o), self.outputs().to_vec().tof(o)) } }

/// all 33-byte windows inside the canonical bytes of TxOut / Transaction fields are found by `valid_points` on the PSET's consensus bytes; commitments that
/// are fields of their own are added here
pub fn extra_points(p: &Pset) -> Vec<Vec<u8>> {
    let mut v = Vec::new();
    for i in p.inputs() { for c in [&i.issuance_value_comm, &i.issuance_inflation_keys_comm] { if let Some(c) = c { v.push(c.serialize().to_vec()); } } }
    for o in p.outputs() { if let Some(c) = &o.amount_comm { v.push(c.serialize().to_vec()); } if let Some(c) = &o.asset_comm { v.push(c.serialize().to_vec()); } }
    v
}
