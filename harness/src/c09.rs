//! C09: multi-party PSET blinding balances for every split and order of blinders.
//! A case is an explicit PSET (opened spent outputs, explicit outputs with blinding keys and blinder indices), a partition of
//! the inputs among parties (the last one listed is the last blinder), an order of the non-last parties, one ChaCha20 seed per
//! party, and the scalars each party's RNG drew (read back from the returned maps). The flow of examples/pset_blind_coinjoin.rs
//! is replayed with a serialize/deserialize hop after every step; after every non-last step the scalar list is reported.
use crate::c04::*;
use crate::{txgen::secp, util::*, Case, Out};
use elements::bitcoin;
use elements::confidential::{Asset, Value};
use elements::encode::{deserialize, serialize};
use elements::pset::{self, PartiallySignedTransaction as Pset, PsetBlindError};
use elements::secp256k1_zkp::{PublicKey, SecretKey, Tweak, ZERO_TWEAK};
use elements::{AssetId, BlindAssetProofs, BlindValueProofs, CtLocation, CtLocationType, Script, TxOut, TxOutSecrets};
use rand::{Rng, SeedableRng};
use rand_chacha::ChaCha20Rng;
use std::collections::{BTreeMap, HashMap};
use std::panic::{catch_unwind, AssertUnwindSafe};

#[derive(Clone, Debug)]
pub struct POut { pub asset: AssetId, pub value: u64, pub script: Vec<u8>, pub key: Option<SecretKey>, pub owner: Option<usize> }
#[derive(Clone, Debug)]
pub struct Flow { pub ins: Vec<InSpec>, pub outs: Vec<POut>, pub parties: Vec<Vec<usize>>, pub order: Vec<usize>, pub seeds: Vec<[u8; 32]> }

fn fmt_pout(o: &POut) -> String {
    format!("{}:{}:{}:{}:{}", tag_hex(&o.asset), o.value, if o.script.is_empty() { "-".to_string() } else { hex(&o.script) },
        o.key.map(|k| hex(&k.secret_bytes())).unwrap_or_else(|| "n".into()), o.owner.map(|x| x.to_string()).unwrap_or_else(|| "-".into()))
}
fn list<T: ToString>(v: &[T]) -> String { if v.is_empty() { "-".into() } else { v.iter().map(|x| x.to_string()).collect::<Vec<_>>().join(",") } }
fn fmt_flow(f: &Flow, rnd: &[Vec<String>]) -> String {
    format!("in={} out={} parties={} order={} rnd={} seeds={}",
        f.ins.iter().enumerate().map(|(i, s)| fmt_in(i, s)).collect::<Vec<_>>().join(";"),
        f.outs.iter().map(fmt_pout).collect::<Vec<_>>().join(";"),
        f.parties.iter().map(|p| list(p)).collect::<Vec<_>>().join("|"), list(&f.order),
        rnd.iter().map(|r| if r.is_empty() { "-".to_string() } else { r.join(",") }).collect::<Vec<_>>().join("|"),
        f.seeds.iter().map(|s| hex(s)).collect::<Vec<_>>().join(","))
}
fn parse_list(s: &str) -> Option<Vec<usize>> { if s == "-" { Some(vec![]) } else { s.split(',').map(|x| x.parse().ok()).collect() } }
fn parse_flow(case: &str) -> Option<(Flow, Vec<String>)> {
    // inputs share C04's syntax: reuse its parser through a spec with no outputs
    let ins_only = format!("in={} out=-", field(case, "in")?);
    let ins = parse_spec(&ins_only)?.ins;
    let outs = field(case, "out")?.split(';').map(|s| {
        let p: Vec<&str> = s.split(':').collect();
        if p.len() != 5 { return None; }
        Some(POut { asset: asset_from_hex(p[0])?, value: p[1].parse().ok()?, script: if p[2] == "-" { vec![] } else { unhex(p[2])? },
            key: if p[3] == "n" { None } else { Some(SecretKey::from_slice(&unhex(p[3])?).ok()?) }, owner: if p[4] == "-" { None } else { Some(p[4].parse().ok()?) } })
    }).collect::<Option<Vec<_>>>()?;
    let parties = field(case, "parties")?.split('|').map(parse_list).collect::<Option<Vec<_>>>()?;
    let order = parse_list(field(case, "order")?)?;
    let seeds = field(case, "seeds")?.split(',').map(|s| <[u8; 32]>::try_from(&unhex(s)?[..]).ok()).collect::<Option<Vec<_>>>()?;
    let rnd = field(case, "rnd")?.split('|').map(|s| s.to_string()).collect();
    if seeds.len() != parties.len() || parties.is_empty() || order.iter().any(|k| *k + 1 >= parties.len()) { return None; }
    Some((Flow { ins, outs, parties, order, seeds }, rnd))
}

pub fn build_pset(f: &Flow) -> (Pset, Vec<TxOut>) {
    let mut ps = Pset::new_v2();
    let mut utxos = vec![];
    for (i, s) in f.ins.iter().enumerate() {
        let txin = txin_for(i, &s.iss);
        let mut inp = pset::Input::from_prevout(txin.previous_output);
        let u = spent_txout(s);
        inp.witness_utxo = Some(u.clone());
        utxos.push(u);
        if let Some(x) = &s.iss {
            inp.issuance_value_amount = x.amount;
            inp.issuance_inflation_keys = x.keys;
            inp.issuance_asset_entropy = Some(txin.asset_issuance.asset_entropy);
            inp.issuance_blinding_nonce = if txin.asset_issuance.asset_blinding_nonce == ZERO_TWEAK { None } else { Some(txin.asset_issuance.asset_blinding_nonce) };
            inp.blinded_issuance = Some(0);
        }
        ps.add_input(inp);
    }
    for o in &f.outs {
        let bk = o.key.map(|k| bitcoin::PublicKey { inner: PublicKey::from_secret_key(secp(), &k), compressed: true });
        let mut out = pset::Output::new_explicit(Script::from(o.script.clone()), o.value, o.asset, bk);
        out.blinder_index = o.owner.map(|x| x as u32);
        ps.add_output(out);
    }
    (ps, utxos)
}
fn show_pset_err(e: &PsetBlindError) -> String {
    match e {
        PsetBlindError::InputTxOutSecretLen => "InputTxOutSecretLen".into(), PsetBlindError::OutputTxOutSecretLen => "OutputTxOutSecretLen".into(),
        PsetBlindError::BlinderIndexOutOfBounds(i, b) => format!("BlinderIndexOutOfBounds:{}:{}", i, b),
        PsetBlindError::MissingInputBlinds(i, b) => format!("MissingInputBlinds:{}:{}", i, b),
        PsetBlindError::AtleastOneOutputBlind => "AtleastOneOutputBlind".into(),
        PsetBlindError::MustHaveExplicitTxOut(i) => format!("MustHaveExplicitTxOut:{}", i),
        PsetBlindError::MissingWitnessUtxo(i) => format!("MissingWitnessUtxo:{}", i),
        PsetBlindError::ConfidentialTxOutError(i, e) => format!("ConfidentialTxOutError:{}:{}", i, show_ctxo_err(e)),
        PsetBlindError::BlindingProofsCreationError(i, _) => format!("BlindingProofsCreationError:{}", i),
        PsetBlindError::BlindingIssuanceUnsupported(i) => format!("BlindingIssuanceUnsupported:{}", i),
    }
}
fn scalars_text(v: &[Tweak]) -> String { if v.is_empty() { "-".into() } else { v.iter().map(|t| hex(t.as_ref())).collect::<Vec<_>>().join(",") } }
fn rnd_all(b: &Blinds) -> Vec<String> { b.values().flat_map(|(a, v, k)| vec![abf_hex(a), vbf_hex(v), hex(&k.secret_bytes())]).collect() }

pub struct FlowRun { pub steps: Vec<String>, pub rnd: Vec<Vec<String>>, pub fail: Option<String>, pub last: Option<Blinds>, pub pset: Pset, pub utxos: Vec<TxOut> }
pub fn run_flow(f: &Flow) -> FlowRun {
    let (mut ps, utxos) = build_pset(f);
    let np = f.parties.len();
    let mut rnd = vec![vec![]; np];
    let mut steps = vec![];
    let secmap = |k: usize| -> HashMap<usize, TxOutSecrets> { f.parties[k].iter().filter(|i| **i < f.ins.len()).map(|i| (*i, f.ins[*i].sec)).collect() };
    for (n, k) in f.order.iter().enumerate() {
        let mut rng = ChaCha20Rng::from_seed(f.seeds[*k]);
        let m = secmap(*k);
        match catch_unwind(AssertUnwindSafe(|| { let r = ps.blind_non_last(&mut rng, secp(), &m); (r, ps) })) {
            Err(_) => return FlowRun { steps, rnd, fail: Some("panic".into()), last: None, pset: Pset::new_v2(), utxos },
            Ok((Err(e), p)) => return FlowRun { steps, rnd, fail: Some(format!("err step{} {}", n, show_pset_err(&e))), last: None, pset: p, utxos },
            Ok((Ok(b), p)) => {
                rnd[*k] = rnd_all(&b);
                // the hop to the next party
                ps = match deserialize::<Pset>(&serialize(&p)) { Ok(q) => q, Err(e) => return FlowRun { steps, rnd, fail: Some(format!("harnesserr hop {:?}", e)), last: None, pset: p, utxos } };
                steps.push(scalars_text(&ps.global.scalars));
            }
        }
    }
    let k = np - 1;
    let mut rng = ChaCha20Rng::from_seed(f.seeds[k]);
    let m = secmap(k);
    match catch_unwind(AssertUnwindSafe(|| { let r = ps.blind_last(&mut rng, secp(), &m); (r, ps) })) {
        Err(_) => FlowRun { steps, rnd, fail: Some("panic".into()), last: None, pset: Pset::new_v2(), utxos },
        Ok((Err(e), p)) => FlowRun { steps, rnd, fail: Some(format!("err last {}", show_pset_err(&e))), last: None, pset: p, utxos },
        Ok((Ok(b), p)) => {
            rnd[k] = rnd_of_blinds(&b);
            let ps = deserialize::<Pset>(&serialize(&p)).unwrap_or(p);
            FlowRun { steps, rnd, fail: None, last: Some(b), pset: ps, utxos }
        }
    }
}

/// the hypotheses of C09 evaluated on the flow itself
fn c09_hypotheses(f: &Flow) -> bool {
    let n = f.ins.len();
    // parties partition the inputs
    let mut seen = vec![0u32; n];
    for p in &f.parties { for i in p { if *i >= n { return false; } seen[*i] += 1; } }
    if seen.iter().any(|c| *c != 1) { return false; }
    let mut order = f.order.clone(); order.sort();
    if order != (0..f.parties.len() - 1).collect::<Vec<_>>() { return false; }
    let party_of = |i: usize| f.parties.iter().position(|p| p.contains(&i));
    // assets a party holds: its inputs and the issuances on them
    let holds = |k: usize, a: &AssetId| f.parties[k].iter().any(|i| { let s = &f.ins[*i]; s.sec.asset == *a || s.iss.as_ref().map(|x| { let (ia, it) = own_issuance_ids(*i, x); (x.amount.is_some() && ia == *a) || (x.keys.is_some() && it == *a) }).unwrap_or(false) });
    let mut has_out = vec![false; f.parties.len()];
    let mut bal: BTreeMap<AssetId, i128> = BTreeMap::new();
    for (i, s) in f.ins.iter().enumerate() {
        if s.sec.value == 0 { return false; }
        *bal.entry(s.sec.asset).or_default() += s.sec.value as i128;
        if let Some(x) = &s.iss {
            let (a, t) = own_issuance_ids(i, x);
            if x.amount == Some(0) || x.keys == Some(0) { return false; }
            if let Some(v) = x.amount { *bal.entry(a).or_default() += v as i128; }
            if let Some(v) = x.keys { *bal.entry(t).or_default() += v as i128; }
        }
    }
    for o in &f.outs {
        if o.value == 0 { return false; }
        *bal.entry(o.asset).or_default() -= o.value as i128;
        if o.key.is_some() {
            let Some(b) = o.owner else { return false };
            let Some(k) = (if b < n { party_of(b) } else { None }) else { return false };
            if !holds(k, &o.asset) || o.value > i64::MAX as u64 { return false; }
            if elements::Address::from_script(&Script::from(o.script.clone()), None, &elements::AddressParams::ELEMENTS).is_none() { return false; }
            has_out[k] = true;
        }
    }
    bal.values().all(|v| *v == 0) && has_out.iter().all(|b| *b)
}

fn eval_flow(case: &str) -> Out {
    let (f, rnd_text) = match parse_flow(case) { Some(x) => x, None => return Out::ok("harnesserr parse".into()) };
    let r = run_flow(&f);
    finish_flow(&f, &rnd_text, r)
}
fn finish_flow(f: &Flow, rnd_text: &[String], r: FlowRun) -> Out {
    let f = f.clone();
    let rnd_text: Vec<String> = rnd_text.to_vec();
    let hyp = c09_hypotheses(&f);
    if let Some(e) = &r.fail {
        let pred_fail = if hyp && !e.starts_with("harnesserr") { Some(format!("multiparty-blinding-failed|a valid multi-party blinding flow fails: {}", e)) } else { None };
        return Out { result: e.clone(), pred_fail };
    }
    let mine: Vec<String> = r.rnd.iter().map(|v| if v.is_empty() { "-".to_string() } else { v.join(",") }).collect();
    if mine != rnd_text { return Out::ok("harnesserr the recorded randomness does not match this run".into()); }
    let ps = &r.pset;
    let scalars = scalars_text(&ps.global.scalars);
    let blinded = ps.outputs().iter().all(|o| o.blinding_key.is_none() || o.is_fully_blinded());
    let (verdict, tx) = match ps.extract_tx() { Ok(tx) => (verify_verdict(&tx, &r.utxos), Some(tx)), Err(e) => (format!("extract:{:?}", e), None) };
    let mut pred_fail = None;
    let mut unb = vec![];
    let mut proofs = true;
    if let Some(tx) = &tx {
        for (i, o) in f.outs.iter().enumerate() {
            let Some(sk) = o.key else { continue };
            match catch_unwind(AssertUnwindSafe(|| tx.output[i].unblind(secp(), sk))) {
                Err(_) => unb.push(format!("{}:panic", i)),
                Ok(Err(e)) => { unb.push(format!("{}:err:{}", i, show_unblind_err(&e))); if hyp && pred_fail.is_none() { pred_fail = Some(format!("unblind-failed|output {} does not unblind: {:?}", i, e)); } }
                Ok(Ok(s)) => {
                    unb.push(format!("{}:{}", i, show_secrets(&s)));
                    if hyp && pred_fail.is_none() && (s.asset != o.asset || s.value != o.value) { pred_fail = Some(format!("unblind-differs|output {} unblinds to another asset/value", i)); }
                }
            }
            let po = &ps.outputs()[i];
            let ok = match (po.asset, po.amount, po.asset_comm, po.amount_comm, &po.blind_value_proof, &po.blind_asset_proof) {
                (Some(a), Some(v), Some(g), Some(c), Some(bvp), Some(bap)) => bvp.blind_value_proof_verify(secp(), v, g, c) && bap.blind_asset_proof_verify(secp(), a, g),
                _ => false,
            };
            proofs &= ok;
        }
    }
    if hyp && pred_fail.is_none() {
        if scalars != "-" { pred_fail = Some("scalars-not-empty|the scalar list is not empty after blind_last".into()); }
        else if !blinded { pred_fail = Some("marked-output-not-blinded|a marked output is not fully blinded after the last blinder".into()); }
        else if verdict != "ok" { pred_fail = Some(format!("multiparty-result-does-not-verify|the extracted transaction fails amount verification: {}", verdict)); }
        else if !proofs { pred_fail = Some("explicit-proofs-fail|a stored explicit value/asset proof does not verify".into()); }
    }
    let _ = (Asset::Null, Value::Null, CtLocationType::Input);
    Out { result: format!("ok steps={} last={} scalars={} blinded={} verify={} unblind={} proofs={}",
            if r.steps.is_empty() { "-".to_string() } else { r.steps.join("/") }, show_blinds(r.last.as_ref().unwrap()), scalars, blinded as u8, verdict,
            if unb.is_empty() { "-".to_string() } else { unb.join(",") }, proofs as u8), pred_fail }
}
pub fn eval(case: &str) -> Out {
    if let Some(o) = memo_take(case) { return o; }
    match case.split(' ').nth(1).unwrap_or("") { "flow" => eval_flow(case), _ => Out::ok("harnesserr kind".into()) }
}

// ------------------------------------------------------------------------------------------------ generators
fn permutations(n: usize) -> Vec<Vec<usize>> {
    if n == 0 { return vec![vec![]]; }
    let mut out = vec![];
    for p in permutations(n - 1) { for pos in 0..=p.len() { let mut q = p.clone(); q.insert(pos, n - 1); out.push(q); } }
    out
}
/// a valid flow over a balanced explicit transaction: inputs split among up to `nparties` parties, blinded outputs assigned to
/// inputs holding their asset; parties left without a blinded output are merged into the last one
fn gen_flow(rng: &mut ChaCha20Rng, sh: &Shape, nparties: usize, tags: &mut Vec<String>) -> Flow {
    let base = gen_balanced(rng, sh, tags);
    let n = base.ins.len();
    let group: Vec<usize> = (0..n).map(|i| if i < nparties { i } else { rng.gen_range(0..nparties) }).map(|g| g.min(nparties - 1)).collect();
    // candidate owners of an output: inputs holding the asset (directly or by issuance)
    let holders = |a: &AssetId| -> Vec<usize> { (0..n).filter(|i| { let s = &base.ins[*i]; s.sec.asset == *a || s.iss.as_ref().map(|x| { let (ia, it) = own_issuance_ids(*i, x); (x.amount.is_some() && ia == *a) || (x.keys.is_some() && it == *a) }).unwrap_or(false) }).collect() };
    let mut outs: Vec<POut> = base.outs.iter().map(|o| {
        let h = holders(&o.asset);
        let mark = !o.script.is_empty() && !h.is_empty() && rng.gen_range(0..5) != 0;
        POut { asset: o.asset, value: o.value, script: o.script.clone(), key: if mark { Some(rsk(rng)) } else { None }, owner: if mark { Some(h[rng.gen_range(0..h.len())]) } else { None } }
    }).collect();
    // every group needs a blinded output: give it one if some output's asset is held by the group, else merge the group away
    let mut g2 = group.clone();
    for g in 0..nparties {
        if outs.iter().any(|o| o.owner.map(|b| g2[b] == g).unwrap_or(false)) { continue; }
        let cand: Vec<(usize, usize)> = outs.iter().enumerate().filter(|(_, o)| !o.script.is_empty()).flat_map(|(j, o)| holders(&o.asset).into_iter().filter(|b| g2[*b] == g).map(move |b| (j, b))).collect();
        let free: Vec<(usize, usize)> = cand.iter().cloned().filter(|(j, _)| outs[*j].key.is_none() || outs.iter().filter(|o| o.owner.map(|b| g2[b]) == outs[*j].owner.map(|b| g2[b])).count() > 1).collect();
        if let Some((j, b)) = free.first() { if outs[*j].key.is_none() { outs[*j].key = Some(rsk(rng)); } outs[*j].owner = Some(*b); }
        else { let target = (0..nparties).find(|h| *h != g && outs.iter().any(|o| o.owner.map(|b| g2[b] == *h).unwrap_or(false))).unwrap_or(0); for x in g2.iter_mut() { if *x == g { *x = target; } } }
    }
    if !outs.iter().any(|o| o.key.is_some()) {
        // nothing could be marked (e.g. only a fee): mark the first non-fee output for an input that holds its asset
        if let Some((j, b)) = outs.iter().enumerate().filter(|(_, o)| !o.script.is_empty()).find_map(|(j, o)| holders(&o.asset).first().map(|b| (j, *b))) { outs[j].key = Some(rsk(rng)); outs[j].owner = Some(b); }
    }
    // parties = the non-empty groups that own a blinded output; everything else joins the last of them
    let mut ids: Vec<usize> = g2.clone(); ids.sort(); ids.dedup();
    let owning: Vec<usize> = ids.iter().cloned().filter(|g| outs.iter().any(|o| o.owner.map(|b| g2[b] == *g).unwrap_or(false))).collect();
    let last = *owning.last().unwrap_or(&ids[0]);
    for x in g2.iter_mut() { if !owning.contains(x) { *x = last; } }
    let mut parties: Vec<Vec<usize>> = owning.iter().map(|g| (0..n).filter(|i| g2[*i] == *g).collect()).collect();
    if parties.is_empty() { parties.push((0..n).collect()); }
    // which party is last: rotate randomly
    let r = rng.gen_range(0..parties.len()); parties.rotate_left(r);
    let np = parties.len();
    Flow { ins: base.ins, outs, parties, order: (0..np - 1).collect(), seeds: (0..np).map(|_| r32(rng)).collect() }
}
fn flow_case(f: &Flow, mut tags: Vec<String>) -> Case {
    let r = run_flow(f);
    let rnd: Vec<Vec<String>> = r.rnd.iter().enumerate().map(|(k, v)| if v.is_empty() && r.fail.is_some() {
        // a failed step reveals no draws; the model's outcome does not depend on them
        (0..3 * f.outs.len() + 2).map(|j| format!("{:064x}", j + 1 + 100 * k)).collect() } else { v.clone() }).collect();
    tags.push(format!("parties{}", f.parties.len())); tags.push(format!("nin{}", f.ins.len())); tags.push(format!("nout{}", f.outs.len()));
    tags.push(format!("marked{}", f.outs.iter().filter(|o| o.key.is_some()).count()));
    if f.outs.iter().any(|o| o.key.is_none() && !o.script.is_empty()) { tags.push("explicit-output".into()); }
    if f.order.windows(2).any(|w| w[0] > w[1]) { tags.push("order-permuted".into()); }
    if f.parties.iter().any(|p| f.outs.iter().filter(|o| o.owner.map(|b| p.contains(&b)).unwrap_or(false)).count() > 1) { tags.push("several-outputs-per-party".into()); }
    let text = format!("C09 flow prof=d {}", fmt_flow(f, &rnd));
    let nontrivial = r.fail.is_none() && f.outs.iter().any(|o| o.key.is_some());
    let rnd_text: Vec<String> = rnd.iter().map(|v| if v.is_empty() { "-".to_string() } else { v.join(",") }).collect();
    // a failed flow was recorded with substitute randomness: let eval compute it from the text
    if r.fail.is_none() { let o = finish_flow(f, &rnd_text, r); memo_put(&text, &o); }
    Case { text, tags, nontrivial }
}

pub fn gen(rng: &mut ChaCha20Rng, n: usize, thorough: bool) -> Vec<Case> {
    let mut out = Vec::new();
    let mut k = 0;
    while out.len() < n {
        let nparties = 1 + k % if thorough { 4 } else { 3 };
        let sh = Shape { nin: nparties.max(1 + k % 4).min(5), nassets: 1 + (k / 3) % 3, extra_outs: 1 + (k / 2) % 4, iss: [0, 0, 1, 0, 3][k % 5], fee: k % 4 != 3 };
        let mut tags = vec!["valid".to_string()];
        let f = gen_flow(rng, &sh, nparties, &mut tags);
        k += 1;
        // every order of the non-last parties
        for perm in permutations(f.parties.len() - 1) {
            if out.len() >= n { break; }
            let mut g = f.clone(); g.order = perm;
            out.push(flow_case(&g, tags.clone()));
        }
    }
    // edge flows (outside the hypotheses: correspondence only)
    let reps = if thorough { 3 } else { 1 };
    for _ in 0..reps {
        let mut t = vec![];
        let f = gen_flow(rng, &Shape { nin: 3, nassets: 2, extra_outs: 3, iss: 0, fee: true }, 2, &mut t);
        // a party that owns a confidential input but blinds nothing: its blinding factors are never accounted for
        let mut g = f.clone();
        if g.parties.len() >= 2 { let p0 = g.parties[g.order[0]].clone(); for o in g.outs.iter_mut() { if o.owner.map(|b| p0.contains(&b)).unwrap_or(false) { o.key = None; o.owner = None; } }
            out.push(flow_case(&g, vec!["edge-party-without-outputs".into()])); }
        // blinder index out of range
        let mut g = f.clone(); if let Some(o) = g.outs.iter_mut().find(|o| o.key.is_some()) { o.owner = Some(g.ins.len() + 2); } out.push(flow_case(&g, vec!["edge-blinder-index-out-of-bounds".into()]));
        // an output assigned to an input that does not hold its asset
        let mut g = f.clone(); if let Some(o) = g.outs.iter_mut().find(|o| o.key.is_some()) { o.asset = rasset_id(rng); } out.push(flow_case(&g, vec!["edge-foreign-asset".into()]));
        // a marked output on a script that is no address
        let mut g = f.clone(); if let Some(o) = g.outs.iter_mut().find(|o| o.key.is_some()) { o.script = vec![0x6a, 0x01, 0x02]; } out.push(flow_case(&g, vec!["edge-nonaddress".into()]));
        // the last party has nothing to blind
        let mut g = f.clone(); let pl = g.parties.last().unwrap().clone(); for o in g.outs.iter_mut() { if o.owner.map(|b| pl.contains(&b)).unwrap_or(false) { o.key = None; o.owner = None; } }
        out.push(flow_case(&g, vec!["edge-last-party-without-outputs".into()]));
    }
    out
}
