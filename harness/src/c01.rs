//! C01: consensus encoding is an exact bijection on canonical values.
use crate::{txgen::*, util::*, Case, Out};
use elements::encode::{deserialize, deserialize_partial, serialize, Decodable, Encodable};
use elements::{Block, BlockHeader, Transaction, TxIn, TxOut};
use elements::confidential::{Asset, Nonce, Value};
use elements::dynafed;
use rand::Rng;
use rand_chacha::ChaCha20Rng;

pub fn caps() -> String {
    let m = elements::encode::MAX_VEC_SIZE;
    format!("{},{},{},{},{}", m, m / std::mem::size_of::<TxIn>(), m / std::mem::size_of::<TxOut>(), m / std::mem::size_of::<Vec<u8>>(), m / std::mem::size_of::<Transaction>())
}

fn run<T: Decodable + Encodable + PartialEq + std::fmt::Debug>(b: &[u8], summary: impl Fn(&T) -> String) -> Out {
    match deserialize_partial::<T>(b) {
        Err(_) => Out::ok("err".into()),
        Ok((v, consumed)) => {
            let re = serialize(&v);
            let mut sink = Vec::new();
            let reported = v.consensus_encode(&mut sink).unwrap_or(usize::MAX);
            let mut fail = None;
            if re[..] != b[..consumed.min(b.len())] { fail = Some("reencode-differs|decoder accepted a byte string that does not re-encode to itself".to_string()); }
            else if consumed != re.len() { fail = Some("consumed-length|consumed length differs from the re-encoded length".to_string()); }
            else if reported != re.len() { fail = Some("reported-length|length reported by consensus_encode differs from bytes written".to_string()); }
            else {
                match deserialize::<T>(&re) { Ok(v2) if v2 == v => {}, _ => fail = Some("roundtrip|encode(decode(b)) does not decode back to an equal value".to_string()) }
                if consumed == b.len() && deserialize::<T>(b).is_err() { fail = Some("deserialize-partial-disagree|deserialize rejects what deserialize_partial consumed entirely".to_string()); }
            }
            Out { result: format!("ok {} {} {} {}", consumed, reported, summary(&v), if re.is_empty() { "-".to_string() } else { hex(&re) }), pred_fail: fail }
        }
    }
}
// field-wise fingerprint of a decoded value (length and byte sum of every field, by field NAME); mirrors Extract/RunC01.v
fn fpb(b: &[u8]) -> String { format!("{}.{}", b.len(), b.iter().fold(0u64, |a, x| (a + *x as u64) % 65521)) }
fn fpo(o: Option<Vec<u8>>) -> String { o.map(|b| fpb(&b)).unwrap_or_else(|| "-".into()) }
fn fpstack(l: &[Vec<u8>]) -> String { format!("[{}]", l.iter().map(|b| fpb(b)).collect::<Vec<_>>().join(",")) }
fn fpval(v: &Value) -> String { match v { Value::Null => "n".into(), Value::Explicit(n) => format!("e{}", n), Value::Confidential(c) => format!("c{}", fpb(&c.serialize())) } }
fn fpasset(v: &Asset) -> String { match v { Asset::Null => "n".into(), Asset::Explicit(a) => format!("e{}", fpb(&elements::encode::serialize(a))), Asset::Confidential(c) => format!("c{}", fpb(&c.serialize())) } }
fn fpnonce(v: &Nonce) -> String { match v { Nonce::Null => "n".into(), Nonce::Explicit(b) => format!("e{}", fpb(b)), Nonce::Confidential(c) => format!("c{}", fpb(&c.serialize())) } }
pub fn sum_txin(i: &TxIn) -> String {
    let w = &i.witness;
    format!("{}:{}:{}{}:s{}:q{}:i{}/{}/{}/{}:w{}/{}/{}/{}", fpb(&i.previous_output.txid.to_byte_array()), i.previous_output.vout, i.is_pegin as u8, i.has_issuance() as u8,
        fpb(i.script_sig.as_bytes()), i.sequence.0,
        fpb(i.asset_issuance.asset_blinding_nonce.as_ref()), fpb(&i.asset_issuance.asset_entropy), fpval(&i.asset_issuance.amount), fpval(&i.asset_issuance.inflation_keys),
        fpo(w.amount_rangeproof.as_ref().map(|p| p.serialize())), fpo(w.inflation_keys_rangeproof.as_ref().map(|p| p.serialize())), fpstack(&w.script_witness), fpstack(&w.pegin_witness))
}
pub fn sum_txout(o: &TxOut) -> String {
    format!("a{}:v{}:n{}:s{}:w{}/{}", fpasset(&o.asset), fpval(&o.value), fpnonce(&o.nonce), fpb(o.script_pubkey.as_bytes()),
        fpo(o.witness.surjection_proof.as_ref().map(|p| p.serialize())), fpo(o.witness.rangeproof.as_ref().map(|p| p.serialize())))
}
pub fn sum_tx(t: &Transaction) -> String {
    format!("w{}/v{}/l{}/I{}/O{}", t.has_witness() as u8, t.version, t.lock_time.to_consensus_u32(),
        t.input.iter().map(sum_txin).collect::<Vec<_>>().join(","), t.output.iter().map(sum_txout).collect::<Vec<_>>().join(","))
}
fn sum_params(p: &dynafed::Params) -> String {
    match p {
        dynafed::Params::Null => "N".into(),
        dynafed::Params::Compact { signblockscript, signblock_witness_limit, elided_root } => format!("C{}/{}/{}", fpb(signblockscript.as_bytes()), signblock_witness_limit, fpb(&elided_root.to_byte_array())),
        dynafed::Params::Full(_) => format!("F{}/{}/{}/{}/{}", fpb(p.signblockscript().unwrap().as_bytes()), p.signblock_witness_limit().unwrap(), fpb(p.fedpeg_program().unwrap().as_bytes()), fpb(p.fedpegscript().unwrap()), fpstack(p.extension_space().unwrap())),
    }
}
pub fn sum_header(h: &BlockHeader) -> String {
    let ext = match &h.ext {
        elements::BlockExtData::Proof { challenge, solution } => format!("P{}/{}", fpb(challenge.as_bytes()), fpb(solution.as_bytes())),
        elements::BlockExtData::Dynafed { current, proposed, signblock_witness } => format!("D{}|{}|{}", sum_params(current), sum_params(proposed), fpstack(signblock_witness)),
    };
    format!("v{}:p{}:m{}:t{}:h{}:{}", h.version, fpb(&h.prev_blockhash.to_byte_array()), fpb(&h.merkle_root.to_byte_array()), h.time, h.height, ext)
}

pub fn eval(case: &str) -> Out {
    let w: Vec<&str> = case.split(' ').collect();
    if w.len() != 5 && w.len() != 6 { return Out::ok("harnesserr args".into()); }
    let b = match if w[4] == "-" { Some(vec![]) } else { unhex(w[4]) } { Some(b) => b, None => return Out::ok("harnesserr hex".into()) };
    let must_accept = w.len() == 6 && w[5] == "ref";
    let mut o = eval_ty(w[1], &b);
    if must_accept && o.pred_fail.is_none() {
        // the input is the reference encoding of a canonical in-memory value: rejecting it, or not consuming all of it, violates the property
        let consumed_all = o.result.split(' ').nth(1).map(|c| c == b.len().to_string()).unwrap_or(false);
        if !o.result.starts_with("ok ") { o.pred_fail = Some("reference-encoding-rejected|the decoder rejects the consensus encoding of a canonical value (or the crate's own encoder no longer produces it)".to_string()); }
        else if !consumed_all { o.pred_fail = Some("reference-encoding-not-consumed|the decoder did not consume the whole consensus encoding of a canonical value".to_string()); }
    }
    o
}
fn eval_ty(ty: &str, b: &[u8]) -> Out {
    let b = b.to_vec();
    match ty {
        "tx" => run::<Transaction>(&b, sum_tx),
        "txin" => run::<TxIn>(&b, sum_txin),
        "txout" => run::<TxOut>(&b, sum_txout),
        "header" => run::<BlockHeader>(&b, sum_header),
        "block" => run::<Block>(&b, |bl| format!("{}/T{}", sum_header(&bl.header), bl.txdata.iter().map(sum_tx).collect::<Vec<_>>().join(";"))),
        "params" => run::<dynafed::Params>(&b, sum_params),
        "value" => run::<Value>(&b, fpval),
        "asset" => run::<Asset>(&b, fpasset),
        "nonce" => run::<Nonce>(&b, fpnonce),
        _ => Out::ok("harnesserr type".into()),
    }
}

pub fn mk(ty: &str, b: &[u8], mut tags: Vec<String>, accepted_hint: bool) -> Case {
    let pts = valid_points(b);
    tags.push(format!("ty:{}", ty));
    Case { text: format!("C01 {} {} {} {}", ty, caps(), hexlist(&pts), if b.is_empty() { "-".to_string() } else { hex(b) }), tags, nontrivial: accepted_hint }
}

/// a case whose input is the reference encoding of a canonical in-memory value (must be accepted and fully consumed)
pub fn mk_ref(ty: &str, b: &[u8], mut tags: Vec<String>) -> Case {
    tags.push("src:reference-encoder".into());
    let mut c = mk(ty, b, tags, true);
    c.text.push_str(" ref");
    c
}

pub fn rparams(rng: &mut ChaCha20Rng, tags: &mut Vec<String>) -> dynafed::Params {
    match rng.gen_range(0..4) {
        0 => { tags.push("params:null".into()); dynafed::Params::Null }
        1 => { tags.push("params:compact".into()); dynafed::Params::Compact { signblockscript: rscript(rng, false), signblock_witness_limit: rng.gen(), elided_root: dynafed::ElidedRoot::from_byte_array(r32(rng)) } }
        _ => { tags.push("params:full".into()); dynafed::Params::Full(dynafed::FullParams::new(rscript(rng, false), rng.gen(), { let l = boundary_len(rng, false); elements::bitcoin::ScriptBuf::from_bytes(rbytes(rng, l)) }, { let l = boundary_len(rng, false); rbytes(rng, l) }, rstack(rng, false))) }
    }
}
pub fn rheader(rng: &mut ChaCha20Rng, tags: &mut Vec<String>) -> BlockHeader {

    let ext = if rng.gen_range(0..3) == 0 {
        tags.push("hdr:proof".into());
        elements::BlockExtData::Proof { challenge: rscript(rng, false), solution: rscript(rng, false) }
    } else {
        tags.push("hdr:dynafed".into());
        elements::BlockExtData::Dynafed { current: rparams(rng, tags), proposed: rparams(rng, tags), signblock_witness: rstack(rng, false) }
    };
    BlockHeader {
        version: pk!(rng, [0u32, 1, 0x2000_0000, 0x7fff_ffff, rng.gen::<u32>() & 0x7fff_ffff]),
        prev_blockhash: elements::BlockHash::from_byte_array(r32(rng)),
        merkle_root: elements::TxMerkleNode::from_byte_array(r32(rng)),
        time: rng.gen(), height: rng.gen(), ext,
    }
}

pub fn gen(rng: &mut ChaCha20Rng, n: usize, thorough: bool) -> Vec<Case> {
    let mut out = Vec::new();
    let f = Feat { big: thorough, no_witness: false };
    // (ii) repository vectors: try each as tx / block / header
    for v in repo_hex_vectors() {
        for ty in ["tx", "block", "header"] {
            let ok = match ty { "tx" => deserialize::<Transaction>(&v).is_ok(), "block" => deserialize::<Block>(&v).is_ok(), _ => deserialize::<BlockHeader>(&v).is_ok() };
            if ok && v.len() < 20000 { out.push(mk(ty, &v, vec!["src:repo-vector".into()], true)); }
        }
    }
    let mut valid: Vec<(String, Vec<u8>)> = Vec::new();
    // (i) structured values
    for k in 0..n {
        let mut tags = vec!["src:structured".to_string()];
        let (ty, b): (&str, Vec<u8>) = match k % 10 {
            0..=4 => { let t = rtx_stray(rng, f, &mut tags); let r = ref_tx(&t); if tx_is_canonical(&t) { valid.push(("tx".to_string(), r.clone())); out.push(mk_ref("tx", &r, tags)); continue; } ("tx", r) }
            // every structured case is the REFERENCE encoding (txgen::ref_*, independent of the crate's encoder) of a canonical value: must be accepted
            5 => { let i = rtxin(rng, f, &mut tags); let mut r = Vec::new(); ref_txin(&mut r, &i); let t1 = Transaction { version: 2, lock_time: elements::LockTime::ZERO, input: vec![i], output: vec![] };
                   if tx_is_canonical(&t1) { valid.push(("txin".to_string(), r.clone())); out.push(mk_ref("txin", &r, tags)); continue; } ("txin", r) }
            6 => { let o = rtxout(rng, f, &mut tags); let mut r = Vec::new(); ref_txout(&mut r, &o); valid.push(("txout".to_string(), r.clone())); out.push(mk_ref("txout", &r, tags)); continue; }
            7 => { let r = ref_header_vec(&rheader(rng, &mut tags)); valid.push(("header".to_string(), r.clone())); out.push(mk_ref("header", &r, tags)); continue; }
            8 => { let txs: Vec<Transaction> = (0..rng.gen_range(0..3)).map(|_| rtx(rng, Feat { big: false, no_witness: false }, &mut tags)).collect();
                   let canon = txs.iter().all(tx_is_canonical); let r = ref_block(&Block { header: rheader(rng, &mut tags), txdata: txs });
                   if canon { valid.push(("block".to_string(), r.clone())); out.push(mk_ref("block", &r, tags)); continue; } ("block", r) }
            _ => { let mut r = Vec::new();
                   let ty = match rng.gen_range(0..4) { 0 => { ref_params(&mut r, &rparams(rng, &mut tags)); "params" }, 1 => { ref_value(&mut r, &rvalue(rng, true)); "value" }, 2 => { ref_asset(&mut r, &rasset(rng, true)); "asset" }, _ => { ref_nonce(&mut r, &rnonce(rng)); "nonce" } };
                   valid.push((ty.to_string(), r.clone())); out.push(mk_ref(ty, &r, tags)); continue; }
        };
        valid.push((ty.to_string(), b.clone()));
        out.push(mk(ty, &b, tags, true));
    }
    // (iii) malformed stream: mutations of the valid encodings (1..3 stacked mutations)
    let nm = n * 2;
    for _ in 0..nm {
        let (ty, b) = &valid[rng.gen_range(0..valid.len())];
        if b.len() > 3000 { continue; }
        let mut tags = vec!["src:mutated".to_string()];
        let mut m = mutate(rng, b, &mut tags);
        for _ in 0..rng.gen_range(0..2) { m = mutate(rng, &m, &mut tags); }
        let acc = match ty.as_str() { "tx" => deserialize_partial::<Transaction>(&m).is_ok(), "txin" => deserialize_partial::<TxIn>(&m).is_ok(), _ => false };
        out.push(mk(ty, &m, tags, acc));
    }
    // targeted: every varint form (1, 3, 5, 9 bytes; minimal or not) for script lengths around every threshold
    for l in [0usize, 1, 0xfc, 0xfd, 0xfe, 0xff, 0x100, 0xfff, 0x1000, 0x7fff, 0xffff, 0x10000, 0x10001] {
        for form in [1usize, 3, 5, 9] {
            if form == 1 && l > 0xff { continue; }
            let mut b = vec![1u8]; b.extend_from_slice(&[0x33; 32]); b.push(1); b.extend_from_slice(&5u64.to_be_bytes()); b.push(0);
            match form { 1 => b.push(l as u8), 3 => { b.push(0xfd); b.extend_from_slice(&(l as u16).to_le_bytes()); }
                         5 => { b.push(0xfe); b.extend_from_slice(&(l as u32).to_le_bytes()); } _ => { b.push(0xff); b.extend_from_slice(&(l as u64).to_le_bytes()); } }
            if form == 3 && l > 0xffff { continue; }
            b.extend(std::iter::repeat(0x51u8).take(l));
            out.push(mk("txout", &b, vec![format!("src:targeted-varint-form{}", form)], true));
        }
    }
    // targeted: a non-empty byte string that is NOT a parseable proof in each of the four proof positions of the witness (amount / inflation-keys
    // range proof of an input, surjection / range proof of an output); another real witness item keeps the witness flag legal. Must be rejected:
    // an accepted junk proof could only re-encode as something else.
    for pos in 0..5 {     // pos 4: the control without junk, which must be accepted
        for junk in [&[0xffu8][..], &[0x60], &[0x40, 0x00], &[0u8; 10], &[0x01, 0xff, 0xff], &[0xffu8; 70]] {
            let mut b = vec![2u8, 0, 0, 0, 1, 1]; b.extend_from_slice(&[9u8; 32]); b.extend_from_slice(&[0, 0, 0, 0, 0]); b.extend_from_slice(&[0xff; 4]);
            b.push(1); b.push(1); b.extend_from_slice(&[0x33; 32]); b.push(1); b.extend_from_slice(&5u64.to_be_bytes()); b.push(0); b.extend_from_slice(&[1, 0x51]);
            b.extend_from_slice(&[0, 0, 0, 0]);
            let field = |k: usize, b: &mut Vec<u8>| if k == pos { b.push(junk.len() as u8); b.extend_from_slice(junk); } else { b.push(0); };
            field(0, &mut b); field(1, &mut b); b.extend_from_slice(&[1, 1, 0xaa]); b.push(0);     // input witness: two proofs, script witness [[aa]], empty pegin witness
            field(2, &mut b); field(3, &mut b);                                                     // output witness: surjection proof, range proof
            out.push(mk("tx", &b, vec![format!("src:targeted-junk-proof-pos{}", pos)], true));
            if pos == 4 { break; }
        }
    }
    // targeted: every (pegin, issuance) flag combination on the coinbase index and around 0x3fffffff
    for vout in [0xffff_ffffu32, 0x3fff_ffff, 0x7fff_ffff, 0xbfff_ffff, 0x4000_0000, 0x8000_0000, 0xc000_0000, 0] {
        let mut b = vec![7u8; 32]; b.extend_from_slice(&vout.to_le_bytes()); b.push(0); b.extend_from_slice(&5u32.to_le_bytes());
        let with_iss = { let mut c = b.clone(); c.extend_from_slice(&[0u8; 64]); c.extend_from_slice(&[1, 0, 0, 0, 0, 0, 0, 0, 9, 0]); c };
        let null_iss = { let mut c = b.clone(); c.extend_from_slice(&[0u8; 64]); c.extend_from_slice(&[0, 0]); c };
        out.push(mk("txin", &b, vec!["src:targeted-flags".into()], true));
        out.push(mk("txin", &with_iss, vec!["src:targeted-flags".into()], true));
        out.push(mk("txin", &null_iss, vec!["src:targeted-superfluous-issuance".into()], true));
    }
    out
}
