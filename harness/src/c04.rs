//! C04: blinding yields a transaction that verifies and that receivers can unblind (also the shared confidential-transaction
//! case format / generators of C05 and C09).
//!
//! A case is an EXPLICIT transaction given in opened form (spent outputs with their secrets, explicit issuances, explicit
//! outputs, which outputs carry a receiver blinding key), the seed of the ChaCha20 stream handed to `Transaction::blind`, and
//! the scalars that stream made the crate draw (`rnd`, read back from the returned map) so that the Coq model — which takes its
//! randomness as an explicit list — can reproduce the last output's value blinding factor bit for bit.
use crate::{txgen::secp, util::*, Case, Out};
use elements::confidential::{Asset, AssetBlindingFactor, Nonce, Value, ValueBlindingFactor};
use elements::secp256k1_zkp::{PublicKey, SecretKey, Tweak, ZERO_TWEAK};
use elements::{Address, AddressParams, AssetId, AssetIssuance, BlindError, ConfidentialTxOutError, CtLocation, CtLocationType, LockTime, OutPoint, Script, Sequence,
               Transaction, TxIn, TxInWitness, TxOut, TxOutError, TxOutSecrets, TxOutWitness, Txid, UnblindError, VerificationError};
use rand::{Rng, SeedableRng};
use rand_chacha::ChaCha20Rng;
use std::collections::BTreeMap;
use std::panic::{catch_unwind, AssertUnwindSafe};

// ------------------------------------------------------------------------------------------------ specs
#[derive(Clone, Debug)]
/// issuance of an input: amount / inflation keys absent (None), explicit (`*_vbf` None) or CONFIDENTIAL (`*_vbf` = the blinding factor
/// of the commitment amount·H_id + vbf·G)
pub struct IssSpec { pub amount: Option<u64>, pub keys: Option<u64>, pub reissue: bool, pub amount_vbf: Option<ValueBlindingFactor>, pub keys_vbf: Option<ValueBlindingFactor> }
impl IssSpec { pub fn explicit(amount: Option<u64>, keys: Option<u64>, reissue: bool) -> IssSpec { IssSpec { amount, keys, reissue, amount_vbf: None, keys_vbf: None } } }
/// The asset and token ids of the issuance on input `i`, derived HERE from the formulas of the protocol and NOT through
/// `TxIn::issuance_ids()`: entropy = H(H(outpoint) || H(contract)) for a new issuance, the entropy field for a reissuance;
/// asset = H(entropy || 0); token = H(entropy || 1) if the issued AMOUNT is explicit (or absent), H(entropy || 2) if it is confidential.
pub fn own_issuance_ids(i: usize, x: &IssSpec) -> (AssetId, AssetId) {
    use elements::{AssetEntropy, ContractHash};
    let field = [0x20u8.wrapping_add(i as u8); 32];
    let entropy = if x.reissue { AssetEntropy::from_byte_array(field) } else {
        AssetId::generate_asset_entropy(OutPoint { txid: Txid::from_byte_array([(i as u8).wrapping_add(1); 32]), vout: i as u32 }, ContractHash::from_byte_array(field))
    };
    let amount_confidential = x.amount.is_some() && x.amount_vbf.is_some();
    (AssetId::from_entropy(entropy), AssetId::reissuance_token_from_entropy(entropy, amount_confidential))
}
/// the token id with the OTHER confidentiality flag (what a verifier deriving the flag from the wrong field would compute)
pub fn own_token_other_flag(i: usize, x: &IssSpec) -> AssetId {
    let mut y = x.clone();
    if y.amount.is_none() { y.amount = Some(1); }
    y.amount_vbf = if x.amount.is_some() && x.amount_vbf.is_some() { None } else { Some(ValueBlindingFactor::zero()) };
    own_issuance_ids(i, &y).1
}
fn iss_value(id: AssetId, v: Option<u64>, vbf: Option<ValueBlindingFactor>) -> Value {
    match (v, vbf) {
        (None, _) => Value::Null,
        (Some(v), None) => Value::Explicit(v),
        (Some(v), Some(b)) => Value::new_confidential(secp(), v, elements::secp256k1_zkp::Generator::new_unblinded(secp(), id.into_tag()), b),
    }
}
#[derive(Clone, Debug)]
pub struct InSpec { pub ea: bool, pub ev: bool, pub sec: TxOutSecrets, pub iss: Option<IssSpec> }
#[derive(Clone, Debug, PartialEq)]
pub enum NonceSpec { Null, Explicit, Key(SecretKey) }
#[derive(Clone, Debug)]
pub struct OutSpec { pub asset: AssetId, pub value: u64, pub script: Vec<u8>, pub nonce: NonceSpec }
#[derive(Clone, Debug)]
pub struct TxSpec { pub ins: Vec<InSpec>, pub outs: Vec<OutSpec> }

pub fn tag_hex(a: &AssetId) -> String { hex(a.into_tag().as_ref()) }
pub fn asset_from_hex(s: &str) -> Option<AssetId> { Some(AssetId::from_byte_array(<[u8; 32]>::try_from(&unhex(s)?[..]).ok()?)) }
pub fn abf_hex(a: &AssetBlindingFactor) -> String { hex(a.into_inner().as_ref()) }
pub fn vbf_hex(a: &ValueBlindingFactor) -> String { hex(a.into_inner().as_ref()) }

/// the i-th input of every generated transaction: a fixed outpoint and, if requested, an explicit (re)issuance
pub fn txin_for(i: usize, iss: &Option<IssSpec>) -> TxIn {
    let asset_issuance = match iss {
        None => AssetIssuance::default(),
        Some(s) => AssetIssuance {
            asset_blinding_nonce: if s.reissue { Tweak::from_inner([0x11; 32]).unwrap() } else { ZERO_TWEAK },
            asset_entropy: [0x20u8.wrapping_add(i as u8); 32],
            amount: iss_value(own_issuance_ids(i, s).0, s.amount, s.amount_vbf),
            inflation_keys: iss_value(own_issuance_ids(i, s).1, s.keys, s.keys_vbf),
        },
    };
    TxIn {
        previous_output: OutPoint { txid: Txid::from_byte_array([(i as u8).wrapping_add(1); 32]), vout: i as u32 },
        is_pegin: false, script_sig: Script::new(), sequence: Sequence::MAX, asset_issuance, witness: TxInWitness::default(),
    }
}
pub fn spent_txout(s: &InSpec) -> TxOut {
    let asset = if s.ea { Asset::Explicit(s.sec.asset) } else { Asset::new_confidential(secp(), s.sec.asset, s.sec.asset_bf) };
    let value = if s.ev { Value::Explicit(s.sec.value) } else { Value::new_confidential_from_assetid(secp(), s.sec.value, s.sec.asset, s.sec.value_bf, s.sec.asset_bf) };
    TxOut { asset, value, nonce: Nonce::Null, script_pubkey: Script::from(vec![0x51]), witness: TxOutWitness::default() }
}
pub fn out_txout(o: &OutSpec) -> TxOut {
    let nonce = match &o.nonce {
        NonceSpec::Null => Nonce::Null,
        NonceSpec::Explicit => Nonce::Explicit([0x5a; 32]),
        NonceSpec::Key(sk) => Nonce::Confidential(PublicKey::from_secret_key(secp(), sk)),
    };
    TxOut { asset: Asset::Explicit(o.asset), value: Value::Explicit(o.value), nonce, script_pubkey: Script::from(o.script.clone()), witness: TxOutWitness::default() }
}
/// (transaction, spent outputs, the secrets list `blind` is given: each spent output followed by its explicit issuance pseudo-inputs)
pub fn build(spec: &TxSpec) -> (Transaction, Vec<TxOut>, Vec<TxOutSecrets>) {
    let mut input = vec![];
    let mut spent = vec![];
    let mut secrets = vec![];
    for (i, s) in spec.ins.iter().enumerate() {
        let txin = txin_for(i, &s.iss);
        spent.push(spent_txout(s));
        secrets.push(s.sec);
        if let Some(x) = &s.iss {
            let (asset_id, token_id) = own_issuance_ids(i, x);
            if let Some(v) = x.amount { secrets.push(TxOutSecrets::new(asset_id, AssetBlindingFactor::zero(), v, x.amount_vbf.unwrap_or_else(ValueBlindingFactor::zero))); }
            if let Some(v) = x.keys { secrets.push(TxOutSecrets::new(token_id, AssetBlindingFactor::zero(), v, x.keys_vbf.unwrap_or_else(ValueBlindingFactor::zero))); }
        }
        input.push(txin);
    }
    let output = spec.outs.iter().map(out_txout).collect();
    (Transaction { version: 2, lock_time: LockTime::ZERO, input, output }, spent, secrets)
}

// ------------------------------------------------------------------------------------------------ case text
pub fn fmt_in(i: usize, s: &InSpec) -> String {
    let iss = match &s.iss {
        None => "-".to_string(),
        Some(x) => {
            let (a, t) = own_issuance_ids(i, x);
            let amt = |v: &Option<u64>, b: &Option<ValueBlindingFactor>| match (v, b) { (None, _) => "n".to_string(), (Some(v), None) => v.to_string(), (Some(v), Some(b)) => format!("c{}.{}", v, vbf_hex(b)) };
            format!("{},{},{},{},{}", amt(&x.amount, &x.amount_vbf), amt(&x.keys, &x.keys_vbf), tag_hex(&a), tag_hex(&t), if x.reissue { "r" } else { "i" })
        }
    };
    format!("{}{}:{}:{}:{}:{}:{}", s.ea as u8, s.ev as u8, tag_hex(&s.sec.asset), abf_hex(&s.sec.asset_bf), s.sec.value, vbf_hex(&s.sec.value_bf), iss)
}
pub fn fmt_out(o: &OutSpec) -> String {
    let n = match &o.nonce { NonceSpec::Null => "n".to_string(), NonceSpec::Explicit => "e".to_string(), NonceSpec::Key(k) => hex(&k.secret_bytes()) };
    format!("{}:{}:{}:{}", tag_hex(&o.asset), o.value, if o.script.is_empty() { "-".to_string() } else { hex(&o.script) }, n)
}
pub fn fmt_spec(spec: &TxSpec) -> String {
    format!("in={} out={}",
        spec.ins.iter().enumerate().map(|(i, s)| fmt_in(i, s)).collect::<Vec<_>>().join(";"),
        spec.outs.iter().map(fmt_out).collect::<Vec<_>>().join(";"))
}
pub fn field<'a>(case: &'a str, k: &str) -> Option<&'a str> {
    let pre = format!("{}=", k);
    case.split(' ').find_map(|w| w.strip_prefix(pre.as_str()))
}
fn parse_in(s: &str) -> Option<InSpec> {
    let p: Vec<&str> = s.split(':').collect();
    if p.len() != 6 || p[0].len() != 2 { return None; }
    let iss = if p[5] == "-" { None } else {
        let q: Vec<&str> = p[5].split(',').collect();
        if q.len() != 5 { return None; }
        let amt = |x: &str| -> Option<(Option<u64>, Option<ValueBlindingFactor>)> {
            if x == "n" { Some((None, None)) }
            else if let Some(r) = x.strip_prefix('c') { let (v, b) = r.split_once('.')?; Some((Some(v.parse().ok()?), Some(ValueBlindingFactor::from_slice(&unhex(b)?).ok()?))) }
            else { Some((Some(x.parse().ok()?), None)) } };
        let ((amount, amount_vbf), (keys, keys_vbf)) = (amt(q[0])?, amt(q[1])?);
        Some(IssSpec { amount, keys, reissue: q[4] == "r", amount_vbf, keys_vbf })
    };
    Some(InSpec { ea: &p[0][0..1] == "1", ev: &p[0][1..2] == "1",
        sec: TxOutSecrets::new(asset_from_hex(p[1])?, AssetBlindingFactor::from_slice(&unhex(p[2])?).ok()?, p[3].parse().ok()?, ValueBlindingFactor::from_slice(&unhex(p[4])?).ok()?),
        iss })
}
fn parse_out(s: &str) -> Option<OutSpec> {
    let p: Vec<&str> = s.split(':').collect();
    if p.len() != 4 { return None; }
    let nonce = match p[3] { "n" => NonceSpec::Null, "e" => NonceSpec::Explicit, k => NonceSpec::Key(SecretKey::from_slice(&unhex(k)?).ok()?) };
    Some(OutSpec { asset: asset_from_hex(p[0])?, value: p[1].parse().ok()?, script: if p[2] == "-" { vec![] } else { unhex(p[2])? }, nonce })
}
pub fn parse_spec(case: &str) -> Option<TxSpec> {
    let ins = field(case, "in")?;
    let outs = field(case, "out")?;
    let ins = if ins == "-" { vec![] } else { ins.split(';').map(parse_in).collect::<Option<Vec<_>>>()? };
    let outs = if outs == "-" { vec![] } else { outs.split(';').map(parse_out).collect::<Option<Vec<_>>>()? };
    // the issuance ids in the text must be the ones the crate derives (the model reads them from the text)
    let spec = TxSpec { ins, outs };
    let again = fmt_spec(&spec);
    if field(&again, "in")? != field(case, "in")? { return None; }
    Some(spec)
}
pub fn parse_seed(case: &str) -> Option<[u8; 32]> { <[u8; 32]>::try_from(&unhex(field(case, "seed")?)?[..]).ok() }

// ------------------------------------------------------------------------------------------------ canonical result text
pub fn show_txout_err(e: &TxOutError) -> &'static str {
    match e {
        TxOutError::UnExpectedNullValue => "UnExpectedNullValue", TxOutError::UnExpectedNullAsset => "UnExpectedNullAsset",
        TxOutError::NonUnspendableZeroValue => "NonUnspendableZeroValue", TxOutError::ZeroValueCommitment => "ZeroValueCommitment",
        TxOutError::IncorrectBlindingFactors => "IncorrectBlindingFactors",
    }
}
pub fn show_verdict(r: &Result<(), VerificationError>) -> String {
    match r {
        Ok(()) => "ok".into(),
        Err(e) => "err:".to_string() + &match e {
            VerificationError::RangeProofError(i, _) => format!("RangeProofError:{}", i),
            VerificationError::RangeProofMissing(i) => format!("RangeProofMissing:{}", i),
            VerificationError::SurjectionProofError(i, _) => format!("SurjectionProofError:{}", i),
            VerificationError::SurjectionProofVerificationError(i) => format!("SurjectionProofVerificationError:{}", i),
            VerificationError::SurjectionProofMissing(i) => format!("SurjectionProofMissing:{}", i),
            VerificationError::SpentTxOutError(i, e) => format!("SpentTxOutError:{}:{}", i, show_txout_err(e)),
            VerificationError::TxOutError(i, e) => format!("TxOutError:{}:{}", i, show_txout_err(e)),
            VerificationError::IssuanceTransactionInput(i) => format!("IssuanceTransactionInput:{}", i),
            VerificationError::UtxoInputLenMismatch => "UtxoInputLenMismatch".into(),
            VerificationError::BalanceCheckFailed => "BalanceCheckFailed".into(),
        },
    }
}
/// verify under catch_unwind (an explicit zero issuance amount makes PedersenCommitment::new_unblinded assert)
pub fn verify_verdict(tx: &Transaction, spent: &[TxOut]) -> String {
    match catch_unwind(AssertUnwindSafe(|| tx.verify_tx_amt_proofs(secp(), spent))) { Ok(r) => show_verdict(&r), Err(_) => "panic".into() }
}
pub fn show_blind_err(e: &BlindError) -> String {
    match e {
        BlindError::InvalidAddress => "InvalidAddress".into(),
        BlindError::TooFewBlindingOutputs => "TooFewBlindingOutputs".into(),
        BlindError::MustHaveAllExplicitTxOuts => "MustHaveAllExplicitTxOuts".into(),
        BlindError::NoIssuanceToBlind => "NoIssuanceToBlind".into(),
        BlindError::ZeroValueBlindingNotAllowed => "ZeroValueBlindingNotAllowed".into(),
        BlindError::IssuanceAmountMustBeExplicit => "IssuanceAmountMustBeExplicit".into(),
        BlindError::ConfidentialTxOutError(c) => show_ctxo_err(c),
    }
}
pub fn show_ctxo_err(c: &ConfidentialTxOutError) -> String {
    match c {
        ConfidentialTxOutError::InvalidAddress => "InvalidAddress".into(),
        ConfidentialTxOutError::NoBlindingKeyInAddress => "NoBlindingKeyInAddress".into(),
        ConfidentialTxOutError::Upstream(u) => format!("Upstream:{:?}", u),
        ConfidentialTxOutError::TxOutError(i, e) => format!("TxOutError:{}:{}", i, show_txout_err(e)),
        ConfidentialTxOutError::ExpectedExplicitAsset => "ExpectedExplicitAsset".into(),
        ConfidentialTxOutError::ExpectedExplicitValue => "ExpectedExplicitValue".into(),
    }
}
pub fn show_unblind_err(e: &UnblindError) -> &'static str {
    match e {
        UnblindError::NotConfidential => "NotConfidential", UnblindError::MissingNonce => "MissingNonce", UnblindError::MissingRangeproof => "MissingRangeproof",
        UnblindError::RangeProofMessage(_) => "RangeProofMessage", UnblindError::Rewind(_) => "Rewind", _ => "other",
    }
}
pub fn show_secrets(s: &TxOutSecrets) -> String { format!("{}:{}:{}:{}", tag_hex(&s.asset), s.value, abf_hex(&s.asset_bf), vbf_hex(&s.value_bf)) }
pub type Blinds = BTreeMap<CtLocation, (AssetBlindingFactor, ValueBlindingFactor, SecretKey)>;
pub fn show_blinds(b: &Blinds) -> String {
    if b.is_empty() { return "-".into(); }
    b.iter().map(|(l, (a, v, k))| {
        let ty = match l.ty { CtLocationType::Input => "", CtLocationType::Issuance => "I", CtLocationType::Reissuance => "R" };
        format!("{}{}:{}:{}:{}", l.input_index, ty, abf_hex(a), vbf_hex(v), hex(&k.secret_bytes()))
    }).collect::<Vec<_>>().join(",")
}
/// the scalars `blind` drew, in program order: (abf, vbf, esk) per non-last marked output, (abf, esk) for the last one
pub fn rnd_of_blinds(b: &Blinds) -> Vec<String> {
    let n = b.len();
    let mut v = vec![];
    for (k, (_, (a, vb, sk))) in b.iter().enumerate() {
        v.push(abf_hex(a));
        if k + 1 < n { v.push(vbf_hex(vb)); }
        v.push(hex(&sk.secret_bytes()));
    }
    v
}
pub fn is_marked(o: &OutSpec) -> bool { !o.script.is_empty() && matches!(o.nonce, NonceSpec::Key(_)) }

/// `SECP256K1_SURJECTIONPROOF_MAX_N_INPUTS` of libsecp256k1-zkp (include/secp256k1_surjectionproof.h): the largest domain a
/// surjection proof can have. Written down HERE, independently of the crate's own constant: C04 promises success up to this
/// size and `Upstream(CannotProveSurjection)` beyond it.
pub const SURJECTION_DOMAIN_MAX: usize = 256;
/// the size of the surjection domain `Transaction::blind` is given: the spent outputs and one pseudo-input per issuance amount
/// and per inflation-keys amount (the length of the `secrets` vector `build` returns)
pub fn surjection_domain_len(spec: &TxSpec) -> usize {
    spec.ins.iter().map(|s| 1 + s.iss.as_ref().map(|x| x.amount.is_some() as usize + x.keys.is_some() as usize).unwrap_or(0)).sum()
}
/// the hypotheses of C04, evaluated on the spec itself: the surjection domain is within the limit, and all the others
pub fn c04_hypotheses(spec: &TxSpec) -> bool { surjection_domain_len(spec) <= SURJECTION_DOMAIN_MAX && c04_hypotheses_but_domain(spec) }
/// the hypotheses of the refusal clause (C04_domain_limit_blind): every output positive, the marked ones within the rangeproof
/// limit and on address scripts, at least one marked — balance and the spent side do not matter
pub fn c04_refusal_hypotheses(spec: &TxSpec) -> bool {
    spec.outs.iter().all(|o| o.value != 0 && (!is_marked(o) || (o.value <= i64::MAX as u64
        && Address::from_script(&Script::from(o.script.clone()), None, &AddressParams::ELEMENTS).is_some())))
        && spec.outs.iter().any(is_marked)
}
/// the hypotheses of C04 other than the size of the surjection domain
pub fn c04_hypotheses_but_domain(spec: &TxSpec) -> bool {
    let mut bal: BTreeMap<AssetId, i128> = BTreeMap::new();
    for (i, s) in spec.ins.iter().enumerate() {
        if s.sec.value == 0 { return false; }
        *bal.entry(s.sec.asset).or_default() += s.sec.value as i128;
        if let Some(x) = &s.iss {
            let (a, t) = own_issuance_ids(i, x);
            if x.amount == Some(0) || x.keys == Some(0) { return false; }
            if let Some(v) = x.amount { *bal.entry(a).or_default() += v as i128; }
            if let Some(v) = x.keys { *bal.entry(t).or_default() += v as i128; }
        }
    }
    for o in &spec.outs {
        if o.value == 0 { return false; }
        *bal.entry(o.asset).or_default() -= o.value as i128;
        if is_marked(o) {
            if o.value > i64::MAX as u64 { return false; }
            if Address::from_script(&Script::from(o.script.clone()), None, &AddressParams::ELEMENTS).is_none() { return false; }
        }
    }
    bal.values().all(|v| *v == 0) && spec.outs.iter().any(is_marked)
}

// ------------------------------------------------------------------------------------------------ eval
#[derive(Clone)]
pub struct Blinded { pub tx: Transaction, pub spent: Vec<TxOut>, pub secrets: Vec<TxOutSecrets>, pub blinds: Blinds }
pub enum BlindRes { Ok(Blinded), Err(BlindError), Panic }
pub fn run_blind(spec: &TxSpec, seed: [u8; 32]) -> BlindRes {
    let (mut tx, spent, secrets) = build(spec);
    let mut rng = ChaCha20Rng::from_seed(seed);
    match catch_unwind(AssertUnwindSafe(|| { let r = tx.blind(&mut rng, secp(), &secrets, false); (r, tx) })) {
        Err(_) => BlindRes::Panic,
        Ok((Err(e), _)) => BlindRes::Err(e),
        Ok((Ok(blinds), tx)) => BlindRes::Ok(Blinded { tx, spent, secrets, blinds }),
    }
}

/// results computed while generating (the generator has to blind anyway to read back the randomness): `eval` of the very same
/// case text returns them instead of blinding a second time; a replayed case is always computed from scratch
pub static MEMO: std::sync::Mutex<Option<std::collections::HashMap<String, (String, Option<String>)>>> = std::sync::Mutex::new(None);
pub fn memo_put(case: &str, o: &Out) { let mut g = MEMO.lock().unwrap(); g.get_or_insert_with(Default::default).insert(case.to_string(), (o.result.clone(), o.pred_fail.clone())); }
pub fn memo_take(case: &str) -> Option<Out> { MEMO.lock().unwrap().as_mut().and_then(|m| m.remove(case)).map(|(result, pred_fail)| Out { result, pred_fail }) }

fn eval_blind(case: &str) -> Out {
    let (spec, seed) = match (parse_spec(case), parse_seed(case)) { (Some(s), Some(d)) => (s, d), _ => return Out::ok("harnesserr parse".into()) };
    let r = run_blind(&spec, seed);
    finish_blind(case, &spec, r)
}
fn finish_blind(case: &str, spec: &TxSpec, r: BlindRes) -> Out {
    let spec = spec.clone();
    let hyp = c04_hypotheses(&spec);
    let nmarked = spec.outs.iter().filter(|o| is_marked(o)).count();
    // the size limit of the surjection domain: beyond it (with a marked output that is reached: positive amounts, address
    // scripts) the call must be refused with Upstream(CannotProveSurjection) and nothing else; AT the limit a transaction that
    // satisfies the other hypotheses must not be refused
    let dom = surjection_domain_len(&spec);
    let refused = matches!(&r, BlindRes::Err(BlindError::ConfidentialTxOutError(ConfidentialTxOutError::Upstream(elements::secp256k1_zkp::Error::CannotProveSurjection))));
    let domain_fail = if dom > SURJECTION_DOMAIN_MAX && c04_refusal_hypotheses(&spec) && !refused {
        let what = match &r { BlindRes::Panic => "panicked".to_string(), BlindRes::Err(e) => format!("returned {:?}", e), BlindRes::Ok(_) => "succeeded".to_string() };
        Some(format!("domain-limit|Transaction::blind {} on a surjection domain of {} entries (more than {}) instead of returning Upstream(CannotProveSurjection)", what, dom, SURJECTION_DOMAIN_MAX))
    } else if dom == SURJECTION_DOMAIN_MAX && hyp && refused {
        Some(format!("domain-limit|Transaction::blind refused a valid balanced explicit transaction whose surjection domain has exactly {} entries (the limit itself is admitted)", dom))
    } else { None };
    let out = finish_blind_inner(case, &spec, hyp, nmarked, r);
    match domain_fail { Some(f) => Out { result: out.result, pred_fail: Some(f) }, None => out }
}
fn finish_blind_inner(case: &str, spec: &TxSpec, hyp: bool, nmarked: usize, r: BlindRes) -> Out {
    match r {
        BlindRes::Panic => {
            let pred_fail = if nmarked == 0 {
                Some("F12-blind-nothing-marked|Transaction::blind panics when no output is marked instead of returning BlindError::TooFewBlindingOutputs (regression of repair 8d5600e)".to_string())
            } else if hyp { Some("blind-panicked|Transaction::blind panicked on a valid balanced explicit transaction".to_string()) } else { None };
            Out { result: "panic".into(), pred_fail }
        }
        BlindRes::Err(e) => {
            let pred_fail = if hyp { Some(format!("blind-failed|Transaction::blind returned {:?} on a valid balanced explicit transaction with a marked output", e)) } else { None };
            Out { result: format!("err {}", show_blind_err(&e)), pred_fail }
        }
        BlindRes::Ok(b) => {
            let rnd = rnd_of_blinds(&b.blinds).join(",");
            if field(case, "rnd").map(|r| r != rnd && !(r == "-" && rnd.is_empty())).unwrap_or(true) {
                return Out::ok("harnesserr the recorded randomness does not match this run".into());
            }
            let verdict = verify_verdict(&b.tx, &b.spent);
            let mut pred_fail = None;
            if hyp && verdict != "ok" { pred_fail = Some(format!("blinded-tx-does-not-verify|verify_tx_amt_proofs returned {} on the blinded transaction", verdict)); }
            let mut unb = vec![];
            for (i, o) in spec.outs.iter().enumerate() {
                if let NonceSpec::Key(sk) = &o.nonce {
                    let txo = &b.tx.output[i];
                    match catch_unwind(AssertUnwindSafe(|| txo.unblind(secp(), *sk))) {
                        Err(_) => { unb.push(format!("{}:panic", i)); }
                        Ok(Err(e)) => {
                            unb.push(format!("{}:err:{}", i, show_unblind_err(&e)));
                            if is_marked(o) && pred_fail.is_none() { pred_fail = Some(format!("unblind-failed|output {} does not unblind with the receiver key: {:?}", i, e)); }
                        }
                        Ok(Ok(s)) => {
                            unb.push(format!("{}:{}", i, show_secrets(&s)));
                            let rep = b.blinds.get(&CtLocation { input_index: i, ty: CtLocationType::Input });
                            let same = rep.map(|(abf, vbf, _)| s.asset == o.asset && s.value == o.value && s.asset_bf == *abf && s.value_bf == *vbf).unwrap_or(false);
                            let reproduces = Asset::new_confidential(secp(), s.asset, s.asset_bf) == txo.asset
                                && Value::new_confidential_from_assetid(secp(), s.value, s.asset, s.value_bf, s.asset_bf) == txo.value;
                            if pred_fail.is_none() && !same { pred_fail = Some(format!("unblind-differs|output {} unblinds to secrets other than the original asset/value and the reported blinding factors", i)); }
                            if pred_fail.is_none() && !reproduces { pred_fail = Some(format!("commitments-not-reproduced|the unblinded secrets of output {} do not reproduce its commitments", i)); }
                        }
                    }
                }
            }
            // every marked output must have been blinded and reported
            for (i, o) in spec.outs.iter().enumerate() {
                let conf = b.tx.output[i].asset.is_confidential() && b.tx.output[i].value.is_confidential();
                if is_marked(o) != conf && pred_fail.is_none() { pred_fail = Some(format!("marked-not-blinded|output {}: marked={} blinded={}", i, is_marked(o), conf)); }
            }
            Out { result: format!("ok blinds={} verify={} unblind={}", show_blinds(&b.blinds), verdict, if unb.is_empty() { "-".to_string() } else { unb.join(",") }), pred_fail }
        }
    }
}

/// `C04 ctor <spec> seed=..`: the same guarantee through the public output constructors instead of Transaction::blind: every marked
/// output but the last through TxOut::new_not_last_confidential (address = script + receiver key), the last marked one through
/// TxOut::new_last_confidential given the secrets of all other outputs. Emitted only for specs that meet the hypotheses of the
/// property, so the model's answer is the constant the theorems predict; the predicate is evaluated on the real result.
fn eval_ctor(case: &str) -> Out {
    let (spec, seed) = match (parse_spec(case), parse_seed(case)) { (Some(s), Some(d)) => (s, d), _ => return Out::ok("harnesserr parse".into()) };
    if !c04_hypotheses(&spec) { return Out::ok("harnesserr hypotheses".into()); }
    let (mut tx, spent, secrets) = build(&spec);
    let mut rng = ChaCha20Rng::from_seed(seed);
    let marked: Vec<usize> = (0..spec.outs.len()).filter(|j| is_marked(&spec.outs[*j])).collect();
    let Some(&last) = marked.last() else { return Out::ok("harnesserr nothing marked".into()) };
    let mut outsec: Vec<Option<TxOutSecrets>> = spec.outs.iter().map(|o| Some(TxOutSecrets::new(o.asset, AssetBlindingFactor::zero(), o.value, ValueBlindingFactor::zero()))).collect();
    let mut reported: std::collections::BTreeMap<usize, (AssetBlindingFactor, ValueBlindingFactor)> = Default::default();
    let r = catch_unwind(AssertUnwindSafe(|| -> Result<(), String> {
        for &j in &marked {
            let o = &spec.outs[j];
            let NonceSpec::Key(sk) = &o.nonce else { unreachable!() };
            let pk = PublicKey::from_secret_key(secp(), sk);
            let spk = Script::from(o.script.clone());
            if j != last {
                let addr = elements::Address::from_script(&spk, Some(pk), &elements::AddressParams::ELEMENTS).ok_or("script has no address")?;
                let (txo, abf, vbf, _) = TxOut::new_not_last_confidential(&mut rng, secp(), o.value, &addr, o.asset, &secrets).map_err(|e| format!("new_not_last_confidential: {}", show_ctxo_err(&e)))?;
                tx.output[j] = txo; outsec[j] = Some(TxOutSecrets::new(o.asset, abf, o.value, vbf)); reported.insert(j, (abf, vbf));
            } else {
                let others: Vec<&TxOutSecrets> = outsec.iter().enumerate().filter(|(k, _)| *k != j).filter_map(|(_, s)| s.as_ref()).collect();
                let (txo, abf, vbf, _) = TxOut::new_last_confidential(&mut rng, secp(), o.value, o.asset, spk, pk, &secrets, &others).map_err(|e| format!("new_last_confidential: {}", show_ctxo_err(&e)))?;
                tx.output[j] = txo; reported.insert(j, (abf, vbf));
            }
        }
        Ok(())
    }));
    let made = match r { Err(_) => "panic".to_string(), Ok(Err(e)) => format!("err {}", e), Ok(Ok(())) => "ok".to_string() };
    let mut pred_fail = if made != "ok" { Some(format!("ctor-failed|the output constructors fail on a valid balanced explicit transaction: {}", made)) } else { None };
    let mut result = made.clone();
    if made == "ok" {
        let verdict = verify_verdict(&tx, &spent);
        if verdict != "ok" { pred_fail = Some(format!("ctor-tx-does-not-verify|verify_tx_amt_proofs returned {} on the transaction assembled from new_not_last_confidential / new_last_confidential outputs", verdict)); }
        let mut unb = "unblinds".to_string();
        for &j in &marked {
            let o = &spec.outs[j];
            let NonceSpec::Key(sk) = &o.nonce else { unreachable!() };
            let txo = &tx.output[j];
            let good = match catch_unwind(AssertUnwindSafe(|| txo.unblind(secp(), *sk))) {
                Ok(Ok(s)) => { let (abf, vbf) = reported[&j]; s.asset == o.asset && s.value == o.value && s.asset_bf == abf && s.value_bf == vbf
                    && Asset::new_confidential(secp(), s.asset, s.asset_bf) == txo.asset && Value::new_confidential_from_assetid(secp(), s.value, s.asset, s.value_bf, s.asset_bf) == txo.value }
                _ => false };
            if !good { unb = format!("unblind-differs:{}", j); if pred_fail.is_none() { pred_fail = Some(format!("ctor-unblind-differs|output {} built by the constructors does not unblind to the original asset/value and the reported blinding factors", j)); } }
        }
        result = format!("ok {} {}", verdict, unb);
    }
    Out { result, pred_fail }
}
pub fn eval(case: &str) -> Out {
    if let Some(o) = memo_take(case) { return o; }
    let kind = case.split(' ').nth(1).unwrap_or("");
    match kind {
        "blind" => eval_blind(case),
        "ctor" => eval_ctor(case),
        _ => Out::ok("harnesserr kind".into()),
    }
}

// ------------------------------------------------------------------------------------------------ generators
pub fn rsk(rng: &mut ChaCha20Rng) -> SecretKey { loop { if let Ok(k) = SecretKey::from_slice(&r32(rng)) { return k; } } }
pub fn rabf(rng: &mut ChaCha20Rng) -> AssetBlindingFactor { loop { if let Ok(k) = AssetBlindingFactor::from_slice(&r32(rng)) { return k; } } }
pub fn rvbf(rng: &mut ChaCha20Rng) -> ValueBlindingFactor { loop { if let Ok(k) = ValueBlindingFactor::from_slice(&r32(rng)) { return k; } } }
pub fn rasset_id(rng: &mut ChaCha20Rng) -> AssetId { AssetId::from_byte_array(r32(rng)) }
pub fn ramount(rng: &mut ChaCha20Rng) -> u64 {
    match rng.gen_range(0..4) { 0 => rng.gen_range(1..1000), 1 => rng.gen_range(1u64 << 20..1u64 << 40), 2 => rng.gen_range(1u64 << 40..1u64 << 50), _ => rng.gen_range(1..100_000_000) }
}
/// a script `Address::from_script` accepts
pub fn raddr_script(rng: &mut ChaCha20Rng) -> Vec<u8> {
    match rng.gen_range(0..5) {
        0 => { let mut s = vec![0x00, 0x14]; s.extend(rbytes(rng, 20)); s }                                  // v0 p2wpkh
        1 => { let mut s = vec![0x00, 0x20]; s.extend(rbytes(rng, 32)); s }                                  // v0 p2wsh
        2 => { let mut s = vec![0x51, 0x20]; s.extend(rbytes(rng, 32)); s }                                  // v1 p2tr
        3 => { let mut s = vec![0x76, 0xa9, 0x14]; s.extend(rbytes(rng, 20)); s.extend([0x88, 0xac]); s }   // p2pkh
        _ => { let mut s = vec![0xa9, 0x14]; s.extend(rbytes(rng, 20)); s.push(0x87); s }                   // p2sh
    }
}
/// split `total` into `parts` positive summands
pub fn split_amount(rng: &mut ChaCha20Rng, total: u64, parts: usize) -> Vec<u64> {
    let parts = parts.min(total as usize).max(1);
    let mut left = total;
    let mut v = vec![];
    for k in 0..parts {
        let remaining = (parts - k - 1) as u64;
        if remaining == 0 { v.push(left); break; }
        let x = rng.gen_range(1..=left - remaining);
        let x = if rng.gen_bool(0.5) { x } else { (x / 2).max(1) };
        v.push(x); left -= x;
    }
    v
}
pub struct Shape { pub nin: usize, pub nassets: usize, pub extra_outs: usize, pub iss: u8, pub fee: bool }
/// an explicit transaction balanced per asset (inputs + explicit issuances = outputs + fee), nothing marked yet; outputs in random order
pub fn gen_balanced(rng: &mut ChaCha20Rng, sh: &Shape, tags: &mut Vec<String>) -> TxSpec {
    let nassets = sh.nassets.min(sh.nin).max(1);
    let assets: Vec<AssetId> = (0..nassets).map(|_| rasset_id(rng)).collect();
    let mut ins = vec![];
    let mut totals: Vec<(AssetId, u64)> = vec![];
    let add = |totals: &mut Vec<(AssetId, u64)>, a: AssetId, v: u64| { if let Some(e) = totals.iter_mut().find(|e| e.0 == a) { e.1 += v } else { totals.push((a, v)) } };
    for i in 0..sh.nin {
        let asset = assets[i % nassets];
        let value = ramount(rng);
        let kind = rng.gen_range(0..8);
        let (ea, ev) = match kind { 0 | 1 => (true, true), 2 => (false, true), 3 => (true, false), _ => (false, false) };
        let abf = if ea { AssetBlindingFactor::zero() } else { rabf(rng) };
        let vbf = if ev { ValueBlindingFactor::zero() } else { rvbf(rng) };
        tags.push(format!("spent-{}{}", if ea { "ea" } else { "ca" }, if ev { "ev" } else { "cv" }));
        let iss = if sh.iss != 0 && (i == 0 || rng.gen_range(0..3) == 0) {
            let reissue = sh.iss == 2 || (sh.iss == 3 && rng.gen_bool(0.5));
            let amount = if rng.gen_range(0..6) == 0 { None } else { Some(ramount(rng)) };
            let keys = if reissue { if amount.is_none() || rng.gen_range(0..4) == 0 { Some(rng.gen_range(1..10)) } else { None } }
                       else if amount.is_none() || rng.gen_bool(0.6) { Some(rng.gen_range(1..10)) } else { None };
            // sh.iss == 4: the full lattice {null, explicit, confidential}^2 minus (null, null) for (amount, inflation keys), new issuance and reissuance
            let (amount, keys, reissue, amount_vbf, keys_vbf) = if sh.iss == 4 {
                // c = 3*a + k, a,k in {0 null,1 explicit,2 confidential}; cycled so that all eight combinations occur in every run
                static NEXT: std::sync::atomic::AtomicUsize = std::sync::atomic::AtomicUsize::new(0);
                let c = 1 + (NEXT.fetch_add(1, std::sync::atomic::Ordering::Relaxed) * 3 + rng.gen_range(0..1usize)) % 8;
                let (ka, kk) = (c / 3, c % 3);
                (if ka == 0 { None } else { Some(ramount(rng)) }, if kk == 0 { None } else { Some(rng.gen_range(1..10)) }, rng.gen_bool(0.4),
                 if ka == 2 { Some(rvbf(rng)) } else { None }, if kk == 2 { Some(rvbf(rng)) } else { None })
            } else { (amount, keys, reissue, None, None) };
            let form = |v: &Option<u64>, b: &Option<ValueBlindingFactor>| match (v, b) { (None, _) => "null", (_, None) => "explicit", _ => "conf" };
            tags.push(format!("iss-{}{}{}", if reissue { "re" } else { "new" }, if amount.is_some() { "-amt" } else { "" }, if keys.is_some() { "-keys" } else { "" }));
            if sh.iss == 4 { tags.push(format!("issform-amount-{}-keys-{}", form(&amount, &amount_vbf), form(&keys, &keys_vbf))); }
            Some(IssSpec { amount, keys, reissue, amount_vbf, keys_vbf })
        } else { None };
        if iss.is_some() {
            let (a, t) = own_issuance_ids(i, iss.as_ref().unwrap());
            if let Some(v) = iss.as_ref().unwrap().amount { add(&mut totals, a, v); }
            if let Some(v) = iss.as_ref().unwrap().keys { add(&mut totals, t, v); }
        }
        add(&mut totals, asset, value);
        ins.push(InSpec { ea, ev, sec: TxOutSecrets::new(asset, abf, value, vbf), iss });
    }
    // outputs: at least one per asset, `extra_outs` more spread over the assets, optionally a fee taken from the first asset
    let mut parts: Vec<usize> = totals.iter().map(|_| 1).collect();
    for _ in 0..sh.extra_outs { let k = rng.gen_range(0..parts.len()); parts[k] += 1; }
    let mut outs = vec![];
    for (k, (a, total)) in totals.iter().enumerate() {
        let mut total = *total;
        if k == 0 && sh.fee && total >= 2 {
            let fee = rng.gen_range(1..=(total / 2).min(5000));
            total -= fee;
            outs.push(OutSpec { asset: *a, value: fee, script: vec![], nonce: NonceSpec::Null });
        }
        for v in split_amount(rng, total, parts[k]) {
            outs.push(OutSpec { asset: *a, value: v, script: raddr_script(rng), nonce: NonceSpec::Null });
        }
    }
    // random order (Fisher-Yates)
    for i in (1..outs.len()).rev() { let j = rng.gen_range(0..=i); outs.swap(i, j); }
    TxSpec { ins, outs }
}
/// mark the outputs selected by `mask` (bit k = k-th non-fee output) with fresh receiver keys; unmarked ones get a null or explicit nonce
pub fn mark(rng: &mut ChaCha20Rng, spec: &TxSpec, mask: u32) -> TxSpec {
    let mut s = spec.clone();
    let mut k = 0;
    for o in s.outs.iter_mut() {
        if o.script.is_empty() { if rng.gen_range(0..4) == 0 { o.nonce = NonceSpec::Key(rsk(rng)); } continue; }   // a fee output with a key stays a fee output
        o.nonce = if mask >> k & 1 == 1 { NonceSpec::Key(rsk(rng)) } else if rng.gen_range(0..5) == 0 { NonceSpec::Explicit } else { NonceSpec::Null };
        k += 1;
    }
    s
}
pub fn shape_tags(spec: &TxSpec, tags: &mut Vec<String>) {
    let nm = spec.outs.iter().filter(|o| is_marked(o)).count();
    let mut assets: Vec<AssetId> = spec.outs.iter().map(|o| o.asset).collect(); assets.sort(); assets.dedup();
    tags.push(format!("nin{}", spec.ins.len())); tags.push(format!("nout{}", spec.outs.len())); tags.push(format!("nassets{}", assets.len())); tags.push(format!("marked{}", nm));
    if let Some(last) = spec.outs.iter().rposition(|o| is_marked(o)) {
        if last + 1 < spec.outs.len() { tags.push("unmarked-after-last".into()); }
        if spec.outs.iter().position(|o| o.script.is_empty()).map(|f| f < last).unwrap_or(false) { tags.push("fee-before-last".into()); }
        if spec.outs.iter().take(last).any(|o| !is_marked(o) && !o.script.is_empty()) { tags.push("unmarked-between".into()); }
    }
    if spec.outs.iter().any(|o| o.script.is_empty()) { tags.push("fee".into()); }
}
/// case text for a spec: blinds once with the real crate to read back the randomness it drew
pub fn blind_case(spec: &TxSpec, seed: [u8; 32]) -> (String, bool) {
    let r = run_blind(spec, seed);
    let (rnd, blinded) = match &r {
        BlindRes::Ok(b) => (rnd_of_blinds(&b.blinds), true),
        // on failure the draws are not observable; the model's outcome then does not depend on their values
        _ => ((0..3 * spec.outs.len() + 2).map(|k| format!("{:064x}", k + 1)).collect(), false),
    };
    let text = format!("{} rnd={} seed={}", fmt_spec(spec), if rnd.is_empty() { "-".to_string() } else { rnd.join(",") }, hex(&seed));
    let case = format!("C04 blind prof=d {}", text);
    let o = finish_blind(&case, spec, r);
    memo_put(&case, &o);
    (text, blinded)
}

pub fn gen(rng: &mut ChaCha20Rng, n: usize, thorough: bool) -> Vec<Case> {
    let mut out = Vec::new();
    let mut push = |out: &mut Vec<Case>, spec: &TxSpec, seed: [u8; 32], mut tags: Vec<String>| {
        shape_tags(spec, &mut tags);
        let (text, blinded) = blind_case(spec, seed);
        out.push(Case { text: format!("C04 blind prof=d {}", text), tags, nontrivial: blinded && spec.outs.iter().any(is_marked) });
    };
    // (1) valid balanced transactions over the shape lattice; per shape several marked subsets (all of them in the thorough tier)
    let mut k = 0;
    while out.len() < n {
        let nin = 1 + k % 4;
        let sh = Shape { nin, nassets: 1 + (k / 4) % 3, extra_outs: (k / 2) % 4, iss: [0, 4, 1, 2, 3, 4][k % 6], fee: k % 5 != 4 };
        let mut tags = vec!["valid".to_string()];
        let base = gen_balanced(rng, &sh, &mut tags);
        let nm = base.outs.iter().filter(|o| !o.script.is_empty()).count() as u32;
        let all: Vec<u32> = (1..(1u32 << nm)).collect();
        let masks: Vec<u32> = if thorough && nm <= 5 { all } else {
            let mut m = vec![(1u32 << nm) - 1, 1 << rng.gen_range(0..nm)];
            for _ in 0..2 { m.push(rng.gen_range(1..(1u32 << nm))); }
            m.sort(); m.dedup(); m
        };
        for mask in masks {
            if out.len() >= n { break; }
            let spec = mark(rng, &base, mask);
            push(&mut out, &spec, r32(rng), tags.clone());
        }
        k += 1;
    }
    // (1b) the same through the public output constructors (new_not_last_confidential / new_last_confidential)
    for k in 0..(if thorough { n / 6 } else { 24 }) {
        let sh = Shape { nin: 1 + k % 3, nassets: 1 + (k / 3) % 2, extra_outs: (k / 2) % 3, iss: [0, 4, 1, 0][k % 4], fee: k % 4 != 3 };
        let mut tags = vec!["valid".to_string(), "via-output-constructors".to_string()];
        let base = gen_balanced(rng, &sh, &mut tags);
        let nm = base.outs.iter().filter(|o| !o.script.is_empty()).count() as u32;
        let mask = if k % 2 == 0 { (1u32 << nm) - 1 } else { rng.gen_range(1..(1u32 << nm)) };
        let spec = mark(rng, &base, mask);
        if !c04_hypotheses(&spec) { continue; }
        shape_tags(&spec, &mut tags);
        out.push(Case { text: format!("C04 ctor {} seed={}", fmt_spec(&spec), hex(&r32(rng))), tags, nontrivial: true });
    }
    // (2) edge and negative stream
    let sh = Shape { nin: 2, nassets: 2, extra_outs: 2, iss: 0, fee: true };
    let reps = if thorough { 4 } else { 1 };
    for _ in 0..reps {
        let mut t = vec![];
        let base = gen_balanced(rng, &sh, &mut t);
        let nm = base.outs.iter().filter(|o| !o.script.is_empty()).count() as u32;
        let full = (1u32 << nm) - 1;
        // nothing marked (finding F12)
        let mut s = mark(rng, &base, 0); for o in s.outs.iter_mut() { if o.script.is_empty() { o.nonce = NonceSpec::Null; } }
        push(&mut out, &s, r32(rng), vec!["edge-none-marked".into()]);
        // a marked output on a script that is no address
        let mut s = mark(rng, &base, full); let j = s.outs.iter().position(is_marked).unwrap(); s.outs[j].script = vec![0x6a, 0x01, 0x02];
        push(&mut out, &s, r32(rng), vec!["edge-opreturn-marked".into()]);
        let mut s = mark(rng, &base, full); let j = s.outs.iter().rposition(is_marked).unwrap(); s.outs[j].script = vec![0x51, 0x52, 0x93];
        push(&mut out, &s, r32(rng), vec!["edge-nonaddress-last".into()]);
        // zero value on a marked output (first / last), on an unmarked output, on the fee
        for which in 0..4 {
            let mut s = mark(rng, &base, full);
            let j = match which { 0 => s.outs.iter().position(is_marked).unwrap(), 1 => s.outs.iter().rposition(is_marked).unwrap(),
                                  2 => { let j = s.outs.iter().position(is_marked).unwrap(); s.outs[j].nonce = NonceSpec::Null; j }
                                  _ => s.outs.iter().position(|o| o.script.is_empty()).unwrap() };
            let v = s.outs[j].value; s.outs[j].value = 0;
            // keep the transaction balanced: move the amount to another output of the same asset if there is one
            let a = s.outs[j].asset;
            if let Some(o) = s.outs.iter_mut().enumerate().find(|(i, o)| *i != j && o.asset == a).map(|x| x.1) { o.value += v; }
            push(&mut out, &s, r32(rng), vec![format!("edge-zero-value-{}", ["first-marked", "last-marked", "unmarked", "fee"][which])]);
        }
        // unbalanced: one output amount changed
        let mut s = mark(rng, &base, full); let j = rng.gen_range(0..s.outs.len()); s.outs[j].value += 1 + rng.gen_range(0..1000);
        push(&mut out, &s, r32(rng), vec!["edge-unbalanced".into()]);
        // a marked output of an asset no input carries
        let mut s = mark(rng, &base, full); let j = s.outs.iter().position(is_marked).unwrap(); s.outs[j].asset = rasset_id(rng);
        push(&mut out, &s, r32(rng), vec!["edge-foreign-asset".into()]);
        // amounts at the rangeproof limit: i64::MAX is provable, i64::MAX + 1 is not
        for big in [i64::MAX as u64, i64::MAX as u64 + 1] {
            let a = rasset_id(rng);
            let s = TxSpec { ins: vec![InSpec { ea: true, ev: true, sec: TxOutSecrets::new(a, AssetBlindingFactor::zero(), big.wrapping_add(7), ValueBlindingFactor::zero()), iss: None }],
                             outs: vec![OutSpec { asset: a, value: big, script: raddr_script(rng), nonce: NonceSpec::Key(rsk(rng)) },
                                        OutSpec { asset: a, value: 7, script: vec![], nonce: NonceSpec::Null }] };
            push(&mut out, &s, r32(rng), vec![format!("edge-amount-{}", if big == i64::MAX as u64 { "i64max" } else { "i64max+1" })]);
        }
        // the surjection domain at its size limit: 255 and 256 spent outputs are provable (libsecp256k1-zkp admits 256 inputs), 257 are refused
        for nin in [255usize, 256, 257] {
            let mut t3 = vec![];
            let b3 = gen_balanced(rng, &Shape { nin, nassets: 2, extra_outs: 1, iss: 0, fee: true }, &mut t3);
            let nm3 = b3.outs.iter().filter(|o| !o.script.is_empty()).count() as u32;
            let s = mark(rng, &b3, (1u32 << nm3) - 1);
            push(&mut out, &s, r32(rng), vec![format!("edge-surjection-domain-{}", nin)]);
        }
        // explicit issuance of amount zero: verification asserts inside PedersenCommitment::new_unblinded
        let mut t2 = vec![];
        let b2 = gen_balanced(rng, &Shape { nin: 1, nassets: 1, extra_outs: 1, iss: 1, fee: true }, &mut t2);
        let mut s = mark(rng, &b2, 1);
        if let Some(x) = s.ins[0].iss.as_mut() {
            let (a, _) = own_issuance_ids(0, x);
            if x.amount.is_some() { x.amount = Some(0); s.outs.retain(|o| o.asset != a); }
        }
        if s.outs.iter().any(is_marked) { push(&mut out, &s, r32(rng), vec!["edge-issuance-zero".into()]); }
    }
    out
}
