//! C18: fast_merkle_root vs the definitional tree.
use crate::{util::*, Case, Out};
use elements::hashes::{sha256, HashEngine};
use rand::Rng;
use rand_chacha::ChaCha20Rng;

/// the property's definition, evaluated directly on the implementation's compression function
pub fn definitional(leaves: &[[u8; 32]]) -> [u8; 32] {
    if leaves.is_empty() { return [0u8; 32]; }
    let mut level: Vec<[u8; 32]> = leaves.to_vec();
    while level.len() > 1 {
        let mut next = Vec::with_capacity((level.len() + 1) / 2);
        for pair in level.chunks(2) {
            if pair.len() == 2 {
                let mut e = sha256::Hash::engine();
                e.input(&pair[0]);
                e.input(&pair[1]);
                next.push(e.midstate().expect("64 bytes").to_parts().0);
            } else {
                next.push(pair[0]);
            }
        }
        level = next;
    }
    level[0]
}

pub fn eval(case: &str) -> Out {
    let w: Vec<&str> = case.split(' ').collect();
    if w.len() == 4 && w[1] == "rep" {
        let (Some(n), Some(t)) = (w[2].parse::<usize>().ok(), unhex(w[3])) else { return Out::ok("harnesserr rep".into()) };
        if t.len() != 28 { return Out::ok("harnesserr tail".into()); }
        let leaves: Vec<[u8; 32]> = (0..n).map(|i| { let mut l = [0u8; 32]; l[..4].copy_from_slice(&(i as u32).to_le_bytes()); l[4..].copy_from_slice(&t); l }).collect();
        return match std::panic::catch_unwind(|| elements::fast_merkle_root(&leaves).to_parts().0) {
            Ok(root) => Out { result: hex(&root), pred_fail: if root != definitional(&leaves) { Some("root-not-definitional|fast_merkle_root differs from the definitional tree evaluated with the same compression".to_string()) } else { None } },
            Err(_) => Out { result: "panic".into(), pred_fail: Some(format!("root-panics|fast_merkle_root panics on {} leaves", n)) },
        };
    }
    let mut it = case.split(' ');
    it.next();
    let leaves: Vec<[u8; 32]> = match it.next().and_then(unhexlist) {
        Some(v) => match v.into_iter().map(|x| <[u8; 32]>::try_from(&x[..]).ok()).collect::<Option<Vec<_>>>() {
            Some(v) => v,
            None => return Out::ok("harnesserr leaf length".into()),
        },
        None => return Out::ok("harnesserr hex".into()),
    };
    let root = elements::fast_merkle_root(&leaves).to_parts().0;
    let pred_fail = if root != definitional(&leaves) { Some("root-not-definitional|fast_merkle_root differs from the definitional tree evaluated with the same compression".to_string()) } else { None };
    Out { result: hex(&root), pred_fail }
}

pub fn gen(rng: &mut ChaCha20Rng, n: usize, thorough: bool) -> Vec<Case> {
    // every count 0..=n (quick n is a few hundred, thorough a few thousand), then a few sampled larger counts
    let mut out = Vec::new();
    let mk = |rng: &mut ChaCha20Rng, count: usize, style: u32| -> Case {
        let leaves: Vec<[u8; 32]> = (0..count).map(|i| match style {
            0 => r32(rng),
            1 => { let mut l = [0u8; 32]; l[0] = (i & 0xff) as u8; l[1] = (i >> 8) as u8; l }   // near-equal leaves
            _ => [0xabu8; 32],                                                               // all identical
        }).collect();
        Case { text: format!("C18 {}", hexlist(&leaves)), tags: vec![format!("count{}", bucket(count)), format!("style{}", style)], nontrivial: count >= 2 }
    };
    for count in 0..=n { let style = if count % 7 == 3 { 1 } else if count % 11 == 5 { 2 } else { 0 }; out.push(mk(rng, count, style)); }
    // large counts around the next powers of two, in the compact form (leaf i = LE32(i) || 28 fixed bytes)
    let big: &[usize] = if thorough { &[4095, 4096, 4097, 65535, 65536, 65537, 131071, 131072, 131073, 200001] } else { &[4096, 65535, 65536, 65537] };
    for &c in big {
        out.push(Case { text: format!("C18 rep {} {}", c, hex(&rbytes(rng, 28))), tags: vec![format!("count{}", bucket(c)), "style-rep".to_string(), format!("big{}", c)], nontrivial: true });
    }
    let extra = if thorough { 12 } else { 4 };
    for _ in 0..extra {
        let count = rng.gen_range(n + 1..n * 4 + 2);
        out.push(mk(rng, count, 0));
    }
    out
}
fn bucket(c: usize) -> &'static str {
    match c { 0 => "0", 1 => "1", 2..=3 => "2-3", 4..=15 => "4-15", 16..=255 => "16-255", 256..=4095 => "256-4095", _ => "4096+" }
}
