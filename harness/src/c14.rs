//! C14: merging PSETs — runs `PartiallySignedTransaction::merge` of the real crate on PSETs rebuilt from model-level listings,
//! prints the canonical result (class + listing of the merged PSET) and evaluates the property's predicate directly:
//! information present in an operand must be present in the result, merge must not panic, PSETs with different unique ids
//! must be refused, the unique id must be kept, compatible descendants must merge to the same PSET in every order and
//! grouping, and global xpub key sources must be reconciled as documented.
use crate::psetl::*;
use crate::{util::*, Case, Out};
use elements::pset::{Error, PartiallySignedTransaction as Pset};
use rand::Rng;
use rand_chacha::ChaCha20Rng;
use std::panic::{catch_unwind, AssertUnwindSafe};

#[derive(Clone, Debug, PartialEq)]
enum Res { Ok(PsetL), Err(String), Panic }

pub fn err_class(e: &Error) -> String {
    match e {
        Error::UniqueIdMismatch { .. } => "unique_id_mismatch".into(),
        Error::MergeConflict(_) => "merge_conflict".into(),
        Error::LocktimeConflict => "locktime_conflict".into(),
        Error::InputCountMismatch => "input_count_mismatch".into(),
        Error::OutputCountMismatch => "output_count_mismatch".into(),
        Error::MissingOutputValue => "missing_output_value".into(),
        Error::MissingOutputAsset => "missing_output_asset".into(),
        other => format!("other:{:?}", other).replace(' ', "_"),
    }
}
fn uid(p: &Pset) -> Result<String, String> {
    match catch_unwind(AssertUnwindSafe(|| p.unique_id())) { Ok(Ok(t)) => Ok(t.to_string()), Ok(Err(e)) => Err(err_class(&e)), Err(_) => Err("panic".into()) }
}
fn do_merge(a: &Pset, b: &Pset) -> (Res, Option<Pset>) {
    let mut a = a.clone();
    let b = b.clone();
    let r = catch_unwind(AssertUnwindSafe(move || { let r = a.merge(b); (r, a) }));
    match r {
        Ok((Ok(()), m)) => (Res::Ok(to_model(&m)), Some(m)),
        Ok((Err(e), _)) => (Res::Err(err_class(&e)), None),
        Err(_) => (Res::Panic, None),
    }
}
fn show_res(r: &Res) -> String { match r { Res::Ok(l) => format!("ok {}", show(l)), Res::Err(c) => format!("err {}", c), Res::Panic => "panic".into() } }

// ---------------------------------------------------------------------------------------------- the documented xpub rule
fn path_of(ks: &[u8]) -> Vec<&[u8]> { ks.get(4..).unwrap_or(&[]).chunks(4).collect() }
#[derive(PartialEq, Debug, Clone, Copy)]
enum X { Keep, Take, Conflict }
/// comment in Global::merge: equal -> nothing; error if same path and different fingerprint, same length and different paths,
/// or different lengths and the shorter is not a suffix of the longer; otherwise the longest derivation is chosen
fn xpub_doc(other: &[u8], slf: &[u8]) -> X {
    let (d1, d2) = (path_of(other), path_of(slf));
    if other == slf { return X::Keep; }
    if d1.len() == d2.len() { return X::Conflict; }
    if d1.len() < d2.len() { if d2[d2.len() - d1.len()..] == d1[..] { X::Keep } else { X::Conflict } }
    else if d1[d1.len() - d2.len()..] == d2[..] { X::Take } else { X::Conflict }
}

// ---------------------------------------------------------------------------------------------- predicate
fn known_keys() -> Vec<String> {
    // only used to ORDER the failing clauses of one case (unknown classes first, so that a known finding can never mask a new one);
    // whether a key is tolerated is decided by ./check from the same file
    let p = concat!(env!("CARGO_MANIFEST_DIR"), "/../known_findings.txt");
    std::fs::read_to_string(p).unwrap_or_default().lines().filter_map(|l| {
        let l = l.trim();
        if !l.starts_with("finding:") || !l.contains("property=C14") { return None; }
        l.split_whitespace().find_map(|w| w.strip_prefix("key=")).map(|s| s.to_string())
    }).collect()
}
fn first_fail(mut fails: Vec<(String, String)>) -> Option<String> {
    if fails.is_empty() { return None; }
    let known = known_keys();
    fails.sort_by_key(|(k, _)| known.contains(k));
    let (k, w) = &fails[0];
    Some(format!("{}|{}", k, w))
}
fn maps_of(l: &PsetL) -> Vec<(String, usize, &MapL)> {
    let mut v = vec![("global".to_string(), 0usize, &l.g)];
    for (i, m) in l.ins.iter().enumerate() { v.push(("input".into(), i, m)); }
    for (i, m) in l.outs.iter().enumerate() { v.push(("output".into(), i, m)); }
    v
}
/// every (map kind, position, field, key) of `src` must occur in `res`
/// `newly(pos)`: in this merge a witness_utxo can be NEWLY taken from the other operand at input `pos` (self has none, other has one) — the only
/// situation covered by the recorded finding F3-witness-utxo-clears-non-witness-utxo; any other loss of a non_witness_utxo gets its own key
fn drops(src: &PsetL, res: &PsetL, newly: &dyn Fn(usize) -> bool, fails: &mut Vec<(String, String)>, dropped: &mut Vec<String>) {
    let rm = maps_of(res);
    for (kind, pos, m) in maps_of(src) {
        let r = rm.iter().find(|(k, p, _)| *k == kind && *p == pos).map(|x| x.2);
        for e in m {
            let present = r.map(|r| r.iter().any(|x| x.name == e.name && x.key == e.key)).unwrap_or(false);
            if !present {
                let short = e.name.rsplit('.').next().unwrap();
                let key = if kind == "input" && e.name == "non_witness_utxo" && newly(pos) { "F3-witness-utxo-clears-non-witness-utxo".to_string() } else { format!("F3-{}-{}-dropped", kind, short) };
                fails.push((key, format!("{} {} field {}{} of an operand is missing from the merge result", kind, pos, e.name, e.key.as_ref().map(|k| format!("@{}", hex(k))).unwrap_or_default())));
                dropped.push(format!("{}:{}", kind, e.name));
            }
        }
    }
}
fn has_wu(l: &PsetL, pos: usize) -> bool { l.ins.get(pos).map(|m| get(m, "witness_utxo").is_some()).unwrap_or(false) }
/// the two listings carry the same values in every field that is NOT uid-neutral according to C08 (they describe the same transaction,
/// field by field) — decided without calling unique_id()
fn same_transaction(x: &PsetL, y: &PsetL) -> bool {
    if x.ins.len() != y.ins.len() || x.outs.len() != y.outs.len() { return false; }
    let rel = |map: &str, m: &MapL| -> Vec<Entry> { let mut v: Vec<Entry> = m.iter().filter(|e| !crate::c08::uid_neutral(map, &e.name) && e.name != "tx_data.input_count" && e.name != "tx_data.output_count").cloned().collect(); v.sort(); v };
    rel("G", &x.g) == rel("G", &y.g) && x.ins.iter().zip(y.ins.iter()).all(|(a, b)| rel("I", a) == rel("I", b)) && x.outs.iter().zip(y.outs.iter()).all(|(a, b)| rel("O", a) == rel("O", b))
}
fn differing_fields(x: &PsetL, y: &PsetL) -> Vec<String> {
    // exact comparison field by field (entry lists incl. order and multiplicity: a Vec field with a duplicate differs from one without)
    let mut d = vec![];
    let (mx, my) = (maps_of(x), maps_of(y));
    let empty: MapL = vec![];
    let mut keys: Vec<(String, usize)> = mx.iter().chain(my.iter()).map(|(k, p, _)| (k.clone(), *p)).collect();
    keys.sort(); keys.dedup();
    for (kind, pos) in keys {
        let m = mx.iter().find(|(k, p, _)| *k == kind && *p == pos).map(|t| t.2).unwrap_or(&empty);
        let o = my.iter().find(|(k, p, _)| *k == kind && *p == pos).map(|t| t.2).unwrap_or(&empty);
        let mut names: Vec<&String> = m.iter().chain(o.iter()).map(|e| &e.name).collect();
        names.sort(); names.dedup();
        for n in names {
            let a: Vec<&Entry> = m.iter().filter(|e| &e.name == n).collect();
            let b: Vec<&Entry> = o.iter().filter(|e| &e.name == n).collect();
            if a != b { d.push(format!("{}:{}", kind, n)); }
        }
    }
    d.sort(); d.dedup();
    d
}
/// no (field, key) may occur twice in a map of the result (a Vec<Tweak> with a repeated scalar serialises to a duplicate key)
fn duplicates(res: &PsetL, fails: &mut Vec<(String, String)>) {
    for (kind, pos, m) in maps_of(res) {
        for (i, e) in m.iter().enumerate() {
            if m[..i].iter().any(|x| x.name == e.name && x.key == e.key) {
                fails.push((format!("duplicate-{}-{}", kind, e.name.rsplit('.').next().unwrap()), format!("{} {} field {} holds the same key twice in the merge result", kind, pos, e.name)));
            }
        }
    }
}
fn decodable(p: &Pset) -> bool {
    let b = elements::encode::serialize(p);
    matches!(catch_unwind(AssertUnwindSafe(|| elements::encode::deserialize::<Pset>(&b))), Ok(Ok(_)))
}
/// disjoint-or-identical: no (map, position, field, key) carries different values in the two listings, and the shapes agree
fn compatible(x: &PsetL, y: &PsetL) -> bool {
    if x.ins.len() != y.ins.len() || x.outs.len() != y.outs.len() { return false; }
    let my = maps_of(y);
    for (kind, pos, m) in maps_of(x) {
        let o = my.iter().find(|(k, p, _)| *k == kind && *p == pos).map(|t| t.2).unwrap();
        for e in m { if o.iter().any(|f| f.name == e.name && f.key == e.key && f.val != e.val) { return false; } }
    }
    true
}
fn xpub_checks(a: &PsetL, b: &PsetL, r: &Res, fails: &mut Vec<(String, String)>) {
    // a = self, b = other
    let mut doc_conflict = false;
    for eb in b.g.iter().filter(|e| e.name == "xpub") {
        if let Some(ea) = a.g.iter().find(|e| e.name == "xpub" && e.key == eb.key) {
            let (d1, d2) = (path_of(&eb.val), path_of(&ea.val));
            let doc = xpub_doc(&eb.val, &ea.val);
            if doc == X::Conflict { doc_conflict = true; }
            match r {
                Res::Panic => {
                    if d1.len() < d2.len() && d2[d2.len() - d1.len()..] != d1[..] {
                        fails.push(("F2-xpub-underflow".into(), "merge panics: self's derivation path is longer and other's is a shorter non-suffix (usize underflow in Global::merge)".into()));
                    }
                }
                Res::Ok(c) => {
                    let got = c.g.iter().find(|e| e.name == "xpub" && e.key == eb.key).map(|e| e.val.clone());
                    match doc {
                        X::Conflict => {
                            if d1 == d2 { fails.push(("F4-xpub-fingerprint-replaced".into(), "same xpub, equal derivation path, different fingerprint: documented as a merge conflict, but the source is silently replaced".into())); }
                            else { fails.push(("xpub-conflict-not-reported".into(), "inconsistent key sources for a global xpub were merged without a conflict".into())); }
                        }
                        X::Keep => if got.as_ref() != Some(&ea.val) { fails.push(("xpub-wrong-source".into(), "documented: keep self's key source".into())); },
                        X::Take => if got.as_ref() != Some(&eb.val) { fails.push(("xpub-wrong-source".into(), "documented: take the longer key source of other".into())); },
                    }
                }
                Res::Err(_) => {}
            }
        }
    }
    if let Res::Err(c) = r { if c == "merge_conflict" && !doc_conflict { fails.push(("xpub-spurious-conflict".into(), "merge conflict reported although every shared xpub reconciles as documented".into())); } }
    if *r == Res::Panic && fails.is_empty() { fails.push(("merge-panics".into(), "merge panicked".into())); }
}
fn lt_fields_differ(a: &PsetL, b: &PsetL) -> bool {
    a.ins.iter().zip(b.ins.iter()).any(|(x, y)| ["required_time_locktime", "required_height_locktime"].iter().any(|f| get(x, f) != get(y, f)))
}

fn eval_merge(al: &PsetL, bl: &PsetL) -> Out {
    let (a, b) = match (from_model(al), from_model(bl)) { (Ok(a), Ok(b)) => (a, b), (Err(e), _) | (_, Err(e)) => return Out::ok(format!("harnesserr {}", e)) };
    let (al, bl) = (to_model(&a), to_model(&b));
    let (ua, ub) = (uid(&a), uid(&b));
    let (r, merged) = do_merge(&a, &b);
    let mut fails: Vec<(String, String)> = vec![];
    xpub_checks(&al, &bl, &r, &mut fails);
    if let (Ok(x), Ok(y)) = (&ua, &ub) {
        if x != y && matches!(r, Res::Ok(_)) { fails.push(("gate-open".into(), "PSETs with different unique ids were merged".into())); }
    }
    // two PSETs that carry the same values in every transaction-identifying field (C08's list) and do not contradict each other describe
    // the same transaction: the merge must not be refused — decided from the fields, not from unique_id()
    if same_transaction(&al, &bl) && compatible(&al, &bl) && (ua.is_ok() || ub.is_ok()) && !matches!(r, Res::Ok(_)) {
        fails.push(("same-transaction-refused".into(), format!("the operands agree on every transaction-identifying field and differ only by compatible additions, but merge returns {}", show_res(&r))));
    }
    // "nothing is lost" is the property's clause for two PSETs that DESCRIBE THE SAME TRANSACTION (equal unique ids, or — where neither has one — the same
    // values in every transaction-identifying field). Operands without a unique id and of different shapes are merged map by map over the shorter side by
    // the code (two equal Err values pass the gate); the property says nothing about what such a merge keeps, only C10's clause applies: it must not panic.
    let describes_same = same_transaction(&al, &bl) || matches!((&ua, &ub), (Ok(x), Ok(y)) if x == y);
    if let (Res::Ok(c), Some(m), true) = (&r, &merged, describes_same) {
        let mut dropped = vec![];
        let newly_ab = |pos: usize| !has_wu(&al, pos) && has_wu(&bl, pos);
        drops(&al, c, &newly_ab, &mut fails, &mut dropped);
        drops(&bl, c, &newly_ab, &mut fails, &mut dropped);
        duplicates(c, &mut fails);
        {   // Global::merge: modifiable flags are OR-ed (absent = 0), the PSET version is the maximum
            let flag = |l: &PsetL| get(&l.g, "tx_data.tx_modifiable").and_then(|e| e.val.first().copied()).unwrap_or(0);
            if flag(c) != (flag(&al) | flag(&bl)) { fails.push(("flags-not-or".into(), "tx_modifiable of the result is not the OR of the operands' flags".into())); }
            let ver = |l: &PsetL| get(&l.g, "version").map(|e| u32::from_le_bytes(e.val.clone().try_into().unwrap_or([0; 4]))).unwrap_or(0);
            if ver(c) != ver(&al).max(ver(&bl)) { fails.push(("version-not-max".into(), "PSET version of the result is not the maximum of the operands' versions".into())); }
        }
        if decodable(&a) && decodable(&b) && !decodable(m) { fails.push(("merge-result-not-decodable".into(), "both operands serialise and decode, the merge result does not".into())); }
        if let Ok(x) = &ua {
            if uid(m).as_ref() != Ok(x) {
                if lt_fields_differ(&al, &bl) { fails.push(("C14-locktime-max-changes-unique-id".into(), "operands with equal unique ids differ in a required lock time; taking the maximum changes the computed lock time, the merged PSET has another unique id".into())); }
                else { fails.push(("merge-changes-unique-id".into(), "unique id of the merge result differs from the operands'".into())); }
            }
        }
        if ua.is_ok() && ua == ub && compatible(&al, &bl) {
            let (r2, _) = do_merge(&b, &a);
            match &r2 {
                Res::Ok(c2) => {
                    let d: Vec<String> = differing_fields(c, c2).into_iter().filter(|f| !dropped.contains(f)).collect();
                    let mut d2 = vec![]; let mut dr2 = vec![];
                    let newly_ba = |pos: usize| !has_wu(&bl, pos) && has_wu(&al, pos);
                    drops(&al, c2, &newly_ba, &mut d2, &mut dr2); drops(&bl, c2, &newly_ba, &mut d2, &mut dr2); duplicates(c2, &mut d2);
                    let d: Vec<String> = d.into_iter().filter(|f| !dr2.contains(f)).collect();
                    fails.extend(d2);
                    if !d.is_empty() { fails.push(("order-dependent".into(), format!("merge(a,b) and merge(b,a) of compatible descendants differ in {}", d.join(",")))); }
                }
                other => fails.push(("order-dependent".into(), format!("merge(a,b) succeeds but merge(b,a) gives {}", show_res(other)))),
            }
        }
    }
    Out { result: show_res(&r), pred_fail: first_fail(fails) }
}

// ---------------------------------------------------------------------------------------------- families: every order and grouping
#[derive(Clone)]
enum Tree { Leaf(usize), Node(Box<Tree>, Box<Tree>) }
fn shapes(ixs: &[usize]) -> Vec<Tree> {
    if ixs.len() == 1 { return vec![Tree::Leaf(ixs[0])]; }
    let mut out = vec![];
    for k in 1..ixs.len() {
        for l in shapes(&ixs[..k]) { for r in shapes(&ixs[k..]) { out.push(Tree::Node(Box::new(l.clone()), Box::new(r))); } }
    }
    out
}
fn perms(n: usize) -> Vec<Vec<usize>> {
    if n == 0 { return vec![vec![]]; }
    let mut out = vec![];
    for p in perms(n - 1) { for pos in 0..=p.len() { let mut q = p.clone(); q.insert(pos, n - 1); out.push(q); } }
    out.sort();
    out
}
fn eval_tree(t: &Tree, ps: &[Pset]) -> Result<Pset, Res> {
    match t {
        Tree::Leaf(i) => Ok(ps[*i].clone()),
        Tree::Node(l, r) => {
            let a = eval_tree(l, ps)?; let b = eval_tree(r, ps)?;
            match do_merge(&a, &b) { (Res::Ok(_), Some(m)) => Ok(m), (other, _) => Err(other) }
        }
    }
}
fn eval_family(ls: &[PsetL]) -> Out {
    let mut ps = vec![];
    for l in ls { match from_model(l) { Ok(p) => ps.push(p), Err(e) => return Out::ok(format!("harnesserr {}", e)) } }
    let ls: Vec<PsetL> = ps.iter().map(to_model).collect();
    let uids: Vec<_> = ps.iter().map(uid).collect();
    let pairwise = |f: &dyn Fn(&PsetL, &PsetL) -> bool| (0..ls.len()).all(|i| (0..ls.len()).all(|j| f(&ls[i], &ls[j])));
    // the family is in the property's domain when its members describe the same transaction field by field (or at least have equal ids) and are compatible
    let in_domain = pairwise(&compatible) && ((uids.iter().any(|u| u.is_ok()) && pairwise(&same_transaction)) || uids.iter().all(|u| u.is_ok() && *u == uids[0]));
    let mut results: Vec<Res> = vec![];
    for p in perms(ps.len()) { for t in shapes(&p) { results.push(match eval_tree(&t, &ps) { Ok(m) => Res::Ok(to_model(&m)), Err(r) => r }); } }
    // the reported result is the left fold ((p0 + p1) + p2) + p3
    let mut lf = Tree::Leaf(0);
    for i in 1..ps.len() { lf = Tree::Node(Box::new(lf), Box::new(Tree::Leaf(i))); }
    let first = match eval_tree(&lf, &ps) { Ok(m) => Res::Ok(to_model(&m)), Err(r) => r };
    let alleq = results.iter().all(|r| *r == first);
    let mut fails: Vec<(String, String)> = vec![];
    if in_domain {
        let mut dropped = vec![];
        for r in &results {
            match r {
                Res::Ok(c) => { let newly = |pos: usize| ls.iter().any(|l| !has_wu(l, pos)) && ls.iter().any(|l| has_wu(l, pos));
                                for l in &ls { drops(l, c, &newly, &mut fails, &mut dropped); } duplicates(c, &mut fails); }
                Res::Panic => fails.push(("merge-panics".into(), "a merge order of a compatible family panicked".into())),
                Res::Err(c) => {
                    let key = if c == "unique_id_mismatch" && (0..ls.len()).any(|i| lt_fields_differ(&ls[0], &ls[i])) { "C14-locktime-max-changes-unique-id" }
                              else if pairwise(&same_transaction) { "same-transaction-refused" } else { "order-dependent-refusal" };
                    fails.push((key.into(), format!("some merge order of a compatible family with equal unique ids fails with {}", c)));
                }
            }
        }
        fails.sort(); fails.dedup();
        for r in &results {
            if let (Res::Ok(x), Res::Ok(y)) = (&first, r) {
                let d: Vec<String> = differing_fields(x, y).into_iter().filter(|f| !dropped.contains(f)).collect();
                if !d.is_empty() { fails.push(("order-dependent".into(), format!("two merge orders of a compatible family differ in {}", d.join(",")))); break; }
            }
        }
    }
    Out { result: format!("{} alleq={}", show_res(&first), alleq as u8), pred_fail: first_fail(fails) }
}

fn eval_xpub(xpub: &[u8], ks_self: &[u8], ks_other: &[u8]) -> Out {
    // two minimal PSETs that differ only in the key source of one global xpub
    let mut rng = <ChaCha20Rng as rand::SeedableRng>::from_seed([7u8; 32]);
    let base = to_model(&base_pset(&mut rng, 1, 1));
    let (mut a, mut b) = (base.clone(), base);
    put(&mut a.g, Entry { name: "xpub".into(), key: Some(xpub.to_vec()), val: ks_self.to_vec() });
    put(&mut b.g, Entry { name: "xpub".into(), key: Some(xpub.to_vec()), val: ks_other.to_vec() });
    let (pa, pb) = match (from_model(&a), from_model(&b)) { (Ok(a), Ok(b)) => (a, b), (Err(e), _) | (_, Err(e)) => return Out::ok(format!("harnesserr {}", e)) };
    let (r, _) = do_merge(&pa, &pb);
    let mut fails = vec![];
    xpub_checks(&a, &b, &r, &mut fails);
    let res = match &r {
        Res::Panic => "panic".to_string(),
        Res::Err(c) => if c == "merge_conflict" { "conflict".into() } else { format!("err {}", c) },
        Res::Ok(c) => { let got = c.g.iter().find(|e| e.name == "xpub").map(|e| e.val.clone()).unwrap_or_default(); if got == ks_self { "keep".into() } else if got == ks_other { "take".into() } else { "other".into() } }
    };
    Out { result: res, pred_fail: first_fail(fails) }
}

pub fn eval(case: &str) -> Out {
    let w: Vec<&str> = case.split(' ').collect();
    match w.get(1).copied() {
        Some("merge") if w.len() == 4 => match (parse(w[2]), parse(w[3])) { (Some(a), Some(b)) => eval_merge(&a, &b), _ => Out::ok("harnesserr parse".into()) },
        Some("fam") if w.len() >= 4 && w.len() <= 6 => {
            let ls: Option<Vec<PsetL>> = w[2..].iter().map(|s| parse(s)).collect();
            match ls { Some(ls) => eval_family(&ls), None => Out::ok("harnesserr parse".into()) }
        }
        Some("xpub") if w.len() == 5 => match (unhex(w[2]), unhex(w[3]), unhex(w[4])) { (Some(x), Some(s), Some(o)) => eval_xpub(&x, &s, &o), _ => Out::ok("harnesserr hex".into()) },
        _ => Out::ok("harnesserr kind".into()),
    }
}

// ---------------------------------------------------------------------------------------------- generators
fn map_mut<'a>(l: &'a mut PsetL, map: &str, pos: usize) -> &'a mut MapL { match map { "G" => &mut l.g, "I" => &mut l.ins[pos], _ => &mut l.outs[pos] } }
fn npos(l: &PsetL, map: &str) -> usize { match map { "G" => 1, "I" => l.ins.len(), _ => l.outs.len() } }
fn mk_merge(a: &PsetL, b: &PsetL, tags: Vec<String>) -> Case {
    Case { text: format!("C14 merge {} {}", show(a), show(b)), tags, nontrivial: true }
}
/// fields whose presence changes the extracted transaction (hence normally the unique id)
fn tx_relevant(map: &str, f: &str) -> bool {
    matches!((map, f), ("G", "tx_data.fallback_locktime") | ("I", "required_time_locktime") | ("I", "required_height_locktime")
        | ("I", "issuance_value_amount") | ("I", "issuance_value_comm") | ("I", "issuance_inflation_keys") | ("I", "issuance_inflation_keys_comm")
        | ("I", "issuance_blinding_nonce") | ("I", "issuance_asset_entropy") | ("O", "amount") | ("O", "amount_comm") | ("O", "asset") | ("O", "asset_comm") | ("O", "ecdh_pubkey"))
}
fn random_additions(rng: &mut ChaCha20Rng, pool: &Pool, l: &PsetL, n: usize, neutral_only: bool) -> Vec<(String, usize, Entry)> {
    let mut out: Vec<(String, usize, Entry)> = vec![];
    let mut guard = 0;
    while out.len() < n && guard < 10 * n + 20 {
        guard += 1;
        let (map, f, _) = FIELDS[rng.gen_range(0..FIELDS.len())];
        if neutral_only && tx_relevant(map, f) { continue; }
        if npos(l, map) == 0 { continue; }
        let pos = rng.gen_range(0..npos(l, map));
        let e = sample(rng, pool, map, f);
        if out.iter().any(|(m, p, x)| m == map && *p == pos && x.name == e.name && x.key == e.key) { continue; }
        out.push((map.to_string(), pos, e));
    }
    out
}
fn apply(l: &mut PsetL, adds: &[(String, usize, Entry)]) { for (m, p, e) in adds { put(map_mut(l, m, *p), e.clone()); } }
fn norm(l: &PsetL) -> PsetL { normalise(l).expect("generated listing must rebuild") }

pub fn gen(rng: &mut ChaCha20Rng, n: usize, thorough: bool) -> Vec<Case> {
    let pool = Pool::new(rng);
    let mut out: Vec<Case> = vec![];
    // (1) exhaustive over fields: present only in other / only in self / in both (equal), on a small ancestor
    for &(map, f, kind) in FIELDS {
        for place in ["other", "self", "both"] {
            let base = to_model(&base_pset(rng, 2, 2));
            let pos = if map == "G" { 0 } else { rng.gen_range(0..2) };
            let e = sample(rng, &pool, map, f);
            let (mut a, mut b) = (base.clone(), base.clone());
            if place != "other" { put(map_mut(&mut a, map, pos), e.clone()); }
            if place != "self" { put(map_mut(&mut b, map, pos), e.clone()); }
            out.push(mk_merge(&norm(&a), &norm(&b), vec![format!("field:{}.{}", map, f), format!("place:{}", place), format!("kind:{:?}", kind)]));
        }
    }
    // (1b) the optional fields that are only observable next to their commitment / a constraining input
    for place in ["other", "self", "both"] {
        for f in ["amount", "asset"] {
            let mut base = to_model(&base_pset(rng, 1, 1));
            let comm = if f == "amount" { "amount_comm" } else { "asset_comm" };
            base.outs[0].retain(|e| e.name != f);
            put(&mut base.outs[0], sample(rng, &pool, "O", comm));
            let e = sample(rng, &pool, "O", f);
            let (mut a, mut b) = (base.clone(), base.clone());
            if place != "other" { put(&mut a.outs[0], e.clone()); }
            if place != "self" { put(&mut b.outs[0], e.clone()); }
            out.push(mk_merge(&norm(&a), &norm(&b), vec![format!("field:O.{}+comm", f), format!("place:{}", place)]));
        }
        let mut base = to_model(&base_pset(rng, 1, 1));
        put(&mut base.ins[0], sample(rng, &pool, "I", "required_height_locktime"));
        let e = sample(rng, &pool, "G", "tx_data.fallback_locktime");
        let (mut a, mut b) = (base.clone(), base.clone());
        if place != "other" { put(&mut a.g, e.clone()); }
        if place != "self" { put(&mut b.g, e.clone()); }
        out.push(mk_merge(&norm(&a), &norm(&b), vec!["field:G.fallback+constrained".into(), format!("place:{}", place)]));
        // witness_utxo arriving where a non_witness_utxo is
        let base = to_model(&base_pset(rng, 1, 1));
        let (mut a, mut b) = (base.clone(), base.clone());
        let (nw, w) = (sample(rng, &pool, "I", "non_witness_utxo"), sample(rng, &pool, "I", "witness_utxo"));
        match place { "other" => { put(&mut a.ins[0], nw); put(&mut b.ins[0], w); } "self" => { put(&mut a.ins[0], w); put(&mut b.ins[0], nw); } _ => { put(&mut a.ins[0], nw.clone()); put(&mut a.ins[0], w.clone()); put(&mut b.ins[0], nw); put(&mut b.ins[0], w); } }
        out.push(mk_merge(&norm(&a), &norm(&b), vec!["field:I.utxo-pair".into(), format!("place:{}", place)]));
    }
    // (1c) operands WITHOUT a unique id — an output that has neither amount nor asset (nor commitments): extract_tx fails with the same error on both
    // sides, `self.unique_id() != other.unique_id()` compares two equal Err values and the merge goes on, map by map over the SHORTER side — with operands
    // of different map counts in both directions (seeded C10-r6-4: positional loops indexed by the other operand's length)
    for (ni_a, no_a, ni_b, no_b) in [(1usize, 1usize, 1usize, 1usize), (1, 1, 2, 1), (1, 1, 1, 2), (2, 2, 1, 1), (1, 2, 2, 3), (2, 1, 3, 1)] {
        let strip = |m: &mut crate::psetl::PsetL| { m.outs[0].retain(|e| !["amount", "asset", "amount_comm", "asset_comm"].contains(&e.name.as_str())); };
        let (mut a, mut b) = (to_model(&base_pset(rng, ni_a, no_a)), to_model(&base_pset(rng, ni_b, no_b)));
        strip(&mut a); strip(&mut b);
        put(&mut b.ins[0], sample(rng, &pool, "I", "sighash_type"));
        out.push(mk_merge(&norm(&a), &norm(&b), vec!["no-unique-id:both".into(), format!("maps:{}x{}+{}x{}", ni_a, no_a, ni_b, no_b)]));
    }
    // (2) xpub key-source pair classes (as a direct reconciliation case and inside a full merge)
    let paths = |rng: &mut ChaCha20Rng, class: &str| -> (Vec<u8>, Vec<u8>) {
        // returns (self, other)
        let fp = rbytes(rng, 4);
        let el = |rng: &mut ChaCha20Rng, n: usize| rbytes(rng, 4 * n);
        let cat = |fp: &[u8], p: &[u8]| { let mut v = fp.to_vec(); v.extend(p); v };
        match class {
            "equal" => { let n = rng.gen_range(0..4); let p = el(rng, n); (cat(&fp, &p), cat(&fp, &p)) }
            "self-longer-suffix" => { let n = rng.gen_range(0..3); let s = el(rng, n); let m = rng.gen_range(1..3); let mut l = el(rng, m); l.extend(&s); (cat(&fp, &l), cat(&rbytes(rng, 4), &s)) }
            "other-longer-suffix" => { let n = rng.gen_range(0..3); let s = el(rng, n); let m = rng.gen_range(1..3); let mut l = el(rng, m); l.extend(&s); (cat(&fp, &s), cat(&rbytes(rng, 4), &l)) }
            "unrelated-equal-length" => { let n = rng.gen_range(1..4); (cat(&fp, &el(rng, n)), cat(&fp, &el(rng, n))) }
            "unrelated-self-longer" => { let n = rng.gen_range(1..3); let m = rng.gen_range(1..3); (cat(&fp, &el(rng, n + m)), cat(&fp, &el(rng, n))) }
            "unrelated-other-longer" => { let n = rng.gen_range(1..3); let m = rng.gen_range(1..3); (cat(&fp, &el(rng, n)), cat(&fp, &el(rng, n + m))) }
            _ /* equal-path-different-fingerprint */ => { let n = rng.gen_range(0..4); let p = el(rng, n); let mut fp2 = fp.clone(); fp2[0] ^= 1; (cat(&fp, &p), cat(&fp2, &p)) }
        }
    };
    let classes = ["equal", "self-longer-suffix", "other-longer-suffix", "unrelated-equal-length", "unrelated-self-longer", "unrelated-other-longer", "equal-path-different-fingerprint"];
    let reps = if thorough { 12 } else { 3 };
    for class in classes {
        for k in 0..reps {
            let (s, o) = paths(rng, class);
            let x = pool.xpubs[k % pool.xpubs.len()].clone();
            out.push(Case { text: format!("C14 xpub {} {} {}", hex(&x), hex(&s), hex(&o)), tags: vec![format!("xpub:{}", class)], nontrivial: true });
            let base = to_model(&base_pset(rng, 1, 2));
            let (mut a, mut b) = (base.clone(), base.clone());
            put(&mut a.g, Entry { name: "xpub".into(), key: Some(x.clone()), val: s });
            put(&mut b.g, Entry { name: "xpub".into(), key: Some(x), val: o });
            let n_extra = rng.gen_range(0..3);
            let extra = random_additions(rng, &pool, &b, n_extra, true);
            apply(&mut b, &extra);
            out.push(mk_merge(&norm(&a), &norm(&b), vec![format!("xpub-in-merge:{}", class)]));
        }
    }
    // (3) gate: operands that differ in one transaction-identifying field
    for &(map, f, _) in FIELDS.iter().filter(|(m, f, _)| tx_relevant(m, f)) {
        let base = to_model(&base_pset(rng, 2, 2));
        let pos = if map == "G" { 0 } else { rng.gen_range(0..2) };
        let (mut a, mut b) = (base.clone(), base.clone());
        put(map_mut(&mut a, map, pos), sample(rng, &pool, map, f));
        put(map_mut(&mut b, map, pos), sample(rng, &pool, map, f));
        out.push(mk_merge(&norm(&a), &norm(&b), vec![format!("gate:{}.{}", map, f)]));
    }
    for _ in 0..(if thorough { 20 } else { 4 }) {
        let (i1, o1, i2, o2) = (rng.gen_range(0..3), rng.gen_range(0..3), rng.gen_range(0..3), rng.gen_range(0..3));
        let a = to_model(&base_pset(rng, i1, o1));
        let b = to_model(&base_pset(rng, i2, o2));
        out.push(mk_merge(&a, &b, vec!["gate:unrelated".into()]));
    }
    // (3b) equal unique ids, different required lock times on different inputs: max() changes the computed lock time
    {
        let mut base = to_model(&base_pset(rng, 2, 1));
        let (t, h) = (sample(rng, &pool, "I", "required_time_locktime"), sample(rng, &pool, "I", "required_height_locktime"));
        put(&mut base.ins[0], h.clone()); put(&mut base.ins[1], h.clone());
        let (mut a, mut b) = (base.clone(), base.clone());
        put(&mut a.ins[1], t.clone()); put(&mut b.ins[0], t.clone());
        out.push(mk_merge(&norm(&a), &norm(&b), vec!["locktime-max".into()]));
        let mut base = to_model(&base_pset(rng, 2, 1));
        put(&mut base.ins[0], t.clone()); put(&mut base.ins[1], t.clone());
        let (mut a, mut b) = (base.clone(), base.clone());
        put(&mut a.ins[1], h.clone()); put(&mut b.ins[0], h);
        out.push(mk_merge(&norm(&a), &norm(&b), vec!["locktime-max".into()]));
    }
    // (4) families of 2..4 descendants of a common ancestor by disjoint-or-identical additions, every order and grouping
    let fam_n = n;
    for k in 0..fam_n {
        let size = 2 + k % 3;
        let (ni, no) = (rng.gen_range(1..4), rng.gen_range(1..3));
        let mut anc = to_model(&base_pset(rng, ni, no));
        let na = rng.gen_range(0..5);
        let anc_adds = random_additions(rng, &pool, &anc, na, true);
        apply(&mut anc, &anc_adds);
        // mostly uid-neutral additions; one in eight families also draws transaction-identifying fields
        let neutral_only = k % 8 != 7;
        let n_cand = rng.gen_range(2..9);
        let cands: Vec<_> = random_additions(rng, &pool, &anc, n_cand, neutral_only).into_iter()
            .filter(|(m, p, e)| { let mp: &MapL = match m.as_str() { "G" => &anc.g, "I" => &anc.ins[*p], _ => &anc.outs[*p] }; !mp.iter().any(|x| x.name == e.name && x.key == e.key) }).collect();
        let mut members = vec![];
        let mut tags = vec![format!("family:{}", size), format!("ancestor-extra:{}", anc_adds.len())];
        for _ in 0..size {
            let mut d = anc.clone();
            let take: Vec<_> = cands.iter().filter(|_| rng.gen_bool(0.5)).cloned().collect();
            for (m, _, e) in &take { tags.push(format!("add:{}.{}", m, e.name)); }
            apply(&mut d, &take);
            members.push(norm(&d));
        }
        tags.sort(); tags.dedup();
        if size == 2 && k % 2 == 0 {
            out.push(mk_merge(&members[0], &members[1], tags));
        } else {
            out.push(Case { text: format!("C14 fam {}", members.iter().map(show).collect::<Vec<_>>().join(" ")), tags, nontrivial: true });
        }
    }
    // (6) Global::scalars is a Vec merged by extend/sort/dedup: shared, overlapping and disjoint scalars in different positions, both directions
    {
        let t = &pool.tweaks;
        let sc = |ix: &[usize]| -> Vec<Entry> { ix.iter().map(|i| Entry { name: "scalars".into(), key: Some(t[*i].clone()), val: vec![] }).collect() };
        let shapes: Vec<(&str, Vec<usize>, Vec<usize>)> = vec![
            ("shared-last", vec![0, 1], vec![1]), ("shared-first", vec![0, 1], vec![0]), ("shared-unsorted", vec![1, 0], vec![1]), ("shared-middle", vec![0, 1, 2], vec![1]),
            ("overlap", vec![0, 1], vec![1, 2]), ("overlap-rev", vec![2, 1], vec![1, 0]), ("disjoint", vec![0], vec![1, 2]), ("identical-two", vec![0, 1], vec![0, 1]),
            ("identical-two-rev", vec![0, 1], vec![1, 0]), ("self-unsorted-other-empty", vec![2, 0, 1], vec![]), ("three-one", vec![3, 0, 2], vec![0, 3]),
        ];
        for (name, xa, xb) in &shapes {
            for perm in 0..(if thorough { 4 } else { 2 }) {
                // different scalars play the roles in each repetition (their byte order differs)
                let rot = |v: &Vec<usize>| -> Vec<usize> { v.iter().map(|i| (i + perm) % t.len()).collect() };
                let base = to_model(&base_pset(rng, 1, 1));
                let (mut a, mut b) = (base.clone(), base.clone());
                for e in sc(&rot(xa)) { put(&mut a.g, e); }
                for e in sc(&rot(xb)) { put(&mut b.g, e); }
                out.push(mk_merge(&norm(&a), &norm(&b), vec![format!("scalars:{}", name), "dir:ab".into()]));
                out.push(mk_merge(&norm(&b), &norm(&a), vec![format!("scalars:{}", name), "dir:ba".into()]));
            }
        }
        // a family of three sharing scalars pairwise
        let base = to_model(&base_pset(rng, 1, 1));
        let mut ms = vec![];
        for ix in [vec![0usize, 1], vec![1, 2], vec![2, 0]] { let mut m = base.clone(); for e in sc(&ix) { put(&mut m.g, e); } ms.push(norm(&m)); }
        out.push(Case { text: format!("C14 fam {}", ms.iter().map(show).collect::<Vec<_>>().join(" ")), tags: vec!["scalars:family".into(), "family:3".into()], nontrivial: true });
    }
    // (7) every key-value field present in BOTH operands with overlapping contents: a = {e1, e2}, b = {e2, e3}
    for &(map, f, kind) in FIELDS.iter().filter(|(_, f, k)| *k == Kind::Map && *f != "xpub") {
        let _ = kind;
        let base = to_model(&base_pset(rng, 2, 2));
        let pos = if map == "G" { 0 } else { rng.gen_range(0..2) };
        let mut es: Vec<Entry> = vec![];
        let mut guard = 0;
        while es.len() < 3 && guard < 200 { guard += 1; let e = sample(rng, &pool, map, f); if !es.iter().any(|x| x.key == e.key) { es.push(e); } }
        if es.len() < 3 { continue; }
        let (mut a, mut b) = (base.clone(), base.clone());
        put(map_mut(&mut a, map, pos), es[0].clone()); put(map_mut(&mut a, map, pos), es[1].clone());
        put(map_mut(&mut b, map, pos), es[1].clone()); put(map_mut(&mut b, map, pos), es[2].clone());
        out.push(mk_merge(&norm(&a), &norm(&b), vec![format!("overlap:{}.{}", map, f)]));
    }
    // (8) several global xpubs at once: one identical in both, one suffix-related (other longer), one only in self, one only in other
    for k in 0..(if thorough { 8 } else { 2 }) {
        let base = to_model(&base_pset(rng, 1, 1));
        let (mut a, mut b) = (base.clone(), base.clone());
        let x = |i: usize| pool.xpubs[(i + k) % pool.xpubs.len()].clone();
        let same = key_source(rng, 2);
        put(&mut a.g, Entry { name: "xpub".into(), key: Some(x(0)), val: same.clone() });
        put(&mut b.g, Entry { name: "xpub".into(), key: Some(x(0)), val: same });
        let short = key_source(rng, 1);
        let mut long = rbytes(rng, 4); long.extend(rbytes(rng, 8)); long.extend(&short[4..]);
        let (sa, sb) = if k % 2 == 0 { (short.clone(), long.clone()) } else { (long, short) };
        put(&mut a.g, Entry { name: "xpub".into(), key: Some(x(1)), val: sa });
        put(&mut b.g, Entry { name: "xpub".into(), key: Some(x(1)), val: sb });
        if k % 3 != 2 { put(&mut a.g, Entry { name: "xpub".into(), key: Some(x(2)), val: key_source(rng, 3) }); } else { put(&mut b.g, Entry { name: "xpub".into(), key: Some(x(2)), val: key_source(rng, 0) }); }
        out.push(mk_merge(&norm(&a), &norm(&b), vec!["xpub:several-keys".into()]));
    }
    // (9) the modifiable flags (OR) and the PSET version (max) present in both operands with different values
    for (fa, fb) in [(Some(1u8), Some(2u8)), (Some(4), None), (None, Some(3)), (None, None), (Some(5), Some(5))] {
        let base = to_model(&base_pset(rng, 1, 1));
        let (mut a, mut b) = (base.clone(), base.clone());
        if let Some(v) = fa { put(&mut a.g, Entry { name: "tx_data.tx_modifiable".into(), key: None, val: vec![v] }); put(&mut a.g, Entry { name: "elements_tx_modifiable_flag".into(), key: None, val: vec![v] }); }
        if let Some(v) = fb { put(&mut b.g, Entry { name: "tx_data.tx_modifiable".into(), key: None, val: vec![v] }); put(&mut b.g, Entry { name: "elements_tx_modifiable_flag".into(), key: None, val: vec![v ^ 1] }); }
        out.push(mk_merge(&norm(&a), &norm(&b), vec!["flags:both".into()]));
    }
    for (va, vb) in [(2u32, 3u32), (3, 2), (2, 2)] {
        let base = to_model(&base_pset(rng, 1, 1));
        let (mut a, mut b) = (base.clone(), base.clone());
        put(&mut a.g, Entry { name: "version".into(), key: None, val: va.to_le_bytes().to_vec() });
        put(&mut b.g, Entry { name: "version".into(), key: None, val: vb.to_le_bytes().to_vec() });
        out.push(mk_merge(&norm(&a), &norm(&b), vec!["version:both".into()]));
    }
    // (10) an input that carries BOTH utxo forms: merged with an identical copy, with a sibling that added an unrelated field, with the bare ancestor
    for variant in ["copy", "sibling", "ancestor-into", "into-ancestor", "both-plus-other-sibling"] {
        let base = to_model(&base_pset(rng, 2, 1));
        let pos = rng.gen_range(0..2);
        let mut both = base.clone();
        put(&mut both.ins[pos], sample(rng, &pool, "I", "non_witness_utxo")); put(&mut both.ins[pos], sample(rng, &pool, "I", "witness_utxo"));
        let mut sib = both.clone();
        put(&mut sib.ins[pos], sample(rng, &pool, "I", "redeem_script")); put(&mut sib.ins[pos], sample(rng, &pool, "I", "partial_sigs"));
        let (a, b) = match variant { "copy" => (both.clone(), both.clone()), "sibling" => (both.clone(), sib), "ancestor-into" => (both.clone(), base.clone()),
                                     "into-ancestor" => (base.clone(), both.clone()), _ => (sib, both.clone()) };
        out.push(mk_merge(&norm(&a), &norm(&b), vec![format!("utxo-both:{}", variant)]));
    }
    // (11) descendants of one ancestor by the additions C08 proves uid-neutral (final script sig / witness, sequence on a sequence-less input, partial and
    //      taproot signatures, scripts, derivations, proofs): as pairs with the ancestor in both directions, and as families of three
    {
        let neutral: Vec<(&str, &str)> = FIELDS.iter().filter(|(m, f, _)| *m != "G" && crate::c08::uid_neutral(m, f) && *f != "non_witness_utxo" && *f != "witness_utxo").map(|(m, f, _)| (*m, *f)).collect();
        let trios: Vec<[&str; 3]> = vec![["final_script_sig", "sequence", "partial_sigs"], ["final_script_witness", "redeem_script", "bip32_derivation"],
                                         ["tap_key_sig", "witness_script", "tap_key_origins"], ["blind_value_proof", "in_utxo_rangeproof", "sighash_type"],
                                         ["final_script_sig", "final_script_witness", "sequence"]];
        for trio in &trios {
            let anc = to_model(&base_pset(rng, 2, 2));
            let pos = rng.gen_range(0..2);
            let mut ms = vec![];
            for f in trio.iter() { let mut d = anc.clone(); put(&mut d.ins[pos], sample(rng, &pool, "I", f)); ms.push(norm(&d)); }
            out.push(Case { text: format!("C14 fam {}", ms.iter().map(show).collect::<Vec<_>>().join(" ")), tags: vec![format!("neutral-family:{}", trio.join("+"))], nontrivial: true });
            out.push(Case { text: format!("C14 fam {} {}", show(&norm(&anc)), ms.iter().map(show).collect::<Vec<_>>().join(" ")), tags: vec![format!("neutral-family+ancestor:{}", trio.join("+"))], nontrivial: true });
        }
        if thorough {
            for (m, f) in &neutral {
                let anc = to_model(&base_pset(rng, 2, 2));
                let pos = rng.gen_range(0..2);
                let mut d = anc.clone(); put(map_mut(&mut d, m, pos), sample(rng, &pool, m, f));
                let mut d2 = anc.clone(); put(map_mut(&mut d2, "I", pos), sample(rng, &pool, "I", "final_script_sig"));
                out.push(Case { text: format!("C14 fam {} {} {}", show(&norm(&anc)), show(&norm(&d)), show(&norm(&d2))), tags: vec![format!("neutral-family3:{}.{}", m, f)], nontrivial: true });
            }
        }
    }
    // (5) conflicting values for the same field (a combiner may pick either; nothing may be lost or panic)
    for _ in 0..(n / 4 + 2) {
        let base = to_model(&base_pset(rng, 2, 2));
        let (mut a, mut b) = (base.clone(), base.clone());
        let na = rng.gen_range(1..6);
        let adds = random_additions(rng, &pool, &base, na, true);
        apply(&mut a, &adds);
        for (m, p, e) in &adds { if rng.gen_bool(0.7) { let mut e2 = sample(rng, &pool, &if m == "G" { "G" } else if m == "I" { "I" } else { "O" }, &e.name); e2.key = e.key.clone(); put(map_mut(&mut b, m, *p), e2); } }
        out.push(mk_merge(&norm(&a), &norm(&b), vec!["conflicting-values".into()]));
    }
    out
}
