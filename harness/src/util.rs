use rand::Rng;
use rand_chacha::ChaCha20Rng;

pub fn hex(b: &[u8]) -> String {
    let mut s = String::with_capacity(b.len() * 2);
    for x in b { s.push_str(&format!("{:02x}", x)); }
    s
}
pub fn unhex(s: &str) -> Option<Vec<u8>> {
    if s.len() % 2 != 0 { return None; }
    (0..s.len() / 2).map(|i| u8::from_str_radix(&s[2 * i..2 * i + 2], 16).ok()).collect()
}
pub fn rbytes(rng: &mut ChaCha20Rng, n: usize) -> Vec<u8> {
    let mut v = vec![0u8; n];
    rng.fill(&mut v[..]);
    v
}
pub fn r32(rng: &mut ChaCha20Rng) -> [u8; 32] {
    let mut v = [0u8; 32];
    rng.fill(&mut v[..]);
    v
}
/// hex list: comma separated, "-" for empty
pub fn hexlist<T: AsRef<[u8]>>(items: &[T]) -> String {
    if items.is_empty() { "-".to_string() } else { items.iter().map(|x| hex(x.as_ref())).collect::<Vec<_>>().join(",") }
}
pub fn unhexlist(s: &str) -> Option<Vec<Vec<u8>>> {
    if s == "-" { return Some(vec![]); }
    s.split(',').map(unhex).collect()
}

/// pick one element of a literal array (elements may themselves draw from the rng)
#[macro_export]
macro_rules! pk { ($rng:expr, [$($x:expr),* $(,)?]) => {{ let arr = [$($x),*]; let i = rand::Rng::gen_range($rng, 0..arr.len()); arr[i].clone() }} }
