//! C05: amount verification rejects every tampered or unbalanced transaction.
//! `tamper` cases: a C04 case (explicit transaction + seed + drawn randomness) blinded by the real crate, then ONE tamper of the
//! property's list applied to the real structures (and, symbolically, by the Coq model to its opened form); both report the
//! verdict and error variant of verify_tx_amt_proofs before and after.  `explicit` cases: all-explicit transactions
//! (balanced, unbalanced, zero amounts, wrong number of spent outputs) verified as they are.
use crate::c04::*;
use crate::{txgen::secp, util::*, Case, Out};
use elements::confidential::{Asset, AssetBlindingFactor, Value, ValueBlindingFactor};
use elements::secp256k1_zkp::{RangeProof, SurjectionProof};
use elements::{AssetId, Script, Transaction, TxOut};
use rand::Rng;
use rand_chacha::ChaCha20Rng;
use std::collections::BTreeMap;

#[derive(Clone, Debug)]
pub enum Tamper {
    OutValue(usize, Value, String), OutAsset(usize, Asset, String), SwapValue(usize, usize), SwapAsset(usize, usize),
    RemoveRp(usize), SwapRp(usize, usize), CorruptRp(usize), RemoveSp(usize), SwapSp(usize, usize), CorruptSp(usize),
    Script(usize, Vec<u8>), Issuance(usize, bool, u64), SpentValue(usize, Value, String), SpentAsset(usize, Asset, String),
}
fn parse_v(s: &str) -> Option<Value> {
    if let Some(r) = s.strip_prefix('E') { return Some(Value::Explicit(r.parse().ok()?)); }
    let p: Vec<&str> = s.strip_prefix('C')?.split('.').collect();
    if p.len() != 4 { return None; }
    Some(Value::new_confidential_from_assetid(secp(), p[0].parse().ok()?, asset_from_hex(p[2])?,
        ValueBlindingFactor::from_slice(&unhex(p[1])?).ok()?, AssetBlindingFactor::from_slice(&unhex(p[3])?).ok()?))
}
fn parse_a(s: &str) -> Option<Asset> {
    if let Some(r) = s.strip_prefix('E') { return Some(Asset::Explicit(asset_from_hex(r)?)); }
    let p: Vec<&str> = s.strip_prefix('C')?.split('.').collect();
    if p.len() != 2 { return None; }
    Some(Asset::new_confidential(secp(), asset_from_hex(p[0])?, AssetBlindingFactor::from_slice(&unhex(p[1])?).ok()?))
}
pub fn parse_tamper(s: &str) -> Option<Tamper> {
    let p: Vec<&str> = s.split(':').collect();
    let j: usize = p.get(1)?.parse().ok()?;
    let k = || -> Option<usize> { p.get(2)?.parse().ok() };
    Some(match (p[0], p.len()) {
        ("oval", 3) => Tamper::OutValue(j, parse_v(p[2])?, p[2].into()), ("oasset", 3) => Tamper::OutAsset(j, parse_a(p[2])?, p[2].into()),
        ("swapval", 3) => Tamper::SwapValue(j, k()?), ("swapasset", 3) => Tamper::SwapAsset(j, k()?),
        ("rmrp", 2) => Tamper::RemoveRp(j), ("swaprp", 3) => Tamper::SwapRp(j, k()?), ("corrp", 2) => Tamper::CorruptRp(j),
        ("rmsp", 2) => Tamper::RemoveSp(j), ("swapsp", 3) => Tamper::SwapSp(j, k()?), ("corsp", 2) => Tamper::CorruptSp(j),
        ("script", 3) => Tamper::Script(j, if p[2] == "-" { vec![] } else { unhex(p[2])? }),
        ("iss", 4) => Tamper::Issuance(j, p[2] == "a", p[3].parse().ok()?),
        ("sval", 3) => Tamper::SpentValue(j, parse_v(p[2])?, p[2].into()), ("sasset", 3) => Tamper::SpentAsset(j, parse_a(p[2])?, p[2].into()),
        _ => return None,
    })
}
pub fn fmt_tamper(t: &Tamper) -> String {
    match t {
        Tamper::OutValue(j, _, s) => format!("oval:{}:{}", j, s), Tamper::OutAsset(j, _, s) => format!("oasset:{}:{}", j, s),
        Tamper::SwapValue(j, k) => format!("swapval:{}:{}", j, k), Tamper::SwapAsset(j, k) => format!("swapasset:{}:{}", j, k),
        Tamper::RemoveRp(j) => format!("rmrp:{}", j), Tamper::SwapRp(j, k) => format!("swaprp:{}:{}", j, k), Tamper::CorruptRp(j) => format!("corrp:{}", j),
        Tamper::RemoveSp(j) => format!("rmsp:{}", j), Tamper::SwapSp(j, k) => format!("swapsp:{}:{}", j, k), Tamper::CorruptSp(j) => format!("corsp:{}", j),
        Tamper::Script(j, s) => format!("script:{}:{}", j, if s.is_empty() { "-".to_string() } else { hex(s) }),
        Tamper::Issuance(i, a, v) => format!("iss:{}:{}:{}", i, if *a { "a" } else { "k" }, v),
        Tamper::SpentValue(i, _, s) => format!("sval:{}:{}", i, s), Tamper::SpentAsset(i, _, s) => format!("sasset:{}:{}", i, s),
    }
}
pub fn class_of(t: &Tamper) -> &'static str {
    match t {
        Tamper::OutValue(_, Value::Explicit(_), _) => "explicit-amount", Tamper::OutValue(..) => "replace-value-commitment",
        Tamper::OutAsset(_, Asset::Explicit(_), _) => "explicit-asset", Tamper::OutAsset(..) => "replace-asset-commitment",
        Tamper::SwapValue(..) => "swap-value", Tamper::SwapAsset(..) => "swap-asset",
        Tamper::RemoveRp(_) => "remove-rangeproof", Tamper::SwapRp(..) => "swap-rangeproof", Tamper::CorruptRp(_) => "corrupt-rangeproof",
        Tamper::RemoveSp(_) => "remove-surjectionproof", Tamper::SwapSp(..) => "swap-surjectionproof", Tamper::CorruptSp(_) => "corrupt-surjectionproof",
        Tamper::Script(_, s) if burn_script(s) => "script-of-blinded-output-to-unspendable",
        Tamper::Script(..) => "script-of-blinded-output", Tamper::Issuance(..) => "issuance-amount",
        Tamper::SpentValue(..) => "spent-amount", Tamper::SpentAsset(..) => "spent-asset",
    }
}
/// provably unspendable by the rule of the property (OP_RETURN first, empty, or longer than MAX_SCRIPT_SIZE), decided here from the bytes
fn burn_script(s: &[u8]) -> bool { s.is_empty() || s[0] == 0x6a || s.len() > 10_000 }
/// the script of a blinded output replaced by a provably unspendable one: a range proof is bound to the script, and the output's
/// amount stays in the balance, so verification must fail exactly as for any other script (seeded C05-r6-2)
fn burn_tamper(rng: &mut ChaCha20Rng, j: usize) -> String {
    match rng.gen_range(0..8) {
        0 | 1 => format!("script:{}:6a", j),
        2 | 3 => format!("script:{}:6a04{:08x}", j, rng.gen::<u32>()),
        4 | 5 => format!("script:{}:-", j),
        6 => format!("script:{}:6a20{}", j, hex(&r32(rng))),
        _ => { let mut sc = vec![0x51u8; 10_001]; sc[1] = rng.gen_range(0x51..0x60); format!("script:{}:{}", j, hex(&sc)) }
    }
}
fn vkind(a: &Value, b: &Value) -> bool { matches!((a, b), (Value::Explicit(_), Value::Explicit(_)) | (Value::Confidential(_), Value::Confidential(_))) }
fn akind(a: &Asset, b: &Asset) -> bool { matches!((a, b), (Asset::Explicit(_), Asset::Explicit(_)) | (Asset::Confidential(_), Asset::Confidential(_))) }
fn corrupt_rp(p: &RangeProof) -> Option<RangeProof> {
    let b = p.serialize();
    for pos in [b.len() / 2, b.len() - 1, b.len() / 3, 40] {
        if pos >= b.len() { continue; }
        let mut c = b.clone(); c[pos] ^= 0x01;
        if let Ok(q) = RangeProof::from_slice(&c) { return Some(q); }
    }
    None
}
fn corrupt_sp(p: &SurjectionProof) -> Option<SurjectionProof> {
    let b = p.serialize();
    for pos in [b.len() - 1, b.len() / 2, b.len() - 33] {
        if pos >= b.len() { continue; }
        let mut c = b.clone(); c[pos] ^= 0x01;
        if let Ok(q) = SurjectionProof::from_slice(&c) { return Some(q); }
    }
    None
}
/// (applicable, changes) as Model/Tamper.v defines them, evaluated on the real structures; then the tamper itself
pub fn apply_tamper(t: &Tamper, tx: &mut Transaction, spent: &mut Vec<TxOut>) -> Option<(bool, bool)> {
    let n = tx.output.len();
    // an output verify_tx_amt_proofs skips: explicit zero amount on a provably unspendable script (nothing on it is ever read)
    let live = |o: &TxOut| !(o.value == Value::Explicit(0) && o.script_pubkey.is_provably_unspendable());
    let conf_asset_out = tx.output.iter().any(|o| live(o) && o.asset.is_confidential());
    let two = |j: usize, k: usize| j != k && j < n && k < n;
    Some(match t {
        Tamper::OutValue(j, v, _) => { if *j >= n { return Some((false, false)); } let r = (vkind(&tx.output[*j].value, v), tx.output[*j].value != *v); tx.output[*j].value = *v; r }
        Tamper::OutAsset(j, a, _) => { if *j >= n { return Some((false, false)); } let r = (live(&tx.output[*j]) && akind(&tx.output[*j].asset, a), tx.output[*j].asset != *a); tx.output[*j].asset = *a; r }
        Tamper::SwapValue(j, k) => { if !two(*j, *k) { return Some((false, false)); } let (a, b) = (tx.output[*j].value, tx.output[*k].value); tx.output[*j].value = b; tx.output[*k].value = a; (a.is_confidential() && b.is_confidential(), a != b) }
        Tamper::SwapAsset(j, k) => { if !two(*j, *k) { return Some((false, false)); } let lv = live(&tx.output[*j]) && live(&tx.output[*k]); let (a, b) = (tx.output[*j].asset, tx.output[*k].asset); tx.output[*j].asset = b; tx.output[*k].asset = a; (lv && a.is_confidential() && b.is_confidential(), a != b) }
        Tamper::RemoveRp(j) => { if *j >= n { return Some((false, false)); } let app = tx.output[*j].value.is_confidential() && tx.output[*j].witness.rangeproof.is_some(); tx.output[*j].witness.rangeproof = None; (app, true) }
        Tamper::CorruptRp(j) => { if *j >= n { return Some((false, false)); } let app = tx.output[*j].value.is_confidential() && tx.output[*j].witness.rangeproof.is_some();
            if let Some(p) = tx.output[*j].witness.rangeproof.clone() { tx.output[*j].witness.rangeproof = Some(Box::new(corrupt_rp(&p)?)); } (app, true) }
        Tamper::SwapRp(j, k) => { if !two(*j, *k) { return Some((false, false)); }
            let app = tx.output[*j].value.is_confidential() && tx.output[*k].value.is_confidential() && akind(&tx.output[*j].asset, &tx.output[*k].asset);
            let (x, y) = (&tx.output[*j], &tx.output[*k]);
            let same = x.value == y.value && x.script_pubkey == y.script_pubkey && x.asset == y.asset;
            let (a, b) = (tx.output[*j].witness.rangeproof.clone(), tx.output[*k].witness.rangeproof.clone());
            tx.output[*j].witness.rangeproof = b; tx.output[*k].witness.rangeproof = a; (app, !same) }
        Tamper::RemoveSp(j) => { if *j >= n { return Some((false, false)); } let app = live(&tx.output[*j]) && tx.output[*j].asset.is_confidential() && tx.output[*j].witness.surjection_proof.is_some(); tx.output[*j].witness.surjection_proof = None; (app, true) }
        Tamper::CorruptSp(j) => { if *j >= n { return Some((false, false)); } let app = live(&tx.output[*j]) && tx.output[*j].asset.is_confidential() && tx.output[*j].witness.surjection_proof.is_some();
            if let Some(p) = tx.output[*j].witness.surjection_proof.clone() { tx.output[*j].witness.surjection_proof = Some(Box::new(corrupt_sp(&p)?)); } (app, true) }
        Tamper::SwapSp(j, k) => { if !two(*j, *k) { return Some((false, false)); }
            let app = live(&tx.output[*j]) && live(&tx.output[*k]) && tx.output[*j].asset.is_confidential() && tx.output[*k].asset.is_confidential();
            let chg = tx.output[*j].asset != tx.output[*k].asset;
            let (a, b) = (tx.output[*j].witness.surjection_proof.clone(), tx.output[*k].witness.surjection_proof.clone());
            tx.output[*j].witness.surjection_proof = b; tx.output[*k].witness.surjection_proof = a; (app, chg) }
        Tamper::Script(j, s) => { if *j >= n { return Some((false, false)); } let r = (tx.output[*j].value.is_confidential(), tx.output[*j].script_pubkey.as_bytes() != &s[..]); tx.output[*j].script_pubkey = Script::from(s.clone()); r }
        Tamper::Issuance(i, amount, v) => { if *i >= tx.input.len() { return Some((false, false)); }
            let f = if *amount { &mut tx.input[*i].asset_issuance.amount } else { &mut tx.input[*i].asset_issuance.inflation_keys };
            let r = (f.is_explicit(), *f != Value::Explicit(*v)); *f = Value::Explicit(*v); r }
        Tamper::SpentValue(i, v, _) => { if *i >= spent.len() { return Some((false, false)); } let r = (vkind(&spent[*i].value, v), spent[*i].value != *v); spent[*i].value = *v; r }
        Tamper::SpentAsset(i, a, _) => { if *i >= spent.len() { return Some((false, false)); }
            let r = (akind(&spent[*i].asset, a) && (conf_asset_out || (spent[*i].value.is_explicit() && spent[*i].asset.is_explicit())), spent[*i].asset != *a); spent[*i].asset = *a; r }
    })
}

static LAST: std::sync::Mutex<Option<(String, Blinded)>> = std::sync::Mutex::new(None);
fn eval_tamper(case: &str) -> Out {
    let (spec, seed, ts) = match (parse_spec(case), parse_seed(case), field(case, "tamper")) { (Some(s), Some(d), Some(t)) => (s, d, t), _ => return Out::ok("harnesserr parse".into()) };
    let t = match parse_tamper(ts) { Some(t) => t, None => return Out::ok("harnesserr tamper".into()) };
    // consecutive cases tamper with the same blinded transaction: keep the last one (same spec text and seed => same blinding)
    let key = format!("{}|{}|{}", field(case, "in").unwrap_or(""), field(case, "out").unwrap_or(""), field(case, "seed").unwrap_or(""));
    let cached = { let g = LAST.lock().unwrap(); g.as_ref().filter(|(k, _)| *k == key).map(|(_, b)| b.clone()) };
    let res = match cached { Some(b) => BlindRes::Ok(b), None => run_blind(&spec, seed) };
    match res {
        BlindRes::Panic => Out::ok("panic".into()),
        BlindRes::Err(e) => Out::ok(format!("err {}", show_blind_err(&e))),
        BlindRes::Ok(b) => {
            *LAST.lock().unwrap() = Some((key, b.clone()));
            let rnd = rnd_of_blinds(&b.blinds).join(",");
            if field(case, "rnd").map(|r| r != rnd).unwrap_or(true) { return Out::ok("harnesserr the recorded randomness does not match this run".into()); }
            let base = verify_verdict(&b.tx, &b.spent);
            let (mut tx, mut spent) = (b.tx.clone(), b.spent.clone());
            let (app, chg) = match apply_tamper(&t, &mut tx, &mut spent) { Some(x) => x, None => return Out::ok("harnesserr cannot corrupt".into()) };
            let tampered = verify_verdict(&tx, &spent);
            let pred_fail = if base != "ok" && c04_hypotheses(&spec) {
                Some(format!("genuine-tx-rejected|verify_tx_amt_proofs returns {} on the genuine (balanced, correctly blinded) transaction", base))
            } else if base == "ok" && app && chg && tampered == "ok" {
                Some(format!("tampered-tx-verifies|verify_tx_amt_proofs accepts the transaction after tamper {} ({})", ts, class_of(&t)))
            } else { None };
            Out { result: format!("app={} chg={} base={} tampered={}", app as u8, chg as u8, base, tampered), pred_fail }
        }
    }
}

fn eval_explicit(case: &str) -> Out {
    let (spec, sl) = match (parse_spec(case), field(case, "spentlen").and_then(|s| s.parse::<usize>().ok())) { (Some(s), Some(n)) => (s, n), _ => return Out::ok("harnesserr parse".into()) };
    let (tx, spent, _) = build(&spec);
    let mut sp: Vec<TxOut> = spent.iter().take(sl).cloned().collect();
    while sp.len() < sl && !spent.is_empty() { sp.push(spent[0].clone()); }
    let verdict = verify_verdict(&tx, &sp);
    // the property's own characterisation of an all-explicit transaction
    let mut bal: BTreeMap<AssetId, i128> = BTreeMap::new();
    let mut inputs_ok = true;
    for (i, s) in spec.ins.iter().enumerate() {
        if s.sec.value == 0 { inputs_ok = false; }
        *bal.entry(s.sec.asset).or_default() += s.sec.value as i128;
        if let Some(x) = &s.iss {
            let (a, t) = own_issuance_ids(i, x);
            if let Some(v) = x.amount { *bal.entry(a).or_default() += v as i128; }
            if let Some(v) = x.keys { *bal.entry(t).or_default() += v as i128; }
        }
    }
    for o in &spec.outs { *bal.entry(o.asset).or_default() -= o.value as i128; }
    let balanced = bal.values().all(|v| *v == 0);
    let unspendable = |o: &OutSpec| Script::from(o.script.clone()).is_provably_unspendable();
    let zero_rule = spec.outs.iter().all(|o| o.value != 0 || unspendable(o));
    let expected = sl == spec.ins.len() && inputs_ok && balanced && zero_rule;
    // the characterisation is about ALL-explicit transactions; with a confidential spent output the blinding factors cannot cancel
    let all_explicit = spec.ins.iter().all(|s| s.ea && s.ev);
    let pred_fail = if !all_explicit || expected == (verdict == "ok") { None }
        else if expected && spec.outs.iter().any(|o| o.value == 0 && unspendable(o)) {
            Some("F13-zero-value-opreturn-rejected|a balanced explicit transaction with an explicit zero-value output on a provably unspendable script (OP_RETURN, the empty fee script, or longer than MAX_SCRIPT_SIZE) is rejected instead of the output being skipped".to_string())
        } else { Some(format!("explicit-iff-violated|all-explicit transaction: property predicts {} but verify_tx_amt_proofs says {}", if expected { "accept" } else { "reject" }, verdict)) };
    Out { result: verdict, pred_fail }
}

// ------------------------------------------------------------------------------------------------ the repository's real-network vector
/// the transaction and spent output of the doc example of `verify_tx_amt_proofs` (src/blind.rs), scraped from the source
pub fn doc_vector() -> Option<(Transaction, Vec<TxOut>)> {
    let repo = std::env::var("ELEMENTS_REPO").unwrap_or_else(|_| "/repo".into());
    let src = std::fs::read_to_string(format!("{}/src/blind.rs", repo)).ok()?;
    let lit = |anchor: &str| -> Option<Vec<u8>> {
        let at = src.find(anchor)?;
        let rest = &src[at..];
        let q1 = rest.find('"')? + 1;
        let q2 = q1 + rest[q1..].find('"')?;
        unhex(&rest[q1..q2])
    };
    let tx: Transaction = elements::encode::deserialize(&lit("let tx: Transaction = deserialize(&hex::hex!(")?).ok()?;
    let asset: Asset = elements::encode::deserialize(&lit("let conf_asset : confidential::Asset = deserialize(&hex::hex!(")?).ok()?;
    let value: Value = elements::encode::deserialize(&lit("let conf_value : confidential::Value = deserialize(&hex::hex!(")?).ok()?;
    let spk: Script = elements::encode::deserialize(&lit("let spk : script::Script = deserialize(&hex::hex!(")?).ok()?;
    Some((tx, vec![TxOut { asset, value, nonce: elements::confidential::Nonce::Null, script_pubkey: spk, witness: elements::TxOutWitness::default() }]))
}
/// a FABRICATED opened form for the vector (its true openings are unknown): every confidential commitment gets the fee asset,
/// amount 1 and small blinding factors, the last one the factor that balances; the single input carries the total
fn fabricate(tx: &Transaction) -> Option<(String, Vec<(u64, ValueBlindingFactor, AssetId, AssetBlindingFactor, bool)>)> {
    let fee_asset = tx.output.iter().find(|o| o.is_fee())?.asset.explicit()?;
    let sc = |k: u8| { let mut b = [0u8; 32]; b[31] = k; b };
    let mut outs = vec![];
    let mut total: u64 = 0;
    for (j, o) in tx.output.iter().enumerate() {
        if let (Some(a), Some(v)) = (o.asset.explicit(), o.value.explicit()) { outs.push((v, ValueBlindingFactor::zero(), a, AssetBlindingFactor::zero(), false)); total += v; }
        else if o.asset.is_confidential() && o.value.is_confidential() {
            outs.push((1, ValueBlindingFactor::from_slice(&sc(40 + j as u8)).ok()?, fee_asset, AssetBlindingFactor::from_slice(&sc(20 + j as u8)).ok()?, true)); total += 1;
        } else { return None; }
    }
    let in_abf = AssetBlindingFactor::from_slice(&sc(5)).ok()?;
    let in_vbf = ValueBlindingFactor::from_slice(&sc(6)).ok()?;
    // balance the last confidential output
    let last = outs.iter().rposition(|o| o.4)?;
    let others: Vec<(u64, AssetBlindingFactor, ValueBlindingFactor)> = outs.iter().enumerate().filter(|(j, _)| *j != last).map(|(_, o)| (o.0, o.3, o.1)).collect();
    outs[last].1 = ValueBlindingFactor::last(secp(), outs[last].0, outs[last].3, &[(total, in_abf, in_vbf)], &others);
    let ins = format!("00:{}:{}:{}:{}:-", tag_hex(&fee_asset), abf_hex(&in_abf), total, vbf_hex(&in_vbf));
    Some((ins, outs))
}
fn eval_opened(case: &str) -> Out {
    let built = if field(case, "vec") == Some("doc") { doc_vector() } else { mixed_from_case(case) };
    let (tx0, spent0) = match built { Some(x) => x, None => return Out::ok("harnesserr vector".into()) };
    let ts = match field(case, "tamper") { Some(t) => t, None => return Out::ok("harnesserr tamper".into()) };
    let t = match parse_tamper(ts) { Some(t) => t, None => return Out::ok("harnesserr tamper".into()) };
    let base = verify_verdict(&tx0, &spent0);
    let (mut tx, mut spent) = (tx0.clone(), spent0.clone());
    let (app, chg) = match apply_tamper(&t, &mut tx, &mut spent) { Some(x) => x, None => return Out::ok("harnesserr cannot corrupt".into()) };
    let tampered = verify_verdict(&tx, &spent);
    let pred_fail = if base != "ok" {
        Some(format!("genuine-tx-rejected|verify_tx_amt_proofs returns {} on the genuine transaction (real-network vector / balanced transaction built from its opened form)", base))
    } else if app && chg && tampered == "ok" {
        Some(format!("tampered-tx-verifies|verify_tx_amt_proofs accepts the transaction after tamper {} ({})", ts, class_of(&t)))
    } else { None };
    Out { result: format!("app={} chg={} base={} tampered={}", app as u8, chg as u8, base, tampered), pred_fail }
}
// ------------------------------------------------------------------------------------------------ partially blinded outputs
/// an output in opened form; kind: c = confidential asset and value, e = explicit, v = EXPLICIT asset + CONFIDENTIAL value,
/// a = CONFIDENTIAL asset + EXPLICIT amount
#[derive(Clone, Debug)]
pub struct BOut { pub sec: elements::TxOutSecrets, pub script: Vec<u8>, pub kind: char }
fn fmt_bout(b: &BOut) -> String {
    format!("{}:{}:{}:{}:{}:{}", tag_hex(&b.sec.asset), b.sec.value, abf_hex(&b.sec.asset_bf), vbf_hex(&b.sec.value_bf), if b.script.is_empty() { "-".to_string() } else { hex(&b.script) }, b.kind)
}
fn parse_bouts(s: &str) -> Option<Vec<BOut>> {
    s.split(';').map(|x| {
        let p: Vec<&str> = x.split(':').collect();
        if p.len() != 6 || p[5].len() != 1 { return None; }
        Some(BOut { sec: elements::TxOutSecrets::new(asset_from_hex(p[0])?, AssetBlindingFactor::from_slice(&unhex(p[2])?).ok()?, p[1].parse().ok()?, ValueBlindingFactor::from_slice(&unhex(p[3])?).ok()?),
                    script: if p[4] == "-" { vec![] } else { unhex(p[4])? }, kind: p[5].chars().next()? })
    }).collect()
}
/// builds the transaction with the real library directly from the opened form (no Transaction::blind): every combination
/// explicit/confidential of (asset, value)
pub fn build_mixed(ins: &[InSpec], bouts: &[BOut], seed: [u8; 32]) -> Option<(Transaction, Vec<TxOut>)> {
    use elements::secp256k1_zkp::{Generator, SecretKey};
    use rand::SeedableRng;
    let (mut tx, spent, secrets) = build(&TxSpec { ins: ins.to_vec(), outs: vec![] });
    let mut rng = ChaCha20Rng::from_seed(seed);
    let key = SecretKey::from_slice(&[7u8; 32]).ok()?;
    let pk = elements::secp256k1_zkp::PublicKey::from_secret_key(secp(), &key);
    for b in bouts {
        let spk = Script::from(b.script.clone());
        let o = match b.kind {
            'c' => TxOut::with_txout_secrets(&mut rng, secp(), spk, pk, key, b.sec, &secrets).ok()?,
            'v' => {
                let gen = Generator::new_unblinded(secp(), b.sec.asset.into_tag());
                let value = Value::new_confidential(secp(), b.sec.value, gen, b.sec.value_bf);
                let msg = elements::RangeProofMessage::new(b.sec.asset, AssetBlindingFactor::zero()).to_byte_array();
                let rp = RangeProof::new(secp(), TxOut::RANGEPROOF_MIN_VALUE, value.commitment()?, b.sec.value, b.sec.value_bf.into_inner(), &msg, spk.as_bytes(), key,
                                         TxOut::RANGEPROOF_EXP_SHIFT, TxOut::RANGEPROOF_MIN_PRIV_BITS, gen).ok()?;
                TxOut { asset: Asset::Explicit(b.sec.asset), value, nonce: elements::confidential::Nonce::Null, script_pubkey: spk,
                        witness: elements::TxOutWitness { surjection_proof: None, rangeproof: Some(Box::new(rp)) } }
            }
            'a' => {
                let (asset, sp) = Asset::Explicit(b.sec.asset).blind(&mut rng, secp(), b.sec.asset_bf, &secrets).ok()?;
                TxOut { asset, value: Value::Explicit(b.sec.value), nonce: elements::confidential::Nonce::Null, script_pubkey: spk,
                        witness: elements::TxOutWitness { surjection_proof: Some(Box::new(sp)), rangeproof: None } }
            }
            _ => TxOut { asset: Asset::Explicit(b.sec.asset), value: Value::Explicit(b.sec.value), nonce: elements::confidential::Nonce::Null, script_pubkey: spk, witness: elements::TxOutWitness::default() },
        };
        tx.output.push(o);
    }
    Some((tx, spent))
}
fn mixed_from_case(case: &str) -> Option<(Transaction, Vec<TxOut>)> {
    let ins = parse_spec(&format!("in={} out=-", field(case, "in")?))?.ins;
    let bouts = parse_bouts(field(case, "bout")?)?;
    build_mixed(&ins, &bouts, parse_seed(case)?)
}
/// balanced transactions whose outputs mix all four forms, every tamper class at every applicable position
fn mixed_cases(rng: &mut ChaCha20Rng, n: usize, thorough: bool) -> Vec<Case> {
    let mut out = vec![];
    let mut k = 0;
    while out.len() < n && k < 4 * n + 8 {
        let sh = Shape { nin: 1 + k % 3, nassets: 1 + (k / 2) % 2, extra_outs: 2 + k % 3, iss: [0, 4, 1, 4][k % 4], fee: k % 3 != 2 };
        k += 1;
        let mut tg = vec![];
        let base = gen_balanced(rng, &sh, &mut tg);
        let (_, _, secrets) = build(&TxSpec { ins: base.ins.clone(), outs: vec![] });
        // kinds: rotate so that every form occurs, the fee stays explicit
        let kinds = ['v', 'a', 'c', 'e', 'v', 'c', 'a'];
        let mut bouts: Vec<BOut> = base.outs.iter().enumerate().map(|(j, o)| {
            let kind = if o.script.is_empty() || o.value > i64::MAX as u64 { 'e' } else { kinds[(j + k) % kinds.len()] };
            let abf = if kind == 'c' || kind == 'a' { rabf(rng) } else { AssetBlindingFactor::zero() };
            let vbf = if kind == 'c' || kind == 'v' { rvbf(rng) } else { ValueBlindingFactor::zero() };
            BOut { sec: elements::TxOutSecrets::new(o.asset, abf, o.value, vbf), script: o.script.clone(), kind }
        }).collect();
        // the last output with a confidential value balances the blinding factors
        let Some(last) = bouts.iter().rposition(|b| b.kind == 'c' || b.kind == 'v') else { continue };
        let inp: Vec<(u64, AssetBlindingFactor, ValueBlindingFactor)> = secrets.iter().map(|s| (s.value, s.asset_bf, s.value_bf)).collect();
        let others: Vec<(u64, AssetBlindingFactor, ValueBlindingFactor)> = bouts.iter().enumerate().filter(|(j, _)| *j != last).map(|(_, b)| (b.sec.value, b.sec.asset_bf, b.sec.value_bf)).collect();
        let lv = ValueBlindingFactor::last(secp(), bouts[last].sec.value, bouts[last].sec.asset_bf, &inp, &others);
        bouts[last].sec = elements::TxOutSecrets::new(bouts[last].sec.asset, bouts[last].sec.asset_bf, bouts[last].sec.value, lv);
        let seed = r32(rng);
        let ins_text = base.ins.iter().enumerate().map(|(i, s)| fmt_in(i, s)).collect::<Vec<_>>().join(";");
        let bout_text = bouts.iter().map(fmt_bout).collect::<Vec<_>>().join(";");
        // tampers
        let n_out = bouts.len();
        let other_asset = |rng: &mut ChaCha20Rng, a: &AssetId| -> AssetId { bouts.iter().map(|b| b.sec.asset).find(|x| x != a).filter(|_| rng.gen_bool(0.6)).unwrap_or_else(|| rasset_id(rng)) };
        let mut ts: Vec<String> = vec![];
        for (j, b) in bouts.iter().enumerate() {
            let conf_v = b.kind == 'c' || b.kind == 'v';
            let conf_a = b.kind == 'c' || b.kind == 'a';
            if conf_v {
                ts.push(format!("oval:{}:{}", j, vdesc(b.sec.value + 1, &b.sec.value_bf, &b.sec.asset, &b.sec.asset_bf)));
                ts.push(format!("oval:{}:{}", j, vdesc(b.sec.value, &rvbf(rng), &b.sec.asset, &b.sec.asset_bf)));
                for t in ["rmrp", "corrp"] { ts.push(format!("{}:{}", t, j)); }
                ts.push(format!("script:{}:{}", j, hex(&raddr_script(rng))));
                ts.push(burn_tamper(rng, j));
            } else { ts.push(format!("oval:{}:E{}", j, b.sec.value + 1 + rng.gen_range(0..50))); }
            if conf_a {
                ts.push(format!("oasset:{}:{}", j, adesc(&b.sec.asset, &rabf(rng))));
                ts.push(format!("oasset:{}:{}", j, adesc(&other_asset(rng, &b.sec.asset), &b.sec.asset_bf)));
                for t in ["rmsp", "corsp"] { ts.push(format!("{}:{}", t, j)); }
            } else {
                ts.push(format!("oasset:{}:E{}", j, tag_hex(&other_asset(rng, &b.sec.asset))));
                for (i, s) in base.ins.iter().enumerate() { if let Some(x) = &s.iss { if own_issuance_ids(i, x).1 == b.sec.asset { ts.push(format!("oasset:{}:E{}", j, tag_hex(&own_token_other_flag(i, x)))); } } }
            }
            for (l, c) in bouts.iter().enumerate().skip(j + 1) {
                let (cv2, ca2) = (c.kind == 'c' || c.kind == 'v', c.kind == 'c' || c.kind == 'a');
                if conf_v && cv2 { ts.push(format!("swapval:{}:{}", j, l)); if conf_a == ca2 { ts.push(format!("swaprp:{}:{}", j, l)); } }
                if conf_a && ca2 { ts.push(format!("swapasset:{}:{}", j, l)); ts.push(format!("swapsp:{}:{}", j, l)); }
            }
        }
        let _ = n_out;
        if !thorough {
            // everything on the partially blinded outputs, one in three of the rest
            let keep = |t: &str| -> bool { let j: usize = t.split(':').nth(1).and_then(|x| x.parse().ok()).unwrap_or(0); matches!(bouts[j].kind, 'v' | 'a') };
            let mut c = 0; ts.retain(|t| { c += 1; keep(t) || c % 3 == 0 });
        }
        for t in ts {
            if out.len() >= n { break; }
            let Some(tp) = parse_tamper(&t) else { continue };
            let j: usize = t.split(':').nth(1).and_then(|x| x.parse().ok()).unwrap_or(0);
            let form = match bouts[j].kind { 'c' => "conf-asset-conf-value", 'v' => "explicit-asset-conf-value", 'a' => "conf-asset-explicit-value", _ => "explicit-asset-explicit-value" };
            out.push(Case { text: format!("C05 opened in={} bout={} seed={} tamper={}", ins_text, bout_text, hex(&seed), t),
                            tags: { let mut v = vec![format!("tamper-{}", class_of(&tp)), format!("at-{}", form), "mixed-outputs".into()]; v.extend(tg.iter().filter(|x| x.starts_with("iss")).cloned());
                                    if t.starts_with("oasset") && base.ins.iter().enumerate().any(|(i, s)| s.iss.as_ref().map(|x| t.ends_with(&tag_hex(&own_token_other_flag(i, x)))).unwrap_or(false)) { v.push("tamper-token-relabelled-other-flag".into()); } v },
                            nontrivial: true });
        }
    }
    out
}

/// every tamper class at every applicable position of the vector
fn vector_cases(rng: &mut ChaCha20Rng) -> Vec<Case> {
    let mut out = vec![];
    let Some((tx, _)) = doc_vector() else { return out };
    let Some((ins, outs)) = fabricate(&tx) else { return out };
    let bout = outs.iter().zip(tx.output.iter()).map(|(o, t)| format!("{}:{}:{}:{}:{}:{}", tag_hex(&o.2), o.0, abf_hex(&o.3), vbf_hex(&o.1),
        if t.script_pubkey.is_empty() { "-".to_string() } else { hex(t.script_pubkey.as_bytes()) }, if o.4 { "c" } else { "e" })).collect::<Vec<_>>().join(";");
    let mut ts: Vec<String> = vec![];
    let n = outs.len();
    for (j, o) in outs.iter().enumerate() {
        if o.4 {
            ts.push(format!("oval:{}:{}", j, vdesc(o.0 + 1, &o.1, &o.2, &o.3)));
            ts.push(format!("oasset:{}:{}", j, adesc(&o.2, &rabf(rng))));
            for k in ["rmrp", "corrp", "rmsp", "corsp"] { ts.push(format!("{}:{}", k, j)); }
            ts.push(format!("script:{}:{}", j, hex(&raddr_script(rng))));
            for t in ["6a", "6a0401020304", "-"] { ts.push(format!("script:{}:{}", j, t)); }
            for k in j + 1..n { if outs[k].4 { for t in ["swapval", "swapasset", "swaprp", "swapsp"] { ts.push(format!("{}:{}:{}", t, j, k)); } } }
        } else {
            ts.push(format!("oval:{}:E{}", j, o.0 + 1));
            ts.push(format!("oasset:{}:E{}", j, tag_hex(&rasset_id(rng))));
        }
    }
    let sc = |k: u8| { let mut b = [0u8; 32]; b[31] = k; b };
    let total: u64 = outs.iter().map(|o| o.0).sum();
    ts.push(format!("sval:0:{}", vdesc(total + 1, &ValueBlindingFactor::from_slice(&sc(6)).unwrap(), &outs[0].2, &AssetBlindingFactor::from_slice(&sc(5)).unwrap())));
    ts.push(format!("sasset:0:{}", adesc(&outs[0].2, &AssetBlindingFactor::from_slice(&sc(7)).unwrap())));
    for t in ts {
        let tp = match parse_tamper(&t) { Some(x) => x, None => continue };
        out.push(Case { text: format!("C05 opened in={} bout={} vec=doc tamper={}", ins, bout, t), tags: vec![format!("tamper-{}", class_of(&tp)), "real-network-vector".into()], nontrivial: true });
    }
    out
}

// ------------------------------------------------------------------------------------------------ exact-value / exact-asset proofs
/// `C05 exact ...`: BlindValueProofs / BlindAssetProofs of src/blind.rs run directly. The predicate is the property's own reading of an
/// EXACT proof, decided from how the case was built (never from the verifier): accepted only for the statement the proof was made for,
/// only for the committed value, and never when the proof states a range of more than one value (seeded C05-r6-1).
fn eval_exact(case: &str) -> Out {
    use elements::secp256k1_zkp::{Generator, SecretKey};
    use elements::{BlindAssetProofs, BlindValueProofs};
    use rand::SeedableRng;
    let f = |k: &str| field(case, k);
    let gen_of = |s: &str| -> Option<(AssetId, AssetBlindingFactor, Generator)> {
        let p: Vec<&str> = s.split('.').collect();
        if p.len() != 2 { return None; }
        let (a, b) = (asset_from_hex(p[0])?, AssetBlindingFactor::from_slice(&unhex(p[1])?).ok()?);
        Some((a, b, Generator::new_blinded(secp(), a.into_tag(), b.into_inner())))
    };
    let parsed = (|| { Some((f("k")?, asset_from_hex(f("asset")?)?, AssetBlindingFactor::from_slice(&unhex(f("abf")?)?).ok()?, f("claim")?, gen_of(f("vgen")?)?)) })();
    let Some((k, asset, abf, claim, (vg_asset, vg_abf, vgen))) = parsed else { return Out::ok("harnesserr parse".into()) };
    let mut rng = ChaCha20Rng::from_seed([9u8; 32]);
    let gen = Generator::new_blinded(secp(), asset.into_tag(), abf.into_inner());
    let same_gen = vg_asset == asset && vg_abf == abf;
    if k == "a" {
        let Some(claim) = asset_from_hex(claim) else { return Out::ok("harnesserr claim".into()) };
        let sp = match SurjectionProof::blind_asset_proof(&mut rng, secp(), asset, abf) { Ok(p) => p, Err(_) => return Out::ok("made=0".into()) };
        let ok = sp.blind_asset_proof_verify(secp(), claim, vgen);
        // the statement "vgen is a blinding of asset `claim`" is true exactly when claim = vg_asset; the proof was made for (asset, abf)
        let pred_fail = if ok && (claim != vg_asset || !same_gen) { Some(format!("exact-asset-proof-accepts-other|blind_asset_proof_verify accepts a proof made for asset {} as a proof that the generator of asset {} (blinded) is asset {}", tag_hex(&asset), tag_hex(&vg_asset), tag_hex(&claim))) }
            else if !ok && claim == asset && same_gen { Some("genuine-exact-asset-proof-rejected|blind_asset_proof_verify refuses the proof blind_asset_proof made for this asset and generator".into()) } else { None };
        return Out { result: format!("made=1 ok={}", ok as u8), pred_fail };
    }
    let parsed = (|| {
        let vc: Vec<&str> = f("vcom")?.split('.').collect();
        if vc.len() != 2 { return None; }
        Some((f("value")?.parse::<u64>().ok()?, ValueBlindingFactor::from_slice(&unhex(f("vbf")?)?).ok()?, f("mk")?, claim.parse::<u64>().ok()?, vc[0].parse::<u64>().ok()?, ValueBlindingFactor::from_slice(&unhex(vc[1])?).ok()?))
    })();
    let Some((value, vbf, mk, claim, cv, cvbf)) = parsed else { return Out::ok("harnesserr parse".into()) };
    let commit_of = |v: u64, b: ValueBlindingFactor| Value::new_confidential(secp(), v, gen, b).commitment();
    let (Some(c), Some(vcom)) = (commit_of(value, vbf), commit_of(cv, cvbf)) else { return Out::ok("harnesserr commit".into()) };
    let wide: Option<(u64, u8)> = if mk == "e" { None } else { let p: Vec<&str> = mk.split('.').collect(); match (p.get(1).and_then(|x| x.parse().ok()), p.get(2).and_then(|x| x.parse().ok())) { (Some(m), Some(b)) if p[0] == "w" => Some((m, b)), _ => return Out::ok("harnesserr mk".into()) } };
    let made = match wide {
        None => RangeProof::blind_value_proof(&mut rng, secp(), value, c, gen, vbf),
        Some((m, b)) => RangeProof::new(secp(), m, c, value, vbf.into_inner(), &[], &[], SecretKey::new(&mut rng), 0, b, gen),
    };
    let rp = match made { Ok(p) => p, Err(_) => return Out::ok("made=0".into()) };
    let range = match rp.verify(secp(), c, &[], gen) { Ok(r) => format!("{}..{}", r.start, r.end), Err(_) => "-".into() };
    let ok = rp.blind_value_proof_verify(secp(), claim, vgen, vcom);
    let same_stmt = same_gen && cv == value && cvbf == vbf;
    // a proof made with exponent 0 states 2^mantissa >= 2 values unless min_value = u64::MAX forces an exact proof
    let states_one_value = wide.map(|(m, _)| m == u64::MAX).unwrap_or(true);
    let pred_fail = if ok && !states_one_value { Some(format!("exact-proof-accepts-a-range|blind_value_proof_verify({}) accepts a range proof over {} (committed value {}) as a proof of the exact value", claim, range, value)) }
        else if ok && claim != value { Some(format!("exact-proof-accepts-other-value|blind_value_proof_verify accepts claimed value {} for a commitment to {}", claim, value)) }
        else if ok && !same_stmt { Some("exact-proof-accepts-other-statement|blind_value_proof_verify accepts a proof made for another commitment or generator".to_string()) }
        else if !ok && wide.is_none() && claim == value && same_stmt { Some("genuine-exact-proof-rejected|blind_value_proof_verify refuses the proof blind_value_proof made for this value, commitment and generator".into()) } else { None };
    Out { result: format!("made=1 range={} ok={}", range, ok as u8), pred_fail }
}
fn exact_cases(rng: &mut ChaCha20Rng, n: usize) -> Vec<Case> {
    let mut out = vec![];
    let mut k = 0usize;
    let vals: [u64; 12] = [0, 1, 2, 1000, 1500, 65_535, 65_536, (1 << 52) - 1, 1 << 52, i64::MAX as u64 - 1, i64::MAX as u64, 2_100_000_000_000_000];
    while out.len() < n {
        let (asset, abf) = (rasset_id(rng), rabf(rng));
        let g = format!("{}.{}", tag_hex(&asset), abf_hex(&abf));
        let other_g = match k % 3 { 0 => format!("{}.{}", tag_hex(&asset), abf_hex(&rabf(rng))), 1 => format!("{}.{}", tag_hex(&rasset_id(rng)), abf_hex(&abf)), _ => format!("{}.{}", tag_hex(&asset), hex(&[0u8; 32])) };
        if k % 5 == 4 {
            // exact-asset proofs: genuine, other asset claimed, other generator (other abf / other asset / unblinded)
            let (claim, vg, tag) = match (k / 5) % 4 { 0 => (asset, g.clone(), "genuine"), 1 => (rasset_id(rng), g.clone(), "other-asset-claimed"), 2 => (asset, other_g.clone(), "other-generator"), _ => (asset, g.clone(), "genuine") };
            out.push(Case { text: format!("C05 exact k=a asset={} abf={} claim={} vgen={}", tag_hex(&asset), abf_hex(&abf), tag_hex(&claim), vg), tags: vec!["exact-asset-proof".into(), format!("exact-asset-{}", tag)], nontrivial: true });
            k += 1; continue;
        }
        let value = if k % 7 == 6 { rng.gen_range(3..u64::MAX) } else { vals[(k / 2) % vals.len()] + if k % 4 == 3 { rng.gen_range(0..1000) } else { 0 } };
        let vbf = rvbf(rng);
        // how the proof is made: the genuine exact proof, or a range proof that STARTS at some minimum (the claimed value, 0, 1, value-1, ...)
        let (mk, tag): (String, &str) = match k % 6 {
            0 | 1 => ("e".into(), "made-exact"),
            2 => (format!("w.{}.{}", value, [0u8, 1, 8, 16, 52][(k / 6) % 5]), "made-range-from-value"),
            3 => { let m = [0u64, 1, value / 2, value.saturating_sub(1), value.saturating_sub(500)][(k / 6) % 5].min(value); (format!("w.{}.{}", m, [0u8, 16, 52, 1, 63][(k / 12) % 5]), "made-range-from-below") }
            4 => { let m = value.saturating_sub(rng.gen_range(1..70_000)).min(value); (format!("w.{}.{}", m, rng.gen_range(0..32u8)), "made-range-random") }
            _ => (format!("w.{}.0", value.saturating_add(1 + (k as u64 % 3))), "made-range-min-above-value"),
        };
        // RangeProof::verify of the dependency computes max_value + 1: stay below a proven range that ends at u64::MAX
        let mk = if mk.starts_with("w.0.") && value > i64::MAX as u64 { "e".to_string() } else { mk };
        let min_of = |mk: &str| mk.split('.').nth(1).and_then(|x| x.parse::<u64>().ok());
        let (claim, ctag) = match (k / 3) % 5 { 0 | 1 => (value, "claim-committed-value"), 2 => (min_of(&mk).unwrap_or(value.wrapping_add(1)), "claim-range-minimum"), 3 => (value.wrapping_add(1), "claim-value-plus-1"), _ => (value.saturating_sub(1), "claim-value-minus-1") };
        let (vg, vcv, vcb, stag) = match (k / 2) % 9 { 0 => (other_g.clone(), value, vbf, "verify-other-generator"), 1 => (g.clone(), value, rvbf(rng), "verify-other-blinding"), 2 => (g.clone(), claim, vbf, "verify-commitment-to-claim"), _ => (g.clone(), value, vbf, "verify-own-statement") };
        out.push(Case { text: format!("C05 exact k=v asset={} abf={} value={} vbf={} mk={} claim={} vgen={} vcom={}.{}", tag_hex(&asset), abf_hex(&abf), value, vbf_hex(&vbf), mk, claim, vg, vcv, vbf_hex(&vcb)),
                        tags: vec!["exact-value-proof".into(), format!("exact-{}", tag), format!("exact-{}", ctag), format!("exact-{}", stag)], nontrivial: true });
        k += 1;
    }
    out
}

pub fn eval(case: &str) -> Out {
    match case.split(' ').nth(1).unwrap_or("") { "tamper" => eval_tamper(case), "explicit" => eval_explicit(case), "opened" => eval_opened(case), "exact" => eval_exact(case), _ => Out::ok("harnesserr kind".into()) }
}

// ------------------------------------------------------------------------------------------------ generators
fn vdesc(v: u64, vbf: &ValueBlindingFactor, a: &AssetId, abf: &AssetBlindingFactor) -> String { format!("C{}.{}.{}.{}", v, vbf_hex(vbf), tag_hex(a), abf_hex(abf)) }
fn adesc(a: &AssetId, abf: &AssetBlindingFactor) -> String { format!("C{}.{}", tag_hex(a), abf_hex(abf)) }
/// every tamper class of the property at every applicable position of this blinded transaction
pub fn all_tampers(rng: &mut ChaCha20Rng, spec: &TxSpec, b: &Blinded) -> Vec<String> {
    let mut v = vec![];
    let n = spec.outs.len();
    let open = |j: usize| -> Option<(u64, ValueBlindingFactor, AssetId, AssetBlindingFactor)> {
        b.blinds.get(&elements::CtLocation { input_index: j, ty: elements::CtLocationType::Input }).map(|(abf, vbf, _)| (spec.outs[j].value, *vbf, spec.outs[j].asset, *abf))
    };
    let other_asset = |rng: &mut ChaCha20Rng, a: &AssetId| -> AssetId { spec.outs.iter().map(|o| o.asset).find(|x| x != a).filter(|_| rng.gen_bool(0.7)).unwrap_or_else(|| rasset_id(rng)) };
    for j in 0..n {
        let o = &spec.outs[j];
        match open(j) {
            None => {
                v.push(format!("oval:{}:E{}", j, o.value + 1 + rng.gen_range(0..1000)));
                if o.value > 1 { v.push(format!("oval:{}:E{}", j, o.value - 1)); }
                v.push(format!("oasset:{}:E{}", j, tag_hex(&other_asset(rng, &o.asset))));
                // a reissuance-token output relabelled to the token id with the other confidentiality flag
                for (i, s) in spec.ins.iter().enumerate() { if let Some(x) = &s.iss { if own_issuance_ids(i, x).1 == o.asset { v.push(format!("oasset:{}:E{}", j, tag_hex(&own_token_other_flag(i, x)))); } } }
            }
            Some((val, vbf, a, abf)) => {
                v.push(format!("oval:{}:{}", j, vdesc(val + 1, &vbf, &a, &abf)));
                v.push(format!("oval:{}:{}", j, vdesc(val, &rvbf(rng), &a, &abf)));
                v.push(format!("oasset:{}:{}", j, adesc(&a, &rabf(rng))));
                v.push(format!("oasset:{}:{}", j, adesc(&other_asset(rng, &a), &abf)));
                for k in ["rmrp", "corrp", "rmsp", "corsp"] { v.push(format!("{}:{}", k, j)); }
                v.push(format!("script:{}:{}", j, hex(&raddr_script(rng))));
                v.push(burn_tamper(rng, j));
                if let Some(k) = (0..n).find(|k| *k != j && open(*k).is_some()) {
                    let (v2, vbf2, a2, abf2) = open(k).unwrap();
                    v.push(format!("oval:{}:{}", j, vdesc(v2, &vbf2, &a2, &abf2)));      // another output's commitment
                    v.push(format!("oasset:{}:{}", j, adesc(&a2, &abf2)));
                }
            }
        }
    }
    for j in 0..n { for k in j + 1..n {
        match (open(j).is_some(), open(k).is_some()) {
            (true, true) => for t in ["swapval", "swapasset", "swaprp", "swapsp"] { v.push(format!("{}:{}:{}", t, j, k)); },
            _ => {}
        }
    } }
    for (i, s) in spec.ins.iter().enumerate() {
        if let Some(x) = &s.iss {
            if let (Some(a), None) = (x.amount, x.amount_vbf) { v.push(format!("iss:{}:a:{}", i, a + 1 + rng.gen_range(0..100))); }
            if let (Some(k), None) = (x.keys, x.keys_vbf) { v.push(format!("iss:{}:k:{}", i, k + 1)); }
        }
        if s.ev { v.push(format!("sval:{}:E{}", i, s.sec.value + 1)); if s.sec.value > 1 { v.push(format!("sval:{}:E{}", i, s.sec.value - 1)); } }
        else { v.push(format!("sval:{}:{}", i, vdesc(s.sec.value + 1, &s.sec.value_bf, &s.sec.asset, &s.sec.asset_bf)));
               v.push(format!("sval:{}:{}", i, vdesc(s.sec.value, &rvbf(rng), &s.sec.asset, &s.sec.asset_bf))); }
        if s.ea { v.push(format!("sasset:{}:E{}", i, tag_hex(&other_asset(rng, &s.sec.asset)))); }
        else { v.push(format!("sasset:{}:{}", i, adesc(&s.sec.asset, &rabf(rng)))); v.push(format!("sasset:{}:{}", i, adesc(&other_asset(rng, &s.sec.asset), &s.sec.asset_bf))); }
    }
    v
}

pub fn gen(rng: &mut ChaCha20Rng, n: usize, thorough: bool) -> Vec<Case> {
    let mut out = Vec::new();
    // (0) the repository's real-network vector (doc example of verify_tx_amt_proofs), every class at every position
    let mut vc = vector_cases(rng);
    // (0b) transactions built directly with every combination explicit/confidential of (asset, value) per output
    vc.extend(mixed_cases(rng, if thorough { n / 4 } else { (n / 3).max(60) }, thorough));
    // (0c) exact-value and exact-asset proofs of PSET explicit fields
    vc.extend(exact_cases(rng, if thorough { n / 3 } else { 90 }));
    let n_vec = vc.len();
    out.extend(vc);
    // (1) tampers of blinded transactions: every class at every applicable position (thorough) or a sample of them per transaction (quick)
    let n_tamper = n_vec + n * 3 / 4;
    let mut k = 0;
    while out.len() < n_tamper {
        let sh = Shape { nin: 1 + k % 3, nassets: 1 + (k / 3) % 2, extra_outs: 1 + (k / 2) % 3, iss: [0, 4, 1, 4, 3][k % 5], fee: k % 4 != 3 };
        let mut tags = vec![];
        let base = gen_balanced(rng, &sh, &mut tags);
        let nm = base.outs.iter().filter(|o| !o.script.is_empty()).count() as u32;
        let mask = if k % 3 == 0 { (1u32 << nm) - 1 } else { rng.gen_range(1..(1u32 << nm)) };
        let spec = mark(rng, &base, mask);
        let seed = r32(rng);
        k += 1;
        let b = match run_blind(&spec, seed) { BlindRes::Ok(b) => b, _ => continue };
        let rnd = rnd_of_blinds(&b.blinds).join(",");
        let mut ts = all_tampers(rng, &spec, &b);
        if !thorough {
            // keep one of each class (rotating the position) plus a few more
            let mut seen: BTreeMap<&'static str, usize> = BTreeMap::new();
            let rot = rng.gen_range(0..4);
            let relabel = |t: &str| t.starts_with("oasset") && spec.ins.iter().enumerate().any(|(i, s)| s.iss.as_ref().map(|x| t.ends_with(&tag_hex(&own_token_other_flag(i, x)))).unwrap_or(false));
            ts.retain(|t| { let c = class_of(&parse_tamper(t).unwrap()); let e = seen.entry(c).or_default(); *e += 1; (*e + rot) % 4 == 1 || relabel(t) });
        }
        for t in ts {
            if out.len() >= n_tamper { break; }
            let tp = parse_tamper(&t).unwrap();
            let mut tg = vec![format!("tamper-{}", class_of(&tp))];
            tg.extend(tags.iter().filter(|x| x.starts_with("iss")).cloned());
            if t.starts_with("oasset") && spec.ins.iter().enumerate().any(|(i, s)| s.iss.as_ref().map(|x| t.ends_with(&tag_hex(&own_token_other_flag(i, x)))).unwrap_or(false)) { tg.push("tamper-token-relabelled-other-flag".into()); }
            shape_tags(&spec, &mut tg);
            out.push(Case { text: format!("C05 tamper prof=d {} rnd={} seed={} tamper={}", fmt_spec(&spec), rnd, hex(&seed), t), tags: tg, nontrivial: true });
        }
    }
    // (2) all-explicit transactions
    let mut k = 0;
    while out.len() < n_vec + n {
        let sh = Shape { nin: 1 + k % 4, nassets: 1 + (k / 2) % 3, extra_outs: k % 3, iss: [0, 1, 2, 0][k % 4], fee: k % 3 != 2 };
        let mut tags = vec![];
        let mut spec = gen_balanced(rng, &sh, &mut tags);
        // fully explicit spent outputs in most cases
        if k % 5 != 4 { for s in spec.ins.iter_mut() { s.ea = true; s.ev = true; s.sec = elements::TxOutSecrets::new(s.sec.asset, AssetBlindingFactor::zero(), s.sec.value, ValueBlindingFactor::zero()); } tags = vec!["all-explicit".into()]; } else { tags.push("explicit-tx-confidential-spent".into()); }
        let mut sl = spec.ins.len();
        let variant = k % 12;
        match variant {
            0 | 1 => tags.push("balanced".into()),
            2 => { let j = rng.gen_range(0..spec.outs.len()); spec.outs[j].value += 1 + rng.gen_range(0..50); tags.push("unbalanced-output".into()); }
            3 => { let j = rng.gen_range(0..spec.ins.len()); let s = &mut spec.ins[j]; s.sec = elements::TxOutSecrets::new(s.sec.asset, s.sec.asset_bf, s.sec.value + 1, s.sec.value_bf); tags.push("unbalanced-input".into()); }
            4 => { spec.outs.push(OutSpec { asset: spec.outs[0].asset, value: 0, script: vec![0x6a, 0x04, 1, 2, 3, 4], nonce: NonceSpec::Null }); tags.push("zero-value-opreturn".into()); }
            5 => { if let Some(f) = spec.outs.iter().position(|o| o.script.is_empty()) { let v = spec.outs[f].value; spec.outs[f].value = 0; let a = spec.outs[f].asset;
                       if let Some(o) = spec.outs.iter_mut().enumerate().find(|(i, o)| *i != f && o.asset == a).map(|x| x.1) { o.value += v; } tags.push("zero-value-fee".into()); }
                   else { spec.outs.push(OutSpec { asset: spec.outs[0].asset, value: 0, script: vec![], nonce: NonceSpec::Null }); tags.push("zero-value-fee-added".into()); } }
            6 => { spec.outs.push(OutSpec { asset: spec.outs[0].asset, value: 0, script: raddr_script(rng), nonce: NonceSpec::Null }); tags.push("zero-value-spendable".into()); }
            7 => { sl = if rng.gen_bool(0.5) && sl > 0 { sl - 1 } else { sl + 1 }; tags.push("spent-length-mismatch".into()); }
            // is_provably_unspendable's third arm: longer than MAX_SCRIPT_SIZE (10_000 bytes), not starting with OP_RETURN
            9 => { let mut sc = vec![0x51u8; 10_001]; sc[1] = rng.gen_range(0x51..0x60); spec.outs.push(OutSpec { asset: spec.outs[0].asset, value: 0, script: sc, nonce: NonceSpec::Null }); tags.push("zero-value-script-10001".into()); }
            10 => { let mut sc = vec![0x51u8; 10_000]; sc[1] = rng.gen_range(0x51..0x60); spec.outs.push(OutSpec { asset: spec.outs[0].asset, value: 0, script: sc, nonce: NonceSpec::Null }); tags.push("zero-value-script-10000".into()); }
            // explicit amounts of one asset whose sum passes 2^64: x is replaced by (x + 2^63) and a further output of 2^63 — equal to x modulo 2^64,
            // not as integers, not in the group (seeded C05-r6-3: explicit outputs added up in a wrapping u64)
            11 => { let j = rng.gen_range(0..spec.outs.len()); if spec.outs[j].value < (1u64 << 63) { spec.outs[j].value += 1u64 << 63;
                        let extra = OutSpec { asset: spec.outs[j].asset, value: 1u64 << 63, script: raddr_script(rng), nonce: NonceSpec::Null }; spec.outs.push(extra); tags.push("unbalanced-by-2^64".into()); }
                    else { tags.push("balanced".into()); } }
            _ => { let j = rng.gen_range(0..spec.outs.len()); let a = spec.outs[j].asset; spec.outs[j].asset = rasset_id(rng); let _ = a; tags.push("asset-changed".into()); }
        }
        tags.push(format!("nin{}", spec.ins.len())); tags.push(format!("nout{}", spec.outs.len()));
        out.push(Case { text: format!("C05 explicit {} spentlen={}", fmt_spec(&spec), sl), tags, nontrivial: true });
        k += 1;
    }
    out
}
