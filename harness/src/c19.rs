//! C19: dynafed parameter roots survive compaction and match the commitment layout.
use crate::{c01, txgen::{ref_bytes, ref_params_vec, ref_stack}, util::*, Case, Out};
use elements::dynafed::Params;
use elements::encode::{deserialize, serialize};
use elements::hashes::{sha256d, Hash};
use elements::{BlockExtData, BlockHeader};
use rand::Rng;
use rand_chacha::ChaCha20Rng;

fn sh<T: elements::encode::Encodable>(x: &T) -> [u8; 32] { sha256d::Hash::hash(&serialize(x)).to_byte_array() }
// the definitional merkle tree (c18::definitional: the hashes crate's SHA-256 compression, not the crate's fast_merkle_root)
fn fmr(l: &[[u8; 32]]) -> [u8; 32] { crate::c18::definitional(l) }

pub fn eval(case: &str) -> Out {
    let w: Vec<&str> = case.split(' ').collect();
    if w.len() != 4 { return Out::ok("harnesserr args".into()); }
    let (bc, bp) = match (unhex(w[2]), unhex(w[3])) { (Some(a), Some(b)) => (a, b), _ => return Out::ok("harnesserr hex".into()) };
    let (c, p) = match (deserialize::<Params>(&bc), deserialize::<Params>(&bp)) { (Ok(c), Ok(p)) => (c, p), _ => return Out::ok("err".into()) };
    // self-contained history: first hash a SHAPE TWIN of each full parameter set (same lengths everywhere, other bytes), so that a root that is
    // remembered by shape / length / position rather than computed from the content shows on this case alone (and replays from it)
    for x in [&c, &p] {
        if let Params::Full(f) = x {
            let mut g = f.clone();
            for e in g.extension_space.iter_mut() { for b in e.iter_mut() { *b ^= 0x5a; } }
            for b in g.fedpegscript.iter_mut() { *b ^= 0x5a; }
            let _ = (g.calculate_root(), Params::Full(g.clone()).into_compact().map(|k| k.calculate_root()));
        }
    }
    let rc = c.calculate_root().to_byte_array();
    let rp = p.calculate_root().to_byte_array();
    let compact = c.clone().into_compact().map(|k| k.calculate_root().to_byte_array());
    let full = c.full().map(|f| f.calculate_root().to_byte_array());
    let header = BlockHeader { version: 1, prev_blockhash: elements::BlockHash::from_byte_array([0; 32]), merkle_root: elements::TxMerkleNode::from_byte_array([0; 32]), time: 0, height: 0,
        ext: BlockExtData::Dynafed { current: c.clone(), proposed: p.clone(), signblock_witness: vec![] } };
    let hr = header.calculate_dynafed_params_root().map(|r| r.to_byte_array());
    let mut fail = None;
    if let Some(k) = compact { if k != rc { fail = Some("compaction-changes-root|the root of the compact form differs from the root of the full form".to_string()); } }
    if let Some(f) = full { if f != rc { fail = Some("two-computations|FullParams::calculate_root differs from Params::calculate_root".to_string()); } }
    if c.is_null() && rc != [0u8; 32] { fail = Some("null-root|null parameters do not have the all-zero root".to_string()); }
    // the layout, recomputed from the fields
    if let Some(f) = c.full() {
        // leaves hashed from the reference encoding (txgen::ref_*: own compact-size writer), not from the crate's encoder
        let shb = |b: &[u8]| { let mut o = Vec::new(); ref_bytes(&mut o, b); sha256d::Hash::hash(&o).to_byte_array() };
        let ext = { let mut o = Vec::new(); ref_stack(&mut o, &f.extension_space); sha256d::Hash::hash(&o).to_byte_array() };
        let compact_root = fmr(&[shb(f.signblockscript.as_bytes()), sha256d::Hash::hash(&f.signblock_witness_limit.to_le_bytes()).to_byte_array()]);
        let extra = fmr(&[shb(f.fedpeg_program.as_bytes()), shb(&f.fedpegscript), ext]);
        if sh(&f.signblockscript) != shb(f.signblockscript.as_bytes()) || sh(&f.fedpegscript) != shb(&f.fedpegscript) || sh(&f.extension_space) != ext { fail = Some("leaf-encoding|a committed field's consensus encoding (crate) differs from the reference encoding".to_string()); }
        if rc != fmr(&[compact_root, extra]) { fail = Some("layout|root is not the two-level commitment to (signblockscript, limit) and (fedpeg program, fedpeg script, extension space)".to_string()); }
        if let Some(Params::Compact { signblockscript, signblock_witness_limit, elided_root }) = c.clone().into_compact() {
            if signblockscript != f.signblockscript || signblock_witness_limit != f.signblock_witness_limit || elided_root.to_byte_array() != extra { fail = Some("compact-fields|compaction changed the signblock fields or the elided root".to_string()); }
        }
    }
    if let Params::Compact { signblockscript, signblock_witness_limit, elided_root } = &c {
        let shb = |b: &[u8]| { let mut o = Vec::new(); ref_bytes(&mut o, b); sha256d::Hash::hash(&o).to_byte_array() };
        let compact_root = fmr(&[shb(signblockscript.as_bytes()), sha256d::Hash::hash(&signblock_witness_limit.to_le_bytes()).to_byte_array()]);
        if rc != fmr(&[compact_root, elided_root.to_byte_array()]) { fail = Some("layout-compact|root of compact parameters is not the commitment to (signblockscript, limit) and the elided root".to_string()); }
    }
    if hr != Some(fmr(&[rc, rp])) { fail = Some("header-root|header dynafed root is not the fast merkle root of the two parameter roots".to_string()); }
    let show = |o: Option<[u8; 32]>| o.map(|x| hex(&x)).unwrap_or_else(|| "-".into());
    Out { result: format!("ok {} {} {} {} {}", hex(&rc), hex(&rp), show(compact), show(full), show(hr)), pred_fail: fail }
}

pub fn gen(rng: &mut ChaCha20Rng, n: usize, _thorough: bool) -> Vec<Case> {
    let mut out = Vec::new();
    for _ in 0..n {
        let mut tags = Vec::new();
        let c = c01::rparams(rng, &mut tags);
        let p = c01::rparams(rng, &mut tags);
        let nt = !(c.is_null() && p.is_null());
        let _ = rng.gen::<u8>();
        out.push(Case { text: format!("C19 {} {} {}", c01::caps(), hex(&ref_params_vec(&c)), hex(&ref_params_vec(&p))), tags: tags.clone(), nontrivial: nt });
        // twin: the same parameter sets with the same SHAPE (all lengths equal) but other content in one committed field, evaluated right after
        // the original in the same process and thread — a root that is remembered by shape, length or position shows here
        if let Params::Full(f) = &c {
            let mut g = f.clone();
            let mut what = None;
            if let Some(e) = g.extension_space.iter_mut().find(|e| !e.is_empty()) { let k = rng.gen_range(0..e.len()); e[k] ^= 0x55; what = Some("extension-entry"); }
            else if !g.fedpegscript.is_empty() { let k = rng.gen_range(0..g.fedpegscript.len()); g.fedpegscript[k] ^= 0x55; what = Some("fedpegscript"); }
            else if !g.signblockscript.is_empty() { let mut b = g.signblockscript.to_bytes(); let k = rng.gen_range(0..b.len()); b[k] ^= 0x55; g.signblockscript = elements::Script::from(b); what = Some("signblockscript"); }
            if let Some(w) = what {
                let mut t2 = tags.clone(); t2.push(format!("twin:{}", w));
                let c2 = Params::Full(g);
                out.push(Case { text: format!("C19 {} {} {}", c01::caps(), hex(&ref_params_vec(&c2)), hex(&ref_params_vec(&p))), tags: t2.clone(), nontrivial: true });
                // ... and the original once more after the twin (swapped positions: proposed / current)
                out.push(Case { text: format!("C19 {} {} {}", c01::caps(), hex(&ref_params_vec(&p)), hex(&ref_params_vec(&c))), tags: t2, nontrivial: nt });
            }
        }
    }
    out
}
