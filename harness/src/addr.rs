//! Shared by C17 / C06: canonical text of address parse results (must equal coq/Extract/RunAddr.v byte for byte),
//! random address construction.
use crate::util::*;
use bech32::Fe32;
use elements::address::{AddressError, AddressParams, Payload};
use elements::bitcoin::hashes::Hash as _;
use elements::secp256k1_zkp as secp;
use elements::{Address, PubkeyHash, ScriptHash};
use rand::Rng;
use rand_chacha::ChaCha20Rng;
use std::str::FromStr;

pub static NETS: [(&str, &AddressParams); 3] =
    [("liq", &AddressParams::LIQUID), ("ele", &AddressParams::ELEMENTS), ("tliq", &AddressParams::LIQUID_TESTNET)];

fn hex_or_dash(b: &[u8]) -> String { if b.is_empty() { "-".into() } else { hex(b) } }

fn hrp_err(e: &bech32::primitives::hrp::Error) -> &'static str {
    use bech32::primitives::hrp::Error as E;
    match e {
        E::TooLong(_) => "hrptoolong", E::Empty => "hrpempty", E::NonAsciiChar(_) => "hrpnonascii",
        E::InvalidAsciiByte(_) => "hrpinvalidbyte", E::MixedCase => "hrpmixedcase", _ => "hrp?",
    }
}
fn wl_err(e: &bech32::primitives::segwit::WitnessLengthError) -> &'static str {
    use bech32::primitives::segwit::WitnessLengthError as E;
    match e { E::TooShort => "wlshort", E::TooLong => "wllong", E::InvalidSegwitV0 => "wlv0", _ => "wl?" }
}
fn bech32_err(e: &bech32::primitives::decode::SegwitHrpstringError) -> String {
    use bech32::primitives::decode::{CharError as C, ChecksumError as K, PaddingError as P, SegwitHrpstringError as E, UncheckedHrpstringError as U};
    match e {
        E::Unchecked(U::Char(c)) => match c { C::MissingSeparator => "missingsep", C::NothingAfterSeparator => "nothingaftersep", C::InvalidChar(_) => "invalidchar", C::MixedCase => "mixedcase", _ => "char?" }.into(),
        E::Unchecked(U::Hrp(h)) => hrp_err(h).into(),
        E::NoData => "nodata".into(),
        E::TooLong(_) => "toolong".into(),
        E::InvalidWitnessVersion(_) => "witver".into(),
        E::Padding(P::TooMuch) => "padtoomuch".into(),
        E::Padding(P::NonZero) => "padnonzero".into(),
        E::WitnessLength(w) => wl_err(w).into(),
        E::Checksum(K::CodeLength(_)) => "codelength".into(),
        E::Checksum(K::InvalidResidue) => "residue".into(),
        E::Checksum(K::InvalidLength) => "cklength".into(),
        _ => "other?".into(),
    }
}
fn blech32_err(e: &elements::blech32::decode::SegwitHrpstringError) -> String {
    use elements::blech32::decode::{CharError as C, ChecksumError as K, PaddingError as P, SegwitHrpstringError as E, UncheckedHrpstringError as U};
    match e {
        E::Unchecked(U::Char(c)) => match c { C::MissingSeparator => "missingsep", C::NothingAfterSeparator => "nothingaftersep", C::InvalidChar(_) => "invalidchar", C::MixedCase => "mixedcase", C::InvalidChecksum => "char-invalidchecksum", C::InvalidChecksumLength => "char-invalidchecksumlength", _ => "char?" }.into(),
        E::Unchecked(U::Hrp(h)) => hrp_err(h).into(),
        E::MissingWitnessVersion => "nodata".into(),
        E::InvalidWitnessVersion(_) => "witver".into(),
        E::Padding(P::TooMuch) => "padtoomuch".into(),
        E::Padding(P::NonZero) => "padnonzero".into(),
        E::WitnessLength(w) => wl_err(w).into(),
        E::Checksum(K::InvalidChecksum) => "residue".into(),
        E::Checksum(K::InvalidChecksumLength) => "cklength".into(),
        _ => "other?".into(),
    }
}
pub fn err_name(e: &AddressError) -> String {
    use elements::bitcoin::base58::Error as B;
    match e {
        AddressError::Base58(b) => format!("base58:{}", match b { B::Decode(_) => "invalidchar", B::IncorrectChecksum(_) => "checksum", B::TooShort(_) => "tooshort", _ => "other?" }),
        AddressError::Bech32(b) => format!("bech32:{}", bech32_err(b)),
        AddressError::Blech32(b) => format!("blech32:{}", blech32_err(b)),
        AddressError::InvalidAddress(_) => "invalidaddress".into(),
        AddressError::InvalidWitnessVersion(_) => "invalidwitnessversion".into(),
        AddressError::InvalidWitnessProgramLength(_) => "invalidwitnessprogramlength".into(),
        AddressError::InvalidSegwitV0ProgramLength(_) => "invalidsegwitv0programlength".into(),
        AddressError::InvalidWitnessEncoding => "invalidwitnessencoding".into(),
        AddressError::InvalidSegwitV0Encoding => "invalidsegwitv0encoding".into(),
        AddressError::InvalidBlindingPubKey(_) => "invalidblindingpubkey".into(),
        AddressError::InvalidLength(_) => "invalidlength".into(),
        AddressError::InvalidAddressVersion(_) => "invalidaddressversion".into(),
    }
}
pub fn show_addr(a: &Address) -> String {
    let pl = match &a.payload {
        Payload::PubkeyHash(h) => format!("pkh {}", hex(h.as_byte_array())),
        Payload::ScriptHash(h) => format!("sh {}", hex(h.as_byte_array())),
        Payload::WitnessProgram { version, program } => format!("wp{} {}", version.to_u8(), hex_or_dash(program)),
    };
    let bl = match &a.blinding_pubkey { Some(pk) => hex(&pk.serialize()), None => "-".into() };
    format!("ok {} {} {}", a.params.bech_hrp, pl, bl)
}
pub fn show_res(r: &Result<Address, AddressError>) -> String {
    match r { Ok(a) => show_addr(a), Err(e) => format!("err {}", err_name(e)) }
}
/// FromStr and parse_with_params under each built-in network
pub fn four(s: &str) -> Vec<Result<Address, AddressError>> {
    let mut v = vec![Address::from_str(s)];
    for (_, p) in NETS.iter() { v.push(Address::parse_with_params(s, p)); }
    v
}
pub fn show_four(rs: &[Result<Address, AddressError>]) -> String {
    format!("fs=[{}] liq=[{}] ele=[{}] tliq=[{}]", show_res(&rs[0]), show_res(&rs[1]), show_res(&rs[2]), show_res(&rs[3]))
}

pub fn rand_blinder(rng: &mut ChaCha20Rng) -> secp::PublicKey {
    let ctx = secp::Secp256k1::new();
    loop {
        if let Ok(sk) = secp::SecretKey::from_slice(&r32(rng)) { return secp::PublicKey::from_secret_key(&ctx, &sk); }
    }
}
pub fn fe(v: u8) -> Fe32 { Fe32::try_from(v).expect("< 32") }
/// kind: 0 = p2pkh, 1 = p2sh, 2 = witness program (version, length)
pub fn mk_addr(rng: &mut ChaCha20Rng, net: usize, kind: u32, ver: u8, plen: usize, blinded: bool) -> Address {
    let blinding_pubkey = if blinded { Some(rand_blinder(rng)) } else { None };
    let payload = match kind {
        0 => Payload::PubkeyHash(PubkeyHash::from_byte_array(<[u8; 20]>::try_from(&rbytes(rng, 20)[..]).unwrap())),
        1 => Payload::ScriptHash(ScriptHash::from_byte_array(<[u8; 20]>::try_from(&rbytes(rng, 20)[..]).unwrap())),
        _ => Payload::WitnessProgram { version: fe(ver), program: rbytes(rng, plen) },
    };
    Address { params: NETS[net].1, payload, blinding_pubkey }
}
/// an address produced by one of the crate's own constructors from random keys / scripts
pub fn ctor_addr(rng: &mut ChaCha20Rng, net: usize, which: u32, blinded: bool) -> (Address, &'static str) {
    let params = NETS[net].1;
    let blinder = if blinded { Some(rand_blinder(rng)) } else { None };
    let pk = elements::bitcoin::PublicKey::new(rand_blinder(rng));
    let n = rng.gen_range(0..40);
    let script: elements::Script = rbytes(rng, n).into();
    match which % 7 {
        0 => (Address::p2pkh(&pk, blinder, params), "p2pkh"),
        1 => (Address::p2sh(&script, blinder, params), "p2sh"),
        2 => (Address::p2wpkh(&pk, blinder, params), "p2wpkh"),
        3 => (Address::p2shwpkh(&pk, blinder, params), "p2shwpkh"),
        4 => (Address::p2wsh(&script, blinder, params), "p2wsh"),
        5 => (Address::p2shwsh(&script, blinder, params), "p2shwsh"),
        _ => {
            let (x, _) = rand_blinder(rng).x_only_public_key();
            (Address::p2tr_tweaked(elements::schnorr::TweakedPublicKey::new(x), blinder, params), "p2tr")
        }
    }
}
