//! C15: taproot script trees commit every leaf and nothing else.
//! Runs the real TaprootBuilder / TaprootSpendInfo / ControlBlock on the case and prints the canonical line the Coq model
//! must reproduce; independently recomputes the tree (own DFS parser, own tagged SHA-256) to evaluate the property itself.
use crate::{util::*, Case, Out};
use elements::hashes::{sha256, Hash, HashEngine};
use elements::schnorr::{TapTweak, TweakedPublicKey};
use elements::secp256k1_zkp::{Keypair, Parity, Scalar, Secp256k1, XOnlyPublicKey};
use elements::taproot::{
    ControlBlock, LeafVersion, NodeInfo, TapNodeHash, TapTweakHash, TaprootBuilder, TaprootBuilderError, TaprootError, TaprootMerkleBranch,
    TaprootSpendInfo,
};
use elements::Script;
use rand::seq::SliceRandom;
use rand::Rng;
use rand_chacha::ChaCha20Rng;
use std::collections::BTreeSet;

#[derive(Clone, Debug)]
enum Item {
    Leaf { depth: usize, ver: u8, script: Vec<u8> },
    Hidden { depth: usize, hash: [u8; 32] },
}
impl Item {
    fn depth(&self) -> usize { match self { Item::Leaf { depth, .. } | Item::Hidden { depth, .. } => *depth } }
    fn set_depth(&mut self, d: usize) { match self { Item::Leaf { depth, .. } | Item::Hidden { depth, .. } => *depth = d } }
    fn text(&self) -> String {
        match self {
            Item::Leaf { depth, ver, script } => format!("L{}:{:02x}:{}", depth, ver, hex(script)),
            Item::Hidden { depth, hash } => format!("H{}:{}", depth, hex(hash)),
        }
    }
    fn parse(s: &str) -> Option<Item> {
        let (k, r) = s.split_at(1);
        let f: Vec<&str> = r.split(':').collect();
        match (k, f.len()) {
            ("L", 3) => {
                let v = unhex(f[1])?;
                if v.len() != 1 { return None; }
                Some(Item::Leaf { depth: f[0].parse().ok()?, ver: v[0], script: unhex(f[2])? })
            }
            ("H", 2) => Some(Item::Hidden { depth: f[0].parse().ok()?, hash: <[u8; 32]>::try_from(&unhex(f[1])?[..]).ok()? }),
            _ => None,
        }
    }
}
fn items_text(items: &[Item]) -> String {
    if items.is_empty() { "-".into() } else { items.iter().map(|i| i.text()).collect::<Vec<_>>().join(",") }
}

// ---------------------------------------------------------------- independent specification (no elements::taproot code)
fn tagged(tag: &str, msg: &[u8]) -> [u8; 32] {
    let t = sha256::Hash::hash(tag.as_bytes()).to_byte_array();
    let mut e = sha256::Hash::engine();
    e.input(&t);
    e.input(&t);
    e.input(msg);
    sha256::Hash::from_engine(e).to_byte_array()
}
fn varint(n: usize) -> Vec<u8> {
    if n < 0xfd { vec![n as u8] } else if n < 0x10000 { vec![0xfd, n as u8, (n >> 8) as u8] } else { let mut v = vec![0xfe]; v.extend_from_slice(&(n as u32).to_le_bytes()); v }
}
fn spec_leaf_hash(ver: u8, script: &[u8]) -> [u8; 32] {
    let mut m = vec![ver];
    m.extend(varint(script.len()));
    m.extend_from_slice(script);
    tagged("TapLeaf/elements", &m)
}
fn spec_branch(a: &[u8; 32], b: &[u8; 32]) -> [u8; 32] {
    let mut m = Vec::with_capacity(64);
    if a < b { m.extend_from_slice(a); m.extend_from_slice(b); } else { m.extend_from_slice(b); m.extend_from_slice(a); }
    tagged("TapBranch/elements", &m)
}
enum Tree { Leaf(u8, Vec<u8>), Hidden([u8; 32]), Node(Box<Tree>, Box<Tree>) }
fn spec_parse(items: &[Item], pos: &mut usize, depth: usize) -> Option<Tree> {
    let it = items.get(*pos)?;
    let d = it.depth();
    if d == depth {
        *pos += 1;
        Some(match it { Item::Leaf { ver, script, .. } => Tree::Leaf(*ver, script.clone()), Item::Hidden { hash, .. } => Tree::Hidden(*hash) })
    } else if d > depth {
        let a = spec_parse(items, pos, depth + 1)?;
        let b = spec_parse(items, pos, depth + 1)?;
        Some(Tree::Node(Box::new(a), Box::new(b)))
    } else { None }
}
/// root and every leaf as (script, ver, path with the deepest sibling first)
fn spec_paths(t: &Tree) -> ([u8; 32], Vec<(Vec<u8>, u8, Vec<[u8; 32]>)>) {
    match t {
        Tree::Leaf(v, s) => (spec_leaf_hash(*v, s), vec![(s.clone(), *v, vec![])]),
        Tree::Hidden(h) => (*h, vec![]),
        Tree::Node(a, b) => {
            let (ha, mut la) = spec_paths(a);
            let (hb, mut lb) = spec_paths(b);
            for l in la.iter_mut() { l.2.push(hb); }
            for l in lb.iter_mut() { l.2.push(ha); }
            la.extend(lb);
            (spec_branch(&ha, &hb), la)
        }
    }
}
fn spec_tree(items: &[Item]) -> Option<Tree> {
    if items.iter().any(|i| i.depth() > 128) { return None; }
    let mut pos = 0;
    let t = spec_parse(items, &mut pos, 0)?;
    if pos == items.len() { Some(t) } else { None }
}
fn spec_tweak(p: &XOnlyPublicKey, root: &[u8; 32]) -> [u8; 32] {
    let mut m = p.serialize().to_vec();
    m.extend_from_slice(root);
    tagged("TapTweak/elements", &m)
}

// ---------------------------------------------------------------- printing
fn berr(e: &TaprootBuilderError) -> String {
    match e {
        TaprootBuilderError::InvalidMerkleTreeDepth(d) => format!("toodeep:{}", d),
        TaprootBuilderError::NodeNotInDfsOrder => "notdfs".into(),
        TaprootBuilderError::OverCompleteTree => "overcomplete".into(),
        TaprootBuilderError::IncompleteTree => "incomplete".into(),
        TaprootBuilderError::EmptyTree => "empty".into(),
        TaprootBuilderError::InvalidInternalKey(_) => "unmapped-invalid-internal-key".into(),
    }
}
fn terr(e: &TaprootError) -> String {
    match e {
        TaprootError::InvalidMerkleBranchSize(n) => format!("branchsize:{}", n),
        TaprootError::InvalidMerkleTreeDepth(n) => format!("depth:{}", n),
        TaprootError::InvalidTaprootLeafVersion(v) => format!("leafver:{}", v),
        TaprootError::InvalidControlBlockSize(n) => format!("size:{}", n),
        TaprootError::InvalidInternalKey(_) => "key".into(),
        TaprootError::EmptyTree => "unmapped-empty-tree".into(),
    }
}
fn show_leaf(script: &[u8], ver: u8, depth: usize) -> String { format!("{:02x}{}/{}", ver, hex(script), depth) }
fn show_list(v: Vec<String>) -> String { if v.is_empty() { "-".into() } else { v.join(",") } }
fn par01(p: Parity) -> u8 { match p { Parity::Even => 0, Parity::Odd => 1 } }

fn vf(secp: &Secp256k1<elements::secp256k1_zkp::All>, c: &ControlBlock, q: &TweakedPublicKey, s: &Script) -> char {
    match std::panic::catch_unwind(|| c.verify_taproot_commitment(secp, q, s)) { Ok(true) => '1', Ok(false) => '0', Err(_) => 'p' }
}

struct Fail(Option<String>);
impl Fail {
    fn set(&mut self, key: &str, what: String) { if self.0.is_none() { self.0 = Some(format!("{}|{}", key, what)); } }
}

/// `map= pick= cbs= v= rt=` for a finished TaprootSpendInfo, plus the property's own checks on it
fn show_info(secp: &Secp256k1<elements::secp256k1_zkp::All>, info: &TaprootSpendInfo, altkey: &XOnlyPublicKey, show: usize, fail: &mut Fail) -> String {
    let q = info.output_key();
    let par = info.output_key_parity();
    let p = info.internal_key();
    let map = info.as_script_map();
    let mut ents: Vec<(Script, LeafVersion, TaprootMerkleBranch)> = vec![];
    for ((s, v), set) in map { for b in set { ents.push((s.clone(), *v, b.clone())); } }
    let mapstr = show_list(ents.iter().map(|(s, v, b)| show_leaf(s.as_bytes(), v.as_u8(), b.as_inner().len())).collect());
    let mut picks = vec![];
    for (k, set) in map {
        match info.control_block(k) {
            Some(c) => {
                let ix = set.iter().position(|b| *b == c.merkle_branch);
                if set.iter().any(|b| b.as_inner().len() < c.merkle_branch.as_inner().len()) { fail.set("cb-not-shortest", format!("control_block() is not a shortest path for {:x}", k.0)); }
                picks.push(ix.map(|i| i.to_string()).unwrap_or_else(|| "none".into()));
            }
            None => picks.push("none".into()),
        }
    }
    // the 128-level limit: no produced control block may have more than 128 nodes / 4129 bytes, and each must survive its own codec
    for (s, v, b) in &ents {
        let n = b.as_inner().len();
        let c = ControlBlock { leaf_version: *v, output_key_parity: par, internal_key: p, merkle_branch: b.clone() };
        let ser = c.serialize();
        if n > 128 || ser.len() > 33 + 32 * 128 {
            fail.set("cb-too-deep", format!("finalize produced a control block with {} nodes / {} bytes (limit 128 / 4129) for leaf {:x}", n, ser.len(), s));
        }
        if ser.len() != 33 + 32 * n || c.size() != ser.len() {
            fail.set("cb-length", format!("control block length {} is not 33+32*{}", ser.len(), n));
        }
        match ControlBlock::from_slice(&ser) {
            Ok(c2) => if c2 != c { fail.set("cb-roundtrip", format!("from_slice(serialize(cb)) differs from cb (depth {})", n)); },
            Err(e) => fail.set("cb-roundtrip", format!("from_slice(serialize(cb)) fails with {} (depth {})", terr(&e), n)),
        }
    }
    let shown: Vec<&(Script, LeafVersion, TaprootMerkleBranch)> = ents.iter().take(show).collect();
    let cbs: Vec<ControlBlock> = shown.iter().map(|(_, v, b)| ControlBlock { leaf_version: *v, output_key_parity: par, internal_key: p, merkle_branch: b.clone() }).collect();
    let legit = |c: &ControlBlock, q2: &TweakedPublicKey, s: &Script| -> bool {
        *q2 == q && c.output_key_parity == par && c.internal_key == p
            && map.get(&(s.clone(), c.leaf_version)).map(|set| set.contains(&c.merkle_branch)).unwrap_or(false)
    };
    let mut vs = vec![];
    let mut rts = String::new();
    let altq = TweakedPublicKey::new(*altkey);
    for (i, c) in cbs.iter().enumerate() {
        let s = &shown[i].0;
        let mut line = String::new();
        let test = |line: &mut String, c2: Option<ControlBlock>, q2: &TweakedPublicKey, s2: &Script, what: &str, fail: &mut Fail| {
            match c2 {
                None => line.push('-'),
                Some(c2) => {
                    let r = vf(secp, &c2, q2, s2);
                    line.push(r);
                    let l = legit(&c2, q2, s2);
                    if r == '1' && !l { fail.set("tampered-verifies", format!("control block with tampered {} verifies (leaf {:x})", what, s)); }
                    if r != '1' && l { fail.set("cb-not-verifying", format!("a control block of the tree ({}) does not verify (leaf {:x})", what, s)); }
                }
            }
        };
        let brn: Vec<TapNodeHash> = c.merkle_branch.as_inner().to_vec();
        let with_branch = |b: Vec<TapNodeHash>| -> Option<ControlBlock> {
            TaprootMerkleBranch::from_inner(b).ok().map(|mb| ControlBlock { merkle_branch: mb, ..c.clone() })
        };
        test(&mut line, Some(c.clone()), &q, s, "nothing", fail);
        let mut s1 = s.as_bytes().to_vec(); s1.push(0x51);
        test(&mut line, Some(c.clone()), &q, &Script::from(s1), "script", fail);
        let other = if c.leaf_version.as_u8() == 0xc4 { 0xc6 } else { 0xc4 };
        test(&mut line, Some(ControlBlock { leaf_version: LeafVersion::from_u8(other).unwrap(), ..c.clone() }), &q, s, "leaf version", fail);
        let flipped = if par == Parity::Even { Parity::Odd } else { Parity::Even };
        test(&mut line, Some(ControlBlock { output_key_parity: flipped, ..c.clone() }), &q, s, "parity", fail);
        test(&mut line, Some(c.clone()), &altq, s, "output key", fail);
        if brn.is_empty() { line.push_str("---"); } else {
            let mut b1 = brn.clone(); let mut h = b1[0].to_byte_array(); h[0] ^= 1; b1[0] = TapNodeHash::from_byte_array(h);
            test(&mut line, with_branch(b1), &q, s, "first path element", fail);
            let n = brn.len();
            let mut b2 = brn.clone(); let mut h = b2[n - 1].to_byte_array(); h[31] ^= 1; b2[n - 1] = TapNodeHash::from_byte_array(h);
            test(&mut line, with_branch(b2), &q, s, "last path element", fail);
            test(&mut line, with_branch(brn[..n - 1].to_vec()), &q, s, "path (shortened)", fail);
        }
        let mut b3 = brn.clone(); b3.push(TapNodeHash::from_byte_array([0u8; 32]));
        test(&mut line, with_branch(b3), &q, s, "path (extended)", fail);
        test(&mut line, Some(ControlBlock { internal_key: *altkey, ..c.clone() }), &q, s, "internal key", fail);
        if shown.len() > 1 { let s2 = &shown[(i + 1) % shown.len()].0; test(&mut line, Some(c.clone()), &q, s2, "script (another leaf's)", fail); } else { line.push('-'); }
        vs.push(line);
        // serialization
        let ser = c.serialize();
        if ser.len() != 33 + 32 * c.merkle_branch.as_inner().len() || c.size() != ser.len() {
            fail.set("cb-length", format!("control block length {} is not 33+32*{}", ser.len(), c.merkle_branch.as_inner().len()));
        }
        match ControlBlock::from_slice(&ser) {
            Ok(c2) => { if c2 == *c && c.size() == ser.len() { rts.push('1') } else { rts.push('0'); fail.set("cb-roundtrip", "from_slice(serialize(cb)) differs from cb".into()); } }
            Err(_) => { rts.push('e'); fail.set("cb-roundtrip", "from_slice(serialize(cb)) fails".into()); }
        }
    }
    if rts.is_empty() { rts.push('-'); }
    format!("root={} q={} par={} map={} pick={} cbs={} v={} rt={}",
        info.merkle_root().map(|h| hex(h.as_byte_array())).unwrap_or_else(|| "none".into()),
        hex(&q.into_inner().serialize()), par01(par), mapstr, show_list(picks),
        show_list(cbs.iter().map(|c| hex(&c.serialize())).collect()), show_list(vs), rts)
}

/// checks of the finished info against the independent tree: root, output key, leaf set with paths, key pair tweak
fn check_against_spec(secp: &Secp256k1<elements::secp256k1_zkp::All>, info: &TaprootSpendInfo, root: [u8; 32],
                      leaves: &[(Vec<u8>, u8, Vec<[u8; 32]>)], sk: &[u8], fail: &mut Fail) {
    let p = info.internal_key();
    if info.merkle_root().map(|h| h.to_byte_array()) != Some(root) { fail.set("root-mismatch", "merkle root differs from the sorted-pair tagged tree computed independently".into()); }
    let t = spec_tweak(&p, &root);
    match Scalar::from_be_bytes(t).ok().and_then(|sc| p.add_tweak(secp, &sc).ok()) {
        Some((q, par)) => if q != info.output_key().into_inner() || par != info.output_key_parity() {
            fail.set("outkey-mismatch", "output key is not internal key + H_TapTweak(internal || root) G".into()); },
        None => fail.set("outkey-mismatch", "independent tweak failed".into()),
    }
    // the other public routes to the same output key: TaprootSpendInfo::new_key_spend, Script::new_v1_p2tr, Address::p2tr — each must
    // name the key computed independently above (OP_1 PUSH32 <x-only output key>; witness version 1, 32-byte program)
    if let Some((q, par)) = Scalar::from_be_bytes(t).ok().and_then(|sc| p.add_tweak(secp, &sc).ok()) {
        let ks = TaprootSpendInfo::new_key_spend(secp, p, info.merkle_root());
        if ks.output_key().into_inner() != q || ks.output_key_parity() != par || ks.internal_key() != p || ks.merkle_root() != info.merkle_root() || !ks.as_script_map().is_empty() {
            fail.set("new-key-spend-mismatch", "TaprootSpendInfo::new_key_spend(internal key, merkle root) does not carry the tweaked output key / parity / root (or invents leaves)".into()); }
        let mut want_spk = vec![0x51u8, 0x20]; want_spk.extend_from_slice(&q.serialize());
        if Script::new_v1_p2tr(secp, p, info.merkle_root()).as_bytes() != &want_spk[..] { fail.set("p2tr-script-mismatch", "Script::new_v1_p2tr is not OP_1 <32-byte output key>".into()); }
        if Script::new_v1_p2tr_tweaked(info.output_key()).as_bytes() != &want_spk[..] { fail.set("p2tr-script-mismatch", "Script::new_v1_p2tr_tweaked is not OP_1 <32-byte output key>".into()); }
        let a = elements::Address::p2tr(secp, p, info.merkle_root(), None, &elements::AddressParams::ELEMENTS);
        if a.script_pubkey().as_bytes() != &want_spk[..] || a.blinding_pubkey.is_some() { fail.set("p2tr-address-mismatch", "Address::p2tr does not pay to OP_1 <32-byte output key>".into()); }
    }
    let want: BTreeSet<(Vec<u8>, u8, Vec<[u8; 32]>)> = leaves.iter().cloned().collect();
    let mut got = BTreeSet::new();
    for ((s, v), set) in info.as_script_map() { for b in set { got.insert((s.as_bytes().to_vec(), v.as_u8(), b.as_inner().iter().map(|h| h.to_byte_array()).collect::<Vec<_>>())); } }
    if want != got { fail.set("leafset-mismatch", "script map is not exactly the tree's leaves with their sibling paths (length = depth)".into()); }
    if let Ok(kp) = Keypair::from_seckey_slice(secp, sk) {
        let (xo, _) = kp.x_only_public_key();
        if xo == p {
            let tw = kp.tap_tweak(secp, info.merkle_root());
            let (q2, par2) = tw.public_parts();
            if q2 != info.output_key() || par2 != info.output_key_parity() { fail.set("keypair-mismatch", "tweaked key pair is not the secret of the output key".into()); }
        }
    }
}

fn oracle_text(secp: &Secp256k1<elements::secp256k1_zkp::All>, keys: &[XOnlyPublicKey], root: Option<TapNodeHash>) -> String {
    let mut v = vec![];
    for k in keys {
        let t = TapTweakHash::from_key_and_tweak(*k, root);
        if let Ok(sc) = Scalar::from_be_bytes(t.to_byte_array()) {
            if let Ok((q, par)) = k.add_tweak(secp, &sc) {
                v.push(format!("{}:{}:{}:{}", hex(&k.serialize()), hex(t.as_byte_array()), hex(&q.serialize()), par01(par)));
            }
        }
    }
    show_list(v)
}

fn real_build(items: &[Item]) -> Result<TaprootBuilder, (usize, TaprootBuilderError)> {
    let mut b = TaprootBuilder::new();
    for (ix, it) in items.iter().enumerate() {
        let r = match it {
            Item::Leaf { depth, ver, script } => b.add_leaf_with_ver(*depth, Script::from(script.clone()), LeafVersion::from_u8(*ver).expect("generator emits valid leaf versions")),
            Item::Hidden { depth, hash } => b.add_hidden(*depth, TapNodeHash::from_byte_array(*hash)),
        };
        match r { Ok(nb) => b = nb, Err(e) => return Err((ix, e)) }
    }
    Ok(b)
}

/// NodeInfo.leaves order of the single finished node, read through the builder's serde form
fn leaf_order(b: &TaprootBuilder) -> String {
    let v = serde_json::to_value(b).expect("builder serializes");
    let br = v["branch"].as_array().cloned().unwrap_or_default();
    if br.len() != 1 || br[0].is_null() { return "-".into(); }
    let leaves = br[0]["leaves"].as_array().cloned().unwrap_or_default();
    show_list(leaves.iter().map(|l| {
        let script = l["script"].as_str().unwrap_or("?").to_string();
        let ver = l["ver"].as_u64().unwrap_or(999);
        let n = l["merkle_branch"].as_array().map(|a| a.len()).unwrap_or(9999);
        format!("{:02x}{}/{}", ver, script, n)
    }).collect())
}

fn xonly(s: &str) -> Option<XOnlyPublicKey> { XOnlyPublicKey::from_slice(&unhex(s)?).ok() }

pub fn eval(case: &str) -> Out {
    let w: Vec<&str> = case.split(' ').collect();
    let secp = Secp256k1::new();
    let mut fail = Fail(None);
    let bad = |m: &str| Out::ok(format!("harnesserr {}", m));
    match (w.get(1).copied(), w.len()) {
        (Some("build"), 8) => {
            let (sk, p, alt, show) = match (unhex(w[2]), xonly(w[3]), xonly(w[4]), w[5].parse::<usize>().ok()) { (Some(a), Some(b), Some(c), Some(d)) => (a, b, c, d), _ => return bad("fields") };
            let items: Vec<Item> = if w[6] == "-" { vec![] } else { match w[6].split(',').map(Item::parse).collect::<Option<Vec<_>>>() { Some(v) => v, None => return bad("items") } };
            let spec = spec_tree(&items);
            let built = match std::panic::catch_unwind(|| real_build(&items)) {
                Ok(r) => r,
                Err(_) => { fail.set("builder-panic", "add_leaf/add_hidden panicked instead of refusing".into()); return Out { result: "panic builder".into(), pred_fail: fail.0 }; }
            };
            let result = match built {
                Err((ix, e)) => format!("err {} at={}", berr(&e), ix),
                Ok(b) => {
                    let order = leaf_order(&b);
                    // since fix aee9a45 the finished node holds its leaves in insertion (depth-first) order (C15_builder_sound)
                    if b.is_complete() {
                        let want = show_list(items.iter().filter_map(|i| match i { Item::Leaf { depth, ver, script } => Some(show_leaf(script, *ver, *depth)), _ => None }).collect());
                        if order != want { fail.set("F9-leaf-order", "NodeInfo.leaves of the finished builder is not in insertion (depth-first) order".into()); }
                    }
                    match b.finalize(&secp, p) {
                        Err(e) => format!("err {}", berr(&e)),
                        Ok(info) => {
                            let s = show_info(&secp, &info, &alt, show, &mut fail);
                            if let Some(d) = items.iter().map(|i| i.depth()).max() { if d > 128 {
                                fail.set("too-deep-accepted", format!("a tree with a node at depth {} (> 128) was built and finalized", d)); } }
                            match &spec {
                                Some(t) => { let (root, leaves) = spec_paths(t); check_against_spec(&secp, &info, root, &leaves, &sk, &mut fail); }
                                None => fail.set("accepted-invalid", "finalize accepted a depth sequence that is not the depth-first walk of a binary tree of height <= 128".into()),
                            }
                            format!("ok order={} {}", order, s)
                        }
                    }
                }
            };
            if spec.is_some() && !result.starts_with("ok ") { fail.set("refused-valid", "a depth-first walk of a tree of height <= 128 was refused".into()); }
            Out { result, pred_fail: fail.0 }
        }
        (Some("huff"), 8) => {
            let (_sk, p, alt, show) = match (unhex(w[2]), xonly(w[3]), xonly(w[4]), w[5].parse::<usize>().ok()) { (Some(a), Some(b), Some(c), Some(d)) => (a, b, c, d), _ => return bad("fields") };
            let mut ws: Vec<(u32, Vec<u8>)> = vec![];
            if w[6] != "-" { for e in w[6].split(',') { let f: Vec<&str> = e.split(':').collect(); if f.len() != 2 { return bad("weights"); }
                match (f[0].parse::<u32>().ok(), unhex(f[1])) { (Some(a), Some(b)) => ws.push((a, b)), _ => return bad("weights") } } }
            let r = std::panic::catch_unwind(|| TaprootSpendInfo::with_huffman_tree(&secp, p, ws.iter().map(|(a, b)| (*a, Script::from(b.clone())))));
            let result = match r {
                Err(_) => { fail.set("huffman-panic", "with_huffman_tree panicked".into()); "panic huffman".to_string() }
                Ok(Err(e)) => format!("err {}", berr(&e)),
                Ok(Ok(info)) => {
                    let s = show_info(&secp, &info, &alt, show, &mut fail);
                    // shape: the leaves are exactly the inputs; order: a strictly heavier leaf is never strictly deeper
                    let distinct = ws.iter().map(|x| &x.1).collect::<BTreeSet<_>>().len() == ws.len();
                    let map = info.as_script_map();
                    let keys: BTreeSet<Vec<u8>> = map.keys().map(|k| k.0.as_bytes().to_vec()).collect();
                    if keys != ws.iter().map(|x| x.1.clone()).collect::<BTreeSet<_>>() || map.keys().any(|k| k.1 != LeafVersion::default()) {
                        fail.set("huffman-leaves", "leaves of the Huffman tree are not the input scripts".into());
                    }
                    if distinct {
                        let mut dep = vec![];
                        for (wt, sc) in &ws {
                            let set = &map[&(Script::from(sc.clone()), LeafVersion::default())];
                            if set.len() != 1 { fail.set("huffman-leaves", "a script given once occurs more than once".into()); }
                            dep.push((*wt, set.iter().next().map(|b| b.as_inner().len()).unwrap_or(0)));
                        }
                        // Kraft equality: the depths are those of a full binary tree
                        let kraft: f64 = dep.iter().map(|(_, d)| 0.5f64.powi(*d as i32)).sum();
                        if dep.len() <= 40 && (kraft - 1.0).abs() > 1e-9 { fail.set("huffman-leaves", "leaf depths are not those of a full binary tree".into()); }
                        for (wi, di) in &dep { for (wj, dj) in &dep { if wi > wj && di > dj {
                            fail.set("huffman-heavier-deeper", format!("weight {} at depth {} but weight {} at depth {}", wi, di, wj, dj)); } } }
                    }
                    format!("ok {}", s)
                }
            };
            if ws.is_empty() && result != "err incomplete" { fail.set("huffman-empty", "empty weight list not refused as incomplete".into()); }
            Out { result, pred_fail: fail.0 }
        }
        (Some("cbparse"), 4) => {
            let sl = if w[2] == "-" { vec![] } else { match unhex(w[2]) { Some(v) => v, None => return bad("hex") } };
            let result = match ControlBlock::from_slice(&sl) {
                Err(e) => format!("err {}", terr(&e)),
                Ok(c) => {
                    let re = c.serialize();
                    if re != sl { fail.set("cb-roundtrip", "serialize(from_slice(x)) differs from x".into()); }
                    if sl.len() != 33 + 32 * c.merkle_branch.as_inner().len() { fail.set("cb-length", "accepted control block whose length is not 33+32*depth".into()); }
                    if c.merkle_branch.as_inner().len() > 128 { fail.set("cb-too-deep", "from_slice accepted a control block with more than 128 nodes".into()); }
                    format!("ok ver={:02x} par={} key={} n={} size={} reser={}", c.leaf_version.as_u8(), par01(c.output_key_parity), hex(&c.internal_key.serialize()),
                        c.merkle_branch.as_inner().len(), c.size(), if re == sl { 1 } else { 0 })
                }
            };
            Out { result, pred_fail: fail.0 }
        }
        (Some("finalize-none"), 4) => {
            // F16 (repaired by fix c723f02): a builder state that only serde can produce must be refused, not panic
            let p = match xonly(w[2]) { Some(p) => p, None => return bad("key") };
            let n: usize = match w[3].parse() { Ok(n) => n, Err(_) => return bad("n") };
            let json = format!("{{\"branch\":[{}]}}", vec!["null"; n].join(","));
            let b: TaprootBuilder = match serde_json::from_str(&json) { Ok(b) => b, Err(_) => return bad("serde") };
            let result = match std::panic::catch_unwind(|| b.finalize(&secp, p)) {
                Err(_) => { fail.set("F16-finalize-panic", "finalize panics on a builder state whose last entry is None instead of refusing it".into()); "panic builder-invariant".to_string() }
                Ok(Err(e)) => format!("err {}", berr(&e)),
                Ok(Ok(_)) => "ok unexpected".to_string(),
            };
            Out { result, pred_fail: fail.0 }
        }
        (Some("combine-chain"), 3) => {
            // NodeInfo::combine applied n times on top of one leaf (the only way to reach TaprootMerkleBranch::push's own depth check)
            let n: usize = match w[2].parse() { Ok(n) => n, Err(_) => return bad("n") };
            let mut node = NodeInfo::new_leaf_with_ver(Script::from(vec![0x51]), LeafVersion::default());
            let mut result = String::new();
            for i in 0..n {
                match NodeInfo::combine(node.clone(), NodeInfo::new_hidden(TapNodeHash::from_byte_array([i as u8; 32]))) {
                    Ok(m) => node = m,
                    Err(e) => { result = format!("err {} at={}", berr(&e), i); break; }
                }
            }
            if result.is_empty() { result = format!("ok {}", n); }
            Out { result, pred_fail: None }
        }
        _ => bad("kind"),
    }
}

// ---------------------------------------------------------------- generators
struct Keys { sk: [u8; 32], p: XOnlyPublicKey, alt: XOnlyPublicKey }
fn keys(rng: &mut ChaCha20Rng, secp: &Secp256k1<elements::secp256k1_zkp::All>) -> Keys {
    loop {
        let sk = r32(rng);
        let sk2 = r32(rng);
        if let (Ok(a), Ok(b)) = (Keypair::from_seckey_slice(secp, &sk), Keypair::from_seckey_slice(secp, &sk2)) {
            return Keys { sk, p: a.x_only_public_key().0, alt: b.x_only_public_key().0 };
        }
    }
}
const VERSIONS: [u8; 5] = [0xc4, 0xc4, 0xc0, 0xc6, 0x66];
fn fill(rng: &mut ChaCha20Rng, depths: &[usize], tags: &mut Vec<String>) -> Vec<Item> {
    // a small script pool so that duplicates (same script at different depths, same script with another version) are frequent
    let pool: Vec<Vec<u8>> = vec![vec![0x51], vec![0x52, 0x87], vec![], rbytes(rng, 3), rbytes(rng, 40)];
    let hidden_rate = *[0u32, 0, 10, 30].choose(rng).unwrap();
    let mut out = vec![];
    for &d in depths {
        if rng.gen_range(0..100) < hidden_rate { out.push(Item::Hidden { depth: d, hash: r32(rng) }); }
        else {
            let script = if rng.gen_range(0..10) == 0 { let n = *[75usize, 252, 253, 300].choose(rng).unwrap(); rbytes(rng, n) } else { pool.choose(rng).unwrap().clone() };
            out.push(Item::Leaf { depth: d, ver: *VERSIONS.choose(rng).unwrap(), script });
        }
    }
    if out.iter().any(|i| matches!(i, Item::Hidden { .. })) { tags.push("hidden".into()); }
    let mut seen = BTreeSet::new();
    let mut dup = false;
    for i in &out { if let Item::Leaf { script, .. } = i { if !seen.insert(script.clone()) { dup = true; } } }
    if dup { tags.push("dup-script".into()); }
    if out.iter().filter_map(|i| if let Item::Leaf { ver, .. } = i { Some(*ver) } else { None }).collect::<BTreeSet<_>>().len() > 1 { tags.push("mixed-ver".into()); }
    out
}
fn build_case(secp: &Secp256k1<elements::secp256k1_zkp::All>, k: &Keys, items: &[Item], show: usize, mut tags: Vec<String>) -> Case {
    // record the secp256k1 results the model needs: tweak of the internal key and of the alternative key by the real root
    let mut oracle = "-".to_string();
    let mut class = "err".to_string();
    // under catch_unwind: a broken library must produce failing cases, not take the generator down
    let built = std::panic::catch_unwind(|| real_build(items).map(|b| b.finalize(secp, k.p).map(|info| info.merkle_root())));
    match built {
        Ok(Ok(Ok(root))) => { oracle = oracle_text(secp, &[k.p, k.alt], root); class = "ok".into(); }
        Ok(Ok(Err(e))) => class = berr(&e).split(':').next().unwrap().to_string(),
        Ok(Err((_, e))) => class = berr(&e).split(':').next().unwrap().to_string(),
        Err(_) => class = "panic".to_string(),
    }
    tags.push(format!("class-{}", class));
    tags.push(format!("n{}", bucket(items.len())));
    let leaves = items.iter().filter(|i| matches!(i, Item::Leaf { .. })).count();
    Case { text: format!("C15 build {} {} {} {} {} {}", hex(&k.sk), hex(&k.p.serialize()), hex(&k.alt.serialize()), show, items_text(items), oracle),
           tags, nontrivial: leaves >= 2 }
}
fn bucket(c: usize) -> &'static str { match c { 0 => "0", 1 => "1", 2..=3 => "2-3", 4..=6 => "4-6", 7..=15 => "7-15", 16..=127 => "16-127", _ => "128+" } }

fn valid_shapes(max_leaves: usize, max_depth: usize) -> Vec<Vec<usize>> {
    // all depth sequences of full binary trees with <= max_leaves leaves and depth <= max_depth
    fn go(depth: usize, budget: usize, max_depth: usize) -> Vec<Vec<usize>> {
        let mut out = vec![vec![depth]];
        if depth < max_depth && budget >= 2 {
            for la in 1..budget { for a in go(depth + 1, la, max_depth) { if a.len() != la { continue; }
                for b in go(depth + 1, budget - la, max_depth) { let mut v = a.clone(); v.extend(b); out.push(v); } } }
        }
        out
    }
    let mut all: Vec<Vec<usize>> = go(0, max_leaves, max_depth);
    all.sort(); all.dedup();
    all
}
fn random_shape(rng: &mut ChaCha20Rng, leaves: usize, depth: usize, out: &mut Vec<usize>) {
    if leaves <= 1 { out.push(depth); return; }
    let l = rng.gen_range(1..leaves);
    random_shape(rng, l, depth + 1, out);
    random_shape(rng, leaves - l, depth + 1, out);
}
fn huff_case(secp: &Secp256k1<elements::secp256k1_zkp::All>, k: &Keys, ws: &[(u32, Vec<u8>)], show: usize, tags: Vec<String>) -> Case {
    let mut oracle = "-".to_string();
    if let Ok(Ok(info)) = std::panic::catch_unwind(|| TaprootSpendInfo::with_huffman_tree(secp, k.p, ws.iter().map(|(a, b)| (*a, Script::from(b.clone()))))) {
        oracle = oracle_text(secp, &[k.p, k.alt], info.merkle_root());
    }
    let wtxt = show_list(ws.iter().map(|(a, b)| format!("{}:{}", a, hex(b))).collect());
    Case { text: format!("C15 huff {} {} {} {} {} {}", hex(&k.sk), hex(&k.p.serialize()), hex(&k.alt.serialize()), show, wtxt, oracle), tags, nontrivial: ws.len() >= 2 }
}

pub fn gen(rng: &mut ChaCha20Rng, n: usize, thorough: bool) -> Vec<Case> {
    let secp = Secp256k1::new();
    let mut out = vec![];
    let k0 = keys(rng, &secp);
    // ---- (1) every depth sequence (valid and invalid) up to a length over depths 0..=5
    let (full_len, sample_per_len) = if thorough { (6usize, 0usize) } else { (3usize, n) };
    for len in 0..=6usize {
        let total = 6usize.pow(len as u32);
        let exhaustive = len <= full_len;
        let count = if exhaustive { total } else { sample_per_len.min(total) };
        for c in 0..count {
            let code = if exhaustive { c } else { rng.gen_range(0..total) };
            let mut depths = vec![]; let mut x = code;
            for _ in 0..len { depths.push(x % 6); x /= 6; }
            let mut tags = vec![if exhaustive { "seq-exhaustive".to_string() } else { "seq-sampled".to_string() }];
            let items = fill(rng, &depths, &mut tags);
            out.push(build_case(&secp, &k0, &items, 99, tags));
        }
    }
    // ---- (2) every valid shape with <= 6 leaves (depth <= 5), each filled twice
    for shape in valid_shapes(6, 5) {
        for _ in 0..2 {
            let k = keys(rng, &secp);
            let mut tags = vec!["valid-shape".to_string()];
            let items = fill(rng, &shape, &mut tags);
            out.push(build_case(&secp, &k, &items, 99, tags));
        }
    }
    // ---- (3) random larger trees and single mutations of them
    let big = if thorough { n } else { n / 4 };
    for _ in 0..big {
        let k = keys(rng, &secp);
        let leaves = rng.gen_range(2..=14);
        let mut shape = vec![]; random_shape(rng, leaves, 0, &mut shape);
        let mut tags = vec!["random-tree".to_string()];
        let items = fill(rng, &shape, &mut tags);
        out.push(build_case(&secp, &k, &items, 99, tags.clone()));
        let mut m = items.clone();
        let i = rng.gen_range(0..m.len());
        let what = rng.gen_range(0..5);
        match what {
            0 => { let d = m[i].depth(); m[i].set_depth(d + 1); }
            1 => { let d = m[i].depth(); m[i].set_depth(d.saturating_sub(1)); }
            2 => { m.remove(i); }
            3 => { let x = m[i].clone(); m.insert(i, x); }
            _ => { let j = rng.gen_range(0..m.len()); m.swap(i, j); }
        }
        out.push(build_case(&secp, &k, &m, 99, vec!["mutated-tree".to_string(), format!("mut{}", what)]));
    }
    // ---- (4) chains around the 128 limit, and absurd depths
    for &kd in &[126usize, 127, 128, 129, 130] {
        for style in 0..4 {
            let mut depths: Vec<usize> = match style {
                0 => (1..=kd).chain(std::iter::once(kd)).collect(),          // deepest pair last
                1 | 3 => std::iter::once(kd).chain((1..=kd).rev()).collect(), // deepest pair first
                _ => (1..=kd).chain(std::iter::once(kd)).collect(),
            };
            if style == 2 { depths.truncate(kd); }                            // incomplete: the last leaf is missing
            let mut tags = vec![format!("chain{}", kd), format!("chainstyle{}", style)];
            let mut items = fill(rng, &depths, &mut tags);
            if style == 1 { if let Some(Item::Leaf { .. }) = items.first() { items[0] = Item::Hidden { depth: kd, hash: r32(rng) }; } }
            if style == 3 {
                // caterpillar: two real leaves at the bottom, one hidden sibling at every level above
                for (j, it) in items.iter_mut().enumerate() {
                    let d = it.depth();
                    *it = if j < 2 { Item::Leaf { depth: d, ver: 0xc4, script: vec![0x51 + j as u8] } } else { Item::Hidden { depth: d, hash: r32(rng) } };
                }
            }
            out.push(build_case(&secp, &k0, &items, 3, tags));
        }
    }
    // (values of 2^32 and above are limited to usize::MAX: without the early depth check they would make the library allocate
    //  depth+1 vector slots, which no catch_unwind can survive)
    for &d in &[129usize, 130, 255, 256, 65536, 1048576, 18446744073709551615] {
        let items = vec![Item::Leaf { depth: d, ver: 0xc4, script: vec![0x51] }];
        out.push(build_case(&secp, &k0, &items, 3, vec!["absurd-depth".to_string()]));
        let items = vec![Item::Leaf { depth: 1, ver: 0xc4, script: vec![0x51] }, Item::Hidden { depth: d, hash: [7u8; 32] }];
        out.push(build_case(&secp, &k0, &items, 3, vec!["absurd-depth".to_string()]));
    }
    // ---- (5) control-block parsing: genuine blocks, mutated, random, size boundaries
    let mut cb_inputs: Vec<(Vec<u8>, &'static str)> = vec![];
    {
        let mut shape = vec![]; random_shape(rng, 6, 0, &mut shape);
        let mut t = vec![];
        let items = fill(rng, &shape, &mut t);
        if let Ok(b) = real_build(&items) { if let Ok(info) = b.finalize(&secp, k0.p) {
            for (key, _) in info.as_script_map() { if let Some(c) = info.control_block(key) { cb_inputs.push((c.serialize(), "cb-genuine")); } }
        } }
    }
    let genuine: Vec<Vec<u8>> = cb_inputs.iter().map(|x| x.0.clone()).collect();
    let ncb = if thorough { n } else { n / 3 };
    for i in 0..ncb {
        let base = if !genuine.is_empty() && i % 2 == 0 { genuine.choose(rng).unwrap().clone() } else {
            let m = *[0usize, 1, 2, 5, 127, 128, 129, 130].choose(rng).unwrap();
            let mut v = vec![*[0xc4u8, 0xc5, 0xc0, 0xc1, 0x50, 0x51, 0x00, 0x66, 0xfe, 0xff].choose(rng).unwrap()];
            v.extend_from_slice(&if rng.gen_bool(0.7) { k0.p.serialize().to_vec() } else { rbytes(rng, 32) });
            v.extend(rbytes(rng, 32 * m));
            v
        };
        let mut v = base;
        let tag = match rng.gen_range(0..8) {
            0 => { v.truncate(rng.gen_range(0..=v.len())); "cb-truncated" }
            1 => { let extra = rng.gen_range(1..40); v.extend(rbytes(rng, extra)); "cb-extended" }
            2 => { if !v.is_empty() { v[0] ^= 1 << rng.gen_range(0..8); } "cb-firstbyte" }
            3 => { if v.len() > 5 { let j = rng.gen_range(1..v.len().min(33)); v[j] ^= 1 << rng.gen_range(0..8); } "cb-keybit" }
            4 => { let l = *[0usize, 1, 32, 33, 34, 64, 65, 66, 97].choose(rng).unwrap(); v = rbytes(rng, l); "cb-random" }
            _ => "cb-asis",
        };
        cb_inputs.push((v, tag));
    }
    for (v, tag) in cb_inputs {
        let kv = v.len() >= 33 && XOnlyPublicKey::from_slice(&v[1..33]).is_ok();
        out.push(Case { text: format!("C15 cbparse {} {}", if v.is_empty() { "-".to_string() } else { hex(&v) }, if kv { 1 } else { 0 }),
                        tags: vec![tag.to_string(), format!("keyvalid{}", kv as u8)], nontrivial: v.len() >= 65 });
    }
    // ---- (6) Huffman: all weight vectors over {1..4}^n, random weights (0, equal, huge), duplicate scripts
    let hmax = if thorough { 5 } else { 3 };
    let script_i = |i: usize| -> Vec<u8> { vec![0x51 + (i as u8 % 16), 0x75, i as u8] };
    for len in 0..=hmax {
        for code in 0..4usize.pow(len as u32) {
            let mut x = code; let mut ws = vec![];
            for i in 0..len { ws.push(((x % 4 + 1) as u32, script_i(i))); x /= 4; }
            out.push(huff_case(&secp, &k0, &ws, 99, vec!["huff-exhaustive".to_string(), format!("hn{}", len)]));
        }
    }
    let hr = if thorough { n } else { n / 3 };
    for i in 0..hr {
        let k = keys(rng, &secp);
        let len = if i % 5 == 0 { rng.gen_range(4..=5) } else { rng.gen_range(1..=12) };
        let style = rng.gen_range(0..5);
        let mut ws = vec![];
        for j in 0..len {
            let w: u32 = match style { 0 => rng.gen_range(1..=4), 1 => rng.gen_range(0..=2), 2 => *[0u32, 1, 7, 4294967295, 4294967294, 2147483648].choose(rng).unwrap(),
                                       3 => 1 << rng.gen_range(0..12), _ => rng.gen_range(0..1000) };
            let sc = if style == 1 && rng.gen_range(0..4) == 0 { script_i(0) } else { script_i(j) };
            ws.push((w, sc));
        }
        let mut tags = vec!["huff-random".to_string(), format!("hstyle{}", style), format!("hn{}", bucket(len))];
        if ws.iter().map(|x| &x.1).collect::<BTreeSet<_>>().len() != ws.len() { tags.push("dup-script".into()); }
        out.push(huff_case(&secp, &k, &ws, 99, tags));
    }
    // weights whose partial sums exceed u32::MAX (the heap must add them as u64): eight leaves, a few script variations
    for j in 0..8u32 {
        let wts = [4294967295u32, 4294967294, 2147483648, 2147483648 + j, 4294967295, 1073741824, 2147483648, 4294967293];
        let ws: Vec<(u32, Vec<u8>)> = wts.iter().enumerate().map(|(i, w)| (*w, vec![0x51 + i as u8, 0x75, j as u8, 0xaa])).collect();
        out.push(huff_case(&secp, &k0, &ws, 99, vec!["huff-u32-sums".to_string(), "hn7-15".to_string()]));
    }
    // zero weights: ties are broken by the node order, so the tree can degenerate into a chain deeper than 128 (TooDeep from combine)
    for &cnt in &[20usize, 129, 130, 140] {
        if !thorough && cnt == 140 { continue; }
        let mut ws = vec![];
        let mut ctr: u32 = 0;
        while ws.len() < cnt {
            let sc = ctr.to_le_bytes().to_vec(); ctr += 1;
            let h = spec_leaf_hash(0xc4, &sc);
            if h[0] == 0 && h[1] < 0x10 { ws.push((0u32, sc)); }
        }
        out.push(huff_case(&secp, &k0, &ws, 2, vec!["huff-zero-chain".to_string(), format!("hn{}", bucket(cnt))]));
    }
    // ---- (7) states only serde can produce (F16, C10 territory) and NodeInfo::combine's own depth check
    for nn in 0..3 { out.push(Case { text: format!("C15 finalize-none {} {}", hex(&k0.p.serialize()), nn), tags: vec!["serde-state".to_string()], nontrivial: false }); }
    for nn in [0usize, 1, 127, 128, 129, 130] { out.push(Case { text: format!("C15 combine-chain {}", nn), tags: vec!["combine-chain".to_string()], nontrivial: false }); }
    out
}
