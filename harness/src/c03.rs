//! C03: the three signature-hash algorithms — digests AND pre-image writers of the real crate, on a fresh cache per query.
//! The independent definition is the Coq specification (Model/SighashSpec.v); the model line ends in a marker saying whether
//! the specification agrees, and this side prints the marker that MUST come out (`s=` wherever consensus defines the query).
//! Implementation-only predicates: digest = hash of the written pre-image, the convenience entry points agree with
//! `taproot_sighash`, the repository's pinned vectors, and the SIGHASH_SINGLE out-of-range digest (the constant one itself;
//! finding F17, repaired by b8dcccb, would return here as a violation).
use crate::{c13::*, txgen::*, util::*, Case, Out};
use elements::confidential::Value;
use elements::encode::deserialize;
use elements::hashes::{sha256, sha256d, Hash, HashEngine};
use elements::sighash::{Annex, Prevouts, SighashCache};
use elements::taproot::TapLeafHash;
use elements::{BlockHash, Script, SchnorrSighashType, Transaction, TxOut};
use rand::Rng;
use rand_chacha::ChaCha20Rng;
use std::panic::{catch_unwind, AssertUnwindSafe};


fn tagged(tag: &[u8], msg: &[u8]) -> [u8; 32] {
    let t = sha256::Hash::hash(tag).to_byte_array();
    let mut e = sha256::Hash::engine();
    e.input(&t); e.input(&t); e.input(msg);
    sha256::Hash::from_engine(e).to_byte_array()
}
fn ok_hex(b: &[u8]) -> String { format!("ok:{}", if b.is_empty() { "-".to_string() } else { hex(b) }) }

/// the pre-image writer of one query on a fresh cache
fn preimage(tx: &Transaction, op: &Op, spent: &[TxOut], genesis: BlockHash) -> String {
    let r = catch_unwind(AssertUnwindSafe(|| {
        let mut c = SighashCache::new(tx);
        let mut w: Vec<u8> = Vec::new();
        match op {
            Op::Legacy(i, t, s) => match c.encode_legacy_signing_data_to(&mut w, *i, &Script::from(s.clone()), ecdsa(*t).unwrap()) { Ok(()) => ok_hex(&w), Err(_) => "err:encode".into() },
            Op::Segwit(i, t, s, v) => match c.encode_segwitv0_signing_data_to(&mut w, *i, &Script::from(s.clone()), *v, ecdsa(*t).unwrap()) { Ok(()) => ok_hex(&w), Err(_) => "err:encode".into() },
            Op::Taproot(..) | Op::Key(..) | Op::ScriptSpend(..) | Op::ScriptPathSpend(..) => {
                let (i, t, pv, annex, leaf) = match op.clone() {
                    Op::ScriptPathSpend(i, t, p, sc, v, _) => (i, t, p, None, Some((leaf_hash_def(v, &sc), 0xffff_ffffu32))),
                    Op::Taproot(i, t, p, a, l) => (i, t, p, a, l),
                    Op::Key(i, t, p) => (i, t, p, None, None),
                    Op::ScriptSpend(i, t, p, h) => (i, t, p, None, Some((h, 0xffff_ffffu32))),
                    _ => unreachable!(),
                };
                let annex = match &annex { None => None, Some(b) => match Annex::new(b) { Ok(x) => Some(x), Err(e) => return show_err(&e) } };
                let leaf = leaf.map(|(h, pos)| (TapLeafHash::from_byte_array(h), pos));
                let t = schnorr(t).unwrap();
                let r = match &pv {
                    Pv::All => c.taproot_encode_signing_data_to(&mut w, i, &Prevouts::All(spent), annex, leaf, t, genesis),
                    Pv::AllN(n) => { let v: Vec<TxOut> = spent.iter().chain(spent.iter()).take(*n).cloned().collect(); c.taproot_encode_signing_data_to(&mut w, i, &Prevouts::All(&v), annex, leaf, t, genesis) }
                    Pv::One(j) => c.taproot_encode_signing_data_to(&mut w, i, &Prevouts::One(*j, spent[*j].clone()), annex, leaf, t, genesis),
                    Pv::OneX(j, o) => c.taproot_encode_signing_data_to(&mut w, i, &Prevouts::One(*j, o.clone()), annex, leaf, t, genesis),
                };
                match r { Ok(()) => ok_hex(&w), Err(e) => show_err(&e) }
            }
            Op::Wit(..) => "harnesserr wit".into(),
        }
    }));
    r.unwrap_or_else(|_| "panic".into())
}

/// where consensus (the Coq specification) defines the query; `None` = not comparable (Prevouts::One for another input / without ANYONECANPAY)
fn spec_defined(tx: &Transaction, op: &Op, spent: &[TxOut]) -> Option<bool> {
    let nin = tx.input.len();
    match op {
        Op::Legacy(i, _, _) | Op::Segwit(i, _, _, _) => Some(*i < nin),
        Op::Taproot(..) | Op::Key(..) | Op::ScriptSpend(..) | Op::ScriptPathSpend(..) => {
            let (i, t, pv, annex) = match op { Op::ScriptPathSpend(i, t, p, _, _, _) => (*i, *t, p, None), Op::Taproot(i, t, p, a, _) => (*i, *t, p, a.clone()), Op::Key(i, t, p) => (*i, *t, p, None), Op::ScriptSpend(i, t, p, _) => (*i, *t, p, None), _ => unreachable!() };
            let ty = schnorr(t)?;
            match pv { Pv::One(j) | Pv::OneX(j, _) => { if !(*j == i && schnorr_acp(ty)) { return None; } } Pv::All => {} Pv::AllN(_) => { return None; } }
            let annex_ok = match &annex { None => true, Some(a) => a.first() == Some(&0x50) };
            let single = ty == SchnorrSighashType::Single || ty == SchnorrSighashType::SinglePlusAnyoneCanPay;
            Some(ty != SchnorrSighashType::Reserved && spent.len() == nin && annex_ok && i < nin && (!single || i < tx.output.len()))
        }
        Op::Wit(..) => None,
    }
}

pub fn eval(case: &str) -> Out {
    let w: Vec<&str> = case.split(' ').collect();
    if w.len() != 7 && w.len() != 8 { return Out::ok("harnesserr args".into()); }
    let tx: Transaction = match unhex(w[3]).and_then(|b| deserialize(&b).ok()) { Some(t) => t, None => return Out::ok("harnesserr tx".into()) };
    let spent: Vec<TxOut> = match unhexlist(w[4]).and_then(|l| l.iter().map(|b| deserialize::<TxOut>(b).ok()).collect::<Option<Vec<_>>>()) { Some(s) => s, None => return Out::ok("harnesserr spent".into()) };
    let genesis = match unhex(w[5]).and_then(|b| <[u8; 32]>::try_from(&b[..]).ok()) { Some(g) => BlockHash::from_byte_array(g), None => return Out::ok("harnesserr genesis".into()) };
    let ops: Vec<Op> = match w[6].split(';').map(|s| parse_op(s, &spent)).collect::<Option<Vec<_>>>() { Some(o) => o, None => return Out::ok("harnesserr ops".into()) };
    let expect: Option<Vec<&str>> = w.get(7).map(|e| e.trim_start_matches("expect=").split(',').collect());
    let mut answers = Vec::new();
    let mut fails: Vec<String> = Vec::new();
    for (k, op) in ops.iter().enumerate() {
        if let Op::Wit(..) = op { return Out::ok("harnesserr wit".into()); }
        let digest = query(&mut SighashCache::new(&tx), op, &spent, genesis);
        let pre = preimage(&tx, op, &spent, genesis);
        let mut marker = match spec_defined(&tx, op, &spent) { None => "s?", Some(true) => "s=", Some(false) => "s-" };
        // implementation-only predicates
        // SIGHASH_SINGLE without a matching output: the digest IS the written constant, not its hash (checked below)
        let single_oob = matches!(op, Op::Legacy(i, t, _) if (*t & 0x1f) == 3 && *i < tx.input.len() && *i >= tx.output.len());
        if single_oob {
            if digest != pre { fails.push(format!("legacy-single-oob-digest|query {} ({}): the digest {} is not the constant the writer emits ({})", k, show_op(op), digest, pre)); }
        } else if let (Some(d), Some(p)) = (digest.strip_prefix("ok:"), pre.strip_prefix("ok:")) {
            let pb = if p == "-" { vec![] } else { unhex(p).unwrap_or_default() };
            let h = match op { Op::Legacy(..) | Op::Segwit(..) => sha256d::Hash::hash(&pb).to_byte_array(), _ => tagged(b"TapSighash/elements", &pb) };
            if hex(&h) != d { fails.push(format!("digest-not-hash-of-preimage|query {} ({}): digest {} but the written pre-image hashes to {}", k, show_op(op), d, hex(&h))); }
        } else if digest.starts_with("ok:") != pre.starts_with("ok:") || (!digest.starts_with("ok:") && digest != pre) {
            fails.push(format!("digest-writer-disagree|query {} ({}): digest call gives {}, writer gives {}", k, show_op(op), &digest[..digest.len().min(40)], &pre[..pre.len().min(40)]));
        }
        match op {
            Op::Key(i, t, p) => { let d2 = query(&mut SighashCache::new(&tx), &Op::Taproot(*i, *t, p.clone(), None, None), &spent, genesis);
                if d2 != digest { fails.push(format!("entry-point-disagree|query {} ({}): key-spend {} vs taproot_sighash {}", k, show_op(op), digest, d2)); } }
            Op::ScriptPathSpend(i, t, p, sc, v, _) => { let h = leaf_hash_def(*v, sc);
                let d2 = query(&mut SighashCache::new(&tx), &Op::Taproot(*i, *t, p.clone(), None, Some((h, 0xffff_ffff))), &spent, genesis);
                if d2 != digest { fails.push(format!("entry-point-disagree|query {} ({}): script-spend from a script {} vs taproot_sighash {}", k, &show_op(op)[..40.min(show_op(op).len())], digest, d2)); } }
            Op::ScriptSpend(i, t, p, h) => { let d2 = query(&mut SighashCache::new(&tx), &Op::Taproot(*i, *t, p.clone(), None, Some((*h, 0xffff_ffff))), &spent, genesis);
                if d2 != digest { fails.push(format!("entry-point-disagree|query {} ({}): script-spend {} vs taproot_sighash {}", k, show_op(op), digest, d2)); } }
            Op::Legacy(i, t, _) if (*t & 0x1f) == 3 && *i < tx.input.len() && *i >= tx.output.len() => {
                // consensus: the signature hash IS uint256 one
                let one = format!("ok:01{}", "00".repeat(31));
                if digest != one { marker = "s!"; fails.push(format!("legacy-single-oob-digest|query {} ({}): SIGHASH_SINGLE without a matching output must sign the constant one, the library returns {}", k, show_op(op), digest)); }
            }
            _ => {}
        }
        // the digest of the algorithms must not depend on what the cache object answered before: the same query on a cache that has first
        // answered a segwit-v0 query and a taproot SIGHASH_SINGLE / SIGHASH_ALL query for ANOTHER input (and output) must give the fresh answer.
        // (C13 states this for arbitrary histories; here it keeps a digest that is wrong only on a used cache from passing as "follows the algorithm".)
        if digest.starts_with("ok:") && tx.input.len() == spent.len() && !tx.input.is_empty() {
            let other = match op { Op::Legacy(i, ..) | Op::Segwit(i, ..) | Op::Taproot(i, ..) | Op::Key(i, ..) | Op::ScriptSpend(i, ..) | Op::ScriptPathSpend(i, ..) => (*i + 1) % tx.input.len(), Op::Wit(..) => 0 };
            let mut used = SighashCache::new(&tx);
            let _ = query(&mut used, &Op::Segwit(other, 0x01, vec![0x51], Value::Explicit(1)), &spent, genesis);
            let _ = query(&mut used, &Op::Taproot(other, 0x03, Pv::All, None, None), &spent, genesis);
            let _ = query(&mut used, &Op::Taproot(other, 0x81, Pv::All, None, None), &spent, genesis);
            let again = query(&mut used, op, &spent, genesis);
            if again != digest { fails.push(format!("digest-depends-on-cache-history|query {} ({}): {} on a fresh cache but {} after the cache answered queries for input {}", k, show_op(op), digest, again, other)); }
        }
        if let Some(e) = &expect { if let Some(x) = e.get(k) { if *x != "-" && digest != format!("ok:{}", x) {
            fails.push(format!("pinned-vector|query {} ({}): the repository's pinned digest is {}, the library returns {}", k, show_op(op), x, digest)); } } }
        answers.push(format!("{},{},{}", digest, pre, marker));
    }
    let pred_fail = fails.first().cloned();
    Out { result: answers.join(";"), pred_fail }
}

fn rtap(rng: &mut ChaCha20Rng, idx: usize, t: u8, spent: &[TxOut], tags: &mut Vec<String>) -> Op {
    let pv = match rng.gen_range(0..10) {
        0..=5 => { tags.push("pv:all".into()); Pv::All }
        6..=8 if idx < spent.len() => { tags.push("pv:one".into()); Pv::One(idx) }
        9 => { tags.push("pv:one-foreign-output".into()); Pv::OneX(idx, rtxout(rng, Feat { big: false, no_witness: true }, &mut vec![])) }
        _ => { tags.push("pv:all".into()); Pv::All }
    };
    tags.push(format!("T:{:02x}", t));
    match rng.gen_range(0..8) {
        0 => { tags.push("entry:key-spend".into()); Op::Key(idx, t, pv) }
        1 => { tags.push("entry:script-spend".into()); Op::ScriptSpend(idx, t, pv, r32(rng)) }
        2 => { tags.push("entry:script-spend-from-script".into()); let sc = rleafscript(rng, false, tags); let (v, pos) = rleafver(rng, tags); Op::ScriptPathSpend(idx, t, pv, sc, v, pos) }
        _ => {
            let leaf = if rng.gen_range(0..2) == 0 { tags.push("scriptpath".into()); Some((r32(rng), pk!(rng, [0xffff_ffffu32, 0, 7, rng.gen()]))) } else { tags.push("keypath".into()); None };
            if leaf.map(|l| l.1 != 0xffff_ffff).unwrap_or(false) { tags.push("codesep".into()); }
            Op::Taproot(idx, t, pv, rannex(rng, tags), leaf)
        }
    }
}

/// `test_legacy_sighash(...)` / `test_segwit_sighash(...)` calls of src/sighash.rs
fn pinned_cases() -> Vec<Case> {
    let repo = std::env::var("ELEMENTS_REPO").unwrap_or_else(|_| "/repo".into());
    let src = std::fs::read_to_string(format!("{}/src/sighash.rs", repo)).unwrap_or_default();
    let mut out = Vec::new();
    for line in src.lines() {
        let l = line.trim();
        let (kind, rest) = if let Some(r) = l.strip_prefix("test_segwit_sighash(\"") { ("S", r) } else if let Some(r) = l.strip_prefix("test_legacy_sighash(\"") { ("L", r) } else { continue };
        let args: Vec<String> = rest.trim_end_matches(");").split(", ").map(|a| a.trim_matches('"').to_string()).collect();
        // S: tx, script, idx, value, type, expected   L: tx, script, idx, type, expected
        let (txh, script, idx) = (&args[0], &args[1], &args[2]);
        let (value, tyname, expected) = if kind == "S" { (Some(&args[3]), &args[4], &args[5]) } else { (None, &args[3], &args[4]) };
        let ty = match tyname.trim_start_matches("EcdsaSighashType::") { "All" => 1, "None" => 2, "Single" => 3, "AllPlusAnyoneCanPay" => 0x81, "NonePlusAnyoneCanPay" => 0x82, "SinglePlusAnyoneCanPay" => 0x83, _ => continue };
        let txb = match unhex(txh) { Some(b) => b, None => continue };
        let tx: Transaction = match deserialize(&txb) { Ok(t) => t, Err(_) => continue };
        let op = if kind == "S" { Op::Segwit(idx.parse().unwrap_or(0), ty, unhex(script).unwrap_or_default(), match unhex(value.unwrap()).and_then(|b| deserialize::<Value>(&b).ok()) { Some(v) => v, None => continue }) }
                 else { Op::Legacy(idx.parse().unwrap_or(0), ty, unhex(script).unwrap_or_default()) };
        let mut c = mk_case(&tx, &[], [0u8; 32], &[op], vec!["src:pinned-vector".into(), format!("{}:{:02x}", kind, ty)], true);
        c.text = format!("C03{} expect={}", &c.text[3..], expected);
        out.push(c);
    }
    out
}

pub fn gen(rng: &mut ChaCha20Rng, n: usize, thorough: bool) -> Vec<Case> {
    let mut out = pinned_cases();
    for _ in 0..n {
        let mut tags = vec!["src:structured".to_string()];
        let tx = rsigtx(rng, &mut tags);
        let (nin, nout) = (tx.input.len(), tx.output.len());
        let ns = match rng.gen_range(0..16) { 0 => { tags.push("spent:wrong-length".into()); nin + 1 } _ => nin };
        let spent: Vec<TxOut> = (0..ns).map(|_| rtxout(rng, Feat { big: false, no_witness: true }, &mut vec![])).collect();
        let mut ops: Vec<Op> = Vec::new();
        // every input index (and one beyond), a few types per algorithm; one index gets the full type sweep
        let sweep = rng.gen_range(0..nin);
        for idx in 0..=nin {
            if idx == nin && rng.gen_range(0..3) != 0 { continue; }
            if idx >= nout { tags.push("idx:>=outputs".into()); }
            if idx >= nin { tags.push("idx:>=inputs".into()); }
            let full = thorough || idx == sweep;
            for t in ECDSA_TYPES { if full || rng.gen_range(0..3) == 0 { tags.push(format!("L:{:02x}", t)); ops.push(Op::Legacy(idx, t, rscript(rng, false).into_bytes())); } }
            for t in ECDSA_TYPES { if full || rng.gen_range(0..3) == 0 { tags.push(format!("S:{:02x}", t)); ops.push(Op::Segwit(idx, t, rscript(rng, false).into_bytes(), rvalue(rng, true))); } }
            for t in SCHNORR_TYPES { if full || rng.gen_range(0..3) == 0 { let o = rtap(rng, idx, t, &spent, &mut tags); ops.push(o); } }
            if rng.gen_range(0..12) == 0 { tags.push("T:ff".into()); ops.push(Op::Taproot(idx, 0xff, Pv::All, None, None)); }
        }
        tags.push(format!("inputs:{}", nin)); tags.push(format!("outputs:{}", nout));
        tags.sort(); tags.dedup();
        let nt = interesting(&tx);
        let mut c = mk_case(&tx, &spent, r32(rng), &ops, tags, nt);
        c.text = format!("C03{}", &c.text[3..]);
        out.push(c);
    }
    // targeted: issuance range proofs on inputs WITHOUT an issuance (each field, on the signed input and on another one), an issuing input
    // beside them; every Schnorr type on key and script path, All and One
    {
        let mut tags = vec!["src:targeted-stray-rangeproofs".to_string()];
        let mut tx = loop { let t = rsigtx(rng, &mut tags); if t.input.len() >= 3 && t.input.iter().filter(|i| !i.has_issuance()).count() >= 2 { break t; } };
        let plain: Vec<usize> = (0..tx.input.len()).filter(|&i| !tx.input[i].has_issuance()).collect();
        tx.input[plain[0]].witness.amount_rangeproof = Some(rrangeproof(rng)); tx.input[plain[0]].witness.inflation_keys_rangeproof = None;
        tx.input[plain[1]].witness.inflation_keys_rangeproof = Some(rrangeproof(rng)); tx.input[plain[1]].witness.amount_rangeproof = None;
        let spent: Vec<TxOut> = (0..tx.input.len()).map(|_| rtxout(rng, Feat { big: false, no_witness: true }, &mut vec![])).collect();
        let mut ops = Vec::new();
        for idx in 0..tx.input.len() { for t in SCHNORR_TYPES {
            ops.push(Op::Key(idx, t, Pv::All));
            ops.push(Op::Taproot(idx, t, if t >= 0x81 { Pv::One(idx) } else { Pv::All }, None, Some((r32(rng), 0xffff_ffff))));
        } }
        let mut c = mk_case(&tx, &spent, r32(rng), &ops, tags, true);
        c.text = format!("C03{}", &c.text[3..]);
        out.push(c);
    }
    // targeted: the library computes the leaf hash from a script whose length sits on every compact-size boundary
    {
        let mut tags = vec!["src:targeted-leaf-script-lengths".to_string()];
        let tx = rsigtx(rng, &mut tags);
        let spent: Vec<TxOut> = (0..tx.input.len()).map(|_| rtxout(rng, Feat { big: false, no_witness: true }, &mut vec![])).collect();
        let lens: &[usize] = if thorough { &[0, 1, 252, 253, 254, 255, 256, 65535, 65536, 65537] } else { &[0, 252, 253, 254, 65535, 65536] };
        let ops: Vec<Op> = lens.iter().map(|&n| Op::ScriptPathSpend(0, *pick(rng, &SCHNORR_TYPES), Pv::All, rbytes(rng, n), 0xc4, 0xffff_ffff)).collect();
        let mut c = mk_case(&tx, &spent, r32(rng), &ops, tags, true);
        c.text = format!("C03{}", &c.text[3..]);
        out.push(c);
        // targeted: ScriptPath::new with every kind of leaf version other than the default, and a code-separator position (which the entry point ignores)
        let mut tags = vec!["src:targeted-leaf-versions".to_string()];
        let ops: Vec<Op> = [0xc0u8, 0xc2, 0xc6, 0xfe, 0x66, 0x00, 0x7e].iter().map(|&v| Op::ScriptPathSpend(0, *pick(rng, &SCHNORR_TYPES), Pv::All, rbytes(rng, 34), v, pk!(rng, [0xffff_ffffu32, 0, 5]))).collect();
        for o in &ops { if let Op::ScriptPathSpend(_, _, _, _, v, _) = o { tags.push(format!("leafver:{:02x}", v)); } }
        let mut c = mk_case(&tx, &spent, r32(rng), &ops, tags, true);
        c.text = format!("C03{}", &c.text[3..]);
        out.push(c);
    }
    out
}
