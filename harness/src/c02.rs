//! C02: txid / wtxid / block hash are the consensus hashes and ignore witness data.
use crate::{c01, txgen::*, util::*, Case, Out};
use elements::encode::{deserialize, serialize};
use elements::hashes::{sha256d, Hash};
use elements::{BlockExtData, BlockHeader, Script, Transaction, TxInWitness, TxOutWitness};
use rand::Rng;
use rand_chacha::ChaCha20Rng;

fn strip(tx: &Transaction) -> Transaction {
    let mut s = tx.clone();
    for i in &mut s.input { i.witness = TxInWitness::default(); }
    for o in &mut s.output { o.witness = TxOutWitness::default(); }
    s
}
/// every single-field modification of a transaction, tagged witness-only (true) or not (false)
fn tx_edits(tx: &Transaction) -> Vec<(bool, &'static str, Transaction)> {
    let mut v = Vec::new();
    let mut e = |w: bool, name: &'static str, f: &dyn Fn(&mut Transaction)| { let mut t = tx.clone(); f(&mut t); if t != *tx { v.push((w, name, t)); } };
    e(false, "version", &|t| t.version ^= 1);
    e(false, "lock_time", &|t| t.lock_time = elements::LockTime::from_consensus(t.lock_time.to_consensus_u32() ^ 1));
    for k in 0..tx.input.len() {
        e(false, "in.txid", &|t| { let mut b = t.input[k].previous_output.txid.to_byte_array(); b[3] ^= 4; t.input[k].previous_output.txid = elements::Txid::from_byte_array(b); });
        e(false, "in.vout", &|t| { if t.input[k].previous_output.vout != 0xffff_ffff { t.input[k].previous_output.vout ^= 1; } });
        e(false, "in.is_pegin", &|t| { if t.input[k].previous_output.vout != 0xffff_ffff { t.input[k].is_pegin = !t.input[k].is_pegin; } });
        e(false, "in.script_sig", &|t| { let mut b = t.input[k].script_sig.to_bytes(); b.push(0x51); t.input[k].script_sig = Script::from(b); });
        e(false, "in.sequence", &|t| t.input[k].sequence = elements::Sequence(t.input[k].sequence.0 ^ 1));
        e(false, "in.issuance.entropy", &|t| { if t.input[k].has_issuance() { t.input[k].asset_issuance.asset_entropy[0] ^= 1; } });
        e(false, "in.issuance.amount", &|t| { if t.input[k].has_issuance() { t.input[k].asset_issuance.amount = elements::confidential::Value::Explicit(123456); } });
        e(false, "in.issuance.keys", &|t| { if t.input[k].has_issuance() { t.input[k].asset_issuance.inflation_keys = match t.input[k].asset_issuance.inflation_keys { elements::confidential::Value::Explicit(v) => elements::confidential::Value::Explicit(v ^ 1), _ => elements::confidential::Value::Explicit(654321) }; } });
        e(false, "in.issuance.nonce", &|t| { if t.input[k].has_issuance() { let mut b = [0u8; 32]; b.copy_from_slice(t.input[k].asset_issuance.asset_blinding_nonce.as_ref()); b[31] ^= 1; if let Ok(tw) = elements::secp256k1_zkp::Tweak::from_slice(&b) { t.input[k].asset_issuance.asset_blinding_nonce = tw; } } });
        // an issuance appearing on an input that had none: by its amount only, and by its inflation keys only
        e(false, "in.issuance.new-amount-only", &|t| { if !t.input[k].has_issuance() && t.input[k].previous_output.vout != 0xffff_ffff { t.input[k].asset_issuance.amount = elements::confidential::Value::Explicit(5); } });
        e(false, "in.issuance.new-keys-only", &|t| { if !t.input[k].has_issuance() && t.input[k].previous_output.vout != 0xffff_ffff { t.input[k].asset_issuance.inflation_keys = elements::confidential::Value::Explicit(7); } });
        e(true, "in.wit.amount_rangeproof", &|t| { let w = &mut t.input[k].witness; std::mem::swap(&mut w.amount_rangeproof, &mut w.inflation_keys_rangeproof); });
        e(true, "in.wit.script", &|t| t.input[k].witness.script_witness.push(vec![1, 2, 3]));
        e(true, "in.wit.pegin", &|t| t.input[k].witness.pegin_witness.push(vec![9]));
        e(true, "in.wit.clear", &|t| t.input[k].witness = TxInWitness::default());
    }
    for k in 0..tx.output.len() {
        e(false, "out.value", &|t| t.output[k].value = elements::confidential::Value::Explicit(777));
        e(false, "out.asset", &|t| t.output[k].asset = elements::confidential::Asset::Explicit(elements::AssetId::from_byte_array([5; 32])));
        e(false, "out.nonce", &|t| t.output[k].nonce = elements::confidential::Nonce::Explicit([6; 32]));
        e(false, "out.script", &|t| { let mut b = t.output[k].script_pubkey.to_bytes(); b.push(0x52); t.output[k].script_pubkey = Script::from(b); });
        e(true, "out.wit.clear", &|t| t.output[k].witness = TxOutWitness::default());
    }
    v
}
fn header_edits(h: &BlockHeader) -> Vec<(bool, &'static str, BlockHeader)> {
    let mut v = Vec::new();
    let mut e = |w: bool, name: &'static str, f: &dyn Fn(&mut BlockHeader)| { let mut t = h.clone(); f(&mut t); if t != *h { v.push((w, name, t)); } };
    e(false, "version", &|t| t.version ^= 1);
    e(false, "prev", &|t| { let mut b = t.prev_blockhash.to_byte_array(); b[0] ^= 1; t.prev_blockhash = elements::BlockHash::from_byte_array(b); });
    e(false, "merkle_root", &|t| { let mut b = t.merkle_root.to_byte_array(); b[31] ^= 1; t.merkle_root = elements::TxMerkleNode::from_byte_array(b); });
    e(false, "time", &|t| t.time ^= 1);
    e(false, "height", &|t| t.height ^= 1);
    e(false, "ext.challenge/current", &|t| match &mut t.ext {
        BlockExtData::Proof { challenge, .. } => { let mut b = challenge.to_bytes(); b.push(1); *challenge = Script::from(b); }
        BlockExtData::Dynafed { current, .. } => { *current = match current.clone() { elements::dynafed::Params::Null => elements::dynafed::Params::Compact { signblockscript: Script::new(), signblock_witness_limit: 1, elided_root: elements::dynafed::ElidedRoot::from_byte_array([0; 32]) }, _ => elements::dynafed::Params::Null }; }
    });
    e(false, "ext.proposed", &|t| if let BlockExtData::Dynafed { proposed, .. } = &mut t.ext { *proposed = match proposed.clone() { elements::dynafed::Params::Null => elements::dynafed::Params::Compact { signblockscript: Script::new(), signblock_witness_limit: 2, elided_root: elements::dynafed::ElidedRoot::from_byte_array([1; 32]) }, _ => elements::dynafed::Params::Null }; });
    e(true, "ext.solution/witness", &|t| match &mut t.ext {
        BlockExtData::Proof { solution, .. } => { let mut b = solution.to_bytes(); b.push(1); *solution = Script::from(b); }
        BlockExtData::Dynafed { signblock_witness, .. } => signblock_witness.push(vec![7, 7]),
    });
    e(true, "clear_witness", &|t| t.clear_witness());
    v
}

pub fn eval(case: &str) -> Out {
    let w: Vec<&str> = case.split(' ').collect();
    if w.len() != 5 { return Out::ok("harnesserr args".into()); }
    let b = match unhex(w[4]) { Some(b) => b, None => return Out::ok("harnesserr hex".into()) };
    match w[1] {
        "tx" => match deserialize::<Transaction>(&b) {
            Err(_) => Out::ok("err".into()),
            Ok(tx) => {
                let (txid, wtxid) = (tx.txid().to_byte_array(), tx.wtxid().to_byte_array());
                let mut fail = None;
                if txid != sha256d::Hash::hash(&serialize(&strip(&tx))).to_byte_array() { fail = Some("txid-not-stripped-hash|txid is not the double-SHA256 of the witness-stripped serialization".to_string()); }
                else if wtxid != sha256d::Hash::hash(&serialize(&tx)).to_byte_array() { fail = Some("wtxid-not-full-hash|wtxid is not the double-SHA256 of the full serialization".to_string()); }
                // independent of the crate's own encoder: the reference encoder (txgen::ref_tx, written from the Elements wire format) applied to the
                // decoded value — catches an encoder/decoder pair that is self-consistent but no longer the consensus serialization
                else if tx_is_canonical(&tx) && wtxid != sha256d::Hash::hash(&ref_tx(&tx)).to_byte_array() { fail = Some("wtxid-not-consensus-hash|wtxid is not the double-SHA256 of the consensus serialization (reference encoder) of the decoded transaction".to_string()); }
                else if tx_is_canonical(&tx) && txid != sha256d::Hash::hash(&ref_tx(&strip(&tx))).to_byte_array() { fail = Some("txid-not-consensus-hash|txid is not the double-SHA256 of the witness-stripped consensus serialization (reference encoder)".to_string()); }
                else if (wtxid == txid) != !tx.has_witness() { fail = Some("wtxid-eq-txid|wtxid equals txid but not exactly when there is no witness".to_string()); }
                else {
                    for (witness_only, name, t2) in tx_edits(&tx) {
                        let same = t2.txid() == tx.txid();
                        if witness_only && !same { fail = Some(format!("witness-changes-txid|changing only {} changed the txid", name)); break; }
                        if !witness_only && same { fail = Some(format!("nonwitness-keeps-txid|changing {} did not change the txid", name)); break; }
                    }
                }
                Out { result: format!("ok {} {}", hex(&txid), hex(&wtxid)), pred_fail: fail }
            }
        },
        "header" => match deserialize::<BlockHeader>(&b) {
            Err(_) => Out::ok("err".into()),
            Ok(h) => {
                let bh = h.block_hash().to_byte_array();
                let mut c = h.clone(); c.clear_witness();
                let bc = c.block_hash().to_byte_array();
                let mut fail = None;
                // serialization of the cleared header = pre-image + one zero byte (empty solution / empty witness stack)
                let sc = serialize(&c);
                if sc.last() != Some(&0) || bh != sha256d::Hash::hash(&sc[..sc.len() - 1]).to_byte_array() { fail = Some("blockhash-preimage|block hash is not the double-SHA256 of the header serialization without solution/witness".to_string()); }
                // independent of the crate's encoder: the reference pre-image (txgen::ref_header without solution / signblock witness)
                else if h.version < 0x8000_0000 && bh != sha256d::Hash::hash(&{ let mut o = Vec::new(); ref_header(&mut o, &h, false); o }).to_byte_array() { fail = Some("blockhash-not-consensus-hash|block hash is not the double-SHA256 of the consensus serialization (reference encoder) of the header without solution / signblock witness".to_string()); }
                else if h.is_dynafed() != (sc[3] & 0x80 != 0) { fail = Some("dynafed-bit|dynafed marker bit".to_string()); }
                else {
                    // Block::block_hash is a further view of the same hash: asked for the header and then, on the same thread, for each edited header, it must
                    // be that header's hash (seeded C02-r6-4: a one-entry memo keyed on some of the header fields)
                    let via_block = |hh: &BlockHeader| elements::Block { header: hh.clone(), txdata: vec![] }.block_hash();
                    if via_block(&h) != h.block_hash() { fail = Some("block-view-differs|Block::block_hash differs from the hash of its header".to_string()); }
                    for (witness_only, name, h2) in header_edits(&h) {
                        if via_block(&h2) != h2.block_hash() && fail.is_none() { fail = Some(format!("block-view-differs|after changing {}, Block::block_hash is not the hash of the block's own header", name)); }
                        if fail.is_some() { break; }
                        let same = h2.block_hash() == h.block_hash();
                        if witness_only && !same { fail = Some(format!("witness-changes-blockhash|changing only {} changed the block hash", name)); break; }
                        if !witness_only && same { fail = Some(format!("nonwitness-keeps-blockhash|changing {} did not change the block hash", name)); break; }
                    }
                }
                Out { result: format!("ok {} {}", hex(&bh), hex(&bc)), pred_fail: fail }
            }
        },
        _ => Out::ok("harnesserr type".into()),
    }
}

pub fn gen(rng: &mut ChaCha20Rng, n: usize, thorough: bool) -> Vec<Case> {
    let mut out = Vec::new();
    let rename = |c: Case| Case { text: c.text.replacen("C01 ", "C02 ", 1), ..c };
    for v in repo_hex_vectors() {
        if v.len() < 20000 && deserialize::<Transaction>(&v).is_ok() { out.push(rename(c01::mk("tx", &v, vec!["src:repo-vector".into()], true))); }
        if v.len() < 20000 && deserialize::<BlockHeader>(&v).is_ok() { out.push(rename(c01::mk("header", &v, vec!["src:repo-vector".into()], true))); }
    }
    // targeted: every hashed length prefix on the compact-size boundaries (the ids hash the consensus serialization, reference encoder)
    for &len in &[252usize, 253, 254, 65535, 65536] {
        let mut tags = vec!["src:targeted-varint-boundary".to_string(), format!("len:{}", len)];
        let mut tx = rtx(rng, Feat { big: false, no_witness: false }, &mut tags);
        if tx.input.is_empty() { tx.input.push(rtxin(rng, Feat::default(), &mut tags)); }
        if tx.output.is_empty() { tx.output.push(rtxout(rng, Feat::default(), &mut tags)); }
        if len % 2 == 0 || len == 65535 { tx.input[0].script_sig = Script::from(rbytes(rng, len)); tags.push("at:script_sig".into()); }
        if len % 2 == 1 { tx.output[0].script_pubkey = Script::from(rbytes(rng, len)); tags.push("at:script_pubkey".into()); }
        out.push(rename(c01::mk("tx", &ref_tx(&tx), tags, true)));
        let mut tags = vec!["src:targeted-varint-boundary".to_string(), format!("len:{}", len)];
        let mut h = c01::rheader(rng, &mut tags);
        match &mut h.ext {
            BlockExtData::Proof { challenge, .. } => { *challenge = Script::from(rbytes(rng, len)); tags.push("at:challenge".into()); }
            BlockExtData::Dynafed { current, .. } => { *current = elements::dynafed::Params::Compact { signblockscript: Script::from(rbytes(rng, len)), signblock_witness_limit: 7, elided_root: elements::dynafed::ElidedRoot::from_byte_array(r32(rng)) }; tags.push("at:signblockscript".into()); }
        }
        out.push(rename(c01::mk("header", &ref_header_vec(&h), tags, true)));
    }
    for k in 0..n {
        let mut tags = vec!["src:structured".to_string()];
        if k % 4 == 3 {
            let h = c01::rheader(rng, &mut tags);
            out.push(rename(c01::mk("header", &ref_header_vec(&h), tags, true)));
        } else {
            let big = thorough && rng.gen_range(0..4) == 0; let tx = rtx_stray(rng, Feat { big, no_witness: false }, &mut tags);
            let nt = !tx.input.is_empty() || !tx.output.is_empty();
            out.push(rename(c01::mk("tx", &ref_tx(&tx), tags, nt)));
        }
    }
    out
}
