//! C11: asset and token ids follow the issuance derivation in every representation.
use crate::{c01, txgen::*, util::*, Case, Out};
use elements::encode::{deserialize, serialize};
use elements::hashes::{sha256d, Hash};
use elements::pset::PartiallySignedTransaction as Pset;
use elements::{fast_merkle_root, ContractHash, LockTime, Transaction, TxIn, TxOut};
use rand::seq::SliceRandom;
use rand::Rng;
use rand_chacha::ChaCha20Rng;

fn fmr(l: &[[u8; 32]]) -> [u8; 32] { fast_merkle_root(l).to_parts().0 }

// ---- JSON contract trees as tokens:  L<hex token> | A<n> v.. | O<n> (K<hex raw key>:<hex key literal> v)..
#[derive(Clone)]
enum J { Leaf(String), Arr(Vec<J>), Obj(Vec<(String, J)>) }
fn j_of_value(v: &serde_json::Value, order: u8) -> J {
    match v {
        serde_json::Value::Object(m) => {
            let mut e: Vec<(String, J)> = m.iter().map(|(k, v)| (k.clone(), j_of_value(v, order))).collect();
            match order { 1 => e.reverse(), 2 => { let h = e.len() / 2; e.rotate_left(h); } _ => {} }
            J::Obj(e)
        }
        serde_json::Value::Array(a) => J::Arr(a.iter().map(|x| j_of_value(x, order)).collect()),
        other => J::Leaf(serde_json::to_string(other).unwrap()),
    }
}
fn j_tokens(j: &J, out: &mut Vec<String>) {
    match j {
        J::Leaf(t) => out.push(format!("L{}", hex(t.as_bytes()))),
        J::Arr(a) => { out.push(format!("A{}", a.len())); for x in a { j_tokens(x, out); } }
        J::Obj(e) => { out.push(format!("O{}", e.len())); for (k, v) in e { out.push(format!("K{}:{}", hex(k.as_bytes()), hex(serde_json::to_string(k).unwrap().as_bytes()))); j_tokens(v, out); } }
    }
}
fn j_parse(toks: &[&str], pos: &mut usize) -> Option<J> {
    let t = *toks.get(*pos)?; *pos += 1;
    let (c, body) = t.split_at(1);
    match c {
        "L" => Some(J::Leaf(String::from_utf8(unhex(body)?).ok()?)),
        "A" => { let n: usize = body.parse().ok()?; let mut v = Vec::new(); for _ in 0..n { v.push(j_parse(toks, pos)?); } Some(J::Arr(v)) }
        "O" => { let n: usize = body.parse().ok()?; let mut v = Vec::new();
                 for _ in 0..n { let kt = *toks.get(*pos)?; *pos += 1; let raw = kt.get(1..)?.split(':').next()?; let k = String::from_utf8(unhex(raw)?).ok()?; v.push((k, j_parse(toks, pos)?)); }
                 Some(J::Obj(v)) }
        _ => None,
    }
}
fn j_text(j: &J, spaced: bool, reversed: bool, out: &mut String) {
    let sp = if spaced { " \n\t" } else { "" };
    match j {
        J::Leaf(t) => out.push_str(t),
        J::Arr(a) => { out.push('['); out.push_str(sp); for (n, x) in a.iter().enumerate() { if n > 0 { out.push(','); out.push_str(sp); } j_text(x, spaced, reversed, out); } out.push(']'); }
        J::Obj(e) => {
            let mut e: Vec<&(String, J)> = e.iter().collect();
            if reversed { e.reverse(); }
            out.push('{'); out.push_str(sp);
            for (n, (k, v)) in e.iter().enumerate() { if n > 0 { out.push(','); out.push_str(sp); } out.push_str(&serde_json::to_string(k).unwrap()); out.push_str(sp); out.push(':'); out.push_str(sp); j_text(v, spaced, reversed, out); }
            out.push_str(sp); out.push('}');
        }
    }
}
fn eval_jsonc(w: &[&str]) -> Out {
    // w[2] = w0|w1 (extra whitespace), then the tree tokens
    if w.len() < 4 { return Out::ok("harnesserr jsonc".into()); }
    let mut pos = 0;
    let j = match j_parse(&w[3..], &mut pos) { Some(j) if pos == w.len() - 3 => j, _ => return Out::ok("harnesserr jsonc".into()) };
    let mut text = String::new(); j_text(&j, w[2] == "w1", false, &mut text);
    let h = ContractHash::from_json_contract(&text);
    // the property's predicate on the implementation: the same contract with every object's keys reversed and re-spaced
    let mut alt = String::new(); j_text(&j, w[2] != "w1", true, &mut alt);
    let h2 = ContractHash::from_json_contract(&alt);
    let mut fail = None;
    match (&h, &h2) { (Ok(a), Ok(b)) if a == b => {}, (Err(_), Err(_)) => {}, _ => { fail = Some("json-order|contract hash depends on key order or whitespace".to_string()); } }
    Out { result: match h { Ok(h) => format!("ok {}", hex(&h.to_byte_array())), Err(_) => "err".into() }, pred_fail: fail }
}

pub fn eval(case: &str) -> Out {
    let w: Vec<&str> = case.split(' ').collect();
    if w.len() >= 2 && w[1] == "jsonc" { return eval_jsonc(&w); }
    if w.len() == 3 && w[1] == "json" {
        // the contract hash must not depend on key order or insignificant whitespace: compare with a re-ordered, re-spaced variant
        let text = match unhex(w[2]).and_then(|b| String::from_utf8(b).ok()) { Some(t) => t, None => return Out::ok("harnesserr json".into()) };
        let v: serde_json::Value = match serde_json::from_str(&text) { Ok(v) => v, Err(_) => return Out::ok("json".into()) };
        let h0 = ContractHash::from_json_contract(&text);
        let variants = [reorder(&v, false, false), reorder(&v, true, true), reorder(&v, true, false)];
        let mut fail = None;
        for t in variants.iter() {
            let h = ContractHash::from_json_contract(t);
            match (&h0, &h) { (Ok(a), Ok(b)) if a == b => {}, (Err(_), Err(_)) => {}, _ => { fail = Some("json-order|contract hash depends on key order or whitespace".to_string()); } }
        }
        return Out { result: "json".into(), pred_fail: fail };
    }
    if w.len() != 5 && !(w.len() == 6 && w[1] == "mem") { return Out::ok("harnesserr args".into()); }
    let b = match unhex(w[4]) { Some(b) => b, None => return Out::ok("harnesserr hex".into()) };
    let mut i = match deserialize::<TxIn>(&b) { Ok(i) => i, Err(_) => return Out::ok("err".into()) };
    // `mem`: the plain index replaced in memory after decoding (an issuance on the all-ones index: no encoding carries it)
    if w.len() == 6 { match w[5].parse::<u32>() { Ok(v) => i.previous_output.vout = v, Err(_) => return Out::ok("harnesserr vout".into()) } }
    let (a, t) = i.issuance_ids();
    let pin = elements::pset::Input::from_txin(i.clone());
    let (pa, pt) = pin.issuance_ids();
    // third view: transaction -> PSET -> extracted transaction
    let tx = Transaction { version: 2, lock_time: LockTime::ZERO, input: vec![i.clone()], output: vec![TxOut::new_fee(1, elements::AssetId::from_byte_array([1; 32]))] };
    let ex = Pset::from_tx(tx).extract_tx().ok().map(|t| t.input[0].issuance_ids());
    let mut fail = None;
    // the formulas of the property, recomputed from the fields
    let iss = &i.asset_issuance;
    let zero_nonce = iss.asset_blinding_nonce.as_ref() == &[0u8; 32];
    let entropy = if zero_nonce {
        let mut op = Vec::new(); op.extend_from_slice(&i.previous_output.txid.to_byte_array()); op.extend_from_slice(&i.previous_output.vout.to_le_bytes());
        fmr(&[sha256d::Hash::hash(&op).to_byte_array(), iss.asset_entropy])
    } else { iss.asset_entropy };
    let mut second = [0u8; 32]; second[0] = if iss.amount.is_confidential() { 2 } else { 1 };
    if a.to_byte_array() != fmr(&[entropy, [0u8; 32]]) || t.to_byte_array() != fmr(&[entropy, second]) {
        fail = Some("formula|TxIn::issuance_ids does not follow the derivation (plain index, entropy, 0 / 1 / 2)".to_string());
    } else if (pa, pt) != (a, t) {
        // known class F10: zero nonce and a flag bit in the serialized index
        // (the flagged-index defect F10 was repaired by c21fbfc; a difference here is a violation again)
        { fail = Some("pset-view|the PSET input yields different ids".to_string()); }
    } else if let Some(e) = ex { if e != (a, t) { fail = Some("extract-view|the extracted transaction's input yields different ids".to_string()); } }
    // the public constructors of AssetId are further views of the same derivation: each recomputed from the fields
    if fail.is_none() {
        use elements::AssetId;
        let one = { let mut x = [0u8; 32]; x[0] = 1; x }; let two = { let mut x = [0u8; 32]; x[0] = 2; x };
        let ent = elements::AssetEntropy::from_byte_array(entropy);
        let via: [(&str, [u8; 32], [u8; 32]); 3] = [
            ("from_entropy", AssetId::from_entropy(ent).to_byte_array(), fmr(&[entropy, [0u8; 32]])),
            ("reissuance_token_from_entropy(.., false)", AssetId::reissuance_token_from_entropy(ent, false).to_byte_array(), fmr(&[entropy, one])),
            ("reissuance_token_from_entropy(.., true)", AssetId::reissuance_token_from_entropy(ent, true).to_byte_array(), fmr(&[entropy, two])) ];
        for (name, got, want) in via { if got != want { fail = Some(format!("ctor-view|AssetId::{} does not follow the derivation", name)); } }
        if zero_nonce && fail.is_none() {
            let ch = ContractHash::from_byte_array(iss.asset_entropy);
            let po = i.previous_output;
            if AssetId::generate_asset_entropy(po, ch).to_byte_array() != entropy { fail = Some("ctor-view|AssetId::generate_asset_entropy does not follow the derivation".into()); }
            else if AssetId::new_issuance(po, ch).to_byte_array() != fmr(&[entropy, [0u8; 32]]) { fail = Some("ctor-view|AssetId::new_issuance does not follow the derivation".into()); }
            else if AssetId::new_reissuance_token(po, ch, false).to_byte_array() != fmr(&[entropy, one]) || AssetId::new_reissuance_token(po, ch, true).to_byte_array() != fmr(&[entropy, two]) {
                fail = Some("ctor-view|AssetId::new_reissuance_token does not follow the derivation".into()); }
        }
    }
    let show = |p: (elements::AssetId, elements::AssetId)| format!("{} {}", hex(&p.0.to_byte_array()), hex(&p.1.to_byte_array()));
    Out { result: format!("ok {} {} {}", show((a, t)), show((pa, pt)), ex.map(show).unwrap_or_else(|| "- -".into())), pred_fail: fail }
}

/// re-serialise a JSON value with object keys reversed / shuffled deterministically and optional extra whitespace
fn reorder(v: &serde_json::Value, reverse: bool, spaced: bool) -> String {
    fn go(v: &serde_json::Value, reverse: bool, spaced: bool, out: &mut String) {
        let sp = if spaced { " \n\t" } else { "" };
        match v {
            serde_json::Value::Object(m) => {
                let mut keys: Vec<&String> = m.keys().collect();
                if reverse { keys.reverse(); } else { let h = keys.len() / 2; keys.rotate_left(h); }
                out.push('{'); out.push_str(sp);
                for (n, k) in keys.iter().enumerate() {
                    if n > 0 { out.push(','); out.push_str(sp); }
                    out.push_str(&serde_json::to_string(k).unwrap()); out.push_str(sp); out.push(':'); out.push_str(sp);
                    go(&m[*k], reverse, spaced, out);
                }
                out.push_str(sp); out.push('}');
            }
            serde_json::Value::Array(a) => {
                out.push('['); out.push_str(sp);
                for (n, x) in a.iter().enumerate() { if n > 0 { out.push(','); out.push_str(sp); } go(x, reverse, spaced, out); }
                out.push(']');
            }
            other => out.push_str(&serde_json::to_string(other).unwrap()),
        }
    }
    let mut s = String::new();
    go(v, reverse, spaced, &mut s);
    s
}
fn rjson(rng: &mut ChaCha20Rng, depth: u32) -> serde_json::Value {
    let n = rng.gen_range(1..5);
    let mut m = serde_json::Map::new();
    let mut names = vec!["name", "ticker", "precision", "entity", "issuer_pubkey", "version", "domain", "zz", "a", "B", "é"];
    names.shuffle(rng);
    for k in names.into_iter().take(n) {
        let v = match rng.gen_range(0..6) {
            0 => serde_json::json!(rng.gen::<u32>()), 1 => serde_json::json!(format!("s{}", rng.gen::<u16>())), 2 => serde_json::json!(true), 3 => serde_json::Value::Null,
            4 if depth > 0 => rjson(rng, depth - 1),
            _ => serde_json::json!([1, {"y": 2, "x": rng.gen::<u8>()}, "z"]),
        };
        m.insert(k.to_string(), v);
    }
    serde_json::Value::Object(m)
}

pub fn gen(rng: &mut ChaCha20Rng, n: usize, thorough: bool) -> Vec<Case> {
    let mut out = Vec::new();
    let rename = |c: Case| Case { text: c.text.replacen("C01 ", "C11 ", 1), ..c };
    for k in 0..n {
        let mut tags = Vec::new();
        let mut i = rtxin(rng, Feat { big: false, no_witness: true }, &mut tags);
        if k % 9 == 0 { i.previous_output = elements::OutPoint::null(); i.is_pegin = false; i.asset_issuance = Default::default(); tags.push("in:null-outpoint".into()); }
        if k % 7 == 0 { i.previous_output.vout = pk!(rng, [0u32, 0x3fff_fffe, 1 << 29]); }
        let nt = i.has_issuance();
        out.push(rename(c01::mk("txin", &serialize(&i), tags, nt)));
    }
    // in-memory inputs: an issuance (new or re-issuance, with and without the peg-in flag) whose plain index is the all-ones index, on a null and on a real txid.
    // (The one other value no encoding carries — index 0x3fffffff with BOTH flags — is left out: its PSET index collides with the all-ones index by
    // construction of the format, see DESIGN C11.)
    for k in 0..(n / 12).max(6) {
        let mut tags = vec!["mem:issuance-on-allones-index".to_string()];
        let mut i = loop { let i = rtxin(rng, Feat { big: false, no_witness: true }, &mut tags); if i.has_issuance() && i.previous_output.vout < (1 << 30) - 1 { break i; } };
        if k % 2 == 0 { i.previous_output.txid = elements::Txid::from_byte_array([0u8; 32]); tags.push("mem:null-txid".into()); }
        let c = rename(c01::mk("txin", &serialize(&i), tags, true));
        out.push(Case { text: format!("{} 4294967295", c.text.replacen("C11 txin ", "C11 mem ", 1)), ..c });
    }
    for _ in 0..(n / 4).max(4) {
        let j = rjson(rng, 2);
        let _ = thorough;
        out.push(Case { text: format!("C11 json {}", hex(serde_json::to_string(&j).unwrap().as_bytes())), tags: vec!["json".into()], nontrivial: true });
        // the same contract as a tree, its keys in three different orders, with and without extra whitespace: the model must give one hash
        for order in 0..3u8 {
            let mut toks = Vec::new(); j_tokens(&j_of_value(&j, order), &mut toks);
            out.push(Case { text: format!("C11 jsonc w{} {}", order % 2, toks.join(" ")), tags: vec![format!("jsonc:order{}", order)], nontrivial: true });
        }
    }
    out
}
