//! Structured generators for transactions, headers and blocks over the feature lattice the properties quantify over.
use crate::util::*;
use elements::confidential::{Asset, Nonce, Value};
use elements::secp256k1_zkp::{self as zkp, Generator, PedersenCommitment, PublicKey, RangeProof, SecretKey, SurjectionProof, Tag, Tweak};
use elements::{AssetIssuance, LockTime, OutPoint, Script, Sequence, Transaction, TxIn, TxInWitness, TxOut, TxOutWitness};

use rand::Rng;
use rand_chacha::ChaCha20Rng;

pub fn secp() -> &'static zkp::Secp256k1<zkp::All> { zkp::SECP256K1 }

pub fn rtweak(rng: &mut ChaCha20Rng) -> Tweak {
    loop { if let Ok(t) = Tweak::from_inner(r32(rng)) { return t; } }
}
pub fn rgenerator(rng: &mut ChaCha20Rng) -> Generator {
    Generator::new_blinded(secp(), Tag::from(r32(rng)), rtweak(rng))
}
pub fn rcommitment(rng: &mut ChaCha20Rng) -> PedersenCommitment {
    let g = rgenerator(rng);
    PedersenCommitment::new(secp(), rng.gen::<u64>() >> 12, rtweak(rng), g)
}
pub fn rpubkey(rng: &mut ChaCha20Rng) -> PublicKey {
    loop { if let Ok(sk) = SecretKey::from_slice(&r32(rng)) { return PublicKey::from_secret_key(secp(), &sk); } }
}
/// a byte string the range-proof parser accepts (header rules only; not a verifying proof)
pub fn rrangeproof(rng: &mut ChaCha20Rng) -> Box<RangeProof> {
    loop {
        let n = pk!(rng, [65usize, 66, 73, 100, 252, 253, 300, 2893]);
        let mut b = rbytes(rng, n);
        match rng.gen_range(0..4) {
            0 => b[0] &= 0x1f,                                   // no range, no min
            1 => { b[0] = 0x40 | (rng.gen::<u8>() % 19); b[1] = rng.gen::<u8>() % 64; }
            2 => { b[0] = 0x20 | (b[0] & 0x1f); }               // min value, no range
            _ => { b[0] = 0x60 | (rng.gen::<u8>() % 8); b[1] = rng.gen::<u8>() % 40; }
        }
        if let Ok(p) = RangeProof::from_slice(&b) { return Box::new(p); }
    }
}
pub fn rsurjproof(rng: &mut ChaCha20Rng) -> Box<SurjectionProof> {
    loop {
        let n_inputs = pk!(rng, [1usize, 2, 3, 7, 8, 9, 16, 255, 256]);
        let bm = (n_inputs + 7) / 8;
        let mut bitmap = rbytes(rng, bm);
        if n_inputs % 8 != 0 { let last = bm - 1; bitmap[last] &= (1u16 << (n_inputs % 8)) as u8 - 1; }
        let ones: u32 = bitmap.iter().map(|b| b.count_ones()).sum();
        let mut b = vec![(n_inputs & 0xff) as u8, (n_inputs >> 8) as u8];
        b.extend_from_slice(&bitmap);
        b.extend_from_slice(&rbytes(rng, 32 * (1 + ones as usize)));
        if let Ok(p) = SurjectionProof::from_slice(&b) { return Box::new(p); }
    }
}
pub fn pick<'a, T>(rng: &mut ChaCha20Rng, xs: &'a [T]) -> &'a T { &xs[rng.gen_range(0..xs.len())] }

/// lengths on both sides of the varint boundaries; the large ones only when `big`
pub fn boundary_len(rng: &mut ChaCha20Rng, big: bool) -> usize {
    let small = [0usize, 0, 1, 1, 2, 20, 22, 34, 75, 76, 0xfc, 0xfd, 0xfe, 0x100];
    let large = [0xffffusize, 0x10000, 0x10001];
    if big && rng.gen_range(0..12) == 0 { *pick(rng, &large) } else { *pick(rng, &small) }
}
pub fn rscript(rng: &mut ChaCha20Rng, big: bool) -> Script { { let n = boundary_len(rng, big); Script::from(rbytes(rng, n)) } }
pub fn rstack(rng: &mut ChaCha20Rng, big: bool) -> Vec<Vec<u8>> {
    // rarely: element counts on both sides of the one-byte varint limit (then with tiny elements)
    if rng.gen_range(0..14) == 0 {
        let n = pk!(rng, [0xfcusize, 0xfd, 0xfe, 0x100]);
        return (0..n).map(|_| { let l = rng.gen_range(0..3); rbytes(rng, l) }).collect();
    }
    let n = pk!(rng, [0usize, 0, 1, 2, 3, 5]);
    (0..n).map(|_| { let l = boundary_len(rng, big); rbytes(rng, l) }).collect()
}
pub fn rvalue(rng: &mut ChaCha20Rng, allow_null: bool) -> Value {
    match rng.gen_range(0..if allow_null { 5 } else { 4 }) {
        0 | 1 => Value::Explicit(pk!(rng, [0u64, 1, 0xff, 0x100, 21_000_000_0000_0000, u64::MAX, rng.gen()])),
        2 | 3 => Value::Confidential(rcommitment(rng)),
        _ => Value::Null,
    }
}
pub fn rasset(rng: &mut ChaCha20Rng, allow_null: bool) -> Asset {
    match rng.gen_range(0..if allow_null { 5 } else { 4 }) {
        0 | 1 => Asset::Explicit(elements::AssetId::from_byte_array(r32(rng))),
        2 | 3 => Asset::Confidential(rgenerator(rng)),
        _ => Asset::Null,
    }
}
pub fn rnonce(rng: &mut ChaCha20Rng) -> Nonce {
    match rng.gen_range(0..5) {
        0 | 1 => Nonce::Null,
        2 => Nonce::Explicit(r32(rng)),
        _ => Nonce::Confidential(rpubkey(rng)),
    }
}

#[derive(Clone, Copy, Default)]
pub struct Feat { pub big: bool, pub no_witness: bool }

pub fn rtxin(rng: &mut ChaCha20Rng, f: Feat, tags: &mut Vec<String>) -> TxIn {
    let kind = rng.gen_range(0..8);
    let mut i = TxIn::default();
    let vout = pk!(rng, [0u32, 1, 2, 0xff, 0x3fff_fffe, 0x3fff_ffff, rng.gen::<u32>() & 0x3fff_ffff]);
    i.previous_output = OutPoint::new(elements::Txid::from_byte_array(r32(rng)), vout);
    i.script_sig = rscript(rng, f.big);
    i.sequence = Sequence(pk!(rng, [0u32, 1, 0xffff_fffe, 0xffff_ffff, rng.gen()]));
    match kind {
        0 => {
            // the coinbase index 0xffffffff: with the null txid (a real coinbase) or with an arbitrary txid (still no flags)
            if rng.gen_range(0..2) == 0 { i.previous_output = OutPoint::null(); tags.push("in:coinbase".into()); }
            else { i.previous_output.vout = 0xffff_ffff; tags.push("in:allones-index".into()); }
        }
        1 | 2 => { tags.push("in:plain".into()); }
        3 => { i.is_pegin = true; tags.push("in:pegin".into()); }
        _ => {
            // issuance (4,5: new; 6: reissuance; 7: pegin + issuance)
            let reissue = kind == 6;
            if kind == 7 { i.is_pegin = true; tags.push("in:pegin+issuance".into()); }
            let amount = rvalue(rng, true);
            let mut keys = if reissue { Value::Null } else { rvalue(rng, true) };
            if amount.is_null() && keys.is_null() { keys = Value::Explicit(1); }
            i.asset_issuance = AssetIssuance {
                asset_blinding_nonce: if reissue { rtweak(rng) } else { Tweak::from_inner([0u8; 32]).unwrap() },
                asset_entropy: r32(rng), amount, inflation_keys: keys,
            };
            tags.push(if reissue { "in:reissuance".into() } else { "in:issuance".into() });
            if i.previous_output.vout == 0x3fff_ffff && i.is_pegin { i.previous_output.vout = 0x3fff_fffe; }
        }
    }
    if !f.no_witness {
        let mut w = TxInWitness::default();
        if rng.gen_range(0..4) == 0 && i.has_issuance() { w.amount_rangeproof = Some(rrangeproof(rng)); tags.push("wit:amount_rp".into()); }
        if rng.gen_range(0..5) == 0 && i.has_issuance() { w.inflation_keys_rangeproof = Some(rrangeproof(rng)); tags.push("wit:keys_rp".into()); }
        if rng.gen_range(0..3) == 0 { w.script_witness = rstack(rng, f.big); if !w.script_witness.is_empty() { tags.push("wit:script".into()); } }
        if i.is_pegin && rng.gen_range(0..2) == 0 { w.pegin_witness = rstack(rng, false); if !w.pegin_witness.is_empty() { tags.push("wit:pegin".into()); } }
        i.witness = w;
    }
    i
}
pub fn rtxout(rng: &mut ChaCha20Rng, f: Feat, tags: &mut Vec<String>) -> TxOut {
    let mut o = TxOut { asset: rasset(rng, false), value: rvalue(rng, false), nonce: rnonce(rng), script_pubkey: rscript(rng, f.big), witness: TxOutWitness::default() };
    if rng.gen_range(0..12) == 0 { o.asset = Asset::Null; o.value = Value::Null; tags.push("out:null".into()); }
    tags.push(format!("out:{}{}{}", if o.asset.is_confidential() { "A" } else { "a" }, if o.value.is_confidential() { "V" } else { "v" }, if o.nonce.is_confidential() { "N" } else { "n" }));
    if !f.no_witness {
        if rng.gen_range(0..3) == 0 { o.witness.surjection_proof = Some(rsurjproof(rng)); tags.push("wit:surj".into()); }
        if rng.gen_range(0..3) == 0 { o.witness.rangeproof = Some(rrangeproof(rng)); tags.push("wit:range".into()); }
    }
    o
}
/// witness fields that exist independently of the input's flags (legal at the consensus level): a peg-in witness stack on an input that is not
/// a peg-in, issuance range proofs on an input without an issuance
pub fn stray_witness(rng: &mut ChaCha20Rng, tx: &mut Transaction, tags: &mut Vec<String>) {
    if tx.input.is_empty() { return; }
    let k = rng.gen_range(0..tx.input.len());
    let i = &mut tx.input[k];
    if !i.is_pegin && rng.gen_range(0..3) != 0 { let n0 = pk!(rng, [0usize, 1, 33, 253]); i.witness.pegin_witness = vec![rbytes(rng, n0), rbytes(rng, 2)]; tags.push("stray:pegin_witness".into()); }
    if !i.has_issuance() && rng.gen_range(0..2) == 0 {
        if rng.gen_range(0..2) == 0 { i.witness.amount_rangeproof = Some(rrangeproof(rng)); tags.push("stray:amount_rp".into()); }
        else { i.witness.inflation_keys_rangeproof = Some(rrangeproof(rng)); tags.push("stray:keys_rp".into()); }
    }
}
/// rtx, one time in three with stray witness fields
pub fn rtx_stray(rng: &mut ChaCha20Rng, f: Feat, tags: &mut Vec<String>) -> Transaction {
    let mut t = rtx(rng, f, tags);
    if !f.no_witness && rng.gen_range(0..3) == 0 { stray_witness(rng, &mut t, tags); }
    t
}
pub fn rtx(rng: &mut ChaCha20Rng, f: Feat, tags: &mut Vec<String>) -> Transaction {
    let mut nin = pk!(rng, [0usize, 1, 1, 2, 3, 5]);
    let mut nout = pk!(rng, [0usize, 1, 1, 2, 3, 6]);
    // rarely: input / output counts on both sides of the one-byte varint limit
    match rng.gen_range(0..40) { 0 => nin = pk!(rng, [0xfcusize, 0xfd, 0x100]), 1 => nout = pk!(rng, [0xfcusize, 0xfd, 0x100]), _ => {} }
    let f = if nin > 100 || nout > 100 { Feat { big: false, ..f } } else { f };
    let mut f = f;
    match rng.gen_range(0..6) { 0 => f.no_witness = true, _ => {} }
    let wit_side = rng.gen_range(0..4); // 1: only inputs, 2: only outputs
    let mut tx = Transaction {
        version: pk!(rng, [1u32, 2, 2, 0, 0xffff_ffff, rng.gen()]),
        lock_time: LockTime::from_consensus(pk!(rng, [0u32, 1, 499_999_999, 500_000_000, 0xffff_ffff, rng.gen()])),
        input: (0..nin).map(|_| rtxin(rng, f, tags)).collect(),
        output: (0..nout).map(|_| rtxout(rng, f, tags)).collect(),
    };
    if wit_side == 1 { for o in &mut tx.output { o.witness = TxOutWitness::default(); } tags.push("wit:inputs-only".into()); }
    if wit_side == 2 { for i in &mut tx.input { i.witness = TxInWitness::default(); } tags.push("wit:outputs-only".into()); }
    tags.push(if tx.has_witness() { "tx:witness".into() } else { "tx:nowitness".into() });
    tx
}

/// all 33-byte windows of `b` that the matching secp256k1 point parser accepts (the model's curve oracle for this input)
pub fn valid_points(b: &[u8]) -> Vec<Vec<u8>> {
    let mut out: Vec<Vec<u8>> = Vec::new();
    if b.len() < 33 { return out; }
    for i in 0..=b.len() - 33 {
        let w = &b[i..i + 33];
        let ok = match w[0] {
            2 | 3 => PublicKey::from_slice(w).is_ok(),
            8 | 9 => PedersenCommitment::from_slice(w).is_ok(),
            10 | 11 => Generator::from_slice(w).is_ok(),
            _ => false,
        };
        if ok && !out.iter().any(|x| x == w) { out.push(w.to_vec()); }
    }
    out
}

/// byte-level mutations aimed at the canonicity rules
pub fn mutate(rng: &mut ChaCha20Rng, b: &[u8], tags: &mut Vec<String>) -> Vec<u8> {
    let mut v = b.to_vec();
    if v.is_empty() { v.push(rng.gen()); tags.push("mut:extend".into()); return v; }
    match rng.gen_range(0..9) {
        0 => { let i = rng.gen_range(0..v.len()); v[i] ^= 1 << rng.gen_range(0..8); tags.push("mut:bitflip".into()); }
        1 => { let i = rng.gen_range(0..v.len()); v[i] = rng.gen(); tags.push("mut:byte".into()); }
        2 => { let n = rng.gen_range(0..v.len()); v.truncate(n); tags.push("mut:truncate".into()); }
        3 => { let n = rng.gen_range(1..4); v.extend(rbytes(rng, n)); tags.push("mut:extend".into()); }
        4 => { if v.len() > 4 { v[4] = pk!(rng, [0u8, 1, 2, 0xff]); } tags.push("mut:flagbyte".into()); }
        5 => { // make some single-byte varint non-minimal: x -> fd x 00
            let i = rng.gen_range(0..v.len()); if v[i] < 0xfd { let x = v[i]; v.splice(i..i + 1, [0xfd, x, 0]); } tags.push("mut:nonminimal-varint".into()); }
        6 => { // set a high bit in some little-endian u32 (outpoint index flags, header version bit)
            let i = rng.gen_range(0..v.len()); v[i] |= pk!(rng, [0x40u8, 0x80, 0xc0]); tags.push("mut:highbits".into()); }
        7 => { // replace a prefix-looking byte
            let i = rng.gen_range(0..v.len()); v[i] = pk!(rng, [0u8, 1, 2, 3, 4, 8, 9, 10, 11, 12]); tags.push("mut:prefix".into()); }
        _ => { let i = rng.gen_range(0..v.len()); let j = rng.gen_range(0..v.len()); v.swap(i, j); tags.push("mut:swap".into()); }
    }
    v
}

/// hex strings embedded in the repository's own sources (test vectors), longest first
pub fn repo_hex_vectors() -> Vec<Vec<u8>> {
    let repo = std::env::var("ELEMENTS_REPO").unwrap_or_else(|_| "/repo".into());
    let mut out = Vec::new();
    for f in ["src/transaction.rs", "src/block.rs", "src/pset/mod.rs", "src/blind.rs", "src/sighash.rs", "src/dynafed.rs"] {
        if let Ok(s) = std::fs::read_to_string(format!("{}/{}", repo, f)) {
            // join string literal continuations:  "abc\<newline>   def"  and  "abc" <newline> "def"
            let s = s.replace("\\\n", "");
            let mut cur = String::new();
            let mut chars = s.chars().peekable();
            let mut in_str = false;
            while let Some(c) = chars.next() {
                if c == '"' { in_str = !in_str; if !in_str { /* literal closed; keep accumulating across adjacent literals */ } continue; }
                if in_str {
                    if c.is_ascii_hexdigit() { cur.push(c.to_ascii_lowercase()); } else if !c.is_whitespace() { if cur.len() >= 120 { if let Some(b) = unhex(&cur[..cur.len() & !1]) { out.push(b); } } cur.clear(); }
                } else if !c.is_whitespace() && c != ',' && c != '+' {
                    if cur.len() >= 120 { if let Some(b) = unhex(&cur[..cur.len() & !1]) { out.push(b); } }
                    cur.clear();
                }
            }
        }
    }
    for f in ["tests/data"] {
        if let Ok(rd) = std::fs::read_dir(format!("{}/{}", repo, f)) {
            for e in rd.flatten() {
                if let Ok(s) = std::fs::read_to_string(e.path()) { if let Some(b) = unhex(s.trim()) { out.push(b); } }
            }
        }
    }
    out.sort(); out.dedup();
    out
}

// ---------------------------------------------------------------------------------------------------------------
// Reference encoder: an independent, deliberately naive serializer of in-memory transactions written against the
// consensus format (not calling any of the crate's Encodable impls), so that an encoder regression in the crate cannot
// hide behind inputs that were produced by that same encoder.
pub fn ref_varint(out: &mut Vec<u8>, n: u64) {
    if n < 0xfd { out.push(n as u8); }
    else if n <= 0xffff { out.push(0xfd); out.extend_from_slice(&(n as u16).to_le_bytes()); }
    else if n <= 0xffff_ffff { out.push(0xfe); out.extend_from_slice(&(n as u32).to_le_bytes()); }
    else { out.push(0xff); out.extend_from_slice(&n.to_le_bytes()); }
}
pub fn ref_bytes(out: &mut Vec<u8>, b: &[u8]) { ref_varint(out, b.len() as u64); out.extend_from_slice(b); }
pub fn ref_value(out: &mut Vec<u8>, v: &Value) {
    match v { Value::Null => out.push(0), Value::Explicit(n) => { out.push(1); out.extend_from_slice(&n.to_be_bytes()); } Value::Confidential(c) => out.extend_from_slice(&c.serialize()) }
}
pub fn ref_asset(out: &mut Vec<u8>, v: &Asset) {
    match v { Asset::Null => out.push(0), Asset::Explicit(a) => { out.push(1); out.extend_from_slice(&a.to_byte_array()); } Asset::Confidential(g) => out.extend_from_slice(&g.serialize()) }
}
pub fn ref_nonce(out: &mut Vec<u8>, v: &Nonce) {
    match v { Nonce::Null => out.push(0), Nonce::Explicit(b) => { out.push(1); out.extend_from_slice(&b[..]); } Nonce::Confidential(k) => out.extend_from_slice(&k.serialize()) }
}
pub fn ref_stack(out: &mut Vec<u8>, s: &[Vec<u8>]) { ref_varint(out, s.len() as u64); for e in s { ref_bytes(out, e); } }
pub fn ref_txin(out: &mut Vec<u8>, i: &TxIn) {
    let has_issuance = !(i.asset_issuance.amount.is_null() && i.asset_issuance.inflation_keys.is_null());
    let mut vout = i.previous_output.vout;
    if i.is_pegin { vout |= 1 << 30; }
    if has_issuance { vout |= 1 << 31; }
    out.extend_from_slice(&i.previous_output.txid.to_byte_array());
    out.extend_from_slice(&vout.to_le_bytes());
    ref_bytes(out, i.script_sig.as_bytes());
    out.extend_from_slice(&i.sequence.0.to_le_bytes());
    if has_issuance {
        out.extend_from_slice(i.asset_issuance.asset_blinding_nonce.as_ref());
        out.extend_from_slice(&i.asset_issuance.asset_entropy);
        ref_value(out, &i.asset_issuance.amount);
        ref_value(out, &i.asset_issuance.inflation_keys);
    }
}
pub fn ref_txout(out: &mut Vec<u8>, o: &TxOut) {
    ref_asset(out, &o.asset); ref_value(out, &o.value); ref_nonce(out, &o.nonce); ref_bytes(out, o.script_pubkey.as_bytes());
}
pub fn ref_tx(tx: &Transaction) -> Vec<u8> {
    let mut out = Vec::new();
    let in_wit_empty = |w: &TxInWitness| w.amount_rangeproof.is_none() && w.inflation_keys_rangeproof.is_none() && w.script_witness.is_empty() && w.pegin_witness.is_empty();
    let out_wit_empty = |w: &TxOutWitness| w.surjection_proof.is_none() && w.rangeproof.is_none();
    let has_wit = tx.input.iter().any(|i| !in_wit_empty(&i.witness)) || tx.output.iter().any(|o| !out_wit_empty(&o.witness));
    out.extend_from_slice(&tx.version.to_le_bytes());
    out.push(has_wit as u8);
    ref_varint(&mut out, tx.input.len() as u64);
    for i in &tx.input { ref_txin(&mut out, i); }
    ref_varint(&mut out, tx.output.len() as u64);
    for o in &tx.output { ref_txout(&mut out, o); }
    out.extend_from_slice(&tx.lock_time.to_consensus_u32().to_le_bytes());
    if has_wit {
        for i in &tx.input {
            ref_bytes(&mut out, &i.witness.amount_rangeproof.as_ref().map(|p| p.serialize()).unwrap_or_default());
            ref_bytes(&mut out, &i.witness.inflation_keys_rangeproof.as_ref().map(|p| p.serialize()).unwrap_or_default());
            ref_stack(&mut out, &i.witness.script_witness);
            ref_stack(&mut out, &i.witness.pegin_witness);
        }
        for o in &tx.output {
            ref_bytes(&mut out, &o.witness.surjection_proof.as_ref().map(|p| p.serialize()).unwrap_or_default());
            ref_bytes(&mut out, &o.witness.rangeproof.as_ref().map(|p| p.serialize()).unwrap_or_default());
        }
    }
    out
}
/// generated inputs are canonical except for the coinbase index carrying a flag; this says whether `ref_tx(tx)` must be accepted
pub fn tx_is_canonical(tx: &Transaction) -> bool {
    tx.input.iter().all(|i| {
        let has_issuance = !(i.asset_issuance.amount.is_null() && i.asset_issuance.inflation_keys.is_null());
        let v = i.previous_output.vout;
        (v < (1 << 30) && !(v == 0x3fff_ffff && i.is_pegin && has_issuance)) || (v == 0xffff_ffff && !i.is_pegin && !has_issuance)
    })
}

// ---- reference encoders for dynafed parameters, block headers and blocks (written from the Elements wire format, independent of the crate's encoder) ----
pub fn ref_params(out: &mut Vec<u8>, p: &elements::dynafed::Params) {
    use elements::dynafed::Params;
    match p {
        Params::Null => out.push(0),
        Params::Compact { signblockscript, signblock_witness_limit, elided_root } => {
            out.push(1); ref_bytes(out, signblockscript.as_bytes()); out.extend_from_slice(&signblock_witness_limit.to_le_bytes()); out.extend_from_slice(&elided_root.to_byte_array());
        }
        Params::Full(_) => {
            out.push(2); ref_bytes(out, p.signblockscript().unwrap().as_bytes()); out.extend_from_slice(&p.signblock_witness_limit().unwrap().to_le_bytes());
            ref_bytes(out, p.fedpeg_program().unwrap().as_bytes()); ref_bytes(out, p.fedpegscript().unwrap()); ref_stack(out, p.extension_space().unwrap());
        }
    }
}
pub fn ref_params_vec(p: &elements::dynafed::Params) -> Vec<u8> { let mut o = Vec::new(); ref_params(&mut o, p); o }
/// `with_witness = false`: the block-hash pre-image (no solution / no signblock witness)
pub fn ref_header(out: &mut Vec<u8>, h: &elements::BlockHeader, with_witness: bool) {
    let dyna = matches!(h.ext, elements::BlockExtData::Dynafed { .. });
    out.extend_from_slice(&(if dyna { h.version | 0x8000_0000 } else { h.version }).to_le_bytes());
    out.extend_from_slice(&h.prev_blockhash.to_byte_array()); out.extend_from_slice(&h.merkle_root.to_byte_array());
    out.extend_from_slice(&h.time.to_le_bytes()); out.extend_from_slice(&h.height.to_le_bytes());
    match &h.ext {
        elements::BlockExtData::Proof { challenge, solution } => { ref_bytes(out, challenge.as_bytes()); if with_witness { ref_bytes(out, solution.as_bytes()); } }
        elements::BlockExtData::Dynafed { current, proposed, signblock_witness } => { ref_params(out, current); ref_params(out, proposed); if with_witness { ref_stack(out, signblock_witness); } }
    }
}
pub fn ref_header_vec(h: &elements::BlockHeader) -> Vec<u8> { let mut o = Vec::new(); ref_header(&mut o, h, true); o }
pub fn ref_block(b: &elements::Block) -> Vec<u8> {
    let mut o = Vec::new(); ref_header(&mut o, &b.header, true); ref_varint(&mut o, b.txdata.len() as u64);
    for t in &b.txdata { o.extend_from_slice(&ref_tx(t)); }
    o
}
